import HG.Lemmas.Trace
import HG.Model.Validate
/-! # C12 — the events of every terminated run form a complete, well-nested span tree

The grammar `Trace ao shape evs` (`HG/Lemmas/Trace.lean`) describes event lists:
`RunTrace ao root parent status` = `RunStart root`, node blocks with pairwise distinct labels,
`RunEnd root status`; a node block (`NodeTrace ao runSpan label`) = `NodeStart sp`, the events of
the nested run / nested map the node launched (their parent is `sp`, their span extends `sp`),
an optional `RouteDecision`, and `NodeEnd sp | NodeError sp`, with `sp = runSpan ++ [label]` and
`label = name ++ "#" ++ superstep`.

`ao = false` is the STRICT grammar (a complete tree: every start has its end). `ao = true`
additionally allows the open pieces the model really produces:
* a map item that pauses emits `RunStart` but never `RunEnd`, and the surrounding run still completes;
* async only: in a superstep where one sibling fails and another (a nested-graph node) pauses, the run
  FAILS (`RunEnd failed`) while the paused sibling's `NodeStart` is never closed.
Both need an interrupt node inside a graph of `prog`; the strict theorems assume there is none. -/
namespace HG.C12
open HG

/-- status as the `RunEnd` event spells it; a paused run has no `RunEnd` -/
example : statusStr .completed = some "completed" ∧ statusStr .failed = some "failed" ∧ statusStr .paused = none :=
  ⟨rfl, rfl, rfl⟩

/-! ## 1 + 2: runs generate traces of the grammar -/

/-- common form: any runner, strict (`ao = false`, needs `NoInterrupts prog`) or open (`ao = true`) grammar -/
theorem trace_wf (ao : Bool) (sem : Sem) (runner : Runner) (prog : Program) (d : Nat)
    (hprog : NamesNodup prog) (hao : ao = false → NoInterrupts prog)
    (gi : Nat) (g : GraphD) (hg : (g.nodes.map (·.name)).Nodup) (values : AL Val) (cfg : RunCfg)
    (span : Span) (parent : Option Span) :
    Trace ao (.run span parent
        (statusStr (runGraph (nestedAt sem runner prog d) sem runner gi g values cfg span parent).status))
      (evsOf (runGraph (nestedAt sem runner prog d) sem runner gi g values cfg span parent).log) := by
  obtain ⟨body, hlog, _, htr, _⟩ :=
    runGraph_trace (nestedAt_ok ao sem runner prog hprog hao d) sem runner gi g hg values cfg span parent
  rw [hlog, evsOf_append, evsOf_shutOf, List.append_nil]
  exact htr

/-
FULL STATEMENT (not proved) — false of the model:
  theorem trace_wf_sync … (no hypothesis on interrupts) :
    (r.status = .completed → RunTrace false span parent "completed" (evsOf r.log)) ∧
    (r.status = .failed → RunTrace false span parent "failed" (evsOf r.log))
A map item that pauses logs `RunStart` without `RunEnd` while the enclosing run completes; see
`counterexample_paused_map_item` below. The two true variants are `trace_wf_sync_partial` (strict
grammar, `NoInterrupts prog`) and `trace_wf_sync_open` (every program, grammar with open pieces).
-/

/-- 1 (strict): sync runs of programs whose nested graphs have no interrupt node -/
theorem trace_wf_sync_partial (sem : Sem) (prog : Program) (d : Nat)
    (hprog : NamesNodup prog) (hni : NoInterrupts prog)
    (gi : Nat) (g : GraphD) (hg : (g.nodes.map (·.name)).Nodup) (values : AL Val) (cfg : RunCfg)
    (span : Span) (parent : Option Span) :
    ((runGraph (nestedAt sem .sync prog d) sem .sync gi g values cfg span parent).status = .completed →
      RunTrace false span parent "completed"
        (evsOf (runGraph (nestedAt sem .sync prog d) sem .sync gi g values cfg span parent).log)) ∧
    ((runGraph (nestedAt sem .sync prog d) sem .sync gi g values cfg span parent).status = .failed →
      RunTrace false span parent "failed"
        (evsOf (runGraph (nestedAt sem .sync prog d) sem .sync gi g values cfg span parent).log)) := by
  have h := trace_wf false sem .sync prog d hprog (fun _ => hni) gi g hg values cfg span parent
  constructor <;> intro hs <;> rw [hs] at h <;> exact h

/-- 1 (every program): sync runs generate traces of the grammar with open pieces; a paused run
generates a `PausedTrace` -/
theorem trace_wf_sync_open (sem : Sem) (prog : Program) (d : Nat) (hprog : NamesNodup prog)
    (gi : Nat) (g : GraphD) (hg : (g.nodes.map (·.name)).Nodup) (values : AL Val) (cfg : RunCfg)
    (span : Span) (parent : Option Span) :
    ((runGraph (nestedAt sem .sync prog d) sem .sync gi g values cfg span parent).status = .completed →
      RunTrace true span parent "completed"
        (evsOf (runGraph (nestedAt sem .sync prog d) sem .sync gi g values cfg span parent).log)) ∧
    ((runGraph (nestedAt sem .sync prog d) sem .sync gi g values cfg span parent).status = .failed →
      RunTrace true span parent "failed"
        (evsOf (runGraph (nestedAt sem .sync prog d) sem .sync gi g values cfg span parent).log)) ∧
    ((runGraph (nestedAt sem .sync prog d) sem .sync gi g values cfg span parent).status = .paused →
      PausedTrace true span parent
        (evsOf (runGraph (nestedAt sem .sync prog d) sem .sync gi g values cfg span parent).log)) := by
  have h := trace_wf true sem .sync prog d hprog (fun h => by cases h) gi g hg values cfg span parent
  refine ⟨?_, ?_, ?_⟩ <;> intro hs <;> rw [hs] at h <;> exact h

/-
FULL STATEMENT (not proved) — false of the model: the same strict statement for `.async order`
without `NoInterrupts prog`; besides paused map items, a failed async run may contain an unclosed
`NodeStart` (a paused sibling of the failing node); see `counterexample_async_unclosed_sibling`.
-/

/-- 2 (strict): async runs, EVERY completion order -/
theorem trace_wf_async_partial (sem : Sem) (order : Nat → List Nat) (prog : Program) (d : Nat)
    (hprog : NamesNodup prog) (hni : NoInterrupts prog)
    (gi : Nat) (g : GraphD) (hg : (g.nodes.map (·.name)).Nodup) (values : AL Val) (cfg : RunCfg)
    (span : Span) (parent : Option Span) :
    ((runGraph (nestedAt sem (.async order) prog d) sem (.async order) gi g values cfg span parent).status = .completed →
      RunTrace false span parent "completed"
        (evsOf (runGraph (nestedAt sem (.async order) prog d) sem (.async order) gi g values cfg span parent).log)) ∧
    ((runGraph (nestedAt sem (.async order) prog d) sem (.async order) gi g values cfg span parent).status = .failed →
      RunTrace false span parent "failed"
        (evsOf (runGraph (nestedAt sem (.async order) prog d) sem (.async order) gi g values cfg span parent).log)) := by
  have h := trace_wf false sem (.async order) prog d hprog (fun _ => hni) gi g hg values cfg span parent
  constructor <;> intro hs <;> rw [hs] at h <;> exact h

/-- 2 (every program): async runs, EVERY completion order, grammar with open pieces -/
theorem trace_wf_async_open (sem : Sem) (order : Nat → List Nat) (prog : Program) (d : Nat)
    (hprog : NamesNodup prog)
    (gi : Nat) (g : GraphD) (hg : (g.nodes.map (·.name)).Nodup) (values : AL Val) (cfg : RunCfg)
    (span : Span) (parent : Option Span) :
    ((runGraph (nestedAt sem (.async order) prog d) sem (.async order) gi g values cfg span parent).status = .completed →
      RunTrace true span parent "completed"
        (evsOf (runGraph (nestedAt sem (.async order) prog d) sem (.async order) gi g values cfg span parent).log)) ∧
    ((runGraph (nestedAt sem (.async order) prog d) sem (.async order) gi g values cfg span parent).status = .failed →
      RunTrace true span parent "failed"
        (evsOf (runGraph (nestedAt sem (.async order) prog d) sem (.async order) gi g values cfg span parent).log)) ∧
    ((runGraph (nestedAt sem (.async order) prog d) sem (.async order) gi g values cfg span parent).status = .paused →
      PausedTrace true span parent
        (evsOf (runGraph (nestedAt sem (.async order) prog d) sem (.async order) gi g values cfg span parent).log)) := by
  have h := trace_wf true sem (.async order) prog d hprog (fun h => by cases h) gi g hg values cfg span parent
  refine ⟨?_, ?_, ?_⟩ <;> intro hs <;> rw [hs] at h <;> exact h

/-! ## 3: the `RunEnd` status is the status the caller observes -/

/-- exact shape of the log of ANY run (every program, runner, depth, configuration — including
`on_missing = error` turning a finished loop into FAILED, and continue mode): `RunStart`, a
shutdown-free middle, then `RunEnd` whose `info` spells the returned status (no `RunEnd` iff the
run paused), then the shutdown iff the run is top-level. -/
theorem log_shape (sem : Sem) (runner : Runner) (prog : Program) (d : Nat)
    (gi : Nat) (g : GraphD) (values : AL Val) (cfg : RunCfg) (span : Span) (parent : Option Span) :
    ∃ mid, (runGraph (nestedAt sem runner prog d) sem runner gi g values cfg span parent).log =
        [runStartEv span parent g ""] ++ mid ++
          endOf span parent g (runGraph (nestedAt sem runner prog d) sem runner gi g values cfg span parent).status ++
          shutOf parent ∧ NoShut mid :=
  runGraph_quiet (nestedAt_quiet sem runner prog d) sem runner gi g values cfg span parent

theorem status_agrees (sem : Sem) (runner : Runner) (prog : Program) (d : Nat)
    (gi : Nat) (g : GraphD) (values : AL Val) (cfg : RunCfg) (span : Span) (parent : Option Span) :
    ((runGraph (nestedAt sem runner prog d) sem runner gi g values cfg span parent).status = .completed →
      ∃ init, evsOf (runGraph (nestedAt sem runner prog d) sem runner gi g values cfg span parent).log =
        init ++ [evRunEnd span parent g.name "completed"]) ∧
    ((runGraph (nestedAt sem runner prog d) sem runner gi g values cfg span parent).status = .failed →
      ∃ init, evsOf (runGraph (nestedAt sem runner prog d) sem runner gi g values cfg span parent).log =
        init ++ [evRunEnd span parent g.name "failed"]) := by
  obtain ⟨mid, hlog, _⟩ := log_shape sem runner prog d gi g values cfg span parent
  constructor <;> intro hs <;> rw [hlog, hs] <;>
    exact ⟨_, by simp only [evsOf_append, evsOf_shutOf, List.append_nil]; rfl⟩

/-- the `on_missing = error` case spelled out: whenever the caller sees FAILED — whatever the
reason — the last event is `RunEnd … failed`, and whenever it sees COMPLETED, `RunEnd … completed` -/
theorem status_agrees_last (sem : Sem) (runner : Runner) (prog : Program) (d : Nat)
    (gi : Nat) (g : GraphD) (values : AL Val) (cfg : RunCfg) (span : Span) (parent : Option Span) (s : String)
    (hs : statusStr (runGraph (nestedAt sem runner prog d) sem runner gi g values cfg span parent).status = some s) :
    (evsOf (runGraph (nestedAt sem runner prog d) sem runner gi g values cfg span parent).log).getLast? =
      some (evRunEnd span parent g.name s) := by
  obtain ⟨h1, h2⟩ := status_agrees sem runner prog d gi g values cfg span parent
  cases hst : (runGraph (nestedAt sem runner prog d) sem runner gi g values cfg span parent).status with
  | completed =>
    rw [hst] at hs; cases hs
    obtain ⟨init, h⟩ := h1 hst
    rw [h]; simp
  | failed =>
    rw [hst] at hs; cases hs
    obtain ⟨init, h⟩ := h2 hst
    rw [h]; simp
  | paused => rw [hst] at hs; cases hs

/-- a paused run emits no `RunEnd` for its own span (every program, runner, depth) -/
theorem paused_has_no_run_end (sem : Sem) (runner : Runner) (prog : Program) (d : Nat) (hprog : NamesNodup prog)
    (gi : Nat) (g : GraphD) (hg : (g.nodes.map (·.name)).Nodup) (values : AL Val) (cfg : RunCfg)
    (span : Span) (parent : Option Span)
    (hp : (runGraph (nestedAt sem runner prog d) sem runner gi g values cfg span parent).status = .paused) :
    ∀ e ∈ evsOf (runGraph (nestedAt sem runner prog d) sem runner gi g values cfg span parent).log,
      e.span = span → e.kind = "RunStart" := by
  have h := trace_wf true sem runner prog d hprog (fun h => by cases h) gi g hg values cfg span parent
  rw [hp] at h
  intro e he hsp
  obtain ⟨nm, ls, body, hE, hb, _⟩ := h.run_none_inv
  rw [hE] at he
  rcases List.mem_cons.1 he with rfl | he
  · rfl
  · obtain ⟨l, _, hl⟩ := hb.scope e he
    exfalso
    have hlen := congrArg List.length hsp
    rcases hl with ⟨nm, k, info, _, rfl⟩ | ⟨hs, _, _⟩ | ⟨⟨y, p, hs⟩, _⟩
    · simp [evRoute] at hlen
    · rw [hs] at hlen; simp at hlen
    · rw [hs] at hlen; simp at hlen

/-! ## 5: shutdown exactly once, at the very end, and only for top-level runs -/

/-- top-level `run`: exactly one `Log.shutdown`, the last entry — for completed, failed AND paused runs -/
theorem shutdown_once (sem : Sem) (runner : Runner) (prog : Program) (root : Nat) (values : AL Val) (cfg : RunCfg) :
    ∃ body, (run sem runner prog root values cfg).log = body ++ [Log.shutdown] ∧ NoShut body := by
  obtain ⟨mid, hlog, hns⟩ := log_shape sem runner prog prog.length root (prog.getD root default) values cfg ["r"] none
  refine ⟨_, hlog, ?_⟩
  exact ((NoShut.ev _).append hns).append (endOf_noShut _ _ _ _)

/-- the same for any run started with `parent = none` -/
theorem shutdown_once_toplevel (sem : Sem) (runner : Runner) (prog : Program) (d : Nat)
    (gi : Nat) (g : GraphD) (values : AL Val) (cfg : RunCfg) (span : Span) :
    ∃ body, (runGraph (nestedAt sem runner prog d) sem runner gi g values cfg span none).log =
      body ++ [Log.shutdown] ∧ NoShut body := by
  obtain ⟨mid, hlog, hns⟩ := log_shape sem runner prog d gi g values cfg span none
  exact ⟨_, hlog, ((NoShut.ev _).append hns).append (endOf_noShut _ _ _ _)⟩

/-- a nested run (`parent = some _`) logs no shutdown of its own -/
theorem nested_no_shutdown (sem : Sem) (runner : Runner) (prog : Program) (d : Nat)
    (gi : Nat) (g : GraphD) (values : AL Val) (cfg : RunCfg) (span p : Span) :
    NoShut (runGraph (nestedAt sem runner prog d) sem runner gi g values cfg span (some p)).log :=
  runGraph_noShut_nested (nestedAt_quiet sem runner prog d) sem runner gi g values cfg span p

/-- top-level `map` with at least one item: exactly one shutdown, at the very end -/
theorem shutdown_once_map (sem : Sem) (runner : Runner) (prog : Program) (root : Nat) (values : AL Val)
    (mapOver : List Name) (mode : MapMode) (errMode : ErrMode) (cfg : RunCfg)
    (v : AL Val) (vs : List (AL Val)) (hgen : generateMapInputs values mapOver mode = .ok (v :: vs)) :
    ∃ body, (map sem runner prog root values mapOver mode errMode cfg).log = body ++ [Log.shutdown] ∧ NoShut body := by
  obtain ⟨lits, s, hlog, hns⟩ := mapGraph_quiet
    (fun v sp => runGraph (nestedAt sem runner prog prog.length) sem runner root (prog.getD root default) v
      { cfg with errMode := .cont } sp (some ["m"])) (isSyncRunner runner) (prog.getD root default) values mapOver
    mode errMode ["m"] none
    (fun v sp => runGraph_noShut_nested (nestedAt_quiet sem runner prog _) sem runner root _ v _ sp _)
    (v :: vs) hgen (by simp)
  exact ⟨_, hlog, ((NoShut.ev _).append hns).append (NoShut.ev _)⟩

/-- RECORDED FINDING: a top-level `map` over zero items is silent — no `RunStart`, no `RunEnd`, and
NO shutdown: the log is empty (and there are no results and nothing is raised) -/
theorem empty_map_silent (sem : Sem) (runner : Runner) (prog : Program) (root : Nat) (values : AL Val)
    (mapOver : List Name) (mode : MapMode) (errMode : ErrMode) (cfg : RunCfg)
    (hgen : generateMapInputs values mapOver mode = .ok []) :
    (map sem runner prog root values mapOver mode errMode cfg).log = [] ∧
    (map sem runner prog root values mapOver mode errMode cfg).results = [] ∧
    (map sem runner prog root values mapOver mode errMode cfg).raised = none := by
  refine ⟨?_, ?_, ?_⟩ <;> simp [map, mapGraph, hgen]

/-! ## 6: the events of a map -/

/-- `mapGraph` with at least one item: `RunStart` (info `"map:n"`, `n` = number of items) first,
`RunEnd` last, and in between the item runs `0, 1, …` in order (`Trace ao (.items span 0)`), each a
run trace whose span is `span ++ [i]` and whose parent is the map span. The hypothesis on
`runItem` is what `trace_wf` provides. -/
theorem map_trace_general (ao : Bool) (runItem : AL Val → Span → RunOut) (isSync : Bool) (g : GraphD)
    (values : AL Val) (mapOver : List Name) (mode : MapMode) (errMode : ErrMode) (span : Span)
    (parent : Option Span)
    (hitem : ∀ (v : AL Val) (i : Nat), ItemOK ao (span ++ [toString i]) span (runItem v (span ++ [toString i])))
    (vars : List (AL Val)) (hgen : generateMapInputs values mapOver mode = .ok vars) (hne : vars ≠ []) :
    ∃ its s, evsOf (mapGraph runItem isSync g values mapOver mode errMode span parent).log =
        evRunStart span parent g.name ("map:" ++ toString vars.length) :: its ++ [evRunEnd span parent g.name s] ∧
      Trace ao (.items span 0) its := by
  obtain ⟨lits, s, hlog, _, htr⟩ := mapGraph_trace runItem isSync g values mapOver mode errMode span parent hitem
    vars hgen hne
  refine ⟨evsOf lits, s, ?_, htr⟩
  rw [hlog]
  simp only [evsOf_append, evsOf_shutOf, List.append_nil]
  rfl

/-- 6: top-level `map` (any runner) with ≥ 1 item -/
theorem map_trace (ao : Bool) (sem : Sem) (runner : Runner) (prog : Program) (hprog : NamesNodup prog)
    (hao : ao = false → NoInterrupts prog) (root : Nat) (values : AL Val)
    (mapOver : List Name) (mode : MapMode) (errMode : ErrMode) (cfg : RunCfg)
    (vars : List (AL Val)) (hgen : generateMapInputs values mapOver mode = .ok vars) (hne : vars ≠ []) :
    ∃ its s, evsOf (map sem runner prog root values mapOver mode errMode cfg).log =
        evRunStart ["m"] none (prog.getD root default).name ("map:" ++ toString vars.length) :: its ++
          [evRunEnd ["m"] none (prog.getD root default).name s] ∧
      Trace ao (.items ["m"] 0) its ∧ Trace ao (.map ["m"] none)
        (evsOf (map sem runner prog root values mapOver mode errMode cfg).log) := by
  have hn := nestedAt_ok ao sem runner prog hprog hao prog.length
  have hg : ((prog.getD root default).nodes.map (·.name)).Nodup := by
    rcases getD_prog prog root with h | h
    · exact hprog _ h
    · rw [h, default_graph_nodes]; exact List.nodup_nil
  have hgi : ao = false → NoIntr (prog.getD root default) := by
    intro h
    rcases getD_prog prog root with h' | h'
    · exact hao h _ h'
    · rw [h']; intro nd hnd; rw [default_graph_nodes] at hnd; cases hnd
  have hitem : ∀ (v : AL Val) (i : Nat), ItemOK ao (["m"] ++ [toString i]) ["m"]
      (runGraph (nestedAt sem runner prog prog.length) sem runner root (prog.getD root default) v
        { cfg with errMode := .cont } (["m"] ++ [toString i]) (some ["m"])) := by
    intro v i
    obtain ⟨body, hlog, hns, htr, _⟩ := runGraph_trace hn sem runner root _ hg v { cfg with errMode := .cont }
      (["m"] ++ [toString i]) (some ["m"])
    simp only [shutOf_some, List.append_nil] at hlog
    refine ⟨hlog ▸ hns, hlog ▸ htr, ?_⟩
    intro hp
    cases ao with
    | true => rfl
    | false => exact absurd hp (runGraph_nopause hn (hn.noPause rfl) sem runner root _ (hgi rfl) _ _ _ _)
  obtain ⟨its, s, hevs, htr⟩ := map_trace_general ao
    (fun v sp => runGraph (nestedAt sem runner prog prog.length) sem runner root (prog.getD root default) v
      { cfg with errMode := .cont } sp (some ["m"])) (isSyncRunner runner) (prog.getD root default) values mapOver
    mode errMode ["m"] none hitem vars hgen hne
  refine ⟨its, s, hevs, htr, ?_⟩
  show Trace ao (.map ["m"] none) (evsOf (mapGraph _ _ _ _ _ _ _ _ _).log)
  rw [hevs]
  exact Trace.mapMk htr

/-- 6, items spelled out: the part between the map's `RunStart` and `RunEnd` is the concatenation of
the item runs; the `j`-th one is a run trace with span `["m", j]` whose parent is the map span -/
theorem map_items_split (ao : Bool) (sem : Sem) (runner : Runner) (prog : Program) (hprog : NamesNodup prog)
    (hao : ao = false → NoInterrupts prog) (root : Nat) (values : AL Val)
    (mapOver : List Name) (mode : MapMode) (errMode : ErrMode) (cfg : RunCfg)
    (vars : List (AL Val)) (hgen : generateMapInputs values mapOver mode = .ok vars) (hne : vars ≠ []) :
    ∃ (chunks : List (List Ev)) (s : String),
      evsOf (map sem runner prog root values mapOver mode errMode cfg).log =
        evRunStart ["m"] none (prog.getD root default).name ("map:" ++ toString vars.length) :: chunks.flatten ++
          [evRunEnd ["m"] none (prog.getD root default).name s] ∧
      ∀ j (hj : j < chunks.length), ∃ st, Trace ao (.run (["m"] ++ [toString j]) (some ["m"]) st) chunks[j] ∧
        (st = none → ao = true) := by
  obtain ⟨its, s, hevs, htr, _⟩ := map_trace ao sem runner prog hprog hao root values mapOver mode errMode cfg
    vars hgen hne
  obtain ⟨chunks, hE, hc⟩ := htr.items_split
  refine ⟨chunks, s, by rw [hevs, hE], ?_⟩
  intro j hj
  obtain ⟨st, h1, h2⟩ := hc j hj
  rw [Nat.zero_add] at h1
  exact ⟨st, h1, h2⟩

/-! ## the grammar implies (a)–(e) on the flat event list -/

/-- `grammar_wellnested`: every trace of the STRICT grammar satisfies (a)–(e) as stated on flat
lists (`WellNested`, `HG/Lemmas/Trace.lean`). The side condition on `parent` (the span of the
caller, outside the list) holds for every run the model starts: `none`, a node span that the run
span extends, or the map span that an item span extends. -/
theorem grammar_wellnested {root : Span} {parent : Option Span} {status : String} {evs : List Ev}
    (h : RunTrace false root parent status evs) (hpar : ∀ p, parent = some p → p.length ≤ root.length) :
    WellNested root parent status evs :=
  grammar_wellnested_aux h hpar

/-
FULL STATEMENT (not proved) — false of the model: in (b), "no OTHER event has that span". A gate
`x` and a node literally named `x!route` executed at the same superstep give a `RouteDecision` and a
`NodeStart` with the same span `…/x!route#k` (see the `progCollide` example at the end). What holds
is: no other NON-ROUTE event has that span.
-/

/-- (b)+(c) read positionally: a `NodeStart` is followed, later, by exactly one closing event with
its span; no other (non-route) event carries that span; every event parented to the node lies
strictly between the two -/
theorem node_block_closed {root : Span} {parent : Option Span} {status : String} {evs : List Ev}
    (h : WellNested root parent status evs) (s : Ev) (hs : s ∈ evs) (hk : s.kind = "NodeStart") :
    ∃ A B c C, evs = A ++ s :: B ++ c :: C ∧ c.span = s.span ∧ (c.kind = "NodeEnd" ∨ c.kind = "NodeError") ∧
      (∀ x ∈ A ++ B ++ C, x.kind ≠ "RouteDecision" → x.span ≠ s.span) ∧
      (∀ x ∈ A ++ C, x.kind ≠ "RouteDecision" → x.parent ≠ some s.span) := by
  obtain ⟨A, B, c, C, hE, hcs, hcl, h1, h2⟩ := (h.openers s hs (Or.inl hk)).positions
  refine ⟨A, B, c, C, hE, hcs, ?_, h1, h2⟩
  rcases hcl with ⟨_, h⟩ | ⟨h, _⟩
  · exact h
  · rw [hk] at h; exact absurd h (by decide)

/-- (a) read positionally, for the root run and every nested run / map / map item: exactly one
`RunStart` and one `RunEnd` per run span, the `RunEnd` later, the run's direct children in between -/
theorem run_block_closed {root : Span} {parent : Option Span} {status : String} {evs : List Ev}
    (h : WellNested root parent status evs) (s : Ev) (hs : s ∈ evs) (hk : s.kind = "RunStart") :
    ∃ A B c C, evs = A ++ s :: B ++ c :: C ∧ c.span = s.span ∧ c.kind = "RunEnd" ∧
      (∀ x ∈ A ++ B ++ C, x.kind ≠ "RouteDecision" → x.span ≠ s.span) ∧
      (∀ x ∈ A ++ C, x.kind ≠ "RouteDecision" → x.parent ≠ some s.span) := by
  obtain ⟨A, B, c, C, hE, hcs, hcl, h1, h2⟩ := (h.openers s hs (Or.inr hk)).positions
  refine ⟨A, B, c, C, hE, hcs, ?_, h1, h2⟩
  rcases hcl with ⟨h, _⟩ | ⟨_, h⟩
  · rw [hk] at h; exact absurd h (by decide)
  · exact h

/-- (d) read positionally -/
theorem nested_run_parented {root : Span} {parent : Option Span} {status : String} {evs : List Ev}
    (h : WellNested root parent status evs) (r : Ev) (hr : r ∈ evs) (hk : r.kind = "RunStart") :
    (r.span = root ∧ r.parent = parent) ∨
    ∃ o c A B C D, isOpener o ∧ r.parent = some o.span ∧ isCloseOf o c ∧ c.span = o.span ∧
      evs = A ++ o :: B ++ r :: C ++ c :: D :=
  h.parent_open r hr hk

/-- (e) read positionally: `NodeStart n#k … RouteDecision n!route#k … NodeEnd n#k`, parent = run span -/
theorem route_between {root : Span} {parent : Option Span} {status : String} {evs : List Ev}
    (h : WellNested root parent status evs) (r : Ev) (hr : r ∈ evs) (hk : r.kind = "RouteDecision") :
    ∃ rs k A B C D, r.parent = some rs ∧ r.span = rs ++ [r.name ++ "!route#" ++ toString k] ∧
      evs = A ++ evNodeStart (rs ++ [lab r.name k]) rs r.name :: B ++ r :: C ++
        evNodeEnd (rs ++ [lab r.name k]) rs r.name :: D :=
  (h.routes r hr hk).positions

/-- 1+2 combined with `grammar_wellnested`: the events of every terminated top-level `run`
(sync, or async with any completion order) are well nested -/
theorem run_wellnested (sem : Sem) (runner : Runner) (prog : Program) (hprog : NamesNodup prog)
    (hni : NoInterrupts prog) (root : Nat) (values : AL Val) (cfg : RunCfg) (s : String)
    (hs : statusStr (run sem runner prog root values cfg).status = some s) :
    WellNested ["r"] none s (evsOf (run sem runner prog root values cfg).log) := by
  have hg : ((prog.getD root default).nodes.map (·.name)).Nodup := by
    rcases getD_prog prog root with h | h
    · exact hprog _ h
    · rw [h, default_graph_nodes]; exact List.nodup_nil
  have h := trace_wf false sem runner prog prog.length hprog (fun _ => hni) root (prog.getD root default) hg values cfg
    ["r"] none
  have hs' : statusStr (runGraph (nestedAt sem runner prog prog.length) sem runner root (prog.getD root default)
      values cfg ["r"] none).status = some s := hs
  rw [hs'] at h
  exact grammar_wellnested h (fun p hp => by cases hp)

/-! ## 4: interleaving sibling node blocks -/

/-- `wf_interleave`: take the node blocks of one superstep (`NodeTrace` blocks of the run `root`
with pairwise disjoint span sets) and interleave them ARBITRARILY (each block keeps its internal
order). Then (b), (c) — and (a) for the nested runs inside the blocks — and (e) still hold of the
interleaved list. (`Interleave.flatten`: the concatenation the model logs is one such interleaving.) -/
theorem wf_interleave (root : Span) (bls : List (String × List Ev))
    (hb : ∀ x ∈ bls, NodeTrace false root x.1 x.2)
    (hdisj : bls.Pairwise (fun x y => ∀ e ∈ x.2, ∀ e' ∈ y.2, e.span ≠ e'.span))
    (r : List Ev) (hr : Interleave (bls.map (·.2)) r) :
    (∀ s ∈ r, s.kind = "NodeStart" → SpanClosed r s) ∧
    (∀ s ∈ r, s.kind = "RunStart" → SpanClosed r s) ∧
    (∀ d ∈ r, d.kind = "RouteDecision" → RouteOK r d) := by
  have hpw : bls.Pairwise (fun x y => x.1 ≠ y.1) := by
    refine hdisj.imp_of_mem ?_
    intro x y hx hy hxy heq
    obtain ⟨e, he, hes⟩ := node_has_start (hb x hx)
    obtain ⟨e', he', hes'⟩ := node_has_start (hb y hy)
    exact hxy e he e' he' (by rw [hes, hes', heq])
  have h := interleave_flat root bls hb hpw r hr
  exact ⟨fun s hs hk => h.1 s hs (Or.inl hk), fun s hs hk => h.1 s hs (Or.inr hk), h.2⟩

/-! ## non-vacuity -/

/-- the hypotheses hold of the example programs -/
example : NamesNodup C12Ex.progDag ∧ NoInterrupts C12Ex.progDag ∧ NamesNodup C12Ex.progNest ∧
    NoInterrupts C12Ex.progNest ∧ NamesNodup C12Ex.progFail ∧ NoInterrupts C12Ex.progFail ∧
    NamesNodup C12Ex.progGate ∧ NoInterrupts C12Ex.progGate := by
  unfold NamesNodup NoInterrupts NoIntr
  decide

/-- a two-node DAG: the computed log, and its derivation in the strict grammar -/
example : C12Ex.render (evsOf (run bodySem .sync C12Ex.progDag 0 [("x", .int 1)] {}).log) =
    [("RunStart", "r", "-"), ("NodeStart", "r/a#0", "r"), ("NodeEnd", "r/a#0", "r"),
     ("NodeStart", "r/b#1", "r"), ("NodeEnd", "r/b#1", "r"), ("RunEnd:completed", "r", "-")] := by decide

example : RunTrace false ["r"] none "completed"
    (evsOf (run bodySem .sync C12Ex.progDag 0 [("x", .int 1)] {}).log) := by
  have h : evsOf (run bodySem .sync C12Ex.progDag 0 [("x", .int 1)] {}).log =
      evRunStart ["r"] none "g" "" ::
        ((evNodeStart (["r"] ++ [lab "a" 0]) ["r"] "a" :: [] ++ [] ++ [evNodeEnd (["r"] ++ [lab "a" 0]) ["r"] "a"]) ++
         ((evNodeStart (["r"] ++ [lab "b" 1]) ["r"] "b" :: [] ++ [] ++ [evNodeEnd (["r"] ++ [lab "b" 1]) ["r"] "b"]) ++
          [])) ++ [evRunEnd ["r"] none "g" "completed"] := by decide
  rw [h]
  exact .runC (.bcons (.nodeEnd .kidsNil (Or.inl rfl)) (.bcons (.nodeEnd .kidsNil (Or.inl rfl)) .bnil)) (by decide)

/-- the same through the theorems (sync and an async order), and its flat consequences -/
example : WellNested ["r"] none "completed" (evsOf (run bodySem .sync C12Ex.progDag 0 [("x", .int 1)] {}).log) ∧
    WellNested ["r"] none "completed"
      (evsOf (run bodySem (.async fun _ => [0]) C12Ex.progDag 0 [("x", .int 1)] {}).log) := by
  have h1 : NamesNodup C12Ex.progDag := by unfold NamesNodup; decide
  have h2 : NoInterrupts C12Ex.progDag := by unfold NoInterrupts NoIntr; decide
  exact ⟨run_wellnested bodySem .sync _ h1 h2 0 _ _ _ (by decide),
    run_wellnested bodySem (.async fun _ => [0]) _ h1 h2 0 _ _ _ (by decide)⟩

/-- a graph with a nested-graph node -/
example : C12Ex.render (evsOf (run bodySem .sync C12Ex.progNest 1 [("x", .int 1)] {}).log) =
    [("RunStart", "r", "-"), ("NodeStart", "r/sub#0", "r"),
     ("RunStart", "r/sub#0/run", "r/sub#0"), ("NodeStart", "r/sub#0/run/a#0", "r/sub#0/run"),
     ("NodeEnd", "r/sub#0/run/a#0", "r/sub#0/run"), ("RunEnd:completed", "r/sub#0/run", "r/sub#0"),
     ("NodeEnd", "r/sub#0", "r"), ("RunEnd:completed", "r", "-")] := by decide

example : RunTrace false ["r"] none "completed"
    (evsOf (run bodySem .sync C12Ex.progNest 1 [("x", .int 1)] {}).log) := by
  have h : evsOf (run bodySem .sync C12Ex.progNest 1 [("x", .int 1)] {}).log =
      evRunStart ["r"] none "outer" "" ::
        ((evNodeStart (["r"] ++ [lab "sub" 0]) ["r"] "sub" ::
            (evRunStart (["r"] ++ [lab "sub" 0] ++ ["run"]) (some (["r"] ++ [lab "sub" 0])) "inner" "" ::
              ((evNodeStart (["r"] ++ [lab "sub" 0] ++ ["run"] ++ [lab "a" 0]) (["r"] ++ [lab "sub" 0] ++ ["run"]) "a" ::
                  [] ++ [] ++ [evNodeEnd (["r"] ++ [lab "sub" 0] ++ ["run"] ++ [lab "a" 0])
                    (["r"] ++ [lab "sub" 0] ++ ["run"]) "a"]) ++ []) ++
              [evRunEnd (["r"] ++ [lab "sub" 0] ++ ["run"]) (some (["r"] ++ [lab "sub" 0])) "inner" "completed"]) ++
            [] ++ [evNodeEnd (["r"] ++ [lab "sub" 0]) ["r"] "sub"]) ++ []) ++
        [evRunEnd ["r"] none "outer" "completed"] := by decide
  rw [h]
  exact .runC (.bcons (.nodeEnd (.kidsRun (.runC (.bcons (.nodeEnd .kidsNil (Or.inl rfl)) .bnil) (by decide)))
    (Or.inl rfl)) .bnil) (by decide)

/-- a failing node (inside the nested graph): `NodeError` closes both nodes, both runs end `failed`,
and the caller sees FAILED -/
example : (run bodySem .sync C12Ex.progNest 1 [("x", .int 7)] {}).status = .failed ∧
    C12Ex.render (evsOf (run bodySem .sync C12Ex.progNest 1 [("x", .int 7)] {}).log) =
    [("RunStart", "r", "-"), ("NodeStart", "r/sub#0", "r"),
     ("RunStart", "r/sub#0/run", "r/sub#0"), ("NodeStart", "r/sub#0/run/a#0", "r/sub#0/run"),
     ("NodeError", "r/sub#0/run/a#0", "r/sub#0/run"), ("RunEnd:failed", "r/sub#0/run", "r/sub#0"),
     ("NodeError", "r/sub#0", "r"), ("RunEnd:failed", "r", "-")] := by decide

example : WellNested ["r"] none "failed" (evsOf (run bodySem .sync C12Ex.progNest 1 [("x", .int 7)] {}).log) := by
  have h1 : NamesNodup C12Ex.progNest := by unfold NamesNodup; decide
  have h2 : NoInterrupts C12Ex.progNest := by unfold NoInterrupts NoIntr; decide
  exact run_wellnested bodySem .sync _ h1 h2 1 _ _ _ (by decide)

/-- a failing node in a flat graph, strict grammar -/
example : RunTrace false ["r"] none "failed"
    (evsOf (run bodySem .sync C12Ex.progFail 0 [("x", .int 1)] {}).log) := by
  have h : evsOf (run bodySem .sync C12Ex.progFail 0 [("x", .int 1)] {}).log =
      evRunStart ["r"] none "g" "" ::
        ((evNodeStart (["r"] ++ [lab "a" 0]) ["r"] "a" :: [] ++ [] ++ [evNodeEnd (["r"] ++ [lab "a" 0]) ["r"] "a"]) ++
         ((evNodeStart (["r"] ++ [lab "b" 1]) ["r"] "b" :: [] ++ [evNodeError (["r"] ++ [lab "b" 1]) ["r"] "b"]) ++
          [])) ++ [evRunEnd ["r"] none "g" "failed"] := by decide
  rw [h]
  exact .runC (.bcons (.nodeEnd .kidsNil (Or.inl rfl)) (.bcons (.nodeErr .kidsNil) .bnil)) (by decide)

/-- a gate: the route decision sits between the gate's `NodeStart` and `NodeEnd` -/
example : C12Ex.render (evsOf (run bodySem .sync C12Ex.progGate 0 [("x", .int 1)] {}).log) =
    [("RunStart", "r", "-"), ("NodeStart", "r/gt#0", "r"), ("RouteDecision:c", "r/gt!route#0", "r"),
     ("NodeEnd", "r/gt#0", "r"), ("NodeStart", "r/c#1", "r"), ("NodeEnd", "r/c#1", "r"),
     ("RunEnd:completed", "r", "-")] := by decide

example : RoutesOK (evsOf (run bodySem .sync C12Ex.progGate 0 [("x", .int 1)] {}).log) := by
  have h1 : NamesNodup C12Ex.progGate := by unfold NamesNodup; decide
  have h2 : NoInterrupts C12Ex.progGate := by unfold NoInterrupts NoIntr; decide
  exact (run_wellnested bodySem .sync _ h1 h2 0 [("x", .int 1)] {} "completed" (by decide)).routes

/-- status: `on_missing = error` turns a finished loop into FAILED, and the `RunEnd` says so -/
example : (run bodySem .sync C12Ex.progDag 0 [("x", .int 1)] { select := .names ["nope"], onMissing := .error }).status
      = .failed ∧
    (evsOf (run bodySem .sync C12Ex.progDag 0 [("x", .int 1)]
      { select := .names ["nope"], onMissing := .error }).log).getLast? =
      some (evRunEnd ["r"] none "g" "failed") := by decide

/-- shutdown: one, at the end (completed / failed / paused); a map over two items; an empty map -/
example : (run bodySem .sync C12Ex.progDag 0 [("x", .int 1)] {}).log.length = 9 ∧
    (match (run bodySem .sync C12Ex.progDag 0 [("x", .int 1)] {}).log.getLast? with
      | some .shutdown => true | _ => false) = true ∧
    (run bodySem .sync C12Ex.progPausedItem 0 [("x", .int 1)] {}).status = .paused ∧
    (match (run bodySem .sync C12Ex.progPausedItem 0 [("x", .int 1)] {}).log.getLast? with
      | some .shutdown => true | _ => false) = true ∧
    C12Ex.render (evsOf (run bodySem .sync C12Ex.progPausedItem 0 [("x", .int 1)] {}).log) =
      [("RunStart", "r", "-"), ("NodeStart", "r/ask#0", "r"), ("NodeError", "r/ask#0", "r")] := by decide

example : C12Ex.render (evsOf (map bodySem .sync C12Ex.progDag 0 [("x", Val.mkLst [.int 1, .int 2])] ["x"] .zip
      .raise {}).log) =
    [("RunStart:map:2", "m", "-"),
     ("RunStart", "m/0", "m"), ("NodeStart", "m/0/a#0", "m/0"), ("NodeEnd", "m/0/a#0", "m/0"),
     ("NodeStart", "m/0/b#1", "m/0"), ("NodeEnd", "m/0/b#1", "m/0"), ("RunEnd:completed", "m/0", "m"),
     ("RunStart", "m/1", "m"), ("NodeStart", "m/1/a#0", "m/1"), ("NodeEnd", "m/1/a#0", "m/1"),
     ("NodeStart", "m/1/b#1", "m/1"), ("NodeEnd", "m/1/b#1", "m/1"), ("RunEnd:completed", "m/1", "m"),
     ("RunEnd:completed", "m", "-")] := by decide

example : generateMapInputs [("x", Val.mkLst [])] ["x"] .zip = .ok [] ∧
    (map bodySem .sync C12Ex.progDag 0 [("x", Val.mkLst [])] ["x"] .zip .raise {}).log.length = 0 :=
  ⟨rfl, by decide⟩

/-- interleaving two sibling blocks: `a` and `b` overlap in time -/
example : SpanClosed
    [evNodeStart (["r"] ++ [lab "a" 0]) ["r"] "a", evNodeStart (["r"] ++ [lab "b" 0]) ["r"] "b",
     evNodeEnd (["r"] ++ [lab "a" 0]) ["r"] "a", evNodeEnd (["r"] ++ [lab "b" 0]) ["r"] "b"]
    (evNodeStart (["r"] ++ [lab "a" 0]) ["r"] "a") := by
  have hA : NodeTrace false ["r"] (lab "a" 0)
      [evNodeStart (["r"] ++ [lab "a" 0]) ["r"] "a", evNodeEnd (["r"] ++ [lab "a" 0]) ["r"] "a"] :=
    Trace.nodeEnd (cs := []) (rt := []) .kidsNil (Or.inl rfl)
  have hB : NodeTrace false ["r"] (lab "b" 0)
      [evNodeStart (["r"] ++ [lab "b" 0]) ["r"] "b", evNodeEnd (["r"] ++ [lab "b" 0]) ["r"] "b"] :=
    Trace.nodeEnd (cs := []) (rt := []) .kidsNil (Or.inl rfl)
  refine (wf_interleave ["r"]
    [(lab "a" 0, [evNodeStart (["r"] ++ [lab "a" 0]) ["r"] "a", evNodeEnd (["r"] ++ [lab "a" 0]) ["r"] "a"]),
     (lab "b" 0, [evNodeStart (["r"] ++ [lab "b" 0]) ["r"] "b", evNodeEnd (["r"] ++ [lab "b" 0]) ["r"] "b"])]
    ?_ (by decide) _ ?_).1 _ List.mem_cons_self rfl
  · intro x hx
    simp only [List.mem_cons, List.not_mem_nil, or_false] at hx
    rcases hx with rfl | rfl
    · exact hA
    · exact hB
  · exact .cons (.cons .nil (Shuffle.of_nil_right _)) (.left _ (.right _ (.left _ (.right _ .nil))))

/-! ## counterexamples to the FULL (hypothesis-free, strict) statements -/

/-- a paused map item: the surrounding SYNC run completes, yet the item's `RunStart` (span `…/map/0`)
is never followed by a `RunEnd` — three `RunStart`s, two `RunEnd`s -/
example : (run bodySem .sync C12Ex.progPausedItem 1 [("xs", Val.mkLst [.int 1])] {}).status = .completed ∧
    C12Ex.render (evsOf (run bodySem .sync C12Ex.progPausedItem 1 [("xs", Val.mkLst [.int 1])] {}).log) =
    [("RunStart", "r", "-"), ("NodeStart", "r/m#0", "r"),
     ("RunStart:map:1", "r/m#0/map", "r/m#0"),
     ("RunStart", "r/m#0/map/0", "r/m#0/map"),
     ("NodeStart", "r/m#0/map/0/ask#0", "r/m#0/map/0"), ("NodeError", "r/m#0/map/0/ask#0", "r/m#0/map/0"),
     ("RunEnd:completed", "r/m#0/map", "r/m#0"),
     ("NodeEnd", "r/m#0", "r"), ("RunEnd:completed", "r", "-")] := by decide

/-- async: `f` fails and its sibling `sub` (a nested graph) pauses in the same superstep: the run
FAILS with `RunEnd failed`, but `NodeStart r/sub#0`, the nested `RunStart` and the nested
`NodeStart` are never closed -/
example : (run bodySem (.async fun _ => []) C12Ex.progSibling 1 [("x", .int 1)] {}).status = .failed ∧
    C12Ex.render (evsOf (run bodySem (.async fun _ => []) C12Ex.progSibling 1 [("x", .int 1)] {}).log) =
    [("RunStart", "r", "-"), ("NodeStart", "r/f#0", "r"), ("NodeError", "r/f#0", "r"),
     ("NodeStart", "r/sub#0", "r"), ("RunStart", "r/sub#0/run", "r/sub#0"),
     ("NodeStart", "r/sub#0/run/ask#0", "r/sub#0/run"), ("RunEnd:failed", "r", "-")] := by decide

/-- the sync runner stops at `f`: the same program gives a complete tree -/
example : C12Ex.render (evsOf (run bodySem .sync C12Ex.progSibling 1 [("x", .int 1)] {}).log) =
    [("RunStart", "r", "-"), ("NodeStart", "r/f#0", "r"), ("NodeError", "r/f#0", "r"),
     ("RunEnd:failed", "r", "-")] := by decide

/-- span ids are NOT unique across kinds: the route decision of gate `x` and the node named
`x!route` share the span `r/x!route#0` (this is why (b) says "no other non-route event") -/
example : C12Ex.render (evsOf (run bodySem .sync C12Ex.progCollide 0 [("v", .int 1)] {}).log) =
    [("RunStart", "r", "-"), ("NodeStart", "r/x#0", "r"), ("RouteDecision:END", "r/x!route#0", "r"),
     ("NodeEnd", "r/x#0", "r"), ("NodeStart", "r/x!route#0", "r"), ("NodeEnd", "r/x!route#0", "r"),
     ("RunEnd:completed", "r", "-")] := by decide

/-! ## rejected `map` calls emit nothing (fixes 2299be1, 1fcc5cf, b2c6023)

`MapChecked.rejected` carries no `MapOut`: no result, no log — hence no event, no shutdown, no node call. What remains to state is WHEN a
call is rejected, and that an accepted call is exactly the map. -/

/-- each of the four checks rejects, in the order the code applies them -/
theorem map_rejects_no_slot (sem : Sem) (runner : Runner) (prog : Program) (root : Nat) (values : AL Val)
    (mo : List Name) (mode : MapMode) (em : ErrMode) (cfg : RunCfg) (k : Int) (ep : Option Name) (hk : k < 1) :
    mapChecked sem runner prog root values mo mode em cfg (some k) ep = .rejected (.valueError "max_concurrency") := by
  have : limitOk (some k) = false := by simp [limitOk]; omega
  simp [mapChecked, this]

theorem map_rejects_absent_map_over (sem : Sem) (runner : Runner) (prog : Program) (root : Nat) (values : AL Val)
    (mo : List Name) (mode : MapMode) (em : ErrMode) (cfg : RunCfg) (k : Option Int) (ep : Option Name)
    (hk : limitOk k = true) (habs : absentMapOver values mo ≠ []) :
    mapChecked sem runner prog root values mo mode em cfg k ep = .rejected (.missingInput (absentMapOver values mo)) := by
  have : (absentMapOver values mo).isEmpty = false := by
    cases h : absentMapOver values mo with
    | nil => exact absurd h habs
    | cons _ _ => rfl
  simp [mapChecked, hk, this]

theorem map_rejects_unknown_select (sem : Sem) (runner : Runner) (prog : Program) (root : Nat) (values : AL Val)
    (mo : List Name) (mode : MapMode) (em : ErrMode) (cfg : RunCfg) (k : Option Int) (ep : Option Name) (e : VErr)
    (hk : limitOk k = true) (habs : absentMapOver values mo = [])
    (hsel : resolveRuntimeSelected (prog.getD root default) cfg.select = .error e) :
    mapChecked sem runner prog root values mo mode em cfg k ep = .rejected e := by
  simp only [List.getD_eq_getElem?_getD] at hsel
  simp [mapChecked, hk, habs, hsel]

theorem map_rejects_missing_input (sem : Sem) (runner : Runner) (prog : Program) (root : Nat) (values : AL Val)
    (mo : List Name) (mode : MapMode) (em : ErrMode) (cfg : RunCfg) (k : Option Int) (ep : Option Name)
    (selected : Option (List Name)) (l : List Name)
    (hk : limitOk k = true) (habs : absentMapOver values mo = [])
    (hsel : resolveRuntimeSelected (prog.getD root default) cfg.select = .ok selected)
    (hval : validateInputs (prog.getD root default) (itemValues values mo) ep selected .warn = .error (.missingInput l)) :
    mapChecked sem runner prog root values mo mode em cfg k ep = .rejected (.missingInput l) := by
  simp only [List.getD_eq_getElem?_getD] at hsel hval
  simp [mapChecked, hk, habs, hsel, hval]

/-- an accepted call IS the map: whatever `mapChecked` ran is `map` on the same arguments (so every span-tree theorem about `map`
applies), and a call is either rejected or run — never both, never partly -/
theorem map_accepted_is_map (sem : Sem) (runner : Runner) (prog : Program) (root : Nat) (values : AL Val)
    (mo : List Name) (mode : MapMode) (em : ErrMode) (cfg : RunCfg) (k : Option Int) (ep : Option Name) (out : MapOut)
    (h : mapChecked sem runner prog root values mo mode em cfg k ep = .ran out) :
    out = map sem runner prog root values mo mode em cfg ∧ limitOk k = true ∧ absentMapOver values mo = [] := by
  unfold mapChecked at h
  by_cases hk : limitOk k = true
  · by_cases habs : (absentMapOver values mo).isEmpty = true
    · simp only [hk, habs, Bool.not_true, Bool.false_eq_true, if_false] at h
      have habs' : absentMapOver values mo = [] := by simpa using habs
      refine ⟨?_, hk, habs'⟩
      split at h
      · cases h
      · split at h
        · cases h
        · injection h with h; exact h.symm
    · simp [hk, habs] at h
  · simp [hk] at h

/-- non-vacuity on the two-node DAG `a(x) → b(y)`: each rejection arises, and a well-formed call runs -/
example (sem : Sem) : mapChecked sem .sync C12Ex.progDag 0 [("x", Val.mkLst [.int 1, .int 2])] ["x"] .zip .raise {} (some 0) .none
    = .rejected (.valueError "max_concurrency") := map_rejects_no_slot _ _ _ _ _ _ _ _ _ _ _ (by decide)
example (sem : Sem) : mapChecked sem .sync C12Ex.progDag 0 [("x", Val.mkLst [.int 1])] ["x", "w"] .zip .raise {} (some 2) .none
    = .rejected (.missingInput ["w"]) := map_rejects_absent_map_over _ _ _ _ _ _ _ _ _ _ _ (by decide) (by decide)
example (sem : Sem) : mapChecked sem .sync C12Ex.progDag 0 [("x", Val.mkLst [.int 1])] ["x"] .zip .raise { select := .names ["nope"] } .none .none
    = .rejected (.configError "select") := map_rejects_unknown_select _ _ _ _ _ _ _ _ _ _ _ _ (by decide) (by decide) (by rfl)
example (sem : Sem) : mapChecked sem .sync C12Ex.progDag 0 [("q", Val.mkLst [.int 1])] ["q"] .zip .raise {} .none .none
    = .rejected (.missingInput ["x"]) := map_rejects_missing_input _ _ _ _ _ _ _ _ _ _ _ .none _ (by decide) (by decide) (by rfl) (by rfl)
example : ∃ out, mapChecked bodySem .sync C12Ex.progDag 0 [("x", Val.mkLst [.int 1, .int 2])] ["x"] .zip .raise {} (some 1) .none = .ran out ∧
    out.results.length = 2 := ⟨_, rfl, by decide⟩

end HG.C12
