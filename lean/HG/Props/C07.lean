import HG.Lemmas.Heap
/-! # C07 — derivation operations never change the object they are called on

Model: `HG.Model.Heap` (explicit heap; every `Graph` / `HyperNode` derivation method mirrored as a
heap transformer, including what `copy.copy` SHARES).  `observe h r` is the public, reference-free
observation of the object at `r` (cache slots ignored).  `Inv h` = all stored references are
allocated ∧ graph→node / node→inner-graph references point to older objects ∧ every filled cache
slot equals the digest of the object's current observation.  `Inv` holds of the initial heap
(`inv_initial`) and is preserved by every operation (`cache_coherent`), so every hypothesis `Inv h`
below is discharged for all reachable heaps (`*_reachable`). -/
namespace HG.C07
open HG.Heap

/-- the invariant holds initially -/
theorem inv_initial (nodes : List (Name × List Name × List Name)) : Inv (initHeap nodes).1 :=
  initHeap_inv nodes

/-! ## 1. fresh -/

/-- Every derivation operation applied to a receiver of the right kind
(`op.derives h`: excludes only the cache reads) returns a reference that
was NOT allocated before, and only APPENDS to the heap: every old cell is unchanged modulo its
cache slots.  No invariant is needed. -/
theorem fresh (h : Heap) (op : Op) (hd : op.derives h = true) :
    h.objs.length ≤ (op.run h).2 ∧ (op.run h).2 < (op.run h).1.objs.length ∧
    ∀ r : Nat, r < h.objs.length →
      ((op.run h).1.objs[r]?).map Obj.erase = (h.objs[r]?).map Obj.erase :=
  ⟨(Op.run_good hd).fresh.1, (Op.run_good hd).fresh.2, (Op.run_good hd).ext.2⟩

/-- the degenerate call `add_nodes()` with no nodes is a plain copy of the receiver (after repair
`fix: add_nodes() without nodes returns a copy`; before it, the receiver itself came back) -/
theorem fresh_addNodes_nil (h : Heap) (g : Ref) (hg : isGraph h g = true) :
    (Op.addNodes g []).run h = shallowCopy h g := by
  obtain ⟨ns, b, s, e, ci, ch, hg⟩ := isGraph_iff.mp hg
  simp [Op.run, addNodes, hg]

/-- every operation whatsoever (also a read, also on an ill-typed receiver) only appends modulo
cache slots -/
theorem only_appends (h : Heap) (op : Op) :
    h.objs.length ≤ (op.run h).1.objs.length ∧
    ∀ r : Nat, r < h.objs.length →
      ((op.run h).1.objs[r]?).map Obj.erase = (h.objs[r]?).map Obj.erase :=
  Op.run_ext h op

/-! ## 2. frame -/

/-- FRAME: no operation changes the public observation of any object allocated before it. -/
theorem frame {h : Heap} (hI : Inv h) (op : Op) {r : Ref} (hr : r < h.objs.length) :
    observe (op.run h).1 r = observe h r :=
  frame_ext hI.closed (Op.run_ext h op) hr

/-- FRAME for every sequence of operations and cache reads -/
theorem frame_seq {h : Heap} (hI : Inv h) (ops : List Op) {r : Ref} (hr : r < h.objs.length) :
    observe (runOps h ops) r = observe h r :=
  frame_ext hI.closed (runOps_ext h ops) hr

/-- … in particular for every heap reachable from an initial graph -/
theorem frame_reachable (nodes : List (Name × List Name × List Name)) (before after : List Op)
    {r : Ref} (hr : r < (runOps (initHeap nodes).1 before).objs.length) :
    observe (runOps (runOps (initHeap nodes).1 before) after) r =
      observe (runOps (initHeap nodes).1 before) r :=
  frame_seq (runOps_inv (initHeap_inv nodes) before) after hr

/-- FRAME at the level of the executable cross-check: in the output of `replay`, the observation of
result `i` is the same in every row from the one where it first appears. -/
theorem replay_stable (nodes : List (Name × List Name × List Name)) (ops : List OpSpec) :
    ∀ row, row ∈ replay nodes ops → ∀ i, i < (replayInit nodes).length →
      row[i]? = (replayInit nodes)[i]? := by
  intro row hrow i hi
  obtain ⟨hI, hpos, hres⟩ := initHeap_spec nodes
  simp only [replay, replayInit] at *
  have := replayFrom_stable hI _ hres hpos ops row hrow i (by simpa using hi)
  exact this

/-! ## 3. cache_coherent -/

/-- the invariant (in particular cache coherence) is preserved by every operation and every read -/
theorem cache_coherent {h : Heap} (hI : Inv h) (op : Op) : Inv (op.run h).1 := Op.run_inv hI op
theorem cache_coherent_seq {h : Heap} (hI : Inv h) (ops : List Op) : Inv (runOps h ops) :=
  runOps_inv hI ops

/-- Spelled out for every reachable heap: a filled `inputs` cache equals the digest of the graph's
CURRENT observation; a filled `_cached_hash` equals the digest of its current skeleton; a filled
node `defaults` cache equals the digest of the node's current observation. -/
theorem cache_slots_valid (nodes : List (Name × List Name × List Name)) (ops : List Op) (r : Nat) :
    (∀ ns b s e ci ch, (runOps (initHeap nodes).1 ops).objs[r]? = some (.graph ns b s e ci ch) →
      (∀ d, ci = some d → d = .inputs (observe (runOps (initHeap nodes).1 ops) r)) ∧
      (∀ d, ch = some d → d = .hash (observe (runOps (initHeap nodes).1 ops) r).skel)) ∧
    (∀ nm i o hi mo cl inn cd,
      (runOps (initHeap nodes).1 ops).objs[r]? = some (.node nm i o hi mo cl inn cd) →
      ∀ d, cd = some d → d = .defaults (observe (runOps (initHeap nodes).1 ops) r)) := by
  have hI := runOps_inv (initHeap_inv nodes) ops
  exact ⟨fun ns b s e ci ch hg => hI.coh r _ hg, fun nm i o hi mo cl inn cd hn => (hI.coh r _ hn).2⟩

/-- a read returns the digest of the current observation (whether it was cached or computed), and
reading does not change that observation -/
theorem read_inputs_current {h : Heap} (hI : Inv h) (g : Ref) :
    (readInputs h g).2 = .inputs (observe (readInputs h g).1 g) ∧
    observe (readInputs h g).1 g = observe h g :=
  ⟨cachedInputs_eq (readInputsH_inv hI g) g, observe_sameMod (readInputsH_sameMod h g) g⟩
theorem read_hash_current {h : Heap} (hI : Inv h) (g : Ref) :
    (readHash h g).2 = .hash (observe (readHash h g).1 g).skel ∧
    observe (readHash h g).1 g = observe h g :=
  ⟨cachedHash_eq (readHashH_inv hI g) g, observe_sameMod (readHashH_sameMod h g) g⟩

/-- What a `_shallow_copy`-based operation (`bind`, `unbind`, `select`, `with_entrypoint`) does to
the caches.  The copy shares the receiver's node list; its `inputs` cache slot is EMPTY (never
inherits a possibly stale `inputs`: `__dict__.pop("inputs")`); its `_cached_hash` slot is the
receiver's (copied by `copy.copy`) — and is VALID for the copy, because the definition-hash digest
of the copy equals the receiver's (it depends on the shared nodes only, not on bindings, selection
or entry points). -/
theorem copy_drops_inputs_keeps_hash {h : Heap} (hI : Inv h) (op : Op)
    (hcopy : op.isGraphCopy = true) (hd : op.derives h = true) :
    ∃ ns b s e ci ch b' s' e',
      (op.run h).1.objs[op.recv]? = some (.graph ns b s e ci ch) ∧
      (op.run h).1.objs[(op.run h).2]? = some (.graph ns b' s' e' .none ch) ∧
      summHash (op.run h).1 (op.run h).2 = summHash (op.run h).1 op.recv :=
  graphCopy_spec hI op hcopy hd

/-! ## 4. siblings_independent -/

/-- Two objects `a`, `b` derived from a common ancestor by arbitrary operation chains
(`derive`: each operation is applied to the result of the previous one) do not influence one
another: deriving further from one (any chain) leaves the observation of the other — and of the
ancestor, and of the object derived from — unchanged. -/
theorem siblings_independent {h : Heap} (hI : Inv h) {anc : Ref} (hanc : anc < h.objs.length)
    (ops1 ops2 more : List Op) :
    let A := derive h anc ops1
    let B := derive A.1 anc ops2
    -- derive further from `a` …
    (observe (derive B.1 A.2 more).1 B.2 = observe B.1 B.2 ∧
     observe (derive B.1 A.2 more).1 A.2 = observe A.1 A.2 ∧
     observe (derive B.1 A.2 more).1 anc = observe h anc) ∧
    -- … or from `b`
    (observe (derive B.1 B.2 more).1 A.2 = observe A.1 A.2 ∧
     observe (derive B.1 B.2 more).1 B.2 = observe B.1 B.2 ∧
     observe (derive B.1 B.2 more).1 anc = observe h anc) := by
  intro A B
  have hIA : Inv A.1 := derive_inv hI anc ops1
  have hIB : Inv B.1 := derive_inv hIA anc ops2
  have hA : A.2 < A.1.objs.length := derive_ref_lt hanc ops1
  have hAB : Ext A.1 B.1 := derive_ext A.1 anc ops2
  have hhA : Ext h A.1 := derive_ext h anc ops1
  have hancA : anc < A.1.objs.length := Nat.lt_of_lt_of_le hanc hhA.1
  have hB : B.2 < B.1.objs.length := derive_ref_lt hancA ops2
  have hA' : A.2 < B.1.objs.length := Nat.lt_of_lt_of_le hA hAB.1
  have hancB : anc < B.1.objs.length := Nat.lt_of_lt_of_le hancA hAB.1
  have e1 : observe B.1 A.2 = observe A.1 A.2 := frame_ext hIA.closed hAB hA
  have e2 : observe B.1 anc = observe h anc := by
    rw [frame_ext hIA.closed hAB hancA, frame_ext hI.closed hhA hanc]
  refine ⟨⟨?_, ?_, ?_⟩, ⟨?_, ?_, ?_⟩⟩
  · exact frame_ext hIB.closed (derive_ext _ _ _) hB
  · rw [frame_ext hIB.closed (derive_ext _ _ _) hA', e1]
  · rw [frame_ext hIB.closed (derive_ext _ _ _) hancB, e2]
  · rw [frame_ext hIB.closed (derive_ext _ _ _) hA', e1]
  · exact frame_ext hIB.closed (derive_ext _ _ _) hB
  · rw [frame_ext hIB.closed (derive_ext _ _ _) hancB, e2]

/-! ## 5. aliasing_witness -/

/-- With `bindAliasing` (a `bind` that updates the dict the receiver still points to — the classic
bug) the frame theorem is FALSE: on a heap satisfying the invariant, the receiver's own observation
changes.  So the model can exhibit the bug, and `frame` is a real constraint on the operations. -/
theorem aliasing_witness :
    ∃ (h : Heap) (g : Ref) (kvs : AL Val),
      Inv h ∧ g < h.objs.length ∧ observe (bindAliasing h g kvs).1 g ≠ observe h g :=
  ⟨(initHeap [("f", ["x"], ["y"])]).1, 3, [("x", .int 1)], initHeap_inv _, by decide, by decide⟩

/-- the same call with the real `bind`: receiver unchanged, the result carries the binding -/
example :
    let h := (initHeap [("f", ["x"], ["y"])]).1
    observe (bind h 3 [("x", .int 1)]).1 3 = observe h 3 ∧
    observe (bind h 3 [("x", .int 1)]).1 (bind h 3 [("x", .int 1)]).2 ≠ observe h 3 := by decide

/-! ## non-vacuity -/

/-- `derives` is satisfiable for every kind of operation on a reachable heap, and a long mixed
history produces only well-formed observations (no dangling reference) -/
example :
    let nodes : List (Name × List Name × List Name) := [("f", ["x"], ["y"]), ("g", ["y", "z"], ["w"])]
    let ops : List OpSpec :=
      [.bind 2 "z" (.int 3), .asNode 3 "sub", .mapOver 4 ["x"], .withInputs 5 [("x", "xs")],
       .withName 0 "ff", .readInputs 2, .select 3 ["w"], .addNode 7 6, .withEntrypoint 8 ["g"],
       .unbind 9 "z", .withOutputs 1 [("w", "v")], .readHash 10]
    ((replay nodes ops).all fun row => row.all Obs.ok) = true ∧
    (replay nodes ops).length = 12 := by decide

/-- the receiver of `bind` had its `inputs` cache FILLED by the call (reading a cached property
writes the receiver) while its observation is unchanged; the copy's slot is empty -/
example :
    let h := (initHeap [("f", ["x"], ["y"])]).1
    let r := bind h 3 [("x", .int 1)]
    h.objs[3]? = some (.graph [1] 2 none none none none) ∧
    r.1.objs[3]? = some (.graph [1] 2 none none (some (summInputs h 3)) none) ∧
    r.1.objs[r.2]? = some (.graph [1] 6 none none none none) := by decide

/-- a rename appends to the CLONE's history list only: the original node's history stays empty -/
example :
    let h := (initHeap [("f", ["x"], ["y"])]).1
    let r := withInputs h 1 [("x", "q")]
    observe r.1 1 = .node "f" ["x"] ["y"] (.hist []) .none .none .none ∧
    observe r.1 r.2 = .node "f" ["q"] ["y"] (.hist [⟨"inputs", "x", "q", 0⟩]) .none .none .none := by
  decide

end HG.C07
