import HG.Lemmas.Sem
/-! # C15 — `max_concurrency` bounds all function-node executions globally and never deadlocks

Model: `HG.Model.Sem` (task tree + one shared semaphore; only leaves take permits; inner nodes
await their children without holding one).  All statements are for every `k`, every shape (any
depth, any fan-out) and every scheduler (`Reachable` / arbitrary transition lists).

SCOPE (TRUSTED, established by the correspondence check via `Sem.replay` on recorded traces, not
by these theorems): that a real `AsyncRunner.run/map(max_concurrency=k)` call unfolds to SOME task
tree in which (a) the only permit takers are `AsyncFunctionNodeExecutor` calls, (b) every nested
run / map item reuses the same semaphore through the `_concurrency_limiter` ContextVar, (c) no
coroutine awaits children while inside `async with semaphore`.  Known finding kept out of the
claim: async *interrupt handlers* and gate functions run outside the permit (they are not leaves). -/
namespace HG.C15
open HG.Sem

/-! ## shapes used by the non-vacuity examples -/

/-- superstep 1: `f`, a graph node (two inner supersteps: `{g,h}` then `{i}`), `j`; superstep 2: `m` -/
def sh1 : Shape := .seq [.par [.leaf, .seq [.par [.leaf, .leaf], .par [.leaf]], .leaf], .par [.leaf]]
/-- a graph node whose inner run has one superstep with one function node -/
def shNest : Shape := .par [.seq [.par [.leaf]]]

example : sh1.leaves = 6 := rfl
example : (init 2 sh1).tree.statuses = [.pending, .pending, .pending, .pending, .pending, .pending] := rfl

/-! ## 1. at most `k` function bodies in flight -/

/-- invariant `holding + free = k` in every reachable state, hence `holding ≤ k`: at no instant are
more than `k` function bodies executing, counted across all nesting levels and map items -/
theorem inflight_le_k (k : Nat) (sh : Shape) (s : State) (h : Reachable k sh s) :
    s.holding + s.free = k ∧ s.holding ≤ k := by
  have := (reachable_inv h).1
  exact ⟨this, by omega⟩

/-- the same for every prefix of every schedule -/
theorem inflight_le_k_run (k : Nat) (sh : Shape) (trs : List Tr) (s : State)
    (h : run (init k sh) trs = some s) : s.holding + s.free = k ∧ s.holding ≤ k :=
  inflight_le_k k sh s (reachable_run .init h)

/-- non-vacuity: the bound is attained (two leaves of different nesting levels in flight, `k = 2`),
and a third acquire is then refused although leaf 4 is startable -/
example : ∃ s, run (init 2 sh1) [.acquire 0, .acquire 2] = some s ∧ s.holding = 2 ∧ s.free = 0 ∧
    step s (.acquire 4) = none ∧ (s.tree.acq 4).isSome = true :=
  ⟨_, rfl, by decide, by decide, by decide, by decide⟩
example : ∃ s, Reachable 2 sh1 s ∧ s.holding = 2 :=
  ⟨_, reachable_run (trs := [.acquire 0, .acquire 2]) .init rfl, by decide⟩

/-! ## 2. no deadlock -/

/-- every reachable state in which not all leaves are done has an enabled transition: a holding leaf
can finish; otherwise `free = k ≥ 1` and some pending leaf is startable (`T.exists_startable`) -/
theorem no_deadlock (k : Nat) (hk : 1 ≤ k) (sh : Shape) (s : State) (h : Reachable k sh s)
    (hnf : s.final = false) : ∃ tr, enabled s tr = true := by
  obtain ⟨tr, s', hs⟩ := progress (by rw [(reachable_inv h).1]; exact hk) hnf
  exact ⟨tr, by simp [enabled, hs]⟩

/-- non-vacuity: a non-final reachable state of the nested shape at `k = 1` -/
example : ∃ tr, enabled (init 1 shNest) tr = true :=
  no_deadlock 1 (Nat.le_refl 1) shNest _ .init (by decide)
/-- `k ≥ 1` is needed: with `k = 0` the initial state is already stuck (Python: `Semaphore(0)`,
`max_concurrency=0` is not validated and hangs) -/
example : (init 0 shNest).final = false ∧ enabledList (init 0 shNest) = [] := by decide

/-! ## 3. termination under every scheduler -/

/-- the measure `2 * pending + holding` drops by exactly one along every transition -/
theorem measure_decreases (s s' : State) (tr : Tr) (h : step s tr = some s') :
    s'.measure + 1 = s.measure ∧ s'.measure < s.measure := by
  have := step_measure h
  exact ⟨this, by omega⟩

/-- every schedule has length `≤ 2 * leaves` -/
theorem schedule_length_le (k : Nat) (sh : Shape) (trs : List Tr) (s : State)
    (h : run (init k sh) trs = some s) : trs.length + s.measure = 2 * sh.leaves := by
  have hm := run_measure h
  obtain ⟨hp, hh, _, _⟩ := init_counts k sh
  simp only [State.measure] at hm ⊢
  omega

/-- every maximal schedule ends with all leaves done, after exactly `2 * leaves` transitions -/
theorem maximal_schedule_done (k : Nat) (hk : 1 ≤ k) (sh : Shape) (trs : List Tr) (s : State)
    (h : Maximal (init k sh) trs s) : s.final = true ∧ trs.length = 2 * sh.leaves := by
  have hr : Reachable k sh s := reachable_run .init h.1
  have hf : s.final = true := by
    cases hfin : s.final with
    | true => rfl
    | false =>
      obtain ⟨tr, hen⟩ := no_deadlock k hk sh s hr hfin
      simp [enabled, h.2 tr] at hen
  have := schedule_length_le k sh trs s h.1
  have := (final_iff_measure s).1 hf
  exact ⟨hf, by omega⟩

/-- `terminates`: the measure strictly decreases, so every schedule has length `≤ 2 * leaves`;
every maximal schedule ends with all leaves done; and from every reachable state some schedule
finishes the run (no starvation under any scheduler: whatever was scheduled so far, the rest
can — and, schedules being finite, eventually must — complete) -/
theorem terminates (k : Nat) (hk : 1 ≤ k) (sh : Shape) :
    (∀ s tr s', step s tr = some s' → s'.measure < s.measure) ∧
    (∀ trs s, run (init k sh) trs = some s → trs.length ≤ 2 * sh.leaves) ∧
    (∀ trs s, Maximal (init k sh) trs s → s.final = true ∧ trs.length = 2 * sh.leaves) ∧
    (∀ s, Reachable k sh s → ∃ trs s', run s trs = some s' ∧ s'.final = true) := by
  refine ⟨fun s tr s' h => (measure_decreases s s' tr h).2, ?_, ?_, ?_⟩
  · intro trs s h
    have := schedule_length_le k sh trs s h
    omega
  · exact fun trs s h => maximal_schedule_done k hk sh trs s h
  · exact fun s h => exists_completion hk _ rfl h

/-- non-vacuity: a complete schedule of `sh1` at `k = 2` (12 = 2 * 6 transitions) is maximal -/
def sched1 : List Tr :=
  [.acquire 0, .acquire 1, .finish 0, .acquire 2, .finish 2, .finish 1, .acquire 3, .acquire 4,
   .finish 4, .finish 3, .acquire 5, .finish 5]
example : ∃ s, run (init 2 sh1) sched1 = some s ∧ s = finalState 2 sh1 ∧ enabledList s = [] := by decide
example : ∃ s, Maximal (init 2 sh1) sched1 s :=
  ⟨finalState 2 sh1, by decide, (enabledList_nil_iff _).1 (by decide)⟩
/-- stage order is enforced: leaf 3 (second inner superstep) cannot start before leaves 1, 2 are done,
leaf 5 (second outer superstep) not before the whole first superstep -/
example : step (init 2 sh1) (.acquire 3) = none ∧ step (init 2 sh1) (.acquire 5) = none := by decide

/-! ## 4. the result does not depend on `k` or on the schedule -/

/-- a reachable state with all leaves done is THE final state -/
theorem final_state_unique (k : Nat) (sh : Shape) (s : State) (h : Reachable k sh s)
    (hf : s.final = true) : s = finalState k sh := final_unique h hf

/-- for every two limits and every two maximal schedules the final trees coincide (all leaves done);
together with `terminates` (such schedules exist and all maximal ones are complete) -/
theorem result_indep_of_k (k₁ k₂ : Nat) (h₁ : 1 ≤ k₁) (h₂ : 1 ≤ k₂) (sh : Shape)
    (trs₁ trs₂ : List Tr) (s₁ s₂ : State)
    (m₁ : Maximal (init k₁ sh) trs₁ s₁) (m₂ : Maximal (init k₂ sh) trs₂ s₂) :
    s₁.tree = s₂.tree ∧ s₁.tree = sh.toT.mark .done ∧ trs₁.length = trs₂.length := by
  obtain ⟨f₁, l₁⟩ := maximal_schedule_done k₁ h₁ sh trs₁ s₁ m₁
  obtain ⟨f₂, l₂⟩ := maximal_schedule_done k₂ h₂ sh trs₂ s₂ m₂
  have e₁ := final_unique (reachable_run .init m₁.1) f₁
  have e₂ := final_unique (reachable_run .init m₂.1) f₂
  subst e₁ e₂
  exact ⟨rfl, rfl, by omega⟩

/-- non-vacuity: fully serial schedule at `k = 1` and the overlapping one at `k = 2` -/
def sched1serial : List Tr :=
  [.acquire 2, .finish 2, .acquire 0, .finish 0, .acquire 1, .finish 1, .acquire 4, .finish 4,
   .acquire 3, .finish 3, .acquire 5, .finish 5]
example : (run (init 1 sh1) sched1serial).map (·.tree) = (run (init 2 sh1) sched1).map (·.tree) := by
  decide

/-! ## 5. the classic mistake deadlocks -/

/-- variant semantics `stepHold` (inner nodes hold a permit while their children run), `k = 1`,
a graph node around one function node: after the outermost node took the only permit, a reachable
non-final state with NO enabled transition -/
theorem hold_while_await_deadlocks :
    ∃ s : HState, ReachableHold 1 (.par [.seq [.par [.leaf]]]) s ∧ s.tree.allDone = false ∧
      ∀ tr, stepHold s tr = none :=
  ⟨⟨.task .holding (.par (.task .pending (.seq (.task .pending (.par (.leaf .pending) .skip)) .skip)) .skip), 0⟩,
    reachableHold_run (trs := [.acquire 0]) .init (by decide), by decide,
    stepHold_none_of_enabledHoldList_nil (by decide)⟩

/-- the same with only the GRAPH NODE being a permit holder (superstep-level `async with semaphore`
around every node execution): the graph node holds the only permit, its inner leaf waits forever -/
example : ∃ s : HState,
    ReachableHoldFrom ⟨.par (.task .pending (.seq (.par (.leaf .pending) .skip) .skip)) .skip, 1⟩ s ∧
      s.tree.allDone = false ∧ ∀ tr, stepHold s tr = none :=
  ⟨⟨.par (.task .holding (.seq (.par (.leaf .pending) .skip) .skip)) .skip, 0⟩,
    reachableHold_run (trs := [.acquire 0]) .init (by decide), by decide,
    stepHold_none_of_enabledHoldList_nil (by decide)⟩
/-- with `k` permits, nesting depth `k` is enough: `k = 2` and three nested inner nodes -/
example : ∃ s, runHold (initHold 2 shNest) [.acquire 0, .acquire 1] = some s ∧
    s.tree.allDone = false ∧ enabledHoldList s = [] := by decide
/-- contrast: the real semantics (leaf-level permits) finishes the same shape at `k = 1` -/
example : run (init 1 shNest) [.acquire 0, .finish 0] = some (finalState 1 shNest) := by decide
/-- the variant is not vacuous: with enough permits it does finish -/
example : ∃ s, runHold (initHold 4 shNest)
    [.acquire 0, .acquire 1, .acquire 2, .acquire 3, .finish 3, .finish 2, .finish 1, .finish 0] = some s ∧
    s.tree.allDone = true := by decide

/-! ## 6. the `map` worker pool -/

/-- `min(k, n)` workers, one item each at a time: never more than `k` (nor `n`) items in flight,
and no item is lost or duplicated (`queued + in flight + finished = n`) -/
theorem worker_pool_bound (k n : Nat) (p : Pool) (h : Pool.Reachable k n p) :
    p.inflight ≤ k ∧ p.inflight ≤ n ∧ p.queue.length + p.inflight + p.finished.length = n := by
  obtain ⟨hw, hc⟩ := Pool.reachable_inv h
  have hle : p.inflight ≤ p.workers.length := List.countP_le_length
  rw [hw] at hle
  exact ⟨Nat.le_trans hle (Nat.min_le_left k n), Nat.le_trans hle (Nat.min_le_right k n), hc⟩

/-- non-vacuity: 5 items, `k = 2`: both workers busy, then worker 0 completes and pulls item 2 -/
example : ∃ p, Pool.Reachable 2 5 p ∧ p.inflight = 2 ∧ p.queue = [3, 4] ∧ p.finished = [0] :=
  ⟨⟨[3, 4], [.busy 2, .busy 1], [0]⟩,
    Pool.reachable_run (trs := [.pull 0, .pull 1, .complete 0, .pull 0]) .init (by decide),
    by decide, rfl, rfl⟩
/-- a third pull is impossible while both workers are busy -/
example : (Pool.mk [2, 3, 4] [.busy 0, .busy 1] []).step (.pull 2) = none := by decide
/-- `max_concurrency = 0` is not validated by the Python: zero workers, nothing ever runs -/
example : (Pool.init 0 5).workers = [] := rfl

/-! ## the trace checker used by the correspondence harness -/

/-- whatever the trace, the reported maximum over its accepted prefix is `≤ k`; so a real trace
with more than `k` bodies in flight is necessarily REJECTED (`ok = false`) by `Sem.replay` -/
theorem replay_max_le (k : Nat) (sh : Shape) (evs : List (Bool × Nat)) : (replay k sh evs).2 ≤ k :=
  replayFrom_max evs _ 0 0 .init (Nat.zero_le k)

/-- `replay` accepts exactly the schedules of the model -/
theorem replay_ok_iff (k : Nat) (sh : Shape) (evs : List (Bool × Nat)) :
    (replay k sh evs).1 = true ↔ (run (init k sh) (evs.map evToTr)).isSome = true := by
  show (replayFrom (init k sh) 0 0 evs).ok = true ↔ _
  rw [replayFrom_ok]

example : replay 2 sh1 [(true, 0), (true, 1), (false, 0), (true, 2), (false, 2), (false, 1)] = (true, 2) := by
  decide
/-- three bodies in flight under `k = 2` is rejected at the third start -/
example : (replayDetail 2 sh1 [(true, 0), (true, 1), (true, 2)]).badIndex = some 2 := by decide
/-- starting a later stage early is rejected -/
example : replay 2 sh1 [(true, 3)] = (false, 0) := by decide

end HG.C15
