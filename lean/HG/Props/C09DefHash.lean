import HG.Lemmas.DefHash
/-! # C09 — the definition hash: its input determines exactly the fields it is supposed to cover

`hash_definition(func)` is `sha256(repr(description))` (`/repo/src/hypergraph/_utils.py`).  The model
(`HG/Model/DefHash.lean`) is of the hash INPUT: `hashInput f = enc (describe f)`, with `enc` the
abstraction of Python's `repr` on nested tuples of `str` / `bytes` / `None`.

Main statement (`hashInput_eq_iff`): two functions have the same hash input **iff** they agree on
`visible` — the source text (or, without source, the whole code object including every nested code
object), `repr(__defaults__)`, `repr(__kwdefaults__)` and the list of captured values, cell by cell.

TRUSTED, outside the statement: SHA-256 collision resistance, and that Python's `repr` is injective on
nested tuples of `str` / `bytes` / `None` (what `enc` abstracts).

The three earlier variants of the hash input are refuted by closed witnesses
(`v1_collides_witness`, `v2_collides_witness`, `v3_collides_witness`): each of them gives two
functions with different `visible` fields the same input, the current one separates them. -/
namespace HG.C09
open HG.DefHash

/-! ## 1. the encoding is injective -/

/-- the token encoding (Python's `repr` of a nested tuple) determines the description -/
theorem enc_injective {d₁ d₂ : Desc} (h : enc d₁ = enc d₂) : d₁ = d₂ := enc_inj h

/-- the encoding of a tuple is what the model file says: `(`, the items' encodings, `)` -/
theorem enc_tup_eq (l : List Desc) : enc (.tup l) = Tok.lpar :: (l.flatMap enc ++ [Tok.rpar]) := enc_tup l

/-! ## 2. the description covers exactly the visible fields -/

/-- equal descriptions ⇒ equal visible fields: nothing the hash is supposed to cover is dropped -/
theorem describe_injective {f g : FnDef} (h : describe f = describe g) : visible f = visible g := by
  obtain ⟨fs, fc, fd, fk, fcells⟩ := f
  obtain ⟨gs, gc, gd, gk, gcells⟩ := g
  cases fs <;> cases gs <;>
    simp only [describe, bindingDesc, Desc.tup.injEq, List.cons.injEq, Desc.atom.injEq, and_true, true_and] at h
  · obtain ⟨hc, hb⟩ := h
    obtain ⟨h₁, h₂, h₃⟩ := bindingOf_inj hb
    simp [visible, codeDesc_inj _ _ hc, h₁, h₂, h₃]
  · exact absurd h.1 (by decide)
  · exact absurd h.1 (by decide)
  · obtain ⟨hs, hb⟩ := h
    obtain ⟨h₁, h₂, h₃⟩ := bindingOf_inj hb
    simp [visible, hs, h₁, h₂, h₃]

/-- equal visible fields ⇒ equal descriptions: the hash depends on nothing else (with source
available, not on the code object) -/
theorem describe_congr {f g : FnDef} (h : visible f = visible g) : describe f = describe g := by
  obtain ⟨fs, fc, fd, fk, fcells⟩ := f
  obtain ⟨gs, gc, gd, gk, gcells⟩ := g
  cases fs <;> cases gs <;> simp_all [visible, describe, bindingDesc]

/-- equal hash input ⇔ equal visible fields -/
theorem hashInput_eq_iff {f g : FnDef} : hashInput f = hashInput g ↔ visible f = visible g :=
  ⟨fun h => describe_injective (enc_injective h), fun h => by rw [hashInput, hashInput, describe_congr h]⟩

/-- the executable comparison used by the driver decides exactly that -/
theorem sameHash_iff {f g : FnDef} : sameHash f g = true ↔ visible f = visible g := by
  rw [sameHash, beq_iff_eq, hashInput_eq_iff]

/-! ## 3. consequences, spelled out -/

/-- (V1 repaired) one source text, different captured values — e.g. two functions made by one
factory — have different hash inputs -/
theorem hash_separates_cells {f g : FnDef} {s : String} (_hf : f.source = some s) (_hg : g.source = some s)
    (hc : f.cells ≠ g.cells) : hashInput f ≠ hashInput g :=
  fun h => hc (congrArg Visible.cells (hashInput_eq_iff.1 h))

/-- different `repr(__defaults__)` ⇒ different hash inputs (with or without source) -/
theorem hash_separates_defaults {f g : FnDef} (hd : f.defaults ≠ g.defaults) : hashInput f ≠ hashInput g :=
  fun h => hd (congrArg Visible.defaults (hashInput_eq_iff.1 h))

/-- different `repr(__kwdefaults__)` ⇒ different hash inputs (with or without source) -/
theorem hash_separates_kwdefaults {f g : FnDef} (hd : f.kwdefaults ≠ g.kwdefaults) :
    hashInput f ≠ hashInput g :=
  fun h => hd (congrArg Visible.kwdefaults (hashInput_eq_iff.1 h))

/-- (V2 repaired) without source, two code objects that differ ONLY inside one nested code object
of the same name (a lambda, an inner function, a comprehension) have different hash inputs -/
theorem hash_separates_nested_code {f g : FnDef} {b : String} {n v : List String} {pre post : List Const}
    {name : String} {c₁ c₂ : Code} (hf : f.source = none) (hg : g.source = none)
    (hfc : f.code = .mk b n v (pre ++ .code name c₁ :: post))
    (hgc : g.code = .mk b n v (pre ++ .code name c₂ :: post))
    (hne : c₁ ≠ c₂) : hashInput f ≠ hashInput g := by
  intro h
  have hv := congrArg Visible.body (hashInput_eq_iff.1 h)
  simp only [visible, hf, hg, hfc, hgc, Sum.inr.injEq, Code.mk.injEq, true_and,
    List.append_cancel_left_eq, List.cons.injEq, Const.code.injEq, and_true] at hv
  exact hne hv

/-- (V3 repaired) the captured values are separate items: the same concatenation split differently
gives different hash inputs -/
theorem hash_separates_cell_boundaries {f g : FnDef} (hc : f.cells ≠ g.cells) : hashInput f ≠ hashInput g :=
  fun h => hc (congrArg Visible.cells (hashInput_eq_iff.1 h))

/-! ## 4. the earlier variants collide (closed witnesses) -/

/-- a lambda body `lambda x: x + K` as a code object whose only constant is `k` -/
def dhLam (k : String) : Code := .mk "LOAD x; LOAD_CONST 0; ADD; RET" [] ["x"] [.val k]

/-- `def make(k): def inner(x): return x + k; return inner` — `inner` from `make(1)` -/
def dhW1a : FnDef :=
  { source := some "def inner(x):\n    return x + k\n", code := .mk "LOAD x; LOAD_DEREF k; ADD; RET" [] ["x"] [],
    defaults := "None", kwdefaults := "None", cells := [some "1"] }
/-- … and `inner` from `make(2)`: same text, same code, another captured value -/
def dhW1b : FnDef := { dhW1a with cells := [some "2"] }

/-- exec-defined `def f(xs): return map(lambda x: x + 1, xs)` … -/
def dhW2a : FnDef :=
  { source := none, code := .mk "LOAD map; MAKE_FUNCTION 0; LOAD xs; CALL; RET" ["map"] ["xs"] [.code "<lambda>" (dhLam "1")],
    defaults := "None", kwdefaults := "None", cells := [] }
/-- … and `def f(xs): return map(lambda x: x + 2, xs)`: they differ only inside the lambda's constants -/
def dhW2b : FnDef :=
  { dhW2a with code := .mk "LOAD map; MAKE_FUNCTION 0; LOAD xs; CALL; RET" ["map"] ["xs"] [.code "<lambda>" (dhLam "2")] }

/-- a closure over two values whose reprs are `1` and `23` … -/
def dhW3a : FnDef :=
  { source := some "def inner(x):\n    return x + a + b\n", code := .mk "…" [] ["x"] [],
    defaults := "None", kwdefaults := "None", cells := [some "1", some "23"] }
/-- … and the same closure over `12` and `3` -/
def dhW3b : FnDef := { dhW3a with cells := [some "12", some "3"] }

/-- V1 (source text only) gives the two closures of one factory the same input; they differ in a
visible field and the current input separates them -/
theorem v1_collides_witness :
    describeV1 dhW1a = describeV1 dhW1b ∧ hashInputV1 dhW1a = hashInputV1 dhW1b ∧
    visible dhW1a ≠ visible dhW1b ∧ hashInput dhW1a ≠ hashInput dhW1b := by decide

/-- V2 (nested code object ↦ its name) gives two definitions that differ only inside a lambda the
same input; the current input separates them -/
theorem v2_collides_witness :
    describeV2 dhW2a = describeV2 dhW2b ∧ hashInputV2 dhW2a = hashInputV2 dhW2b ∧
    visible dhW2a ≠ visible dhW2b ∧ hashInput dhW2a ≠ hashInput dhW2b := by decide

/-- V3 (captured reprs concatenated) gives captured `("1", "23")` and `("12", "3")` the same input;
the current input separates them -/
theorem v3_collides_witness :
    describeV3 dhW3a = describeV3 dhW3b ∧ hashInputV3 dhW3a = hashInputV3 dhW3b ∧
    visible dhW3a ≠ visible dhW3b ∧ hashInput dhW3a ≠ hashInput dhW3b := by decide

/-! ## 5. non-vacuity -/

/-- `enc_injective` / `describe_injective`: equal inputs do occur between DIFFERENT function objects
— with source available the code object is not looked at -/
example : dhW1a ≠ { dhW1a with code := dhLam "7" } ∧ hashInput dhW1a = hashInput { dhW1a with code := dhLam "7" } := by decide

example : visible dhW1a = visible { dhW1a with code := dhLam "7" } := by decide

/-- `describe_congr` / `hashInput_eq_iff` / `sameHash_iff` used in both directions on closed terms -/
example : sameHash dhW1a { dhW1a with code := dhLam "7" } = true ∧ sameHash dhW1a dhW1b = false := by decide

example : hashInput dhW1a ≠ hashInput dhW1b :=
  hash_separates_cells (s := "def inner(x):\n    return x + k\n") rfl rfl (by decide)

example : hashInput dhW1a ≠ hashInput { dhW1a with defaults := "(3,)" } :=
  hash_separates_defaults (by decide)

example : hashInput dhW1a ≠ hashInput { dhW1a with kwdefaults := "{'k': 3}" } :=
  hash_separates_kwdefaults (by decide)

example : hashInput dhW2a ≠ hashInput dhW2b :=
  hash_separates_nested_code (pre := []) (post := []) (name := "<lambda>") (c₁ := dhLam "1") (c₂ := dhLam "2")
    rfl rfl rfl rfl (by decide)

example : hashInput dhW3a ≠ hashInput dhW3b := hash_separates_cell_boundaries (by decide)

/-- an empty cell is told apart from every captured value, also from one whose repr is the text V3 used -/
example : hashInput { dhW1a with cells := [none] } ≠ hashInput { dhW1a with cells := [some "<empty_cell>"] } ∧
    hashInputV3 { dhW1a with cells := [none] } = hashInputV3 { dhW1a with cells := [some "<empty_cell>"] } := by decide

end HG.C09
