import HG.Lemmas.Interrupt
/-! # HG.Props.C14 — interrupts pause before dependants run and resume to the same result

Vocabulary (defined in `HG/Lemmas/Interrupt.lean`, namespace `HG.Intr`): `resumable nd ns` (the resume
test of `AsyncInterruptNodeExecutor`: every data output already in the state and no execution record),
`resumeOuts`, `emitPart`, `pauseInfoOf` (the `PauseInfo` the executor builds), `prefixPause` (the
re-raise of a nested pause by a graph node), `stepOne` (the superstep that runs one node), `ChainIn`
(a path of nested graph nodes ending at an interrupt), `splitSlash`; for the whole-run theorem of §6:
`WFI g level` (no gates / `wait_for`, consistent defaults, unique producers, acyclic via a level function,
no bound/default fallback on a fed parameter), `FnOrIntr g o` (function nodes and interrupts whose single
data output is `o`), `Covered g s0` (every input is fed by a node or available from the start),
`answering sem r` (`sem` with every handler answering `r`).
`partialValues g ps sel` = the values `filter_outputs(state, graph, select, on_missing="ignore")` returns;
`runGraphLoop` = the loop `run()` executes (`HG/Lemmas/Loop.lean`).

Sections: 1 result of a paused run · 2 an interrupt runs alone · 3 partial state = what the pausing step
completed (an interrupt's own pause: the state entering the step) · 5 resume path · 7 nested identity + `responseKey` · 8 recorded finding (nested resume key
not consumed) · 6 resume = auto-answer (executor, superstep, whole run) · 9 one interrupt at a time ·
4 no dependant ran. -/
namespace HG.C14
open HG HG.Intr

/-! ## concrete programs for the non-vacuity examples -/

/-- `ask(x) → decision` with a handler that always pauses; `use(decision) → out` depends on it;
`side(x) → s` is independent and ready in the same step as `ask` -/
def askSpec : NodeSpec :=
  { name := "ask", kind := .interrupt, params := [("x", .none)], dataOuts := ["decision"], body := .handler .none }
def useSpec : NodeSpec :=
  { name := "use", kind := .fn, params := [("decision", .none)], dataOuts := ["out"], body := .tag "use" }
def sideSpec : NodeSpec :=
  { name := "side", kind := .fn, params := [("x", .none)], dataOuts := ["s"], body := .tag "side" }
def preSpec : NodeSpec :=
  { name := "pre", kind := .fn, params := [("a", .none)], dataOuts := ["x"], body := .tag "pre" }

/-- `pre(a) → x`, then `side(x) → s` and the interrupt `ask(x) → decision` in one step, then `use` -/
def prog1 : Program := elabProgram [{ name := "g", nodes := [preSpec, sideSpec, askSpec, useSpec] }]
def g1 : GraphD := prog1.getD 0 default
def nAsk : NodeD := elabLeaf askSpec
def nSide : NodeD := elabLeaf sideSpec
def nUse : NodeD := elabLeaf useSpec
def ord0 : Nat → List Nat := fun _ => []

/-- the same graph with a handler that answers (sum of the integer arguments + 10) -/
def prog1Auto : Program := elabProgram [{ name := "g", nodes :=
  [preSpec, sideSpec, { askSpec with body := .handler (some 10) }, useSpec] }]

/-! ## 1. the result of a paused run -/

/-- C14.1 — if the runner loop of `run()` (async runner) pauses with `p` and partial state `ps`, then
`run()` returns status PAUSED, the pause info `p`, nothing raised, no error, no warning, and exactly
`filter_outputs(ps, on_missing="ignore")` as values (which never fails); the log is the loop's log plus
the shutdown of a top-level run, and it contains no `RunEnd` event of this run. -/
theorem pause_result (nested : Nested) (sem : Sem) (order : Nat → List Nat) (gi : Nat) (g : GraphD)
    (values : AL Val) (cfg : RunCfg) (span : Span) (parent : Option Span)
    (p : PauseInfo) (ps : GState) (log : List Log) (n : Nat)
    (h : runLoop (fun k s rs => stepAsync nested sem gi g span k (order k) s rs) g (activeNodeSet g)
          cfg.maxIter cfg.maxIter 0 (initState values) [runStartEv span parent g ""] = .pause p ps log n) :
    let r := runGraph nested sem (.async order) gi g values cfg span parent
    r.status = .paused ∧ r.pause = some p ∧ r.raised = false ∧ r.error = .none ∧ r.warnings = 0 ∧
    filterOutputs g ps cfg.select .ignore = .ok (r.values, 0) ∧
    r.log = log ++ (if parent.isNone then [Log.shutdown] else []) ∧
    (NestedScoped nested → (∀ q, parent ≠ some (span ++ q)) →
      (∀ e, Log.ev e ∈ r.log → e.kind = "RunEnd" → e.parent ≠ parent) ∧
      ∀ st, runEndEv span parent g st ∉ r.log) := by
  have hL : runGraphLoop nested sem (.async order) gi g values cfg span parent = .pause p ps log n := h
  intro r
  have hr : r = finishRun g cfg span parent (.pause p ps log n) := by
    show runGraph nested sem (.async order) gi g values cfg span parent = _
    rw [runGraph_eq, hL]
  have hlog : r.log = log ++ (if parent.isNone then [Log.shutdown] else []) := by rw [hr]; rfl
  refine ⟨by rw [hr]; rfl, by rw [hr]; rfl, by rw [hr]; rfl, by rw [hr]; rfl, by rw [hr]; rfl, ?_, hlog, ?_⟩
  · rw [hr]; exact filterOutputs_ignore g ps cfg.select
  · intro hn hpar
    have hno : ∀ e, Log.ev e ∈ r.log → e.kind = "RunEnd" → e.parent ≠ parent := by
      intro e he
      rw [hlog] at he
      rcases List.mem_append.1 he with he | he
      · have := runGraphLoop_no_runEnd nested hn sem (.async order) gi g values cfg span parent hpar e
        rw [hL] at this
        exact this he
      · split at he
        · simp at he
        · cases he
    refine ⟨hno, ?_⟩
    intro st hmem
    exact hno _ hmem rfl rfl

/-- the same for either runner flavour, phrased on `runGraphLoop` -/
theorem pause_result_any_runner (nested : Nested) (sem : Sem) (runner : Runner) (gi : Nat) (g : GraphD)
    (values : AL Val) (cfg : RunCfg) (span : Span) (parent : Option Span)
    (p : PauseInfo) (ps : GState) (log : List Log) (n : Nat)
    (h : runGraphLoop nested sem runner gi g values cfg span parent = .pause p ps log n) :
    runGraph nested sem runner gi g values cfg span parent =
      { status := .paused, values := partialValues g ps cfg.select, pause := some p,
        log := log ++ shutLog parent } := by
  rw [runGraph_eq, h]; rfl

/-- C14.1b — the shape of the `PauseInfo` built by the interrupt executor: the node's own name, its
first data output, the value of its first input, all outputs iff more than one, all inputs iff more than
one; and the circumstances: the resume test failed, the handler was called once and returned `None` -/
theorem pause_info_shape (sem : Sem) (gi : Nat) (nd : NodeD) (inputs : AL Val) (ns : GState) (p : PauseInfo)
    (h : (execInterrupt sem gi nd inputs ns).pause = some p) :
    p.nodeName = nd.name ∧
    nd.dataOuts.head? = some p.outputParam ∧
    p.value = (nd.inputs.head?.bind fun q => AL.get? inputs q).getD .none ∧
    (p.outputParams = if nd.dataOuts.length > 1 then some nd.dataOuts else .none) ∧
    (p.values = if nd.inputs.length > 1 then some inputs else .none) ∧
    resumable nd ns = false ∧ sem nd (toParams nd inputs) = .val .none ∧
    (execInterrupt sem gi nd inputs ns).res = .ok [] ∧
    (execInterrupt sem gi nd inputs ns).log = [Log.call (fnId gi nd) (toParams nd inputs)] := by
  obtain ⟨hr, hs, o, rest, hd, hp⟩ := (execInterrupt_pause_iff sem gi nd inputs ns p).1 h
  obtain ⟨hres, hlog⟩ := execInterrupt_pause_fields sem gi nd inputs ns p h
  subst hp
  refine ⟨rfl, by rw [hd]; rfl, rfl, ?_, rfl, hr, hs, hres, hlog⟩
  simp only [pauseInfoOf, hd, List.length_cons]
  cases rest <;> simp

/-- the "iff" readings of the two optional fields -/
theorem pause_info_optional (sem : Sem) (gi : Nat) (nd : NodeD) (inputs : AL Val) (ns : GState) (p : PauseInfo)
    (h : (execInterrupt sem gi nd inputs ns).pause = some p) :
    (p.outputParams = some nd.dataOuts ↔ nd.dataOuts.length > 1) ∧
    (p.outputParams = .none ↔ nd.dataOuts.length = 1) ∧
    (p.values = some inputs ↔ nd.inputs.length > 1) ∧
    (p.values = .none ↔ nd.inputs.length ≤ 1) := by
  obtain ⟨_, hh, _, ho, hv, _⟩ := pause_info_shape sem gi nd inputs ns p h
  have hpos : nd.dataOuts.length ≥ 1 := by
    cases hd : nd.dataOuts with
    | nil => rw [hd] at hh; cases hh
    | cons a t => simp
  rw [ho, hv]
  refine ⟨?_, ?_, ?_, ?_⟩
  · by_cases hl : nd.dataOuts.length > 1 <;> simp [hl]
  · by_cases hl : nd.dataOuts.length > 1 <;> simp [hl] <;> omega
  · by_cases hl : nd.inputs.length > 1 <;> simp [hl]
  · by_cases hl : nd.inputs.length > 1 <;> simp [hl] <;> omega

/-! non-vacuity: `prog1` with `a` supplied pauses at `ask` in step 1 (after `pre` ran in step 0) -/

example : ∃ ps log,
    runLoop (fun k s rs => stepAsync (nestedAt bodySem (.async ord0) prog1 1) bodySem 0 g1 ["r"] k (ord0 k) s rs)
      g1 (activeNodeSet g1) 1000 1000 0 (initState [("a", .int 1)]) [runStartEv ["r"] .none g1 ""]
      = .pause { nodeName := "ask", outputParam := "decision", value := Val.mkTup [.str "pre", .int 1],
                 outputParams := .none, values := .none } ps log 2 :=
  ⟨_, _, rfl⟩

example :
    let r := run bodySem (.async ord0) prog1 0 [("a", .int 1)] {}
    r.status = .paused ∧ r.values = [("x", Val.mkTup [.str "pre", .int 1])] ∧ r.raised = false ∧
    (r.pause.map (·.nodeName)) = some "ask" := by decide

/-- a two-output, two-input pausing interrupt: both optional fields are populated -/
example :
    (execInterrupt bodySem 0
      (elabLeaf { name := "q", kind := .interrupt, params := [("u", .none), ("v", .none)],
                  dataOuts := ["d1", "d2"], body := .handler .none })
      [("u", .int 1), ("v", .int 2)] {}).pause =
    some { nodeName := "q", outputParam := "d1", value := .int 1, outputParams := some ["d1", "d2"],
           values := some [("u", .int 1), ("v", .int 2)] } := rfl

/-! ## 2. an interrupt runs alone -/

/-- C14.2 — if the ready list of an async superstep contains an interrupt node, the step is exactly the
step on the one-element list `[i]`, `i` the first interrupt in ready order; that step is `stepOne`:
only `i` is executed. For a successful step the new state differs from the snapshot `s` only in `i`'s
execution record and in names `i` declares as outputs (no sibling has an exec record or an output
written), decisions are untouched, and every logged call is a call of `i`'s handler; a failed step
and a pausing step report the snapshot itself as partial state. -/
theorem isolated_step (nested : Nested) (sem : Sem) (gi : Nat) (g : GraphD) (span : Span) (k : Nat)
    (order : List Nat) (s : GState) (rs : List NodeD) (i : NodeD)
    (h : rs.find? (·.isInterrupt) = some i) :
    (∃ pre post, rs = pre ++ i :: post ∧ (∀ a ∈ pre, a.isInterrupt = false) ∧ i.kind = .interrupt) ∧
    stepAsync nested sem gi g span k order s rs = stepAsync nested sem gi g span k order s [i] ∧
    stepAsync nested sem gi g span k order s rs = stepOne nested sem gi g span k s i ∧
    (∀ ns log, stepAsync nested sem gi g span k order s rs = .ok ns log →
      (∀ n, n ≠ i.name → AL.get? ns.execs n = AL.get? s.execs n) ∧
      AL.has ns.execs i.name = true ∧
      (∀ o, o ∉ i.outputs → AL.get? ns.values o = AL.get? s.values o) ∧
      ns.decisions = s.decisions ∧
      (∀ f a, Log.call f a ∈ log → f = fnId gi i)) ∧
    (∀ e ps log, stepAsync nested sem gi g span k order s rs = .fail e ps log → ps = s) ∧
    (∀ p ps log, stepAsync nested sem gi g span k order s rs = .pause p ps log → ps = s) := by
  have hi : i.kind = .interrupt := (isInterrupt_iff i).1 (by simpa using List.find?_some h)
  have hstep : stepAsync nested sem gi g span k order s rs = stepOne nested sem gi g span k s i := by
    rw [stepAsync_isolated nested sem gi g span k order s rs i h, stepAsync_singleton]
  refine ⟨?_, stepAsync_isolated nested sem gi g span k order s rs i h, hstep, ?_, ?_,
    fun p ps log hp => stepAsync_pause_interrupt_state nested sem gi g span k order s rs i p ps log h hp⟩
  · obtain ⟨_, as, bs, hab, has⟩ := List.find?_eq_some_iff_append.1 h
    exact ⟨as, bs, hab, fun a ha => by simpa using has a ha, hi⟩
  · intro ns log hok
    rw [hstep, stepOne_interrupt nested sem gi g span k s i hi] at hok
    simp only at hok
    split at hok
    · cases hok
    · cases hok
    · rename_i outs hp hres
      injection hok with hns hlog
      subst hns
      have hkeys := asyncOne_interrupt_keys nested sem gi g span k s i hi outs hres
      refine ⟨?_, ?_, ?_, ?_, ?_⟩
      · intro n hn
        simp only [recordExec, GState.applyOutputs_execs]
        exact AL.get?_put_other _ _ _ _ hn
      · simp only [recordExec, GState.applyOutputs_execs, AL.has, AL.get?_put_same, Option.isSome_some]
      · intro o ho
        show AL.get? (s.applyOutputs outs).values o = _
        apply C01.applyOutputs_values_other
        rw [C01.has_eq_false_iff, AL.get?_eq_none_iff]
        exact fun hk => ho (hkeys o hk)
      · simp only [recordExec, GState.applyOutputs_decisions]
      · intro f a hc
        rw [← hlog] at hc
        exact asyncOne_interrupt_calls nested sem gi g span k s i hi f a hc
  · intro e ps log hf
    rw [hstep, stepOne_interrupt nested sem gi g span k s i hi] at hf
    simp only at hf
    split at hf
    · cases hf
    · injection hf with _ hps _; exact hps.symm
    · cases hf

/-- in particular a pausing step with an interrupt in its ready list reports that interrupt's own pause:
`p` is built by `execInterrupt` on `i` (so `p.nodeName = i.name`, …, see `pause_info_shape`), and the
partial state it reports is the snapshot `s` itself -/
theorem isolated_pause (nested : Nested) (sem : Sem) (gi : Nat) (g : GraphD) (span : Span) (k : Nat)
    (order : List Nat) (s : GState) (rs : List NodeD) (i : NodeD) (p : PauseInfo) (ps : GState) (l : List Log)
    (h : rs.find? (·.isInterrupt) = some i)
    (hp : stepAsync nested sem gi g span k order s rs = .pause p ps l) :
    ps = s ∧
    ∃ inputs, collectInputs g s i i.inputs = some inputs ∧ (execInterrupt sem gi i inputs s).pause = some p := by
  refine ⟨stepAsync_pause_interrupt_state nested sem gi g span k order s rs i p ps l h hp, ?_⟩
  rw [stepAsync_isolated nested sem gi g span k order s rs i h] at hp
  obtain ⟨nd, hmem, inputs, hc, hcases⟩ := stepAsync_pause_cases nested sem gi g span k order s [i] p ps l hp
  rw [List.mem_singleton] at hmem; subst hmem
  have hi : nd.kind = .interrupt := (isInterrupt_iff nd).1 (by simpa using List.find?_some h)
  rcases hcases with ⟨_, hx⟩ | ⟨hg, _⟩
  · exact ⟨inputs, hc, hx⟩
  · rw [hi] at hg; cases hg

/-! non-vacuity: in step 1 of `prog1` the ready list is `[side, ask]`; only `ask` runs -/

def s1 : GState := initState [("a", .int 1), ("x", .int 5)]
def s1' : GState := recordExec (initState [("a", .int 1)]) s1 (elabLeaf preSpec)

example : (ready g1 .none s1').1.map (·.name) = ["side", "ask"] := by decide
example : (ready g1 .none s1').1.find? (·.isInterrupt) = some nAsk := rfl
/-- with the answering handler the step succeeds: `decision` is written, `s` (of `side`) is not -/
example : ∃ ns log,
    stepAsync (nestedAt bodySem (.async ord0) prog1Auto 1) bodySem 0 (prog1Auto.getD 0 default) ["r"] 1 []
      s1' (ready (prog1Auto.getD 0 default) .none s1').1 = .ok ns log ∧
    AL.get? ns.values "decision" = some (.int 15) ∧ AL.has ns.values "s" = false ∧
    AL.has ns.execs "ask" = true ∧ AL.has ns.execs "side" = false := by
  refine ⟨_, _, rfl, ?_, ?_, ?_, ?_⟩ <;> decide

/-! ## 3. the partial state of a paused run is what the pausing step completed

A pause reports what its superstep completed alongside it, exactly as a failure does: the partial state
of a paused run is the partial state the pausing step reports. For the async step that is `ns2`
(`asyncState`): the state entering the step with the outputs and execution records of the step's
SUCCESSFUL siblings applied in ready order. When the pausing node is an interrupt node of this graph, the
step ran that interrupt ALONE (§2) — there are no siblings, and the partial state IS the state entering the
step (`pause_state_is_pre_step`). When the pause is re-raised by a nested-graph node, the siblings that
succeeded in the same step are in it (`pause_state_nested`). -/

/-- C14.3 (any step function) — a paused loop returns the partial state its pausing step reported. That
step was handed `s1`: the state `s0` the loop had reached, after the scheduler's clearing of stale gate
decisions (same values, versions, execution records). Every node of that step's ready list (the pausing
node and all its siblings) needed execution in `s1`. -/
theorem pause_state_of_pausing_step (step : Nat → GState → List NodeD → StepOut) (g : GraphD)
    (act : Option (List Name)) (mi fuel k : Nat) (s : GState) (log₀ : List Log)
    (p : PauseInfo) (ps : GState) (log : List Log) (n : Nat)
    (h : runLoop step g act mi fuel k s log₀ = .pause p ps log n) :
    ∃ s0 s1 rs k' l log', ready g act s0 = (rs, s1) ∧ rs ≠ [] ∧ step k' s1 rs = .pause p ps l ∧
      n = k' + 1 ∧ k ≤ k' ∧ k' < k + fuel ∧ log = log' ++ l ∧
      s1 = clearStale g s0 ∧ s1.values = s0.values ∧ s1.versions = s0.versions ∧ s1.execs = s0.execs ∧
      ∀ nd ∈ rs, nd ∈ g.nodes ∧ needsExec g s1 nd = true ∧ ∀ q ∈ nd.inputs, hasInput g s1 nd q = true := by
  have ho := runLoop_outcome step g act mi fuel k s log₀
  rw [h] at ho
  cases ho with
  | stepPause s0 s1 rs k' p ps l log' h1 h2 h3 h4 h5 =>
    have hps : s1 = clearStale g s0 := by
      have := congrArg Prod.snd h1; rw [ready_snd] at this; exact this.symm
    refine ⟨s0, s1, rs, k', l, log', h1, h2, h3, rfl, h4, h5, rfl, hps, ?_, ?_, ?_, ?_⟩
    · rw [hps]; exact clearStale_values g s0
    · rw [hps]; exact clearStale_versions g s0
    · rw [hps]; exact clearStale_execs g s0
    · intro nd hnd
      have hmem : nd ∈ (ready g act s0).1 := by rw [h1]; exact hnd
      have hr := (isReady_iff g _ nd).1 (ready_isReady hmem)
      rw [← hps] at hr
      exact ⟨ready_mem_nodes hmem, hr.2.2.2, hr.2.1⟩

/-- C14.3 — async runner, pause of an interrupt node of this graph (the ready list of the pausing step
contains an interrupt): the paused loop returns as partial state the state handed to the pausing step —
the state `s0` the loop had reached, after the scheduler's clearing of stale gate decisions (same values,
versions, execution records). Nothing the pausing step computed is in it. Every node of that step's ready
list (the pausing node and all its siblings) needed execution in that state. -/
theorem pause_state_is_pre_step (nested : Nested) (sem : Sem) (order : Nat → List Nat) (gi : Nat) (g : GraphD)
    (span : Span) (act : Option (List Name)) (mi fuel k : Nat) (s : GState) (log₀ : List Log)
    (p : PauseInfo) (ps : GState) (log : List Log) (n : Nat)
    (h : runLoop (fun k s rs => stepAsync nested sem gi g span k (order k) s rs) g act mi fuel k s log₀ =
      .pause p ps log n) :
    ∃ s0 s1 rs k' l log', ready g act s0 = (rs, s1) ∧ rs ≠ [] ∧
      stepAsync nested sem gi g span k' (order k') s1 rs = .pause p ps l ∧
      n = k' + 1 ∧ k ≤ k' ∧ k' < k + fuel ∧ log = log' ++ l ∧
      s1 = clearStale g s0 ∧ s1.values = s0.values ∧ s1.versions = s0.versions ∧ s1.execs = s0.execs ∧
      (∀ nd ∈ rs, nd ∈ g.nodes ∧ needsExec g s1 nd = true ∧ ∀ q ∈ nd.inputs, hasInput g s1 nd q = true) ∧
      ((∃ i ∈ rs, i.kind = .interrupt) →
        ps = s1 ∧ ready g act s0 = (rs, ps) ∧ ps = clearStale g s0 ∧
        ps.values = s0.values ∧ ps.versions = s0.versions ∧ ps.execs = s0.execs) := by
  obtain ⟨s0, s1, rs, k', l, log', h1, h2, h3, hn, h4, h5, hlog, hs1, hv, hver, hex, hall⟩ :=
    pause_state_of_pausing_step _ g act mi fuel k s log₀ p ps log n h
  refine ⟨s0, s1, rs, k', l, log', h1, h2, h3, hn, h4, h5, hlog, hs1, hv, hver, hex, hall, ?_⟩
  rintro ⟨i, hi, hk⟩
  obtain ⟨i', hf⟩ := find_interrupt_of_mem hi hk
  have hps : ps = s1 := stepAsync_pause_interrupt_state nested sem gi g span k' (order k') s1 rs i' p ps l hf h3
  subst hps
  exact ⟨rfl, h1, hs1, hv, hver, hex⟩

/-- C14.3 (general case) — async runner, any pause, in particular one re-raised by a nested-graph node:
the partial state of the paused loop is `ns2` of the pausing step (`asyncState`: the fold the model uses —
decisions in completion order, then outputs and execution records of the successful nodes in ready order,
starting from the state `s1` entering the step). On values: a name that no successful node of the step wrote
keeps the value (or absence) it has in `s1`; every output of every successful node of the step is present;
every value of `s1` is still present. (`okOuts r` is the outputs dict of a node that succeeded and `[]` for
one that failed or paused; `asyncRs₂ rs` is the list of nodes the step runs: all of `rs`, or the first
interrupt alone.) -/
theorem pause_state_nested (nested : Nested) (sem : Sem) (order : Nat → List Nat) (gi : Nat) (g : GraphD)
    (span : Span) (act : Option (List Name)) (mi fuel k : Nat) (s : GState) (log₀ : List Log)
    (p : PauseInfo) (ps : GState) (log : List Log) (n : Nat)
    (h : runLoop (fun k s rs => stepAsync nested sem gi g span k (order k) s rs) g act mi fuel k s log₀ =
      .pause p ps log n) :
    ∃ s0 s1 rs k' l, ready g act s0 = (rs, s1) ∧ n = k' + 1 ∧
      stepAsync nested sem gi g span k' (order k') s1 rs = .pause p ps l ∧
      ps = asyncState nested sem gi g span k' (order k') s1 rs ∧
      ps = ((asyncRs₂ rs).map (asyncOne₂ nested sem gi g span k' s1)).foldl (valStep s1)
            ((permute ((asyncRs₂ rs).map (asyncOne₂ nested sem gi g span k' s1)) (order k')).foldl decStep s1) ∧
      ps.values = AL.merge s1.values (writes ((asyncRs₂ rs).map (asyncOne₂ nested sem gi g span k' s1))) ∧
      (∀ name, (∀ r ∈ (asyncRs₂ rs).map (asyncOne₂ nested sem gi g span k' s1), name ∉ AL.keys (okOuts r)) →
        AL.get? ps.values name = AL.get? s1.values name) ∧
      (∀ r ∈ (asyncRs₂ rs).map (asyncOne₂ nested sem gi g span k' s1), ∀ o ∈ AL.keys (okOuts r),
        AL.has ps.values o = true) ∧
      (∀ q, AL.has s1.values q = true → AL.has ps.values q = true) ∧
      ((∃ nd ∈ rs, nd.kind = .graph ∧ ∃ inputs,
          (execGraphNode nested nd inputs (nodeSpanOf span k' nd)).pause = some p) ∨
        ps = s1) := by
  obtain ⟨s0, s1, rs, k', l, _, h1, _, h3, hn, _⟩ :=
    pause_state_of_pausing_step _ g act mi fuel k s log₀ p ps log n h
  obtain ⟨hps, nd, hmem, inputs, _, hcases⟩ :=
    stepAsync_pause_cases_state nested sem gi g span k' (order k') s1 rs p ps l h3
  obtain ⟨hv1, hv2, hv3⟩ := asyncState_values_spec nested sem gi g span k' (order k') s1 rs
  refine ⟨s0, s1, rs, k', l, h1, hn, h3, hps, hps, ?_, ?_, ?_, ?_, ?_⟩
  · rw [hps]; exact asyncState_values nested sem gi g span k' (order k') s1 rs
  · rw [hps]; exact hv1
  · rw [hps]; exact hv2
  · rw [hps]; exact hv3
  · rcases hcases with ⟨_, _, _, hs⟩ | ⟨hk, _, _, hx⟩
    · exact Or.inr hs
    · exact Or.inl ⟨nd, hmem, hk, inputs, hx⟩

/-- on the loop `run()` executes: the pausing async step is an interrupt's own pause — then that interrupt
is the first one in the ready list, and the values reported by the paused run are those of the state
entering the pausing step — or a nested graph's re-raise — then no interrupt was ready, every ready node
ran, and the partial state is that state with the step's successful siblings applied (`asyncState`) -/
theorem paused_run_source (nested : Nested) (sem : Sem) (order : Nat → List Nat) (gi : Nat) (g : GraphD)
    (values : AL Val) (cfg : RunCfg) (span : Span) (parent : Option Span)
    (p : PauseInfo) (ps : GState) (log : List Log) (n : Nat)
    (h : runGraphLoop nested sem (.async order) gi g values cfg span parent = .pause p ps log n) :
    ∃ s0 s1 rs k, ready g (activeNodeSet g) s0 = (rs, s1) ∧ n = k + 1 ∧
      (∃ l, stepAsync nested sem gi g span k (order k) s1 rs = .pause p ps l) ∧
      ps = asyncState nested sem gi g span k (order k) s1 rs ∧
      ∃ nd ∈ rs, ∃ inputs, collectInputs g s1 nd nd.inputs = some inputs ∧
        ((nd.kind = .interrupt ∧ rs.find? (·.isInterrupt) = some nd ∧
            (execInterrupt sem gi nd inputs s1).pause = some p ∧ ps = s1) ∨
         (nd.kind = .graph ∧ rs.find? (·.isInterrupt) = .none ∧ asyncRs₂ rs = rs ∧
            (execGraphNode nested nd inputs (nodeSpanOf span k nd)).pause = some p)) := by
  obtain ⟨s0, s1, rs, k', l, _, h1, _, h3, hn, _⟩ :=
    pause_state_of_pausing_step _ g _ _ _ _ _ _ p ps log n h
  obtain ⟨hps, hsrc⟩ := stepAsync_pause_cases_state nested sem gi g span k' (order k') s1 rs p ps l h3
  exact ⟨s0, s1, rs, k', h1, hn, ⟨l, h3⟩, hps, hsrc⟩

/-! non-vacuity: the paused run of `prog1` returns `x` (computed by `pre` in step 0) but neither
`decision` (the interrupt's output), nor `s` (its sibling `side` in the pausing step), nor `out` -/
example :
    let r := run bodySem (.async ord0) prog1 0 [("a", .int 1)] { select := .all }
    r.status = .paused ∧ AL.has r.values "x" = true ∧ AL.has r.values "decision" = false ∧
    AL.has r.values "s" = false ∧ AL.has r.values "out" = false := by decide

/-! non-vacuity (nested pause): `review` is a nested-graph node whose inner graph pauses at `ask`; its
sibling `side(x) → s` is ready in the same step and succeeds. No interrupt of the OUTER graph is ready, so
both nodes run; the pause re-raised by `review` reports the step's `ns2`: the paused run returns `s`
(the sibling's output) next to the inputs' values — but not `decision`; `side` has an execution record,
`review` has none. With `side` listed first the result is the same. -/

def progNS : Program := elabProgram [
  { name := "inner", nodes := [askSpec] },
  { name := "outer", nodes := [{ name := "review", kind := .graph, inner := 0 }, sideSpec] }]
def progSN : Program := elabProgram [
  { name := "inner", nodes := [askSpec] },
  { name := "outer", nodes := [sideSpec, { name := "review", kind := .graph, inner := 0 }] }]

example : (ready (progNS.getD 1 default) .none (initState [("x", .int 5)])).1.map (·.name) = ["review", "side"] ∧
    (ready (progNS.getD 1 default) .none (initState [("x", .int 5)])).1.find? (·.isInterrupt) = .none := by
  decide

example :
    let r := run bodySem (.async ord0) progNS 1 [("x", .int 5)] { select := .all }
    r.status = .paused ∧ (r.pause.map (·.nodeName)) = some "review/ask" ∧
    r.values = [("s", Val.mkTup [.str "side", .int 5])] ∧ AL.has r.values "decision" = false := by decide

example :
    let r := run bodySem (.async ord0) progSN 1 [("x", .int 5)] { select := .all }
    r.status = .paused ∧ (r.pause.map (·.nodeName)) = some "review/ask" ∧
    r.values = [("s", Val.mkTup [.str "side", .int 5])] := by decide

/-- the partial state of that paused loop: the sibling `side` is recorded and its output present, the
pausing graph node `review` is not recorded — it will run again on resume -/
def loopNS : LoopOut :=
  runGraphLoop (nestedAt bodySem (.async ord0) progNS 2) bodySem (.async ord0) 1 (progNS.getD 1 default)
    [("x", .int 5)] {} ["r"] .none
def psNS : GState := match loopNS with | .pause _ ps _ _ => ps | _ => default

example : ∃ p log, loopNS = .pause p psNS log 1 := ⟨_, _, rfl⟩
example : AL.has psNS.values "s" = true ∧ AL.has psNS.execs "side" = true ∧
    AL.has psNS.execs "review" = false ∧ AL.has psNS.values "decision" = false := by decide

/-! ## 5. the resume path -/

/-- C14.5 — if every data output of the interrupt is already in the state and the node has no execution
record, the executor does not call the handler (empty log), does not pause, makes no routing decision,
and returns exactly those values plus the emit sentinels -/
theorem resume_passes_interrupt (sem : Sem) (gi : Nat) (nd : NodeD) (inputs : AL Val) (ns : GState)
    (hall : ∀ o ∈ nd.dataOuts, AL.has ns.values o = true) (hex : AL.has ns.execs nd.name = false) :
    execInterrupt sem gi nd inputs ns =
      { res := .ok (AL.merge (nd.dataOuts.map fun o => (o, (AL.get? ns.values o).getD .none))
                      (nd.emits.map fun e => (e, Val.sentinel))),
        dec := .none, pause := .none, log := [] } := by
  apply execInterrupt_resume
  unfold resumable
  simp only [Bool.and_eq_true, List.all_eq_true, hex, Bool.not_false, and_true]
  exact hall

/-- for a single data output `o` holding `r` and no emits: the result is `{o: r}` -/
theorem resume_single (sem : Sem) (gi : Nat) (nd : NodeD) (inputs : AL Val) (ns : GState) (o : Name) (r : Val)
    (hd : nd.dataOuts = [o]) (hem : nd.emits = []) (hv : AL.get? ns.values o = some r)
    (hex : AL.has ns.execs nd.name = false) :
    execInterrupt sem gi nd inputs ns = { res := .ok [(o, r)] } := by
  rw [resume_passes_interrupt sem gi nd inputs ns ?_ hex]
  · simp only [hd, hem, List.map_cons, List.map_nil, hv, Option.getD_some]; rfl
  · intro o' ho'; rw [hd, List.mem_singleton] at ho'; subst ho'
    unfold AL.has; rw [hv]; rfl

/-- conversely the handler is called (exactly once) iff the resume test fails -/
theorem handler_called_iff (sem : Sem) (gi : Nat) (nd : NodeD) (inputs : AL Val) (ns : GState) :
    ((execInterrupt sem gi nd inputs ns).log = [Log.call (fnId gi nd) (toParams nd inputs)] ↔
      resumable nd ns = false) ∧
    ((execInterrupt sem gi nd inputs ns).log = [] ↔ resumable nd ns = true) := by
  cases h : resumable nd ns
  · have : (execInterrupt sem gi nd inputs ns).log = [Log.call (fnId gi nd) (toParams nd inputs)] := by
      rw [execInterrupt_handler sem gi nd inputs ns h]
      simp only
      split
      · rfl
      · rfl
      · split <;> rfl
      · split <;> rfl
    rw [this]; simp
  · rw [execInterrupt_resume sem gi nd inputs ns h]; simp

/-! non-vacuity: `ask` with `decision` supplied and no record passes the value through, silently -/
example : execInterrupt bodySem 0 nAsk [("x", .int 5)] (initState [("x", .int 5), ("decision", .str "yes")])
    = { res := .ok [("decision", .str "yes")] } :=
  resume_single bodySem 0 nAsk _ _ "decision" (.str "yes") rfl rfl (by decide) (by decide)
/-- … and with an execution record (a second visit in a cycle) the handler is consulted again -/
example : (execInterrupt bodySem 0 nAsk [("x", .int 5)]
      (recordExec (initState []) (initState [("x", .int 5), ("decision", .str "yes")]) nAsk)).pause.isSome = true := by
  decide

/-! ## 7. nested pauses keep their identity -/

/-- C14.7 — a graph node whose nested run paused with `p` pauses itself with `nd.name/p.nodeName`;
every other field of the pause info is unchanged; it writes nothing, decides nothing, and its log is the
nested run's log -/
theorem nested_identity (nested : Nested) (nd : NodeD) (inputs : AL Val) (sp : Span) (p : PauseInfo)
    (hm : nd.mapOver = [])
    (hr : (nested.run nd.inner (toParams nd inputs) sp).raised = false)
    (hs : (nested.run nd.inner (toParams nd inputs) sp).status = .paused)
    (hp : (nested.run nd.inner (toParams nd inputs) sp).pause = some p) :
    let out := execGraphNode nested nd inputs sp
    out.pause = some { p with nodeName := nd.name ++ "/" ++ p.nodeName } ∧
    (∀ p', out.pause = some p' → p'.nodeName = nd.name ++ "/" ++ p.nodeName ∧ p'.outputParam = p.outputParam ∧
      p'.value = p.value ∧ p'.outputParams = p.outputParams ∧ p'.values = p.values) ∧
    out.res = .ok [] ∧ out.dec = .none ∧ out.log = (nested.run nd.inner (toParams nd inputs) sp).log := by
  intro out
  have h1 : out.pause = some (prefixPause nd p) :=
    (execGraphNode_pause_iff nested nd inputs sp _).2 ⟨hm, hr, hs, p, hp, rfl⟩
  obtain ⟨h2, h3, h4⟩ := execGraphNode_pause_fields nested nd inputs sp _ h1
  refine ⟨h1, ?_, h2, h3, h4⟩
  intro p' hp'
  rw [h1] at hp'
  injection hp' with hp'
  subst hp'
  exact ⟨rfl, rfl, rfl, rfl, rfl⟩

/-- conversely a graph node pauses only by re-raising a nested pause, prefixed with its own name -/
theorem nested_identity_conv (nested : Nested) (nd : NodeD) (inputs : AL Val) (sp : Span) (p' : PauseInfo)
    (h : (execGraphNode nested nd inputs sp).pause = some p') :
    ∃ p, (nested.run nd.inner (toParams nd inputs) sp).pause = some p ∧
      (nested.run nd.inner (toParams nd inputs) sp).status = .paused ∧
      p' = { p with nodeName := nd.name ++ "/" ++ p.nodeName } := by
  obtain ⟨_, _, hs, q, hq, hpq⟩ := (execGraphNode_pause_iff nested nd inputs sp p').1 h
  exact ⟨q, hq, hs, hpq⟩

/-- depth `d`, by induction on the nesting depth of the program: the node name reported by ANY paused
async run is `n₁/n₂/…/n_j/name` (`nestName [n₁,…,n_j] name`), where `n₁` is a graph node of the root graph,
`n₂` a graph node of `n₁`'s inner graph, …, and `name` an interrupt node of the innermost graph -/
theorem nested_identity_depth (sem : Sem) (order : Nat → List Nat) (prog : Program) (root : Nat)
    (values : AL Val) (cfg : RunCfg) (p : PauseInfo)
    (h : (run sem (.async order) prog root values cfg).pause = some p) :
    ∃ path leaf, ChainIn prog root path leaf ∧ path.length ≤ prog.length ∧
      p.nodeName = path.foldr (fun n acc => n ++ "/" ++ acc) leaf :=
  paused_run_path sem order prog prog.length root values cfg ["r"] .none p h

/-- `PauseInfo.response_key`: `parts = node_name.split("/")`; one part → `output_param`; otherwise
`".".join(parts[:-1]) + "." + output_param` -/
def responseKey (p : PauseInfo) : String :=
  let parts := (splitSlash p.nodeName.toList).map String.ofList
  if parts.length == 1 then p.outputParam else ".".intercalate parts.dropLast ++ "." ++ p.outputParam

/-- `response_key` of a top-level pause is the output name; of a depth-1 nested pause `outer/inner` it is
`outer.output_param` (names without "/") -/
theorem responseKey_top (p : PauseInfo) (h : '/' ∉ p.nodeName.toList) : responseKey p = p.outputParam := by
  unfold responseKey
  simp [splitSlash_noslash _ h]

theorem responseKey_depth1 (outer inner : String) (h1 : '/' ∉ outer.toList) (h2 : '/' ∉ inner.toList)
    (p : PauseInfo) (hp : p.nodeName = outer ++ "/" ++ inner) :
    responseKey p = outer ++ "." ++ p.outputParam := by
  unfold responseKey
  have : (outer ++ "/" ++ inner).toList = outer.toList ++ '/' :: inner.toList := by
    simp [String.toList_append]
  simp only [hp, this, splitSlash_one _ _ h1 h2]
  simp

/-! non-vacuity: outer graph with the graph node `review` over the inner graph `ask(x) → decision` -/

def innerSpec : GraphSpec := { name := "inner", nodes := [askSpec] }
def outerSpec : GraphSpec := { name := "outer", nodes := [{ name := "review", kind := .graph, inner := 0 }] }
def progN : Program := elabProgram [innerSpec, outerSpec]
def nReview : NodeD := (progN.getD 1 default).nodes.getD 0 default

def pauseN : PauseInfo :=
  { nodeName := "review/ask", outputParam := "decision", value := .int 1, outputParams := .none, values := .none }

/-- the wrapper exposes the inner input `x` and the inner output `decision` -/
example : nReview.name = "review" ∧ nReview.inputs = ["x"] ∧ nReview.dataOuts = ["decision"] ∧
    nReview.kind = .graph ∧ nReview.mapOver = [] := by decide

example : (run bodySem (.async ord0) progN 1 [("x", .int 1)] {}).pause = some pauseN ∧
    (run bodySem (.async ord0) progN 0 [("x", .int 1)] {}).pause = some { pauseN with nodeName := "ask" } :=
  ⟨rfl, rfl⟩

/-- the hypotheses of `nested_identity` hold for `review` -/
example :
    let r := (nestedAt bodySem (.async ord0) progN 2).run nReview.inner (toParams nReview [("x", .int 1)]) ["r", "review#0"]
    r.raised = false ∧ r.status = .paused ∧ (r.pause.map (·.nodeName)) = some "ask" := by decide

example : ChainIn progN 1 ["review"] "ask" := by
  have h1 : (progN.getD 1 default).nodes = [nReview] := rfl
  have h0 : (progN.getD nReview.inner default).nodes = [nAsk] := rfl
  exact ⟨nReview, by rw [h1]; exact List.mem_singleton.2 rfl, by decide, by decide,
    ⟨nAsk, by rw [h0]; exact List.mem_singleton.2 rfl, by decide, by decide⟩⟩

/-- `response_key` of the depth-1 nested pause is `outer ++ "." ++ outputParam` -/
example : responseKey pauseN = "review" ++ "." ++ "decision" := by decide
example : responseKey pauseN = "review.decision" := by decide
example : responseKey { pauseN with nodeName := "ask" } = "decision" := by decide
example : responseKey { pauseN with nodeName := "outer/review/ask" } = "outer.review.decision" := by decide

/-! ## 8. recorded finding: the dotted response key is produced but never consumed -/

/-- C14.8 (negative) — resuming the nested pause with the key `response_key` advertises
(`"review.decision"`) does NOT pass the interrupt: the run pauses again, at the same node, and the
handler is called again. Supplying the plain inner name `"decision"` at the top level does not help
either: graph nodes forward only their declared inputs to the nested run. -/
theorem nested_resume_witness :
    responseKey pauseN = "review.decision" ∧
    (run bodySem (.async ord0) progN 1 [("x", .int 1)] {}).status = .paused ∧
    (run bodySem (.async ord0) progN 1 [("x", .int 1)] {}).pause = some pauseN ∧
    (run bodySem (.async ord0) progN 1 [("x", .int 1), ("review.decision", .str "yes")] {}).status = .paused ∧
    (run bodySem (.async ord0) progN 1 [("x", .int 1), ("review.decision", .str "yes")] {}).pause = some pauseN ∧
    callsOf "0:ask" (run bodySem (.async ord0) progN 1 [("x", .int 1), ("review.decision", .str "yes")] {}).log = 1 ∧
    (run bodySem (.async ord0) progN 1 [("x", .int 1), ("decision", .str "yes")] {}).status = .paused ∧
    (run bodySem (.async ord0) progN 1 [("x", .int 1), ("decision", .str "yes")] {}).pause = some pauseN :=
  ⟨by decide, by decide, rfl, by decide, rfl, by decide, by decide, rfl⟩

/-- by contrast the un-nested interrupt IS passed by supplying `response_key` (= its output name) -/
example : responseKey { pauseN with nodeName := "ask" } = "decision" ∧
    (run bodySem (.async ord0) progN 0 [("x", .int 1)] {}).status = .paused ∧
    (run bodySem (.async ord0) progN 0 [("x", .int 1), ("decision", .str "yes")] {}).status = .completed ∧
    (run bodySem (.async ord0) progN 0 [("x", .int 1), ("decision", .str "yes")] {}).values =
      [("decision", .str "yes")] := by decide

/-! ## 6. resuming with the response = a handler that answers (one step) -/

/-- C14.6 (executor level) — single-data-output interrupt `nd` (`dataOuts = [o]`); `sem₁`'s handler pauses,
`sem₂`'s handler answers `r ≠ None` on the same arguments. In a state `ns` without `o`: under `sem₁` the
executor pauses; under `sem₂` it returns `{o: r}` + emit sentinels. In a state `ns'` in which the caller
supplied `o ↦ r` (no execution record), under `sem₁` the executor takes the resume path and returns the
SAME outputs dict, without calling the handler. -/
theorem resume_eq_auto_step (sem₁ sem₂ : Sem) (gi : Nat) (nd : NodeD) (inputs inputs' : AL Val)
    (ns ns' : GState) (o : Name) (r : Val) (hd : nd.dataOuts = [o]) (hr : r ≠ Val.none)
    (h₁ : sem₁ nd (toParams nd inputs) = .val .none) (h₂ : sem₂ nd (toParams nd inputs) = .val r)
    (habs : AL.has ns.values o = false)
    (hsup : AL.get? ns'.values o = some r) (hex : AL.has ns'.execs nd.name = false) :
    (execInterrupt sem₁ gi nd inputs ns).pause = some (pauseInfoOf nd inputs o []) ∧
    execInterrupt sem₂ gi nd inputs ns =
      { res := .ok (AL.merge [(o, r)] (nd.emits.map fun e => (e, Val.sentinel))),
        log := [Log.call (fnId gi nd) (toParams nd inputs)] } ∧
    execInterrupt sem₁ gi nd inputs' ns' =
      { res := .ok (AL.merge [(o, r)] (nd.emits.map fun e => (e, Val.sentinel))) } ∧
    (execInterrupt sem₂ gi nd inputs ns).res = (execInterrupt sem₁ gi nd inputs' ns').res := by
  have hnr : resumable nd ns = false := by
    unfold resumable; simp [hd, habs]
  have hres : resumable nd ns' = true := by
    unfold resumable
    have : AL.has ns'.values o = true := by unfold AL.has; rw [hsup]; rfl
    simp [hd, this, hex]
  have hA : (execInterrupt sem₁ gi nd inputs ns).pause = some (pauseInfoOf nd inputs o []) :=
    (execInterrupt_pause_iff sem₁ gi nd inputs ns _).2 ⟨hnr, h₁, o, [], hd, rfl⟩
  have hB := execInterrupt_answer sem₂ gi nd inputs ns hnr r hr h₂ o [] hd
  have hC : execInterrupt sem₁ gi nd inputs' ns' =
      { res := .ok (AL.merge [(o, r)] (nd.emits.map fun e => (e, Val.sentinel))) } := by
    rw [execInterrupt_resume sem₁ gi nd inputs' ns' hres]
    simp only [resumeOuts, hd, List.map_cons, List.map_nil, hsup, Option.getD_some]; rfl
  refine ⟨hA, hB, hC, ?_⟩
  rw [hB, hC]; rfl

/-- C14.6 (superstep level) — the same on the async superstep. `s` is the snapshot of the run with the
answering handler (and of the first, pausing run); `s'` is the snapshot of the resumed run: it agrees
with `s` except that the caller supplied `o ↦ r`. Then: under `sem₁` the step on `s` pauses at `nd`;
(reporting `s` itself as partial state); the `sem₂` step on `s` and the `sem₁` step on `s'` both succeed, record `nd` (and nothing else), and leave
states whose values agree on every name (`o` holds `r`); the resumed step never calls a handler. -/
theorem resume_eq_auto_superstep (nested : Nested) (sem₁ sem₂ : Sem) (gi : Nat) (g : GraphD) (span : Span)
    (k k' : Nat) (order order' : List Nat) (s s' : GState) (rs rs' : List NodeD) (nd : NodeD)
    (inputs inputs' : AL Val) (o : Name) (r : Val)
    (hd : nd.dataOuts = [o]) (hr : r ≠ Val.none)
    (hf : rs.find? (·.isInterrupt) = some nd) (hf' : rs'.find? (·.isInterrupt) = some nd)
    (hc : collectInputs g s nd nd.inputs = some inputs) (hc' : collectInputs g s' nd nd.inputs = some inputs')
    (h₁ : sem₁ nd (toParams nd inputs) = .val .none) (h₂ : sem₂ nd (toParams nd inputs) = .val r)
    (habs : AL.has s.values o = false) (hsup : AL.get? s'.values o = some r)
    (hsame : ∀ n, n ≠ o → AL.get? s'.values n = AL.get? s.values n)
    (hex : AL.has s'.execs nd.name = false) :
    (∃ l, stepAsync nested sem₁ gi g span k order s rs = .pause (pauseInfoOf nd inputs o []) s l) ∧
    ∃ ns₂ l₂ ns₁ l₁,
      stepAsync nested sem₂ gi g span k order s rs = .ok ns₂ l₂ ∧
      stepAsync nested sem₁ gi g span k' order' s' rs' = .ok ns₁ l₁ ∧
      (∀ n, AL.get? ns₁.values n = AL.get? ns₂.values n) ∧
      (o ∉ nd.emits → AL.get? ns₂.values o = some r) ∧
      AL.has ns₁.execs nd.name = true ∧ AL.has ns₂.execs nd.name = true ∧
      (∀ n, n ≠ nd.name → AL.get? ns₁.execs n = AL.get? s'.execs n) ∧
      (∀ n, n ≠ nd.name → AL.get? ns₂.execs n = AL.get? s.execs n) ∧
      (∀ f a, Log.call f a ∉ l₁) := by
  have hi : nd.kind = .interrupt := (isInterrupt_iff nd).1 (by simpa using List.find?_some hf)
  obtain ⟨hA, hB, hC, _⟩ := resume_eq_auto_step sem₁ sem₂ gi nd inputs inputs' s s' o r hd hr h₁ h₂ habs hsup hex
  have hres : resumable nd s' = true := by
    unfold resumable
    have : AL.has s'.values o = true := by unfold AL.has; rw [hsup]; rfl
    simp [hd, this, hex]
  have hP : stepAsync nested sem₁ gi g span k order s rs =
      .pause (pauseInfoOf nd inputs o []) s (asyncOne₂ nested sem₁ gi g span k s nd).out.log := by
    rw [stepAsync_isolated nested sem₁ gi g span k order s rs nd hf, stepAsync_singleton]
    exact stepOne_interrupt_pause nested sem₁ gi g span k s nd hi inputs _ hc hA
  have hS2 := stepOne_interrupt_ok nested sem₂ gi g span k s nd hi inputs _ hc (by rw [hB]) (by rw [hB])
  have hS1 := stepOne_interrupt_ok nested sem₁ gi g span k' s' nd hi inputs' _ hc' (by rw [hC]) (by rw [hC])
  rw [← stepAsync_singleton nested sem₂ gi g span k order s nd,
    ← stepAsync_isolated nested sem₂ gi g span k order s rs nd hf] at hS2
  rw [← stepAsync_singleton nested sem₁ gi g span k' order' s' nd,
    ← stepAsync_isolated nested sem₁ gi g span k' order' s' rs' nd hf'] at hS1
  refine ⟨⟨_, hP⟩, _, _, _, _, hS2, hS1, ?_, ?_, ?_, ?_, ?_, ?_, ?_⟩
  · intro n
    show AL.get? (s'.applyOutputs _).values n = AL.get? (s.applyOutputs _).values n
    rw [GState.applyOutputs_values, GState.applyOutputs_values]
    apply merge_same_on
    intro n'
    by_cases hn : n' = o
    · right
      subst hn
      have : n' ∈ AL.keys [(n', r)] := by simp [AL.keys]
      exact (AL.mem_keys_iff_has _ _).2 (AL.has_merge_of_has _ _ _ ((AL.mem_keys_iff_has _ _).1 this))
    · left; exact hsame n' hn
  · intro hoe
    show AL.get? (s.applyOutputs _).values o = _
    have hnd : C01.NodupKeys (AL.merge [(o, r)] (nd.emits.map fun e => (e, Val.sentinel))) :=
      C01.nodupKeys_merge _ _ (by simp [C01.NodupKeys, AL.keys])
    rw [GState.applyOutputs_values, C01.get?_merge _ hnd,
      AL.get?_merge_of_not_mem₂ _ _ _ (by rw [C01.keys_map_const]; exact hoe)]
    simp [AL.get?]
  · simp only [recordExec, GState.applyOutputs_execs, AL.has, AL.get?_put_same, Option.isSome_some]
  · simp only [recordExec, GState.applyOutputs_execs, AL.has, AL.get?_put_same, Option.isSome_some]
  · intro n hn
    simp only [recordExec, GState.applyOutputs_execs]
    exact AL.get?_put_other _ _ _ _ hn
  · intro n hn
    simp only [recordExec, GState.applyOutputs_execs]
    exact AL.get?_put_other _ _ _ _ hn
  · intro f a
    exact asyncOne_resume_no_call nested sem₁ gi g span k' s' nd hi hres f a

/-- C14.6 (whole run) — acyclic gate-free graph of function nodes and single-output interrupts whose
(only) data output is `o` (`FnOrIntr g o`; by `UniqueProducers` there is exactly one such interrupt), async
runner. `sem₂`'s handler answers the constant `r` (not `None`, not the emit sentinel); `sem₁` agrees with
`sem₂` on every function node (its handler may pause: it is never called). `values'` is `values` with the
response supplied under the output name: `o ↦ r`. Then the re-run `run sem₁ values'` and the run with the
answering handler `run sem₂ values` end in final states that agree on EVERY name, every node has executed
in both, and the two results have the same status, values, error, raised flag and warnings, and no pause;
unless `on_missing="error"` rejects the selection (identically in both), both are COMPLETED. Nothing is
assumed about completion order, the nested-run callbacks, or the order in which the caller supplies the
values. Hypotheses `WFI` (no gates / `wait_for`, consistent defaults, unique producers, a level function,
no bound/default fallback on a fed parameter), `Covered` (every input is fed by a node or available from
the start), no run-time value shadows a node output, no entry-point restriction, `max_iterations` at
least the number of nodes. -/
theorem resume_eq_auto {level : Name → Nat} (nested₁ nested₂ : Nested) (sem₁ sem₂ : Sem)
    (order₁ order₂ : Nat → List Nat) (gi : Nat) (g : GraphD) (values' values : AL Val) (cfg : RunCfg)
    (span : Span) (parent : Option Span) (o : Name) (r : Val)
    (hW : WFI g level) (hs : C01.SemTotal sem₂ g) (hcls : FnOrIntr g o)
    (hex : ∃ i ∈ g.nodes, i.kind = .interrupt)
    (hr : r ≠ Val.none) (hrs : r ≠ Val.sentinel)
    (hagree : ∀ nd ∈ g.nodes, nd.kind = .fn → ∀ args, sem₁ nd args = sem₂ nd args)
    (h₂ : ∀ nd ∈ g.nodes, nd.kind = .interrupt → ∀ args, sem₂ nd args = .val r)
    (hfreshV : ∀ m ∈ g.nodes, ∀ o' ∈ m.outputs, AL.has values o' = false)
    (hsup : ∀ k, AL.get? (initState values').values k =
      if k = o then some r else AL.get? (initState values).values k)
    (hcov : Covered g (initState values))
    (hep : g.entrypoints = .none) (hfuel : g.nodes.length ≤ cfg.maxIter) :
    let resumed := runGraph nested₁ sem₁ (.async order₁) gi g values' cfg span parent
    let auto := runGraph nested₂ sem₂ (.async order₂) gi g values cfg span parent
    resumed.status = auto.status ∧ resumed.values = auto.values ∧ resumed.error = auto.error ∧
    resumed.raised = auto.raised ∧ resumed.warnings = auto.warnings ∧
    resumed.pause = .none ∧ auto.pause = .none ∧
    (cfg.onMissing ≠ .error → resumed.status = .completed ∧ auto.status = .completed) ∧
    ∃ sA sB logA logB nA nB,
      runGraphLoop nested₁ sem₁ (.async order₁) gi g values' cfg span parent = .done sA logA nA ∧
      runGraphLoop nested₂ sem₂ (.async order₂) gi g values cfg span parent = .done sB logB nB ∧
      (∀ k, AL.get? sA.values k = AL.get? sB.values k) ∧ AL.get? sB.values o = some r ∧
      (∀ n ∈ g.nodes, AL.has sA.execs n.name = true ∧ AL.has sB.execs n.name = true) := by
  obtain ⟨sA, sB, logA, logB, nA, nB, hA, hB, hsame, hexec, hor⟩ :=
    resume_eq_auto_core nested₁ nested₂ sem₁ sem₂ order₁ order₂ gi g values' values cfg span parent o r
      hW hs hcls hex hr hrs hagree h₂ hfreshV hsup hcov hep hfuel
  intro resumed auto
  have hres : resumed = finishRun g cfg span parent (.done sA logA nA) := by
    show runGraph nested₁ sem₁ (.async order₁) gi g values' cfg span parent = _
    rw [runGraph_eq, hA]
  have haut : auto = finishRun g cfg span parent (.done sB logB nB) := by
    show runGraph nested₂ sem₂ (.async order₂) gi g values cfg span parent = _
    rw [runGraph_eq, hB]
  have hfo := filterOutputs_congr_get g hsame cfg.select cfg.onMissing
  have hfields : ∀ (s : GState) (log : List Log) (n : Nat),
      (finishRun g cfg span parent (.done s log n)).pause = .none ∧
      (cfg.onMissing ≠ .error → (finishRun g cfg span parent (.done s log n)).status = .completed) := by
    intro s log n
    simp only [finishRun]
    cases hf : filterOutputs g s cfg.select cfg.onMissing with
    | ok vw => exact ⟨rfl, fun _ => rfl⟩
    | error e =>
      refine ⟨by cases cfg.errMode <;> rfl, fun hom => ?_⟩
      obtain ⟨vals, w, hok⟩ := C01.filterOutputs_ok g s cfg.select cfg.onMissing hom
      rw [hok] at hf; cases hf
  have hpair :
      (finishRun g cfg span parent (.done sA logA nA)).status = (finishRun g cfg span parent (.done sB logB nB)).status ∧
      (finishRun g cfg span parent (.done sA logA nA)).values = (finishRun g cfg span parent (.done sB logB nB)).values ∧
      (finishRun g cfg span parent (.done sA logA nA)).error = (finishRun g cfg span parent (.done sB logB nB)).error ∧
      (finishRun g cfg span parent (.done sA logA nA)).raised = (finishRun g cfg span parent (.done sB logB nB)).raised ∧
      (finishRun g cfg span parent (.done sA logA nA)).warnings = (finishRun g cfg span parent (.done sB logB nB)).warnings := by
    simp only [finishRun, hfo]
    cases filterOutputs g sB cfg.select cfg.onMissing with
    | ok vw => exact ⟨rfl, rfl, rfl, rfl, rfl⟩
    | error e => cases cfg.errMode <;> exact ⟨rfl, rfl, rfl, rfl, rfl⟩
  rw [hres, haut]
  exact ⟨hpair.1, hpair.2.1, hpair.2.2.1, hpair.2.2.2.1, hpair.2.2.2.2, (hfields sA logA nA).1,
    (hfields sB logB nB).1, fun h => ⟨(hfields sA logA nA).2 h, (hfields sB logB nB).2 h⟩,
    sA, sB, logA, logB, nA, nB, hA, hB, hsame, hor, hexec⟩

/-- the same for the top-level `run` of a program (the nested-run callbacks are irrelevant: the graph has
no nested-graph node) -/
theorem resume_eq_auto_run {level : Name → Nat} (sem₁ sem₂ : Sem) (order₁ order₂ : Nat → List Nat)
    (prog : Program) (root : Nat) (values' values : AL Val) (cfg : RunCfg) (o : Name) (r : Val)
    (hW : WFI (prog.getD root default) level) (hs : C01.SemTotal sem₂ (prog.getD root default))
    (hcls : FnOrIntr (prog.getD root default) o)
    (hex : ∃ i ∈ (prog.getD root default).nodes, i.kind = .interrupt)
    (hr : r ≠ Val.none) (hrs : r ≠ Val.sentinel)
    (hagree : ∀ nd ∈ (prog.getD root default).nodes, nd.kind = .fn → ∀ args, sem₁ nd args = sem₂ nd args)
    (h₂ : ∀ nd ∈ (prog.getD root default).nodes, nd.kind = .interrupt → ∀ args, sem₂ nd args = .val r)
    (hfreshV : ∀ m ∈ (prog.getD root default).nodes, ∀ o' ∈ m.outputs, AL.has values o' = false)
    (hsup : ∀ k, AL.get? (initState values').values k =
      if k = o then some r else AL.get? (initState values).values k)
    (hcov : Covered (prog.getD root default) (initState values))
    (hep : (prog.getD root default).entrypoints = .none)
    (hfuel : (prog.getD root default).nodes.length ≤ cfg.maxIter) :
    (run sem₁ (.async order₁) prog root values' cfg).status = (run sem₂ (.async order₂) prog root values cfg).status ∧
    (run sem₁ (.async order₁) prog root values' cfg).values = (run sem₂ (.async order₂) prog root values cfg).values ∧
    (run sem₁ (.async order₁) prog root values' cfg).pause = .none ∧
    (cfg.onMissing ≠ .error → (run sem₂ (.async order₂) prog root values cfg).status = .completed) := by
  obtain ⟨h1, h2, _, _, _, h6, _, h8, _⟩ :=
    resume_eq_auto (nestedAt sem₁ (.async order₁) prog prog.length) (nestedAt sem₂ (.async order₂) prog prog.length)
      sem₁ sem₂ order₁ order₂ root (prog.getD root default) values' values cfg ["r"] .none o r
      hW hs hcls hex hr hrs hagree h₂ hfreshV hsup hcov hep hfuel
  exact ⟨h1, h2, h6, fun h => (h8 h).2⟩

/-- supplying the response after the other values, or before them, satisfies the `values'` hypothesis -/
theorem supplied_append (values : AL Val) (o : Name) (r : Val) :
    ∀ k, AL.get? (initState (values ++ [(o, r)])).values k =
      if k = o then some r else AL.get? (initState values).values k := by
  intro k
  unfold initState
  rw [GState.applyOutputs_values, GState.applyOutputs_values, AL.merge_append]
  show AL.get? (AL.put (AL.merge _ values) o r) k = _
  rw [AL.get?_put]

/-! non-vacuity: `ask` under the pausing `bodySem` and under a handler that answers "yes" -/

def semYes : Sem := answering bodySem (.str "yes")

example :
    (execInterrupt bodySem 0 nAsk [("x", .int 5)] (initState [("x", .int 5)])).pause.isSome = true ∧
    (execInterrupt semYes 0 nAsk [("x", .int 5)] (initState [("x", .int 5)])).res =
      (execInterrupt bodySem 0 nAsk [("x", .int 5)] (initState [("x", .int 5), ("decision", .str "yes")])).res := by
  obtain ⟨h1, _, _, h4⟩ := resume_eq_auto_step bodySem semYes 0 nAsk [("x", .int 5)] [("x", .int 5)]
    (initState [("x", .int 5)]) (initState [("x", .int 5), ("decision", .str "yes")]) "decision" (.str "yes")
    rfl (by decide) rfl rfl (by decide) (by decide) (by decide)
  exact ⟨by rw [h1]; rfl, h4⟩

/-- C14.6, the first half of the round trip — under the same structural hypotheses, when every handler
of `sem₁` pauses and the response is NOT supplied, the run is PAUSED at the interrupt, names `o` as the
output to supply, and `o` is absent from the partial state it reports (the interrupt has no execution
record). Together with `resume_eq_auto`: pause, then re-run with `o ↦ r` = run with the answering handler. -/
theorem first_run_pauses {level : Name → Nat} (nested : Nested) (sem₁ sem₂ : Sem)
    (order : Nat → List Nat) (gi : Nat) (g : GraphD) (values : AL Val) (cfg : RunCfg)
    (span : Span) (parent : Option Span) (o : Name)
    (hW : WFI g level) (hs : C01.SemTotal sem₂ g) (hcls : FnOrIntr g o)
    (hex : ∃ i ∈ g.nodes, i.kind = .interrupt)
    (hagree : ∀ nd ∈ g.nodes, nd.kind = .fn → ∀ args, sem₁ nd args = sem₂ nd args)
    (h₁ : ∀ nd ∈ g.nodes, nd.kind = .interrupt → ∀ args, sem₁ nd args = .val .none)
    (hfreshV : ∀ m ∈ g.nodes, ∀ o' ∈ m.outputs, AL.has values o' = false)
    (hcov : Covered g (initState values))
    (hep : g.entrypoints = .none) (hfuel : g.nodes.length ≤ cfg.maxIter) :
    let first := runGraph nested sem₁ (.async order) gi g values cfg span parent
    first.status = .paused ∧ first.raised = false ∧
    ∃ p ps, first.pause = some p ∧ p.outputParam = o ∧
      (∃ i ∈ g.nodes, i.kind = .interrupt ∧ p.nodeName = i.name ∧ AL.has ps.execs i.name = false) ∧
      AL.has ps.values o = false ∧ filterOutputs g ps cfg.select .ignore = .ok (first.values, 0) := by
  obtain ⟨p, ps, log, n, hL, hpo, habs, hi⟩ :=
    first_run_pauses_core nested sem₁ sem₂ order gi g values cfg span parent o hW hs hcls hex hagree h₁
      hfreshV hcov hep hfuel
  intro first
  have hr : first = _ := pause_result_any_runner nested sem₁ (.async order) gi g values cfg span parent p ps log n hL
  refine ⟨by rw [hr], by rw [hr], p, ps, by rw [hr], hpo, hi, habs, ?_⟩
  rw [hr]; exact filterOutputs_ignore g ps cfg.select

/-- C14.6 with `sem₂ := answering sem₁ r` — "`sem₂` agrees with `sem₁` except that every handler returns `r`" -/
theorem resume_eq_auto_answering {level : Name → Nat} (nested₁ nested₂ : Nested) (sem₁ : Sem)
    (order₁ order₂ : Nat → List Nat) (gi : Nat) (g : GraphD) (values : AL Val) (cfg : RunCfg)
    (span : Span) (parent : Option Span) (o : Name) (r : Val)
    (hW : WFI g level) (hs : C01.SemTotal (answering sem₁ r) g) (hcls : FnOrIntr g o)
    (hex : ∃ i ∈ g.nodes, i.kind = .interrupt) (hr : r ≠ Val.none) (hrs : r ≠ Val.sentinel)
    (hfreshV : ∀ m ∈ g.nodes, ∀ o' ∈ m.outputs, AL.has values o' = false)
    (hcov : Covered g (initState values)) (hep : g.entrypoints = .none) (hfuel : g.nodes.length ≤ cfg.maxIter) :
    let resumed := runGraph nested₁ sem₁ (.async order₁) gi g (values ++ [(o, r)]) cfg span parent
    let auto := runGraph nested₂ (answering sem₁ r) (.async order₂) gi g values cfg span parent
    resumed.status = auto.status ∧ resumed.values = auto.values ∧ resumed.pause = .none ∧ auto.pause = .none ∧
    (cfg.onMissing ≠ .error → resumed.status = .completed ∧ auto.status = .completed) := by
  obtain ⟨h1, h2, _, _, _, h6, h7, h8, _⟩ :=
    resume_eq_auto nested₁ nested₂ sem₁ (answering sem₁ r) order₁ order₂ gi g (values ++ [(o, r)]) values cfg
      span parent o r hW hs hcls hex hr hrs (fun nd _ hk args => answering_fn sem₁ r nd hk args)
      (fun nd _ hk args => answering_interrupt sem₁ r nd hk args) hfreshV (supplied_append values o r) hcov hep hfuel
  exact ⟨h1, h2, h6, h7, h8⟩

/-! non-vacuity of the whole-run theorem: `g1` (`pre → {side, ask} → use`) satisfies every hypothesis -/

def lvl1 : Name → Nat := fun n => if n = "pre" then 0 else if n = "use" then 2 else 1

example : WFI g1 lvl1 ∧ FnOrIntr g1 "decision" ∧ Covered g1 (initState [("a", .int 1)]) ∧
    (∀ m ∈ g1.nodes, ∀ o' ∈ m.outputs, AL.has [("a", Val.int 1)] o' = false) ∧ g1.entrypoints = .none ∧
    g1.nodes.length ≤ ({} : RunCfg).maxIter ∧ C01.SemTotal semYes g1 :=
  ⟨by decide, by decide, by unfold Covered; decide, by decide, by decide, by decide,
    answering_bodySem_total _ (by decide)⟩

example :
    let resumed := run bodySem (.async ord0) prog1 0 ([("a", .int 1)] ++ [("decision", .str "yes")]) {}
    let auto := run semYes (.async fun _ => [1, 0]) prog1 0 [("a", .int 1)] {}
    resumed.status = auto.status ∧ resumed.values = auto.values ∧ auto.status = .completed := by
  have h := resume_eq_auto_run (level := lvl1) bodySem semYes ord0 (fun _ => [1, 0]) prog1 0
    ([("a", .int 1)] ++ [("decision", .str "yes")]) [("a", .int 1)] {} "decision" (.str "yes")
    (by decide) (answering_bodySem_total _ (by decide)) (by decide)
    ⟨nAsk, List.mem_of_getElem? (rfl : g1.nodes[2]? = some nAsk), rfl⟩ (by decide) (by decide)
    (fun nd _ hk args => answering_fn bodySem _ nd hk args)
    (fun nd _ hk args => answering_interrupt bodySem _ nd hk args) (by decide)
    (supplied_append _ _ _) (by unfold Covered; decide) (by decide) (by decide)
  exact ⟨h.1, h.2.1, h.2.2.2 (by decide)⟩

example :
    let first := run bodySem (.async ord0) prog1 0 [("a", .int 1)] {}
    first.status = .paused ∧ ∃ p, first.pause = some p ∧ p.outputParam = "decision" := by
  have h := first_run_pauses (level := lvl1) (nestedAt bodySem (.async ord0) prog1 prog1.length) bodySem semYes
    ord0 0 g1 [("a", .int 1)] {} ["r"] .none "decision"
    (by decide) (answering_bodySem_total _ (by decide)) (by decide)
    ⟨nAsk, List.mem_of_getElem? (rfl : g1.nodes[2]? = some nAsk), rfl⟩
    (fun nd _ hk args => answering_fn bodySem _ nd hk args)
    (by
      intro nd hn hk args
      have h3 : g1.nodes = [elabLeaf preSpec, nSide, nAsk, nUse] := rfl
      rw [h3] at hn
      simp only [List.mem_cons, List.not_mem_nil, or_false] at hn
      rcases hn with rfl | rfl | rfl | rfl
      · cases hk
      · cases hk
      · rfl
      · cases hk)
    (by decide) (by unfold Covered; decide) (by decide) (by decide)
  obtain ⟨h1, _, p, _, hp, hpo, _⟩ := h
  exact ⟨h1, p, hp, hpo⟩

/-- whole runs of `prog1`: pausing handler + response supplied on re-run = answering handler -/
example :
    let paused := run bodySem (.async ord0) prog1 0 [("a", .int 1)] { select := .all }
    let resumed := run bodySem (.async ord0) prog1 0 [("a", .int 1), ("decision", .str "yes")] { select := .all }
    let auto := run semYes (.async ord0) prog1 0 [("a", .int 1)] { select := .all }
    paused.status = .paused ∧ resumed.status = .completed ∧ auto.status = .completed ∧
    resumed.values = auto.values ∧ AL.get? auto.values "decision" = some (.str "yes") ∧
    AL.has auto.values "out" = true ∧ AL.has auto.values "s" = true := by decide

/-! ## 9. one interrupt at a time -/

/-- `a(x) → da` and `b(da) → db` both pause; `c(db) → out` -/
def progAB : Program := elabProgram [{ name := "ab", nodes := [
  { name := "a", kind := .interrupt, params := [("x", .none)], dataOuts := ["da"], body := .handler .none },
  { name := "b", kind := .interrupt, params := [("da", .none)], dataOuts := ["db"], body := .handler .none },
  { name := "c", kind := .fn, params := [("db", .none)], dataOuts := ["out"], body := .tag "c" }] }]

def runAB (values : AL Val) : RunOut := run bodySem (.async ord0) progAB 0 values { select := .all }

/-- C14.9 (concrete) — the first run pauses at `a`; re-running with `a`'s response pauses at `b`
(surfacing the supplied `da` as the value to review); re-running with both responses completes and `c`
has consumed `b`'s response. Each run calls exactly the one pending handler. -/
theorem one_at_a_time :
    (runAB [("x", .int 1)]).status = .paused ∧
    (runAB [("x", .int 1)]).pause =
      some { nodeName := "a", outputParam := "da", value := .int 1, outputParams := .none, values := .none } ∧
    (runAB [("x", .int 1)]).values = [] ∧
    callsOf "0:a" (runAB [("x", .int 1)]).log = 1 ∧ callsOf "0:b" (runAB [("x", .int 1)]).log = 0 ∧
    (runAB [("x", .int 1), ("da", .str "ra")]).status = .paused ∧
    (runAB [("x", .int 1), ("da", .str "ra")]).pause =
      some { nodeName := "b", outputParam := "db", value := .str "ra", outputParams := .none, values := .none } ∧
    (runAB [("x", .int 1), ("da", .str "ra")]).values = [("da", .str "ra")] ∧
    callsOf "0:a" (runAB [("x", .int 1), ("da", .str "ra")]).log = 0 ∧
    callsOf "0:b" (runAB [("x", .int 1), ("da", .str "ra")]).log = 1 ∧
    (runAB [("x", .int 1), ("da", .str "ra"), ("db", .str "rb")]).status = .completed ∧
    (runAB [("x", .int 1), ("da", .str "ra"), ("db", .str "rb")]).pause = .none ∧
    (runAB [("x", .int 1), ("da", .str "ra"), ("db", .str "rb")]).values =
      [("da", .str "ra"), ("db", .str "rb"), ("out", Val.mkTup [.str "c", .str "rb"])] ∧
    callsOf "0:a" (runAB [("x", .int 1), ("da", .str "ra"), ("db", .str "rb")]).log = 0 ∧
    callsOf "0:b" (runAB [("x", .int 1), ("da", .str "ra"), ("db", .str "rb")]).log = 0 :=
  ⟨by decide, rfl, by decide, by decide, by decide, by decide, rfl, by decide, by decide, by decide,
    by decide, rfl, by decide, by decide, by decide⟩

/-- C14.9 (general) — a paused run names exactly one pending interrupt. The result object carries a
single `PauseInfo` (`pause : Option PauseInfo`); it is produced by the FIRST superstep that does not
succeed: all `j` earlier steps succeeded (`stateAfter … j … = some s0`: none of them paused, whatever
interrupts they passed), and in that step — whenever its ready list contains an interrupt — the pause is
the one of the first interrupt in ready order, which ran alone, and the partial state `ps` is the state
that step was handed. -/
theorem one_pause_per_run (nested : Nested) (sem : Sem) (order : Nat → List Nat) (gi : Nat) (g : GraphD)
    (values : AL Val) (cfg : RunCfg) (span : Span) (parent : Option Span)
    (p : PauseInfo) (ps : GState) (log : List Log) (n : Nat)
    (h : runGraphLoop nested sem (.async order) gi g values cfg span parent = .pause p ps log n) :
    (runGraph nested sem (.async order) gi g values cfg span parent).pause = some p ∧
    ∃ j s0, stateAfter (runStep nested sem (.async order) gi g span) g (activeNodeSet g) j 0 (initState values)
        = some s0 ∧
      n = j + 1 ∧
      (∃ l, stepAsync nested sem gi g span j (order j) (ready g (activeNodeSet g) s0).2
          (ready g (activeNodeSet g) s0).1 = .pause p ps l) ∧
      ∀ i, (ready g (activeNodeSet g) s0).1.find? (·.isInterrupt) = some i →
        ready g (activeNodeSet g) s0 = ((ready g (activeNodeSet g) s0).1, ps) ∧
        p.nodeName = i.name ∧ i.dataOuts.head? = some p.outputParam ∧
        (∃ pre post, (ready g (activeNodeSet g) s0).1 = pre ++ i :: post ∧ ∀ a ∈ pre, a.isInterrupt = false) ∧
        ∃ inputs, collectInputs g ps i i.inputs = some inputs ∧ (execInterrupt sem gi i inputs ps).pause = some p := by
  refine ⟨by rw [pause_result_any_runner _ _ _ _ _ _ _ _ _ p ps log n h], ?_⟩
  obtain ⟨j, s0, l, hst, _, hn, _, hstep⟩ :=
    runLoop_pause_stateAfter _ g _ _ _ _ _ _ p ps log n h
  have hstep' : stepAsync nested sem gi g span j (order j) (ready g (activeNodeSet g) s0).2
      (ready g (activeNodeSet g) s0).1 = .pause p ps l := by
    simpa [runStep] using hstep
  refine ⟨j, s0, hst, by omega, ⟨l, hstep'⟩, ?_⟩
  intro i hi
  obtain ⟨hps, inputs, hc, hp⟩ := isolated_pause nested sem gi g span j (order j) _ _ i p ps l hi hstep'
  rw [← hps] at hc hp
  obtain ⟨hname, hhead, _⟩ := pause_info_shape sem gi i inputs ps p hp
  obtain ⟨_, as, bs, hab, has⟩ := List.find?_eq_some_iff_append.1 hi
  exact ⟨by rw [hps], hname, hhead, ⟨as, bs, hab, fun a ha => by simpa using has a ha⟩, inputs, hc, hp⟩

/-- two pausing interrupts ready in the SAME step: only the first in ready order is named -/
def progPar : Program := elabProgram [{ name := "par", nodes := [
  { name := "a", kind := .interrupt, params := [("x", .none)], dataOuts := ["da"], body := .handler .none },
  { name := "b", kind := .interrupt, params := [("x", .none)], dataOuts := ["db"], body := .handler .none }] }]

example :
    let r := run bodySem (.async ord0) progPar 0 [("x", .int 1)] {}
    (r.pause.map (·.nodeName)) = some "a" ∧ callsOf "0:a" r.log = 1 ∧ callsOf "0:b" r.log = 0 := by decide

/-! ## 4. no dependant of the interrupt ran -/

/-- C14.4 — invariant of the runner loop (async runner): every node with an execution record had all its
inputs available when it ran, and values only grow; so in the partial state `ps` of a paused run every
executed node — the successful siblings of a pausing nested-graph node included: they were ready — has all
its inputs available in `ps`. Contrapositive: a node one of whose inputs is
unavailable in `ps` (not in the state, not bound, no default) has NO execution record — it never ran. -/
theorem executed_had_inputs (nested : Nested) (sem : Sem) (order : Nat → List Nat) (gi : Nat) (g : GraphD)
    (values : AL Val) (cfg : RunCfg) (span : Span) (parent : Option Span)
    (hnames : (g.nodes.map (·.name)).Nodup)
    (p : PauseInfo) (ps : GState) (log : List Log) (n : Nat)
    (h : runGraphLoop nested sem (.async order) gi g values cfg span parent = .pause p ps log n) :
    (∀ nd ∈ g.nodes, AL.has ps.execs nd.name = true → ∀ q ∈ nd.inputs, hasInput g ps nd q = true) ∧
    (∀ nd ∈ g.nodes, ∀ q ∈ nd.inputs, hasInput g ps nd q = false → AL.has ps.execs nd.name = false) := by
  have hI : ExecsHaveInputs g ps :=
    runLoop_pause_execsHaveInputs (stepAsync_grows nested sem gi g span order)
      (stepAsync_pause_grows nested sem gi g span order) g _ _ _ _ _ _ p ps log n
      (execsHaveInputs_init g values) h
  have h1 : ∀ nd ∈ g.nodes, AL.has ps.execs nd.name = true → ∀ q ∈ nd.inputs, hasInput g ps nd q = true := by
    intro nd hn hex
    obtain ⟨nd', hn', hname, hin⟩ := hI nd.name hex
    have : nd' = nd := C01.mem_unique_of_nodup_map (·.name) g.nodes hnames nd' hn' nd hn hname
    subst this
    exact hin
  refine ⟨h1, ?_⟩
  intro nd hn q hq hfalse
  cases hex : AL.has ps.execs nd.name with
  | false => rfl
  | true => rw [h1 nd hn hex q hq] at hfalse; cases hfalse

/-- C14.4 — in a run paused by the interrupt `i` (the pausing step's ready list contains `i`; single data
output `o`; first visit: `i` has no execution record), `o` is ABSENT from the returned partial state, and
no node that needs `o` as an input — with no other source for it: not bound, no default — has an
execution record: no dependant of the interrupt ran before the pause. -/
theorem no_dependant_ran (nested : Nested) (sem : Sem) (order : Nat → List Nat) (gi : Nat) (g : GraphD)
    (values : AL Val) (cfg : RunCfg) (span : Span) (parent : Option Span)
    (hnames : (g.nodes.map (·.name)).Nodup)
    (p : PauseInfo) (ps : GState) (log : List Log) (n : Nat)
    (h : runGraphLoop nested sem (.async order) gi g values cfg span parent = .pause p ps log n)
    (i : NodeD) (o : Name) (hd : i.dataOuts = [o])
    (hpi : ∃ inputs, (execInterrupt sem gi i inputs ps).pause = some p)
    (hfirst : AL.has ps.execs i.name = false) :
    AL.has ps.values o = false ∧
    (filterOutputs g ps cfg.select .ignore = .ok ((runGraph nested sem (.async order) gi g values cfg span parent).values, 0)) ∧
    ∀ nd ∈ g.nodes, o ∈ nd.inputs → AL.has g.spec.bound o = false → nd.hasDefault.contains o = false →
      AL.has ps.execs nd.name = false := by
  obtain ⟨inputs, hp⟩ := hpi
  obtain ⟨hnr, _⟩ := (execInterrupt_pause_iff sem gi i inputs ps p).1 hp
  have habs : AL.has ps.values o = false := by
    unfold resumable at hnr
    simp only [hd, List.all_cons, List.all_nil, Bool.and_true, hfirst, Bool.not_false] at hnr
    exact hnr
  refine ⟨habs, ?_, ?_⟩
  · rw [pause_result_any_runner _ _ _ _ _ _ _ _ _ p ps log n h]
    exact filterOutputs_ignore g ps cfg.select
  · intro nd hn ho hb hdf
    apply (executed_had_inputs nested sem order gi g values cfg span parent hnames p ps log n h).2 nd hn o ho
    unfold hasInput
    rw [habs, hb, hdf]; rfl

/-! non-vacuity: the paused run of `prog1` (`pre` ran in step 0; step 1 = `[side, ask]` paused at `ask`) -/

def loop1 : LoopOut :=
  runGraphLoop (nestedAt bodySem (.async ord0) prog1 1) bodySem (.async ord0) 0 g1 [("a", .int 1)] {} ["r"] .none
def ps1 : GState := match loop1 with | .pause _ ps _ _ => ps | _ => default
def p1 : PauseInfo :=
  { nodeName := "ask", outputParam := "decision", value := Val.mkTup [.str "pre", .int 1],
    outputParams := .none, values := .none }

example : ∃ log, loop1 = .pause p1 ps1 log 2 := ⟨_, rfl⟩

/-- the dependant `use` has no execution record, `pre` has one; neither has the sibling `side` -/
example : AL.has ps1.values "decision" = false ∧ AL.has ps1.execs "use" = false := by
  obtain ⟨log, hl⟩ : ∃ log, loop1 = .pause p1 ps1 log 2 := ⟨_, rfl⟩
  have h := no_dependant_ran (nestedAt bodySem (.async ord0) prog1 1) bodySem ord0 0 g1 [("a", .int 1)] {} ["r"]
    .none (by decide) p1 ps1 log 2 hl nAsk "decision" rfl
    ⟨[("x", Val.mkTup [.str "pre", .int 1])], rfl⟩ (by decide)
  exact ⟨h.1, h.2.2 nUse (List.mem_of_getElem? (rfl : g1.nodes[3]? = some nUse)) (by decide) (by decide) (by decide)⟩

example : AL.has ps1.execs "pre" = true ∧ AL.has ps1.execs "side" = false ∧ AL.has ps1.execs "ask" = false := by
  decide

end HG.C14
