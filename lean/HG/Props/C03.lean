import HG.Lemmas.Ready
/-! # C03 — gate routing safety

A gated node starts only when one of its controlling gates activates it (by a decision that is
current, or by being default-open and never executed); a gate and its targets never start in the
same superstep; END is terminal and activates nothing; a closed-by-default gated node starts
only on an explicit decision naming it; a superstep starts exactly the nodes it was given. -/
namespace HG.C03
open HG

/-! ## concrete graphs for the non-vacuity examples -/

/-- route gate `c` (no inputs) with targets `t`, END -/
def nC : NodeD := elabLeaf { name := "c", kind := .route, targets := [.node "t", .end_] }
/-- the same gate, closed by default -/
def nCclosed : NodeD := elabLeaf { name := "c", kind := .route, targets := [.node "t", .end_], defaultOpen := false }
/-- the same gate with an input `x` -/
def nCx : NodeD := elabLeaf { name := "c", kind := .route, params := [("x", .none)], targets := [.node "t", .end_] }
/-- a gate that targets itself and `t` -/
def nCself : NodeD := elabLeaf { name := "c", kind := .route, targets := [.node "c", .node "t"] }
/-- plain function node `t` -/
def nT : NodeD := elabLeaf { name := "t", kind := .fn, dataOuts := ["y"] }

def mkG (nodes : List NodeD) : GraphD :=
  { name := "g", nodes := nodes, bound := [], selected := .none, entrypoints := .none, edges := []
    spec := { required := [], optional := [], entrypoints := [], bound := [] } }

/-- gate executed (no inputs, so never stale) and decided `t` -/
def sDecided : GState :=
  { execs := [("c", { inputVersions := [], waitForVersions := [] })], decisions := [("c", .one "t")] }

/-! ## 1. a ready gated node is activated by a current decision or a default-open gate -/

/-- Unconditional part (arbitrary graph, state, active set): some controlling gate either holds a
decision naming the node or is default-open, undecided and never executed. -/
theorem ready_is_activated_partial (g : GraphD) (act : Option (List Name)) (s : GState) (nd : NodeD)
    (h : nd ∈ (ready g act s).1) (hg : controlledBy g.nodes nd.name ≠ []) :
    ∃ c ∈ controlledBy g.nodes nd.name,
      let s1 := (ready g act s).2
      ((∃ d, AL.get? s1.decisions c.name = some d ∧ decisionNames d nd.name = true) ∨
       (AL.get? s1.decisions c.name = .none ∧ AL.has s1.execs c.name = false ∧ c.defaultOpen = true)) := by
  have hr := ((isReady_iff g _ nd).1 (ready_isReady h)).1
  obtain ⟨c, hc, hcase⟩ := activated_gated g _ nd.name hr hg
  exact ⟨c, hc, hcase⟩

/-- Full statement. Extra hypothesis (needed, see the counterexample below): the keys of
`s.decisions` are unique — true of every reachable state, since decisions are only ever written
with `AL.put`. Uniqueness of node names is NOT needed. -/
theorem ready_is_activated (g : GraphD) (act : Option (List Name)) (s : GState) (nd : NodeD)
    (hk : (AL.keys s.decisions).Nodup)
    (h : nd ∈ (ready g act s).1) (hg : controlledBy g.nodes nd.name ≠ []) :
    ∃ c ∈ controlledBy g.nodes nd.name,
      let s1 := (ready g act s).2
      ((∃ d, AL.get? s1.decisions c.name = some d ∧ decisionNames d nd.name = true ∧
          needsExec g s1 c = false) ∨
       (AL.get? s1.decisions c.name = .none ∧ AL.has s1.execs c.name = false ∧ c.defaultOpen = true)) := by
  obtain ⟨c, hc, hcase⟩ := ready_is_activated_partial g act s nd h hg
  refine ⟨c, hc, ?_⟩
  rcases hcase with ⟨d, hd, hn⟩ | hopen
  · have hm := (mem_controlledBy g.nodes nd.name c).1 hc
    exact Or.inl ⟨d, hd, hn,
      clearStale_current g s hk c hm.1 hm.2.1 d hd (decisionNames_ne_end d nd.name hn)⟩
  · exact Or.inr hopen

/-- the decision-key invariant is established by the empty state and preserved by every write the
runners perform (`AL.put`) and by `clearStale` -/
theorem decisions_nodup_init : (AL.keys ({} : GState).decisions).Nodup := List.nodup_nil
theorem decisions_nodup_put (s : GState) (c : Name) (d : Dec) (h : (AL.keys s.decisions).Nodup) :
    (AL.keys ({ s with decisions := AL.put s.decisions c d }).decisions).Nodup :=
  AL.nodup_keys_put₁ _ _ _ h
theorem decisions_nodup_clearStale (g : GraphD) (s : GState) (h : (AL.keys s.decisions).Nodup) :
    (AL.keys (clearStale g s).decisions).Nodup := clearStale_nodup g s h

theorem ready_nT : (ready (mkG [nC, nT]) .none sDecided).1 = [nT] := rfl
theorem ctl_nT : controlledBy (mkG [nC, nT]).nodes nT.name = [nC] := rfl

/-- non-vacuity (decision branch): gate `c` ran and chose `t`; `t` is ready -/
example : ∃ c ∈ controlledBy (mkG [nC, nT]).nodes nT.name,
    let s1 := (ready (mkG [nC, nT]) .none sDecided).2
    ((∃ d, AL.get? s1.decisions c.name = some d ∧ decisionNames d nT.name = true ∧
        needsExec (mkG [nC, nT]) s1 c = false) ∨
     (AL.get? s1.decisions c.name = .none ∧ AL.has s1.execs c.name = false ∧ c.defaultOpen = true)) :=
  ready_is_activated (mkG [nC, nT]) .none sDecided nT (by decide)
    (by rw [ready_nT]; exact List.mem_singleton.2 rfl) (by rw [ctl_nT]; exact List.cons_ne_nil _ _)

theorem ready_open : (ready (mkG [nCx, nT]) .none {}).1 = [nT] := rfl
/-- non-vacuity (default-open branch): gate `c` waits for `x`, never ran; `t` starts -/
example : ∃ c ∈ controlledBy (mkG [nCx, nT]).nodes nT.name,
    let s1 := (ready (mkG [nCx, nT]) .none {}).2
    ((∃ d, AL.get? s1.decisions c.name = some d ∧ decisionNames d nT.name = true ∧
        needsExec (mkG [nCx, nT]) s1 c = false) ∨
     (AL.get? s1.decisions c.name = .none ∧ AL.has s1.execs c.name = false ∧ c.defaultOpen = true)) :=
  ready_is_activated (mkG [nCx, nT]) .none {} nT (by decide)
    (by rw [ready_open]; exact List.mem_singleton.2 rfl)
    (by rw [show controlledBy (mkG [nCx, nT]).nodes nT.name = [nCx] from rfl]; exact List.cons_ne_nil _ _)

/-- a state whose `decisions` list carries a shadowed duplicate entry for `c` -/
def sShadow : GState := { decisions := [("c", .one "zzz"), ("c", .one "t")] }
/-- Counterexample to the full statement without the key-uniqueness hypothesis: `AL.del` removes
only the first entry for `c`, the shadowed one then activates `t` although `c` needs execution. -/
example :
    (ready (mkG [nCx, nT]) .none sShadow).1.map (·.name) = ["t"] ∧
    controlledBy (mkG [nCx, nT]).nodes "t" = [nCx] ∧
    AL.get? (ready (mkG [nCx, nT]) .none sShadow).2.decisions "c" = some (.one "t") ∧
    needsExec (mkG [nCx, nT]) (ready (mkG [nCx, nT]) .none sShadow).2 nCx = true :=
  ⟨rfl, rfl, rfl, rfl⟩

/-! ## 2. a gate and its targets never start together -/

theorem ready_not_blocked (g : GraphD) (act : Option (List Name)) (s : GState) (nd c : NodeD)
    (h : nd ∈ (ready g act s).1) (hc : c ∈ (ready g act s).1) (hgate : c.isGate = true)
    (ht : nd.name ∈ c.targetNames) : nd.name = c.name :=
  ((mem_ready1 g act s nd).1 (ready_sub_ready1 h)).2 c (ready_sub_ready0 hc) hgate ht

theorem ready_self : (ready (mkG [nCself, nT]) .none {}).1 = [nCself] := rfl
/-- non-vacuity: a self-targeting gate is ready (so `nd = c` is the only possibility), and `t`,
which is individually ready (default-open gate), is held back -/
example : nCself.name = nCself.name :=
  ready_not_blocked (mkG [nCself, nT]) .none {} nCself nCself
    (by rw [ready_self]; exact List.mem_singleton.2 rfl)
    (by rw [ready_self]; exact List.mem_singleton.2 rfl) rfl (by decide)
example : isReady (mkG [nCself, nT]) (clearStale (mkG [nCself, nT]) {}) nT = true ∧
    (ready (mkG [nCself, nT]) .none {}).1.map (·.name) = ["c"] := ⟨rfl, rfl⟩

/-! ## 3. END is terminal and activates nothing -/

theorem end_never_cleared (g : GraphD) (s : GState) (c : Name)
    (h : AL.get? s.decisions c = some Dec.end_) :
    AL.get? (clearStale g s).decisions c = some Dec.end_ :=
  clearFold_end g g.nodes s c h

theorem end_activates_nothing (n : Name) : decisionNames Dec.end_ n = false := rfl
theorem none_activates_nothing (n : Name) : decisionNames Dec.none n = false := rfl

/-- non-vacuity: gate `c` needs execution (never ran); an END decision survives clearing while a
node decision is cleared -/
example : AL.get? (clearStale (mkG [nC, nT]) { decisions := [("c", .end_)] }).decisions "c" = some Dec.end_ :=
  end_never_cleared (mkG [nC, nT]) { decisions := [("c", .end_)] } "c" rfl
example : needsExec (mkG [nC, nT]) { decisions := [("c", .end_)] } nC = true ∧
    AL.get? (clearStale (mkG [nC, nT]) { decisions := [("c", .one "t")] }).decisions "c" = .none := ⟨rfl, rfl⟩

/-! ## 4. closed-by-default gates: only an explicit decision starts the node -/

theorem closed_gates_exact (g : GraphD) (act : Option (List Name)) (s : GState) (nd : NodeD)
    (hg : controlledBy g.nodes nd.name ≠ [])
    (hclosed : ∀ c ∈ controlledBy g.nodes nd.name, c.defaultOpen = false)
    (h : nd ∈ (ready g act s).1) :
    ∃ c ∈ controlledBy g.nodes nd.name, ∃ d,
      AL.get? (ready g act s).2.decisions c.name = some d ∧ decisionNames d nd.name = true := by
  obtain ⟨c, hc, hcase⟩ := ready_is_activated_partial g act s nd h hg
  rcases hcase with ⟨d, hd, hn⟩ | ⟨_, _, ho⟩
  · exact ⟨c, hc, d, hd, hn⟩
  · rw [hclosed c hc] at ho; cases ho

/-- with unique decision keys the decision is moreover current -/
theorem closed_gates_exact_current (g : GraphD) (act : Option (List Name)) (s : GState) (nd : NodeD)
    (hk : (AL.keys s.decisions).Nodup)
    (hg : controlledBy g.nodes nd.name ≠ [])
    (hclosed : ∀ c ∈ controlledBy g.nodes nd.name, c.defaultOpen = false)
    (h : nd ∈ (ready g act s).1) :
    ∃ c ∈ controlledBy g.nodes nd.name, ∃ d,
      AL.get? (ready g act s).2.decisions c.name = some d ∧ decisionNames d nd.name = true ∧
      needsExec g (ready g act s).2 c = false := by
  obtain ⟨c, hc, hcase⟩ := ready_is_activated g act s nd hk h hg
  rcases hcase with ⟨d, hd, hn, hcur⟩ | ⟨_, _, ho⟩
  · exact ⟨c, hc, d, hd, hn, hcur⟩
  · rw [hclosed c hc] at ho; cases ho

theorem ready_closed : (ready (mkG [nCclosed, nT]) .none sDecided).1 = [nT] := rfl
theorem ctl_closed : controlledBy (mkG [nCclosed, nT]).nodes nT.name = [nCclosed] := rfl
/-- non-vacuity: closed gate decided `t` -/
example : ∃ c ∈ controlledBy (mkG [nCclosed, nT]).nodes nT.name, ∃ d,
    AL.get? (ready (mkG [nCclosed, nT]) .none sDecided).2.decisions c.name = some d ∧
    decisionNames d nT.name = true :=
  closed_gates_exact (mkG [nCclosed, nT]) .none sDecided nT
    (by rw [ctl_closed]; exact List.cons_ne_nil _ _)
    (by rw [ctl_closed]; intro c hc; rw [List.mem_singleton.1 hc]; rfl)
    (by rw [ready_closed]; exact List.mem_singleton.2 rfl)
/-- …and without a decision the closed gate keeps `t` from starting (it would start if open) -/
example : (ready (mkG [nCclosed, nT]) .none
    { execs := [("c", { inputVersions := [], waitForVersions := [] })] }).1.map (·.name) = [] := rfl

/-! ## 5. a superstep starts only the nodes it was given

`StepOut.log` is the log of a step outcome. A node of kind `graph` splices the log of its nested
run into the step's log, and `stepSync`/`stepAsync` take the nested runner as an arbitrary
parameter `nested : Nested`; for an arbitrary `nested` the statement is false (counterexample
below). The hypothesis `NestedScoped nested` says that every event logged by a nested run/map
started under node span `sp` has a parent span of the form `sp ++ p`; it is *proved* for the real
nested runner `nestedAt sem runner prog d` at every depth (`nestedAt_scoped`), which gives the
hypothesis-free corollaries `…_nestedAt`. Since the node span is `runSpan ++ [node#k]`, nested
events never have parent `runSpan`, so the `NodeStart` events with parent `runSpan` are exactly
the directly emitted ones. -/

theorem step_runs_only_ready (nested : Nested) (hn : NestedScoped nested) (sem : Sem) (gi : Nat)
    (g : GraphD) (runSpan : Span) (k : Nat) (s : GState) (rs : List NodeD) (e : Ev)
    (h : Log.ev e ∈ (stepSync nested sem gi g runSpan k s rs s []).log)
    (hk : e.kind = "NodeStart") (hp : e.parent = some runSpan) : e.name ∈ rs.map (·.name) := by
  rcases stepSync_events nested hn sem gi g runSpan k s rs s [] e h with h | ⟨nd, hnd, hev⟩
  · cases h
  · exact List.mem_map.2 ⟨nd, hnd, (nodeEv_start runSpan k nd e hev hk hp).symm⟩

theorem step_runs_only_ready_async (nested : Nested) (hn : NestedScoped nested) (sem : Sem) (gi : Nat)
    (g : GraphD) (runSpan : Span) (k : Nat) (order : List Nat) (s : GState) (rs : List NodeD) (e : Ev)
    (h : Log.ev e ∈ (stepAsync nested sem gi g runSpan k order s rs).log)
    (hk : e.kind = "NodeStart") (hp : e.parent = some runSpan) : e.name ∈ rs.map (·.name) := by
  obtain ⟨nd, hnd, hev⟩ := stepAsync_events nested hn sem gi g runSpan k order s rs e h
  exact List.mem_map.2 ⟨nd, hnd, (nodeEv_start runSpan k nd e hev hk hp).symm⟩

/-- the real nested runner, any program (cyclic, nested), any depth: no hypothesis -/
theorem step_runs_only_ready_nestedAt (sem : Sem) (runner : Runner) (prog : Program) (d : Nat) (gi : Nat)
    (g : GraphD) (runSpan : Span) (k : Nat) (s : GState) (rs : List NodeD) (e : Ev)
    (h : Log.ev e ∈ (stepSync (nestedAt sem runner prog d) sem gi g runSpan k s rs s []).log)
    (hk : e.kind = "NodeStart") (hp : e.parent = some runSpan) : e.name ∈ rs.map (·.name) :=
  step_runs_only_ready _ (nestedAt_scoped sem runner prog d) sem gi g runSpan k s rs e h hk hp

theorem step_runs_only_ready_async_nestedAt (sem : Sem) (runner : Runner) (prog : Program) (d : Nat) (gi : Nat)
    (g : GraphD) (runSpan : Span) (k : Nat) (order : List Nat) (s : GState) (rs : List NodeD) (e : Ev)
    (h : Log.ev e ∈ (stepAsync (nestedAt sem runner prog d) sem gi g runSpan k order s rs).log)
    (hk : e.kind = "NodeStart") (hp : e.parent = some runSpan) : e.name ∈ rs.map (·.name) :=
  step_runs_only_ready_async _ (nestedAt_scoped sem runner prog d) sem gi g runSpan k order s rs e h hk hp

/-- Combined with the runner loop: the step function `runGraph` builds is called on
`(ready g active s).1`, so a started node is in the ready set and inherits 1–4. -/
theorem started_is_ready (sem : Sem) (runner : Runner) (prog : Program) (d : Nat) (gi : Nat)
    (g : GraphD) (act : Option (List Name)) (runSpan : Span) (k : Nat) (s : GState) (e : Ev)
    (h : Log.ev e ∈ (stepSync (nestedAt sem runner prog d) sem gi g runSpan k (ready g act s).2
                      (ready g act s).1 (ready g act s).2 []).log)
    (hk : e.kind = "NodeStart") (hp : e.parent = some runSpan) :
    ∃ nd ∈ (ready g act s).1, nd.name = e.name := by
  have := step_runs_only_ready_nestedAt sem runner prog d gi g runSpan k _ _ e h hk hp
  obtain ⟨nd, hnd, hn⟩ := List.mem_map.1 this
  exact ⟨nd, hnd, hn⟩

/-- the start event of `t` in the step that runs `[t]` -/
def startT : Ev := { kind := "NodeStart", span := ["r", "t#0"], parent := some ["r"], name := "t" }

theorem stepT_log :
    (stepSync (nestedAt bodySem .sync [] 0) bodySem 0 (mkG [nC, nT]) ["r"] 0 sDecided [nT] sDecided []).log =
      [Log.ev startT, Log.call "0:t" [],
       Log.ev { kind := "NodeEnd", span := ["r", "t#0"], parent := some ["r"], name := "t" }] := by
  rfl

/-- non-vacuity: the step on the ready set `[t]` of example 1 logs exactly one start, that of `t` -/
example : startT.name ∈ [nT].map (·.name) :=
  step_runs_only_ready_nestedAt bodySem .sync [] 0 0 (mkG [nC, nT]) ["r"] 0 sDecided [nT] startT
    (by rw [stepT_log]; exact List.mem_cons_self) rfl rfl
example : (stepAsync (nestedAt bodySem .sync [] 0) bodySem 0 (mkG [nC, nT]) ["r"] 0 [0] sDecided [nT]).log =
    [Log.ev startT, Log.call "0:t" [],
     Log.ev { kind := "NodeEnd", span := ["r", "t#0"], parent := some ["r"], name := "t" }] := by rfl

/-- a nested-graph node and a fake nested runner that logs a start event of a node `ghost`
directly under the outer run span -/
def nSub : NodeD := elabLeaf { name := "sub", kind := .graph }
def ghost : Ev := { kind := "NodeStart", span := ["r", "ghost#0"], parent := some ["r"], name := "ghost" }
def badNested : Nested :=
  { run := fun _ _ _ => { status := .completed, log := [.ev ghost] }
    map := fun _ _ _ _ _ _ => {} }
/-- counterexample for an arbitrary `nested`: `ghost` is started under `["r"]` but was not given -/
example : Log.ev ghost ∈ (stepSync badNested bodySem 0 (mkG [nSub]) ["r"] 0 {} [nSub] {} []).log ∧
    ghost.kind = "NodeStart" ∧ ghost.parent = some ["r"] ∧ ghost.name ∉ [nSub].map (·.name) := by
  refine ⟨?_, rfl, rfl, by decide⟩
  have : (stepSync badNested bodySem 0 (mkG [nSub]) ["r"] 0 {} [nSub] {} []).log =
      [Log.ev { kind := "NodeStart", span := ["r", "sub#0"], parent := some ["r"], name := "sub" },
       Log.ev ghost,
       Log.ev { kind := "NodeEnd", span := ["r", "sub#0"], parent := some ["r"], name := "sub" }] := by rfl
  rw [this]; exact List.mem_cons_of_mem _ List.mem_cons_self

end HG.C03
