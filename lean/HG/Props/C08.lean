import HG.Lemmas.Spec
/-! # C08 — the reported input specification is exact; violations are rejected before execution

`computeInputSpec` partitions the parameters of the active nodes into required / optional / cycle
entry-point parameters; binding moves a name from required to optional and un-binding restores the
spec; `runChecked` validates strictly before running; with nothing unexpected supplied a DAG call
that covers `required` is accepted silently and one that omits a required name is rejected with
`MissingInputError`; runtime `select` names are checked against the graph's outputs; inner bindings
of a nested graph are visible only under the wrapper's current input names. -/
namespace HG.C08
open HG HG.Spec

/-! ## 1. required / optional / entry-point parameters are pairwise disjoint and duplicate-free -/

theorem disjoint (nodes : List NodeD) (es : List Edge) (bound : AL Val) (eps sel : Option (List Name)) :
    (∀ p, ¬ (p ∈ (computeInputSpec nodes es bound eps sel).required ∧
             p ∈ (computeInputSpec nodes es bound eps sel).optional)) ∧
    (∀ p ∈ (computeInputSpec nodes es bound eps sel).entrypoints.flatMap (·.2),
        p ∉ (computeInputSpec nodes es bound eps sel).required ∧
        p ∉ (computeInputSpec nodes es bound eps sel).optional) ∧
    (computeInputSpec nodes es bound eps sel).required.Nodup ∧
    (computeInputSpec nodes es bound eps sel).optional.Nodup := by
  refine ⟨?_, ?_, required_nodup .., optional_nodup ..⟩
  · rintro p ⟨hr, ho⟩
    obtain ⟨_, _, _, hb, hd⟩ := (mem_required ..).1 hr
    obtain ⟨_, _, _, h⟩ := (mem_optional ..).1 ho
    rcases h with h | h
    · rw [hb] at h; cases h
    · rw [hd] at h; cases h
  · intro p hp
    exact ⟨fun hr => ((mem_required ..).1 hr).2.1 hp, fun ho => ((mem_optional ..).1 ho).2.1 hp⟩

/-- non-vacuity: the bound DAG (`x` required; `k`, `c` optional) and the two-node cycle (`z`
required; `x`, `y` entry-point parameters) -/
example : dagG.spec.required = ["x"] ∧ dagG.spec.optional = ["k", "c"] := by decide
example : cycG.spec.required = ["z"] ∧ cycG.spec.entrypoints = [("a", ["x"]), ("b", ["y"])] := by decide
example : ∀ p ∈ cycG.spec.entrypoints.flatMap (·.2), p ∉ cycG.spec.required ∧ p ∉ cycG.spec.optional :=
  (disjoint _ _ _ _ _).2.1

/-! ## 2. exact characterisation of `required` and `optional` -/

theorem required_characterisation (nodes : List NodeD) (es : List Edge) (bound : AL Val)
    (eps sel : Option (List Name)) (p : Name) :
    p ∈ (computeInputSpec nodes es bound eps sel).required ↔
      (∃ n ∈ (activeScope nodes es eps sel).1, p ∈ n.inputs) ∧
      p ∉ edgeProduced (activeScope nodes es eps sel).2 ∧
      p ∉ (computeInputSpec nodes es bound eps sel).entrypoints.flatMap (·.2) ∧
      AL.has bound p = false ∧
      (∀ n ∈ (activeScope nodes es eps sel).1, p ∈ n.inputs → p ∉ n.hasDefault) := by
  rw [mem_required, mem_uniqueParams, anyNodeHasDefault_false]
  constructor
  · rintro ⟨h1, h2, h3, h4, h5⟩; exact ⟨h1, h3, h2, h4, h5⟩
  · rintro ⟨h1, h3, h2, h4, h5⟩; exact ⟨h1, h2, h3, h4, h5⟩

theorem optional_characterisation (nodes : List NodeD) (es : List Edge) (bound : AL Val)
    (eps sel : Option (List Name)) (p : Name) :
    p ∈ (computeInputSpec nodes es bound eps sel).optional ↔
      (∃ n ∈ (activeScope nodes es eps sel).1, p ∈ n.inputs) ∧
      p ∉ edgeProduced (activeScope nodes es eps sel).2 ∧
      p ∉ (computeInputSpec nodes es bound eps sel).entrypoints.flatMap (·.2) ∧
      (AL.has bound p = true ∨
        ∃ n ∈ (activeScope nodes es eps sel).1, p ∈ n.inputs ∧ p ∈ n.hasDefault) := by
  rw [mem_optional, mem_uniqueParams, anyNodeHasDefault_true]
  constructor
  · rintro ⟨h1, h2, h3, h4⟩; exact ⟨h1, h3, h2, h4⟩
  · rintro ⟨h1, h3, h2, h4⟩; exact ⟨h1, h2, h3, h4⟩

/-- every listed entry-point parameter is an unbound input of the active node it is listed under -/
theorem entrypoint_entry_sound (nodes : List NodeD) (es : List Edge) (bound : AL Val)
    (eps sel : Option (List Name)) (e : Name × List Name)
    (he : e ∈ (computeInputSpec nodes es bound eps sel).entrypoints) :
    ∀ p ∈ e.2, AL.has bound p = false ∧
      ∃ nd ∈ (activeScope nodes es eps sel).1, nd.name = e.1 ∧ p ∈ nd.inputs :=
  entrypoints_sound _ _ _ _ e he

/-- exact characterisation of the third class: `p` is an entry-point parameter iff some active
non-gate node on an active data cycle consumes it without a default, it is a cycle parameter
(`cycleParams`), it is unbound and no active interrupt produces it -/
theorem entrypoint_param_characterisation (nodes : List NodeD) (es : List Edge) (bound : AL Val)
    (eps sel : Option (List Name)) (p : Name) :
    p ∈ (computeInputSpec nodes es bound eps sel).entrypoints.flatMap (·.2) ↔
      ∃ nd ∈ (activeScope nodes es eps sel).1, nd.isGate = false ∧
        inCyclicScc (activeScope nodes es eps sel).1 (activeScope nodes es eps sel).2 nd.name = true ∧
        p ∈ nd.inputs ∧
        p ∈ cycleParams (activeScope nodes es eps sel).1
              ((activeScope nodes es eps sel).2.filter (·.kind == .data))
              (edgeProduced (activeScope nodes es eps sel).2) ∧
        AL.has bound p = false ∧ isInterruptProduced (activeScope nodes es eps sel).1 p = false ∧
        p ∉ nd.hasDefault := by
  rw [spec_entrypoints, mem_entryParams]

/-- non-vacuity: `x` is required in the DAG because `src` consumes it, no edge produces it, it is
unbound and has no default; `a` is edge-produced, hence neither required nor optional; `c` is
optional because it is bound, `k` because `left` has a default for it -/
example : "x" ∈ dagG.spec.required := by decide
example : (∃ n ∈ (activeScope dagG.nodes dagG.edges .none .none).1, "x" ∈ n.inputs) ∧
    "x" ∉ edgeProduced (activeScope dagG.nodes dagG.edges .none .none).2 ∧ AL.has dagG.bound "x" = false := by
  decide
example : "a" ∈ edgeProduced (activeScope dagG.nodes dagG.edges .none .none).2 ∧
    "a" ∉ dagG.spec.required ∧ "a" ∉ dagG.spec.optional := by decide
example : AL.has dagG.bound "c" = true ∧ "c" ∈ dagG.spec.optional ∧ "k" ∈ dagG.spec.optional := by decide

/-- non-vacuity for the third class: in the two-node cycle `x` (consumed by `a`) and `y` (consumed
by `b`) are entry-point parameters; binding `x` removes it (and only it) from that class -/
example : "x" ∈ cycG.spec.entrypoints.flatMap (·.2) ∧ "y" ∈ cycG.spec.entrypoints.flatMap (·.2) ∧
    "z" ∉ cycG.spec.entrypoints.flatMap (·.2) := by decide
example : (computeInputSpec cycG.nodes cycG.edges (AL.put [] "x" (.int 0)) .none .none).entrypoints
    = [("b", ["y"])] := by decide

/-! ## 3. binding and un-binding -/

theorem bind_removes_required (nodes : List NodeD) (es : List Edge) (bound : AL Val)
    (eps sel : Option (List Name)) (k : Name) (v : Val) :
    k ∉ (computeInputSpec nodes es (AL.put bound k v) eps sel).required := by
  intro h
  have := ((mem_required ..).1 h).2.2.2.1
  rw [AL.has_put] at this
  simp at this

theorem bind_adds_optional (nodes : List NodeD) (es : List Edge) (bound : AL Val)
    (eps sel : Option (List Name)) (k : Name) (v : Val)
    (h : k ∈ (computeInputSpec nodes es bound eps sel).required) :
    k ∈ (computeInputSpec nodes es (AL.put bound k v) eps sel).optional := by
  obtain ⟨h1, _, h3, _, _⟩ := (mem_required ..).1 h
  refine (mem_optional ..).2 ⟨h1, ?_, h3, Or.inl (by rw [AL.has_put]; simp)⟩
  intro hep
  rw [spec_entrypoints] at hep
  have := entryParam_unbound _ _ _ _ _ hep
  rw [AL.has_put] at this
  simp at this

/-- binding `k` changes the classification of no other name -/
theorem bind_frame (nodes : List NodeD) (es : List Edge) (bound : AL Val)
    (eps sel : Option (List Name)) (k : Name) (v : Val) (p : Name) (hp : p ≠ k) :
    (p ∈ (computeInputSpec nodes es (AL.put bound k v) eps sel).required ↔
      p ∈ (computeInputSpec nodes es bound eps sel).required) ∧
    (p ∈ (computeInputSpec nodes es (AL.put bound k v) eps sel).optional ↔
      p ∈ (computeInputSpec nodes es bound eps sel).optional) ∧
    (p ∈ (computeInputSpec nodes es (AL.put bound k v) eps sel).entrypoints.flatMap (·.2) ↔
      p ∈ (computeInputSpec nodes es bound eps sel).entrypoints.flatMap (·.2)) := by
  have hh : AL.has (AL.put bound k v) p = AL.has bound p := by rw [AL.has_put]; simp [hp]
  have he : p ∈ (computeInputSpec nodes es (AL.put bound k v) eps sel).entrypoints.flatMap (·.2) ↔
      p ∈ (computeInputSpec nodes es bound eps sel).entrypoints.flatMap (·.2) := by
    rw [spec_entrypoints, spec_entrypoints, mem_entryParams, mem_entryParams, hh]
  refine ⟨?_, ?_, he⟩
  · rw [mem_required, mem_required, he, hh]
  · rw [mem_optional, mem_optional, he, hh]

/-- the spec reads the graph-level `bound` dict only through `AL.has`: two dicts with the same key
set give the same `required`, `optional` and `entrypoints`; the `bound` FIELD is the dict itself
followed by one and the same list of surfaced inner bindings -/
theorem spec_congr_has (nodes : List NodeD) (es : List Edge) (b₁ b₂ : AL Val)
    (eps sel : Option (List Name)) (h : ∀ p, AL.has b₁ p = AL.has b₂ p) :
    (computeInputSpec nodes es b₁ eps sel).required = (computeInputSpec nodes es b₂ eps sel).required ∧
    (computeInputSpec nodes es b₁ eps sel).optional = (computeInputSpec nodes es b₂ eps sel).optional ∧
    (computeInputSpec nodes es b₁ eps sel).entrypoints = (computeInputSpec nodes es b₂ eps sel).entrypoints ∧
    ∃ ext, (computeInputSpec nodes es b₁ eps sel).bound = b₁ ++ ext ∧
           (computeInputSpec nodes es b₂ eps sel).bound = b₂ ++ ext := by
  have hf : AL.has b₁ = AL.has b₂ := funext h
  refine ⟨?_, ?_, ?_, collectExt (activeScope nodes es eps sel).1 (AL.has b₂), ?_, ?_⟩
  · rw [computeInputSpec_eq, computeInputSpec_eq]
    simp only [computeEntrypoints_congr _ _ _ b₁ b₂ h, h]
  · rw [computeInputSpec_eq, computeInputSpec_eq]
    simp only [computeEntrypoints_congr _ _ _ b₁ b₂ h, h]
  · rw [spec_entrypoints, spec_entrypoints]; exact computeEntrypoints_congr _ _ _ b₁ b₂ h
  · rw [spec_bound, collectBound_eq, hf]
  · rw [spec_bound, collectBound_eq]

/-- same look-ups ⇒ same key set (so `spec_congr_has` applies to dicts that agree on `get?`) -/
theorem has_congr_of_get? (b₁ b₂ : AL Val) (h : ∀ k, AL.get? b₁ k = AL.get? b₂ k) (p : Name) :
    AL.has b₁ p = AL.has b₂ p := has_of_get?_eq b₁ b₂ h p

/-- binding a name that was not bound and then un-binding it restores the spec — all four fields
(indeed `AL.del (AL.put bound k v) k = bound` as dicts) -/
theorem unbind_restores (nodes : List NodeD) (es : List Edge) (bound : AL Val)
    (eps sel : Option (List Name)) (k : Name) (v : Val) (h : AL.has bound k = false) :
    (computeInputSpec nodes es (AL.del (AL.put bound k v) k) eps sel).required =
      (computeInputSpec nodes es bound eps sel).required ∧
    (computeInputSpec nodes es (AL.del (AL.put bound k v) k) eps sel).optional =
      (computeInputSpec nodes es bound eps sel).optional ∧
    (computeInputSpec nodes es (AL.del (AL.put bound k v) k) eps sel).entrypoints =
      (computeInputSpec nodes es bound eps sel).entrypoints ∧
    (computeInputSpec nodes es (AL.del (AL.put bound k v) k) eps sel).bound =
      (computeInputSpec nodes es bound eps sel).bound := by
  rw [del_put_cancel bound k v h]
  exact ⟨rfl, rfl, rfl, rfl⟩

/-- non-vacuity: binding `c` on the unbound DAG moves it from required to optional; un-binding
restores `required = ["x", "c"]` -/
example : "c" ∈ dagG0.spec.required ∧
    (computeInputSpec dagG0.nodes dagG0.edges (AL.put [] "c" (.int 7)) .none .none).required = ["x"] ∧
    (computeInputSpec dagG0.nodes dagG0.edges (AL.put [] "c" (.int 7)) .none .none).optional = ["k", "c"] := by
  decide
example : (computeInputSpec dagG0.nodes dagG0.edges (AL.del (AL.put [] "c" (.int 7)) "c") .none .none).required
    = ["x", "c"] := by decide
example : "c" ∈ (computeInputSpec dagG0.nodes dagG0.edges (AL.put [] "c" (.int 7)) .none .none).optional :=
  bind_adds_optional dagG0.nodes dagG0.edges [] .none .none "c" (.int 7) (by decide)
/-- the hypothesis of `unbind_restores` matters: un-binding a name that WAS bound does not restore -/
example : (computeInputSpec dagG.nodes dagG.edges (AL.del (AL.put dagG.bound "c" (.int 8)) "c") .none .none).required
    ≠ dagG.spec.required := by decide

/-! ## 4. rejection happens before execution -/

/-- a failed `select` resolution or a failed validation is returned as `.rejected`; the result then
carries no `RunOut` at all (no state, no log, no events): `run` — hence `sem` — was never applied -/
theorem reject_before_execution (sem : Sem) (runner : Runner) (prog : Program) (root : Nat)
    (values : AL Val) (cfg : RunCfg) (ep : Option Name) (policy : OverridePolicy) (e : VErr)
    (h : resolveRuntimeSelected (prog.getD root default) cfg.select = .error e ∨
         ∃ selected, resolveRuntimeSelected (prog.getD root default) cfg.select = .ok selected ∧
           validateInputs (prog.getD root default) values ep selected policy = .error e) :
    runChecked sem runner prog root values cfg ep policy = .rejected e ∧
    ∀ out w, runChecked sem runner prog root values cfg ep policy ≠ .ran out w := by
  have : runChecked sem runner prog root values cfg ep policy = .rejected e := by
    unfold runChecked
    rcases h with h | ⟨selected, hs, hv⟩
    · simp only [h]
    · simp only [hs, hv]
  exact ⟨this, fun out w h' => by rw [this] at h'; cases h'⟩

/-- conversely a rejection can only come from those two checks, with that very error -/
theorem rejected_iff (sem : Sem) (runner : Runner) (prog : Program) (root : Nat)
    (values : AL Val) (cfg : RunCfg) (ep : Option Name) (policy : OverridePolicy) (e : VErr) :
    runChecked sem runner prog root values cfg ep policy = .rejected e ↔
      (resolveRuntimeSelected (prog.getD root default) cfg.select = .error e ∨
       ∃ selected, resolveRuntimeSelected (prog.getD root default) cfg.select = .ok selected ∧
         validateInputs (prog.getD root default) values ep selected policy = .error e) := by
  refine ⟨?_, fun h => (reject_before_execution sem runner prog root values cfg ep policy e h).1⟩
  intro h
  unfold runChecked at h
  simp only at h
  split at h
  · rename_i e' he; injection h with h; subst h; exact Or.inl he
  · rename_i selected hs
    split at h
    · rename_i e' hv; injection h with h; subst h; exact Or.inr ⟨selected, hs, hv⟩
    · cases h

/-- a call that ran was resolved and validated first, and its outcome is exactly `run` -/
theorem ran_after_validation (sem : Sem) (runner : Runner) (prog : Program) (root : Nat)
    (values : AL Val) (cfg : RunCfg) (ep : Option Name) (policy : OverridePolicy) (out : RunOut) (w : Nat)
    (h : runChecked sem runner prog root values cfg ep policy = .ran out w) :
    ∃ selected, resolveRuntimeSelected (prog.getD root default) cfg.select = .ok selected ∧
      validateInputs (prog.getD root default) values ep selected policy = .ok w ∧
      out = run sem runner prog root values cfg := by
  unfold runChecked at h
  simp only at h
  split at h
  · cases h
  · rename_i selected hs
    split at h
    · cases h
    · rename_i w' hv
      injection h with h1 h2
      subst h2
      exact ⟨selected, hs, hv, h1.symm⟩

/-- non-vacuity: omitting `x` is rejected whatever the node semantics; supplying it runs -/
example (sem : Sem) : runChecked sem .sync dagProg 0 [] {} .none .warn = .rejected (.missingInput ["x"]) :=
  (reject_before_execution sem .sync dagProg 0 [] {} .none .warn _ (Or.inr ⟨.none, rfl, by decide⟩)).1
example (sem : Sem) : ∃ out, runChecked sem .sync dagProg 0 [("x", .int 1)] {} .none .warn = .ran out 0 := by
  refine ⟨run sem .sync dagProg 0 [("x", .int 1)] {}, ?_⟩
  have hv : validateInputs (dagProg.getD 0 default) [("x", .int 1)] .none .none .warn = .ok 0 := by decide
  unfold runChecked
  simp only [show resolveRuntimeSelected (dagProg.getD 0 default) ({} : RunCfg).select = .ok .none from rfl, hv]
/-- an unknown `select` name is rejected too -/
example (sem : Sem) :
    runChecked sem .sync dagProg 0 [("x", .int 1)] { select := .names ["nope"] } .none .warn =
      .rejected (.configError "select") :=
  (reject_before_execution sem .sync dagProg 0 _ _ .none .warn _ (Or.inl (by decide))).1

/-! ## 7. runtime `select` is validated against the graph's outputs -/

theorem select_validated (g : GraphD) (l : List Name) :
    (∀ s, resolveRuntimeSelected g (.names l) = .ok s →
        s = some l ∧ ∀ n ∈ l, ∃ nd ∈ g.nodes, n ∈ nd.outputs) ∧
    ((∀ n ∈ l, n ∈ graphOutputs g.nodes) → resolveRuntimeSelected g (.names l) = .ok (some l)) ∧
    (¬ (∀ n ∈ l, n ∈ graphOutputs g.nodes) →
        resolveRuntimeSelected g (.names l) = .error (.configError "select")) ∧
    resolveRuntimeSelected g .all = .ok .none ∧
    resolveRuntimeSelected g .unset = .ok g.selected := by
  refine ⟨?_, ?_, ?_, rfl, rfl⟩
  · intro s h
    simp only [resolveRuntimeSelected] at h
    split at h
    · rename_i hall
      injection h with h
      refine ⟨h.symm, fun n hn => (mem_graphOutputs _ _).1 ?_⟩
      simpa using List.all_eq_true.1 hall n hn
    · cases h
  · intro h
    have : (l.all fun n => (graphOutputs g.nodes).contains n) = true := by
      rw [List.all_eq_true]; intro n hn; simpa using h n hn
    simp only [resolveRuntimeSelected, this, if_true]
  · intro h
    have : ¬ (l.all fun n => (graphOutputs g.nodes).contains n) = true := by
      rw [List.all_eq_true]; intro h'; exact h fun n hn => by simpa using h' n hn
    simp only [resolveRuntimeSelected, this]
    rfl

example : resolveRuntimeSelected dagG (.names ["l", "r"]) = .ok (some ["l", "r"]) := by decide
example : resolveRuntimeSelected dagG (.names ["l", "x"]) = .error (.configError "select") := by decide

/-! ## 8. inner bindings are visible only under the wrapper's current input names -/

theorem bound_scoped (nodes : List NodeD) (bound : AL Val) :
    ∀ k ∈ AL.keys (collectBound nodes bound),
      k ∈ AL.keys bound ∨
      ∃ nd ∈ nodes, nd.kind = .graph ∧ k ∈ nd.inputs ∧ AL.has nd.innerBound k = true := by
  intro k hk
  rw [collectBound_eq, keys_append, List.mem_append] at hk
  rcases hk with hk | hk
  · exact Or.inl hk
  · exact Or.inr (collectExt_keys nodes _ k hk)

/-- the graph-level dict is kept as is (same keys, same values, same order) at the front -/
theorem bound_prefix (nodes : List NodeD) (bound : AL Val) :
    ∃ ext, collectBound nodes bound = bound ++ ext := ⟨_, collectBound_eq nodes bound⟩

/-- non-vacuity: the wrapper renames the bound inner `k` to `kk`; the outer spec reports the
binding under `kk`, and the unrelated outer `k` stays required -/
example : outerG.spec.bound = [("kk", .int 1)] ∧ outerG.spec.required = ["k"] ∧
    outerG.spec.optional = ["kk"] := by decide

/-- negative witness: merging under the ORIGINAL inner names (the pre-repair code) makes the
unrelated outer `k` count as bound — `validate_inputs` would then accept a call that omits the
required `k` -/
theorem old_bound_leaks :
    AL.has (collectBoundOld outerG.nodes outerG.bound) "k" = true ∧
    AL.has (collectBound outerG.nodes outerG.bound) "k" = false ∧
    "k" ∈ outerG.spec.required := by decide

/-- with the repaired collection the call that omits `k` is rejected -/
example : validateInputs outerG [] .none .none .warn = .error (.missingInput ["k"]) := by decide

/-! ## 5. sufficiency on graphs without cycle entry points -/

/-- HYPOTHESIS ADDED: `hbound` (every key of the spec's `bound` field is an expected input). It is
NOT a consequence of the model (nor of the code): see the two counterexamples below. -/
theorem sufficient_dag (g : GraphD) (values : AL Val) (selected : Option (List Name))
    (policy : OverridePolicy)
    (hdag : (effectiveSpec g selected).entrypoints = [])
    (hreq : ∀ r ∈ (effectiveSpec g selected).required, r ∈ AL.keys values)
    (hval : ∀ k ∈ AL.keys values, k ∈ (effectiveSpec g selected).all)
    (hbound : ∀ k ∈ AL.keys (effectiveSpec g selected).bound, k ∈ (effectiveSpec g selected).all) :
    validateInputs g values .none selected policy = .ok 0 := by
  have hexp : ∀ k ∈ providedOf (effectiveSpec g selected) values, k ∈ (effectiveSpec g selected).all := by
    intro k hk
    rcases (mem_providedOf _ _ _).1 hk with h | h
    · exact hbound k h
    · exact hval k h
  rw [validateInputs_of_expected g values .none selected policy hexp]
  have hc : ∀ b, cycleStep g (effectiveSpec g selected) (providedOf (effectiveSpec g selected) values) b .none
      = .ok () := by
    intro b; unfold cycleStep; rw [hdag]; rfl
  rw [hc]
  have hm : minus (minus (effectiveSpec g selected).required
      (bypassedInputs g (providedOf (effectiveSpec g selected) values) (cycleEpOf (effectiveSpec g selected))))
      (providedOf (effectiveSpec g selected) values) = [] := by
    apply minus_eq_nil
    intro x hx
    exact (mem_providedOf _ _ _).2 (Or.inr (hreq x ((mem_minus _ _ _).1 hx).1))
  simp only [hm, List.isEmpty_nil, if_true]

/-- non-vacuity on the bound DAG, for every policy, with and without the optional `k` -/
example (policy : OverridePolicy) : validateInputs dagG [("x", .int 1)] .none .none policy = .ok 0 :=
  sufficient_dag dagG _ .none policy (by decide) (by decide) (by decide) (by decide)
example (policy : OverridePolicy) :
    validateInputs dagG [("x", .int 1), ("k", .int 2)] .none .none policy = .ok 0 :=
  sufficient_dag dagG _ .none policy (by decide) (by decide) (by decide) (by decide)

/-- counterexample 1 to dropping `hbound` (runtime `select` narrows the scope below a binding):
selecting only `l` deactivates `right`, the bound `c` is then "not recognized in the active scope";
the complete call is rejected under policy `error` and warned about under `warn` -/
example : (effectiveSpec dagG (some ["l"])).entrypoints = [] ∧
    (∀ r ∈ (effectiveSpec dagG (some ["l"])).required, r ∈ AL.keys [("x", Val.int 1)]) ∧
    (∀ k ∈ AL.keys [("x", Val.int 1)], k ∈ (effectiveSpec dagG (some ["l"])).all) ∧
    validateInputs dagG [("x", .int 1)] .none (some ["l"]) .error = .error (.valueError "internal override") ∧
    validateInputs dagG [("x", .int 1)] .none (some ["l"]) .warn = .ok 1 := by decide

/-- counterexample 2 (no `select` involved): the nested graph's bound input `k` is fed by the outer
node `p`. The outer spec has no inputs at all, yet the empty call is rejected: the surfaced inner
binding counts as a provided value for the edge-produced `k` ("compute and inject") -/
example : fedG.spec.required = [] ∧ fedG.spec.optional = [] ∧ fedG.spec.entrypoints = [] ∧
    fedG.spec.bound = [("k", .int 1)] ∧
    validateInputs fedG [] .none .none .warn = .error (.valueError "internal override conflict") := by decide

/-! ## 6. necessity: omitting a required input is rejected with `MissingInputError` -/

/-- hypothesis-free form: an accepted call covers every required name by a value, a binding, or
the bypass rule (`bypassedInputs`: every node consuming it had its consumed outputs injected) -/
theorem accepted_covers_required (g : GraphD) (values : AL Val) (ep : Option Name)
    (selected : Option (List Name)) (policy : OverridePolicy) (w : Nat)
    (h : validateInputs g values ep selected policy = .ok w) :
    ∀ r ∈ (effectiveSpec g selected).required,
      r ∈ AL.keys values ∨ r ∈ AL.keys (effectiveSpec g selected).bound ∨
      r ∈ bypassedInputs g (providedOf (effectiveSpec g selected) values) (cycleEpOf (effectiveSpec g selected)) := by
  intro r hr
  have hm := (validateInputs_ok g values ep selected policy w h).2
  by_cases hp : r ∈ providedOf (effectiveSpec g selected) values
  · rcases (mem_providedOf _ _ _).1 hp with h | h
    · exact Or.inr (Or.inl h)
    · exact Or.inl h
  · by_cases hb : r ∈ bypassedInputs g (providedOf (effectiveSpec g selected) values)
        (cycleEpOf (effectiveSpec g selected))
    · exact Or.inr (Or.inr hb)
    · have : r ∈ minus (minus (effectiveSpec g selected).required
          (bypassedInputs g (providedOf (effectiveSpec g selected) values) (cycleEpOf (effectiveSpec g selected))))
          (providedOf (effectiveSpec g selected) values) :=
        (mem_minus _ _ _).2 ⟨(mem_minus _ _ _).2 ⟨hr, hb⟩, hp⟩
      rw [hm] at this; cases this

/-- partial: the rejection is pinned down to `MissingInputError` naming `r` under the explicit
hypotheses that nothing unexpected is supplied (`hval`, `hbound`), that no node output is injected
(`hno`, so the bypass rule is idle), and that the cycle-entry step passes (`hcyc`) -/
theorem necessary_partial (g : GraphD) (values : AL Val) (ep : Option Name)
    (selected : Option (List Name)) (policy : OverridePolicy) (r : Name)
    (hr : r ∈ (effectiveSpec g selected).required)
    (hrv : r ∉ AL.keys values)
    (hrb : AL.has (effectiveSpec g selected).bound r = false)
    (hval : ∀ k ∈ AL.keys values, k ∈ (effectiveSpec g selected).all)
    (hbound : ∀ k ∈ AL.keys (effectiveSpec g selected).bound, k ∈ (effectiveSpec g selected).all)
    (hno : NoOutputProvided g (effectiveSpec g selected) values)
    (hcyc : (effectiveSpec g selected).entrypoints = [] ∨
      validateCycleEntry g (effectiveSpec g selected) (providedOf (effectiveSpec g selected) values) [] ep = .ok ()) :
    ∃ missing, validateInputs g values ep selected policy = .error (.missingInput missing) ∧ r ∈ missing := by
  have hexp : ∀ k ∈ providedOf (effectiveSpec g selected) values, k ∈ (effectiveSpec g selected).all := by
    intro k hk
    rcases (mem_providedOf _ _ _).1 hk with h | h
    · exact hbound k h
    · exact hval k h
  rw [validateInputs_of_expected g values ep selected policy hexp, bypassedInputs_nil_of g _ values hno]
  have hc : cycleStep g (effectiveSpec g selected) (providedOf (effectiveSpec g selected) values) [] ep = .ok () := by
    unfold cycleStep
    rcases hcyc with h | h
    · rw [h]; rfl
    · rw [h]; split <;> rfl
  rw [hc]
  have hrp : r ∉ providedOf (effectiveSpec g selected) values := by
    intro h
    rcases (mem_providedOf _ _ _).1 h with h | h
    · rw [AL.mem_keys_iff_has, hrb] at h; cases h
    · exact hrv h
  have hmem : r ∈ minus (minus (effectiveSpec g selected).required [])
      (providedOf (effectiveSpec g selected) values) :=
    (mem_minus _ _ _).2 ⟨(mem_minus _ _ _).2 ⟨hr, List.not_mem_nil⟩, hrp⟩
  refine ⟨_, ?_, hmem⟩
  have hne : (minus (minus (effectiveSpec g selected).required [])
      (providedOf (effectiveSpec g selected) values)).isEmpty = false := by
    rw [List.isEmpty_eq_false_iff]; intro h; rw [h] at hmem; cases hmem
  simp only [hne]
  rfl

/- FULL STATEMENT (not proved): "a call that omits a required input is rejected with
   MissingInputError" for ALL inputs, i.e. without `hval`/`hbound`/`hno`/`hcyc`:
     r ∈ (effectiveSpec g selected).required → r ∉ AL.keys values →
     AL.has (effectiveSpec g selected).bound r = false →
     ∃ missing, validateInputs g values ep selected policy = .error (.missingInput missing) ∧ r ∈ missing
   False of the model (and of the code) because of the bypass rule: injecting the output `a` of
   `src` makes `src`'s input `x` no longer required (counterexample below). What does hold without
   any hypothesis is `accepted_covers_required`. -/
example : "x" ∈ (effectiveSpec dagG .none).required ∧ "x" ∉ AL.keys [("a", Val.int 0)] ∧
    AL.has (effectiveSpec dagG .none).bound "x" = false ∧
    validateInputs dagG [("a", .int 0)] .none .none .warn = .ok 1 := by decide

/-- non-vacuity: the DAG without `x` (all hypotheses hold), and the cycle seeded through `x` but
lacking the acyclic required input `z` -/
example (policy : OverridePolicy) :
    ∃ missing, validateInputs dagG [("k", .int 2)] .none .none policy = .error (.missingInput missing) ∧
      "x" ∈ missing :=
  necessary_partial dagG _ .none .none policy "x" (by decide) (by decide) (by decide) (by decide)
    (by decide) (by decide) (Or.inl (by decide))
example (policy : OverridePolicy) :
    ∃ missing, validateInputs cycG [("x", .int 0)] .none .none policy = .error (.missingInput missing) ∧
      "z" ∈ missing :=
  necessary_partial cycG _ .none .none policy "z" (by decide) (by decide) (by decide) (by decide)
    (by decide) (by decide) (Or.inr (by decide))
example : validateInputs dagG [] .none .none .warn = .error (.missingInput ["x"]) := by decide

end HG.C08
