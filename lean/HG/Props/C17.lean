import HG.Lemmas.Ready
/-! # C17 — ordering signals (`emit` / `wait_for`)

A waiter never starts before its signal exists, never in the same superstep as a producer of it,
and at most once per production; every emit is a fresh production (the version advances even
though the sentinel value is unchanged); a waiter whose signals are fresh does start. -/
namespace HG.C17
open HG

/-! ## concrete graph for the non-vacuity examples -/

/-- producer: emits the ordering signal `done` -/
def nP : NodeD := elabLeaf { name := "p", kind := .fn, emits := ["done"] }
/-- waiter: reads `x`, waits for `done` -/
def nW : NodeD := elabLeaf { name := "w", kind := .fn, params := [("x", .none)], dataOuts := ["y"], waitFor := ["done"] }

def gPW : GraphD :=
  { name := "g", nodes := [nP, nW], bound := [], selected := .none, entrypoints := .none, edges := []
    spec := { required := [], optional := [], entrypoints := [], bound := [] } }

/-- `x` supplied, `p` has run once (signal at version 1), `w` never ran -/
def sAfterP : GState :=
  { values := [("x", .int 0), ("done", .sentinel)], versions := [("x", 1), ("done", 1)]
    execs := [("p", { inputVersions := [], waitForVersions := [] })] }
/-- `w` ran having seen `x`@1 and `done`@1; since then `x` and `done` were produced again -/
def sAgain : GState :=
  { values := [("x", .int 1), ("done", .sentinel)], versions := [("x", 2), ("done", 2)]
    execs := [("p", { inputVersions := [], waitForVersions := [] }),
              ("w", { inputVersions := [("x", 1)], waitForVersions := [("done", 1)] })] }
/-- same, but `done` was not produced again -/
def sStale : GState :=
  { values := [("x", .int 1), ("done", .sentinel)], versions := [("x", 2), ("done", 1)]
    execs := [("p", { inputVersions := [], waitForVersions := [] }),
              ("w", { inputVersions := [("x", 1)], waitForVersions := [("done", 1)] })] }
/-- signal present from an earlier production, but `p` is about to run again -/
def sBoth : GState :=
  { values := [("x", .int 0), ("done", .sentinel)], versions := [("x", 1), ("done", 1)] }

theorem ready_afterP : (ready gPW .none sAfterP).1 = [nW] := rfl
theorem ready_again : (ready gPW .none sAgain).1 = [nW] := rfl

/-! ## 6. never before the signal, never together with a producer -/

theorem after_producer (g : GraphD) (act : Option (List Name)) (s : GState) (nd : NodeD) (w : Name)
    (h : nd ∈ (ready g act s).1) (hw : w ∈ nd.waitFor) :
    AL.has (ready g act s).2.values w = true ∧
    ∀ other ∈ (ready g act s).1, other.name ≠ nd.name → w ∉ other.outputs := by
  obtain ⟨_, hr, _, hdefer⟩ := (mem_ready_iff g act s nd).1 h
  have hwf := ((isReady_iff g _ nd).1 hr).2.2.1
  refine ⟨((waitForSatisfied_iff _ nd).1 hwf w hw).1, ?_⟩
  intro other ho hne
  exact hdefer w hw other (ready_sub_ready1 ho) hne

/-- non-vacuity: the waiter starts once `done` exists -/
example : AL.has (ready gPW .none sAfterP).2.values "done" = true ∧
    ∀ other ∈ (ready gPW .none sAfterP).1, other.name ≠ nW.name → "done" ∉ other.outputs :=
  after_producer gPW .none sAfterP nW "done" (by rw [ready_afterP]; exact List.mem_singleton.2 rfl) (by decide)
/-- before the first production the waiter is not ready; and when it is individually ready together
with the producer (`sBoth`), only the producer starts -/
example : (ready gPW .none { values := [("x", .int 0)], versions := [("x", 1)] }).1.map (·.name) = ["p"] := rfl
example : isReady gPW (clearStale gPW sBoth) nW = true ∧ (ready gPW .none sBoth).1.map (·.name) = ["p"] :=
  ⟨rfl, rfl⟩

/-! ## 7. at most once per production -/

theorem once_per_production (g : GraphD) (act : Option (List Name)) (s : GState) (nd : NodeD) (e : Exec)
    (w : Name) (h : nd ∈ (ready g act s).1)
    (he : AL.get? (ready g act s).2.execs nd.name = some e) (hw : w ∈ nd.waitFor) :
    (ready g act s).2.ver w > (AL.get? e.waitForVersions w).getD 0 := by
  have hwf := ((isReady_iff g _ nd).1 (ready_isReady h)).2.2.1
  exact ((waitForSatisfied_iff _ nd).1 hwf w hw).2 e he

/-- non-vacuity: `w` ran at `done`@1 and restarts at `done`@2 -/
example : (ready gPW .none sAgain).2.ver "done" >
    (AL.get? ({ inputVersions := [("x", 1)], waitForVersions := [("done", 1)] } : Exec).waitForVersions "done").getD 0 :=
  once_per_production gPW .none sAgain nW _ "done"
    (by rw [ready_again]; exact List.mem_singleton.2 rfl) rfl (by decide)
/-- …and does not restart on a changed input alone while the signal is old -/
example : needsExec gPW sStale nW = true ∧ (ready gPW .none sStale).1.map (·.name) = [] := ⟨rfl, rfl⟩

/-! ## 8. every emit is a fresh production; versions never decrease -/

theorem bumps_sentinel (s : GState) (n : Name) : s.bumps n Val.sentinel = true := by
  unfold GState.bumps
  cases AL.get? s.values n <;> simp

theorem ver_updateValue (s : GState) (n m : Name) (v : Val) :
    (s.updateValue n v).ver m = if m = n ∧ s.bumps n v = true then s.ver n + 1 else s.ver m := by
  unfold GState.updateValue GState.ver
  by_cases hb : s.bumps n v = true
  · simp only [hb, if_true, and_true, AL.get?_put]
    by_cases hm : m = n
    · simp [hm]
    · simp [hm]
  · simp [hb]

theorem fresh_on_every_emit (s : GState) (n : Name) :
    (s.updateValue n Val.sentinel).ver n = s.ver n + 1 := by
  rw [ver_updateValue, bumps_sentinel]; simp

theorem version_monotone (s : GState) (n m : Name) (v : Val) : s.ver m ≤ (s.updateValue n v).ver m := by
  rw [ver_updateValue]
  split
  · rename_i h; rw [h.1]; omega
  · omega

/-- non-vacuity: re-emitting an already present sentinel advances 1 → 2 -/
example : (sAfterP.updateValue "done" Val.sentinel).ver "done" = sAfterP.ver "done" + 1 :=
  fresh_on_every_emit sAfterP "done"
example : sAfterP.ver "done" = 1 ∧ AL.get? sAfterP.values "done" = some Val.sentinel := ⟨rfl, rfl⟩
example : sAfterP.ver "x" ≤ (sAfterP.updateValue "done" Val.sentinel).ver "x" :=
  version_monotone sAfterP "done" "x" Val.sentinel

/-! ## 9. liveness: a waiter with fresh signals starts -/

/-- Hypotheses are phrased on `s1 := clearStale g s` (the state `ready` evaluates readiness on);
`ready0`/`ready1` (`HG.Lemmas.Ready`) are the intermediate lists `r0`/`r1` of `ready`:
individually ready candidates, and those not blocked by a ready gate. -/
theorem waiter_runs_again (g : GraphD) (act : Option (List Name)) (s : GState) (nd : NodeD)
    (hmem : nd ∈ g.nodes) (hact : ∀ a, act = some a → nd.name ∈ a)
    (hactivated : activated g (clearStale g s) nd.name = true)
    (hinputs : ∀ p ∈ nd.inputs, hasInput g (clearStale g s) nd p = true)
    (hneeds : needsExec g (clearStale g s) nd = true)
    (hfresh : ∀ w ∈ nd.waitFor, AL.has (clearStale g s).values w = true ∧
      ∀ e, AL.get? (clearStale g s).execs nd.name = some e →
        (clearStale g s).ver w > (AL.get? e.waitForVersions w).getD 0)
    (hgate : ∀ c ∈ ready0 g act s, c.isGate = true → nd.name ∈ c.targetNames → nd.name = c.name)
    (hprod : ∀ w ∈ nd.waitFor, ∀ o ∈ ready1 g act s, o.name ≠ nd.name → w ∉ o.outputs) :
    nd ∈ (ready g act s).1 :=
  (mem_ready_iff g act s nd).2
    ⟨(mem_cand g act nd).2 ⟨hmem, hact⟩,
     (isReady_iff g _ nd).2 ⟨hactivated, hinputs, (waitForSatisfied_iff _ nd).2 hfresh, hneeds⟩,
     hgate, hprod⟩

/-- the same with the last two hypotheses stated on the graph's nodes directly (slightly stronger
hypotheses: they range over all individually ready nodes) -/
theorem waiter_runs_again' (g : GraphD) (act : Option (List Name)) (s : GState) (nd : NodeD)
    (hmem : nd ∈ g.nodes) (hact : ∀ a, act = some a → nd.name ∈ a)
    (hactivated : activated g (clearStale g s) nd.name = true)
    (hinputs : ∀ p ∈ nd.inputs, hasInput g (clearStale g s) nd p = true)
    (hneeds : needsExec g (clearStale g s) nd = true)
    (hfresh : ∀ w ∈ nd.waitFor, AL.has (clearStale g s).values w = true ∧
      ∀ e, AL.get? (clearStale g s).execs nd.name = some e →
        (clearStale g s).ver w > (AL.get? e.waitForVersions w).getD 0)
    (hgate : ∀ c ∈ g.nodes, isReady g (clearStale g s) c = true → c.isGate = true →
      nd.name ∈ c.targetNames → nd.name = c.name)
    (hprod : ∀ o ∈ g.nodes, isReady g (clearStale g s) o = true → o.name ≠ nd.name →
      ∀ w ∈ nd.waitFor, w ∉ o.outputs) :
    nd ∈ (ready g act s).1 := by
  refine waiter_runs_again g act s nd hmem hact hactivated hinputs hneeds hfresh ?_ ?_
  · intro c hc
    have := (mem_ready0 g act s c).1 hc
    exact hgate c ((mem_cand g act c).1 this.1).1 this.2
  · intro w hw o ho hne
    have := (mem_ready0 g act s o).1 ((mem_ready1 g act s o).1 ho).1
    exact hprod o ((mem_cand g act o).1 this.1).1 this.2 hne w hw

/-- non-vacuity: in `sAgain` the waiter has run before and runs again -/
example : nW ∈ (ready gPW .none sAgain).1 :=
  waiter_runs_again' gPW .none sAgain nW (List.mem_cons_of_mem _ List.mem_cons_self) (by intro a h; cases h)
    rfl (by decide) rfl
    (by
      intro w hw
      have : w = "done" := by simpa [nW, elabLeaf] using hw
      subst this
      refine ⟨rfl, ?_⟩
      intro e he
      have : e = { inputVersions := [("x", 1)], waitForVersions := [("done", 1)] } :=
        Option.some.inj (he.symm.trans (rfl : AL.get? (clearStale gPW sAgain).execs nW.name = some _))
      subst this
      decide)
    (by
      intro c hc _ hg
      have : c = nP ∨ c = nW := by simpa [gPW] using hc
      rcases this with rfl | rfl <;> simp [nP, nW, elabLeaf, NodeD.isGate] at hg)
    (by
      intro o ho hr hne
      have : o = nP ∨ o = nW := by simpa [gPW] using ho
      rcases this with rfl | rfl
      · exact absurd hr (by decide)
      · exact absurd rfl hne)

/-! ## 10. without the emit clause a re-emitted signal stalls its waiters -/

/-- `update_value` as it was before the repair: the version advances only for a new name or a
changed value, so re-emitting the (always equal) sentinel is invisible -/
def updateValueOld (s : GState) (n : Name) (v : Val) : GState :=
  { s with values := AL.put s.values n v
           versions := if (match AL.get? s.values n with | .none => true | some old => old != v)
                       then AL.put s.versions n (s.ver n + 1) else s.versions }

/-- a waiter on `done` that last ran at `done`@1 -/
def waitedAt1 : AL Exec := [("w", { inputVersions := [("x", 1)], waitForVersions := [("done", 1)] })]

theorem old_signal_stalls :
    (updateValueOld (updateValueOld {} "done" .sentinel) "done" .sentinel).ver "done" = 1 ∧
    ((({} : GState).updateValue "done" .sentinel).updateValue "done" .sentinel).ver "done" = 2 ∧
    waitForSatisfied
      { updateValueOld (updateValueOld {} "done" .sentinel) "done" .sentinel with execs := waitedAt1 } nW = false ∧
    waitForSatisfied
      { (({} : GState).updateValue "done" .sentinel).updateValue "done" .sentinel with execs := waitedAt1 } nW = true :=
  ⟨rfl, rfl, rfl, rfl⟩

end HG.C17
