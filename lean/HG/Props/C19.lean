import HG.Lemmas.Build
/-! # C19 (structure) — a graph with a construction-time flaw is rejected when it is built

Model: `HG.Build.buildGraph` (`HG/Model/Build.lean`) mirrors `Graph.__init__` =
`_build_nodes_dict` → `_normalize_edges` → `_build_graph`/`validate_output_conflicts` →
`validate_graph`, check by check and in the code's order.  Specification: `HG.Build.WellFormed`
(`HG/Lemmas/Build.lean`), a conjunction of clauses each quantified over *members* (nodes, pairs of
producers, consumers of a parameter, edges), never over positions.

`Mutex` / `Ordered` mirror the code's notions (`_conflict.py`), they are not an independent
semantic definition of "cannot both run": `Mutex b a c` = some exclusive gate (route without
`multi_target`, or if/else) has two different targets that are nodes, `a` in the branch of the one and `c`
in the branch of the other.  The branch of a target `t` of the gate `g` (`InBranch`) is empty when a gate
other than `g` also routes to `t`; otherwise it is the least set holding `t` and every node reachable in
the built graph from `t` and from no other target of `g` that NEEDS the set: a parameter without a default
of its own whose producers all lie in the set, an awaited signal emitted only in the set, or all the gates
routing to it in the set (`inBranch_root_sole_controller`, `inBranch_needs`).  Before the repair "two
producers of one name are exclusive only if neither can run without its branch" the branch was every node
reachable from `t` only (`MutexReach`; `shared_target_not_mutex_witness`, `default_fed_not_mutex_witness`,
`mutex_was_mutex`, `loop_back_branches_now_mutex_witness`);
`Ordered b o a c` = a directed path between `a` and `c` (either direction) in the declared graph
(explicit edges) resp. in the graph of control edges, ordering edges and data edges carrying a value
not contested among the producers of `o` (auto-inference).  `Reach` is the inductive
reflexive-transitive closure; `HG.Build.reaches_iff` proves the fuel-bounded search equal to it.

Statements that had to follow the code rather than the English of the property:
* the type clause ranges over every NON-ORDERING edge of the built graph that carries value names, i.e.
  the data edges; the ordering edges `_add_ordering_edges` labels with the awaited name are skipped
  (`edge_type == "ordering"`: no value reaches a parameter through them).  Before the repair "strict
  typing skips ordering edges" `_validate_types` did not look at the edge type and every valid strict
  graph with an `emit`/`wait_for` pair was rejected (`strict_wait_for_witness`,
  `strict_waitfor_rejected` below: the pre-repair check `chkTypesAllEdges` against the repaired model);
* only the FIRST-listed producer of a name gets a data edge; the type clause therefore has a second half
  (`WellFormed.typedAllProducers`): every OTHER node producing the value as data is annotated compatibly
  with the edge's target too.  Before the repair "strict_types checks every producer of a value against its
  consumer" the annotation of a second (mutually exclusive) producer was never compared and acceptance
  depended on the order of the node list (`strict_second_producer_witness`: the pre-repair check
  `chkTypesFirstProducer` against the repaired model; `flaw_type_mismatch_any_producer`).  "Other" means
  other than the edge's SOURCE: since repair `07d3d31` the edge's target is not exempt, a node that reads
  and writes one name is typed against itself (`self_feed_checked`; before: `chkTypesSkipSelf`,
  `self_feed_rejected_witness` / `flaw_self_feed_unchecked_witness`);
* the NAME of a graph node is exempt from the identifier rule (it follows the graph-name rule); its
  OUTPUT names are not — before the repair "output names of a nested graph are validated" they were
  skipped together with the name (`graph_node_output_name_witness`, `graph_node_output_names_unchecked`:
  the pre-repair check `chkIdentifiersSkipGraph` against the repaired model);
* the namespace-collision rule looks at the LAST producer of the colliding name only;
* "an interrupt inside a `map_over` graph node" means an `InterruptNode` DIRECTLY inside the wrapped
  graph (`Graph.has_interrupts`); `innerInterrupts` is that flag. -/
namespace HG.C19s
open HG HG.Build HG.TypeCompat

/-! ## 1. the validator decides the declarative specification -/

/-- FULL: the constructor accepts exactly the well-formed descriptions -/
theorem validate_iff_wellformed (b : BuildInput) : buildGraph b = .ok () ↔ WellFormed b :=
  buildGraph_ok_iff

theorem sound (b : BuildInput) (h : buildGraph b = .ok ()) : WellFormed b := (validate_iff_wellformed b).mp h

theorem classify_ok_iff (b : BuildInput) : classify b = "ok" ↔ WellFormed b := by
  rw [← validate_iff_wellformed]
  unfold classify
  cases h : buildGraph b with
  | ok u => cases u; simp
  | error e => cases e <;> simp [BuildErr.className]

/-- the English of the type clause: in strict mode every DATA edge of an accepted graph is annotated on
both sides with compatible types (the model's clause says: every non-ordering edge carrying value
names; control edges carry none) -/
theorem typed_data_edges (b : BuildInput) (h : buildGraph b = .ok ()) (hs : b.strict = true) (e : Edge)
    (he : e ∈ graphEdges b) (hk : e.kind = .data) (v : Name) (hv : v ∈ e.values) :
    ∃ to ti, outType b e.src v = some to ∧ inType b e.dst v = some ti ∧ compat to ti = true :=
  (sound b h).typed hs e he (by rw [hk]; decide) v hv

/-- … and so is every other node `p` that produces the value as data: any of the (exclusive or ordered)
producers of a name can deliver it to the consumer, the built graph only links the first-listed one.  `p`
may be the consumer itself (repair `07d3d31`: a node that reads and writes the name). -/
theorem typed_other_producers (b : BuildInput) (h : buildGraph b = .ok ()) (hs : b.strict = true) (e : Edge)
    (he : e ∈ graphEdges b) (hk : e.kind = .data) (v : Name) (hv : v ∈ e.values) (p : NodeD) (hp : p ∈ b.nodes)
    (hpv : v ∈ p.dataOuts) (h1 : p.name ≠ e.src) :
    ∃ to ti, outType b p.name v = some to ∧ inType b e.dst v = some ti ∧ compat to ti = true :=
  (sound b h).typedAllProducers hs e he (by rw [hk]; decide) v hv p hp hpv h1

/-- the fuel-bounded reachability used for `Mutex` / `Ordered` is the reflexive-transitive closure -/
theorem reaches_iff_reach (V : List Name) (adj : Name → Name → Bool) (a c : Name) :
    reaches V adj a c = true ↔ Reach V adj a c := reaches_iff

/-- the multi-target clause read as "different targets have disjoint outputs" -/
theorem multiTarget_disjoint {b : BuildInput} (w : WellFormed b) {g n1 n2 : NodeD} (hg : g ∈ b.nodes)
    (hk : g.kind = .route) (hm : g.multiTarget = true) (h1 : n1 ∈ b.nodes) (h2 : n2 ∈ b.nodes)
    (t1 : n1.name ∈ g.targetNames) (t2 : n2.name ∈ g.targetNames) (hne : n1.name ≠ n2.name)
    {o : Name} (ho : o ∈ n1.outputs) : o ∉ n2.outputs :=
  targetOutputs_disjoint w.uniqueNames (w.multiTarget g hg hk hm) h1 h2 t1 t2 hne ho

/-- the namespace clause read through the code's dictionary -/
theorem noCollision_lastSource {b : BuildInput} (w : WellFormed b) {g : NodeD} (hg : g ∈ b.nodes)
    (hk : g.kind = .graph) {src : Name} (h : lastSource b.nodes g.name = some src) : src = g.name := by
  obtain ⟨l1, nd, l2, heq, hnm, ho, hl2⟩ := lastSource_eq_some_iff.mp h
  exact hnm ▸ w.noCollision g hg hk l1 nd l2 heq ho hl2

/-! ## 2. the error class -/

/-- every error of the constructor is a `GraphConfigError` -/
theorem error_is_config_error (b : BuildInput) (e : BuildErr) (h : buildGraph b = .error e) :
    e.isConfig = true := by
  obtain ⟨c, hc, he⟩ := runChecks_error h
  exact checks_cfg hc he

/-- … in particular never the raw networkx exception -/
theorem never_raw_error (b : BuildInput) (t : Name) : buildGraph b ≠ .error (.rawNetworkXError t) :=
  fun h => by have := error_is_config_error b _ h; cases this

/-- the repaired defect: before the repair a gate with targets `["A", "B", "nope"]` escaped the
constructor with `networkx.NetworkXError`; now it is the unknown-target configuration error -/
theorem old_unknown_target_raw :
    buildGraphOld exOldRaw = .error (.rawNetworkXError "nope") ∧
      buildGraph exOldRaw = .error (.unknownTarget "g" "nope") := by
  constructor <;> decide

/-- the pre-repair constructor differs from the repaired one only through that exception -/
theorem old_eq_new_of_no_raw (b : BuildInput) (h : chkOldRawError b = none) : buildGraphOld b = buildGraph b :=
  buildGraphOld_eq h

/-! ## 3. each flaw class is rejected, wherever it sits -/

theorem flaw_duplicate_node (b : BuildInput) (i j : Nat) (hi : i < b.nodes.length) (hj : j < b.nodes.length)
    (hij : i ≠ j) (hname : b.nodes[i].name = b.nodes[j].name) : buildGraph b ≠ .ok () := by
  intro h
  have hn := (sound b h).uniqueNames
  unfold nodeNames at hn
  have hi' : i < (b.nodes.map (·.name)).length := by simpa using hi
  have hj' : j < (b.nodes.map (·.name)).length := by simpa using hj
  have := (List.getElem_inj (h₀ := hi') (h₁ := hj') hn).mp (by simpa using hname)
  exact hij this

theorem flaw_unknown_target (b : BuildInput) (g : NodeD) (hg : g ∈ b.nodes) (hgate : g.isGate = true)
    (t : Name) (ht : t ∈ g.targetNames) (hunk : t ∉ nodeNames b) : buildGraph b ≠ .ok () :=
  fun h => hunk ((sound b h).targetsKnown g hg hgate t ht)

theorem flaw_gate_self_loop (b : BuildInput) (g : NodeD) (hg : g ∈ b.nodes) (hgate : g.isGate = true)
    (hself : g.name ∈ g.targetNames) : buildGraph b ≠ .ok () :=
  fun h => (sound b h).noSelfLoop g hg hgate hself

theorem flaw_illegal_node_name (b : BuildInput) (nd : NodeD) (hnd : nd ∈ b.nodes) (hk : nd.kind ≠ .graph)
    (hbad : ¬ LegalName nd.name) : buildGraph b ≠ .ok () :=
  fun h => hbad (((sound b h).legalNames nd hnd).1 hk)

/-- ANY node, nested-graph nodes included (the repair "output names of a nested graph are validated") -/
theorem flaw_illegal_output_name (b : BuildInput) (nd : NodeD) (hnd : nd ∈ b.nodes)
    (o : Name) (ho : o ∈ nd.outputs) (hbad : ¬ LegalName o) : buildGraph b ≠ .ok () :=
  fun h => hbad (((sound b h).legalNames nd hnd).2.2 o ho)

/-- a nested-graph node whose NAME holds a path separator (`inner.as_node().with_name("a/b")`) is
rejected, wherever it sits (the repair "reserved characters in a nested-graph node name are rejected
at construction") -/
theorem flaw_graph_node_path_name (b : BuildInput) (nd : NodeD) (hnd : nd ∈ b.nodes) (hk : nd.kind = .graph)
    (hbad : hasPathSep nd.name = true) : buildGraph b ≠ .ok () :=
  fun h => by simpa [hbad] using ((sound b h).legalNames nd hnd).2.1 hk

theorem flaw_reserved_name (b : BuildInput) (nd : NodeD) (hnd : nd ∈ b.nodes) (hname : nd.name = "END") :
    buildGraph b ≠ .ok () :=
  fun h => (sound b h).notReserved nd hnd hname

theorem flaw_graph_name (b : BuildInput) (hbad : '.' ∈ b.graphName.toList ∨ '/' ∈ b.graphName.toList) :
    buildGraph b ≠ .ok () :=
  fun h => hbad.elim (sound b h).graphName.1 (sound b h).graphName.2

/-- a graph node whose name is the output of some other node, that node being the last producer -/
theorem flaw_namespace_collision (b : BuildInput) (g : NodeD) (hg : g ∈ b.nodes) (hk : g.kind = .graph)
    (l1 l2 : List NodeD) (nd : NodeD) (hsplit : b.nodes = l1 ++ nd :: l2) (ho : g.name ∈ nd.outputs)
    (hlast : ∀ m ∈ l2, g.name ∉ m.outputs) (hne : nd.name ≠ g.name) : buildGraph b ≠ .ok () :=
  fun h => hne ((sound b h).noCollision g hg hk l1 nd l2 hsplit ho hlast)

/-- any two consumers of one parameter that disagree on its signature default -/
theorem flaw_inconsistent_defaults (b : BuildInput) (n1 n2 : NodeD) (h1 : n1 ∈ b.nodes) (h2 : n2 ∈ b.nodes)
    (p : Name) (hp1 : p ∈ n1.inputs) (hp2 : p ∈ n2.inputs)
    (hdiff : AL.get? n1.sigDefaults p ≠ AL.get? n2.sigDefaults p) : buildGraph b ≠ .ok () :=
  fun h => hdiff ((sound b h).defaults p n1 h1 n2 h2 hp1 hp2)

/-- … one has a default, the other has none -/
theorem flaw_default_missing (b : BuildInput) (n1 n2 : NodeD) (h1 : n1 ∈ b.nodes) (h2 : n2 ∈ b.nodes)
    (p : Name) (hp1 : p ∈ n1.inputs) (hp2 : p ∈ n2.inputs) (v : Val)
    (hd1 : AL.get? n1.sigDefaults p = some v) (hd2 : AL.get? n2.sigDefaults p = none) :
    buildGraph b ≠ .ok () :=
  flaw_inconsistent_defaults b n1 n2 h1 h2 p hp1 hp2 (by rw [hd1, hd2]; exact fun h => by cases h)

/-- … both have one, with different values -/
theorem flaw_default_values_differ (b : BuildInput) (n1 n2 : NodeD) (h1 : n1 ∈ b.nodes) (h2 : n2 ∈ b.nodes)
    (p : Name) (hp1 : p ∈ n1.inputs) (hp2 : p ∈ n2.inputs) (v1 v2 : Val)
    (hd1 : AL.get? n1.sigDefaults p = some v1) (hd2 : AL.get? n2.sigDefaults p = some v2) (hne : v1 ≠ v2) :
    buildGraph b ≠ .ok () :=
  flaw_inconsistent_defaults b n1 n2 h1 h2 p hp1 hp2
    (by rw [hd1, hd2]; exact fun h => hne (Option.some.inj h))

/-- two different producers of one name that are neither exclusive branches nor ordered -/
theorem flaw_output_conflict (b : BuildInput) (o a c : Name) (hne : a ≠ c) (ha : Produces b a o)
    (hc : Produces b c o) (hnm : ¬ Mutex b a c) (hno : ¬ Ordered b o a c) : buildGraph b ≠ .ok () :=
  fun h => ((sound b h).producers o a c hne ha hc).elim hnm hno

/-- two different targets of a multi-target route sharing an output -/
theorem flaw_multi_target_conflict (b : BuildInput) (g n1 n2 : NodeD) (hg : g ∈ b.nodes) (hk : g.kind = .route)
    (hm : g.multiTarget = true) (h1 : n1 ∈ b.nodes) (h2 : n2 ∈ b.nodes) (t1 : n1.name ∈ g.targetNames)
    (t2 : n2.name ∈ g.targetNames) (hne : n1.name ≠ n2.name) (o : Name) (ho1 : o ∈ n1.outputs)
    (ho2 : o ∈ n2.outputs) : buildGraph b ≠ .ok () :=
  fun h => multiTarget_disjoint (sound b h) hg hk hm h1 h2 t1 t2 hne ho1 ho2

theorem flaw_interrupt_in_map (b : BuildInput) (g : NodeD) (hg : g ∈ b.nodes) (hk : g.kind = .graph)
    (hmap : g.mapOver ≠ []) (hint : g.name ∈ b.innerInterrupts) : buildGraph b ≠ .ok () :=
  fun h => (sound b h).noInterruptInMap g hg hk hmap hint

theorem flaw_cache_on_graph_node (b : BuildInput) (g : NodeD) (hg : g ∈ b.nodes) (hk : g.kind = .graph)
    (hc : g.cache = true) : buildGraph b ≠ .ok () :=
  fun h => by have := (sound b h).noCacheOnGraph g hg hk; rw [hc] at this; cases this

theorem flaw_wait_for_unknown (b : BuildInput) (nd : NodeD) (hnd : nd ∈ b.nodes) (w : Name)
    (hw : w ∈ nd.waitFor) (hnone : ∀ p ∈ b.nodes, w ∉ p.outputs) : buildGraph b ≠ .ok () :=
  fun h => by
    obtain ⟨p, hp, hpo⟩ := (sound b h).waitForProduced nd hnd w hw
    exact hnone p hp hpo

theorem flaw_edge_unknown_source (b : BuildInput) (es : List (Name × Name × Option (List Name)))
    (hes : b.explicitEdges = some es) (e : Name × Name × Option (List Name)) (he : e ∈ es)
    (hunk : e.1 ∉ nodeNames b) : buildGraph b ≠ .ok () :=
  fun h => by
    obtain ⟨sn, hsn, hname, _⟩ := (sound b h).edgesKnown es hes e he
    exact hunk (List.mem_map.mpr ⟨sn, hsn, hname⟩)

theorem flaw_edge_unknown_target (b : BuildInput) (es : List (Name × Name × Option (List Name)))
    (hes : b.explicitEdges = some es) (e : Name × Name × Option (List Name)) (he : e ∈ es)
    (hunk : e.2.1 ∉ nodeNames b) : buildGraph b ≠ .ok () :=
  fun h => by
    obtain ⟨_, _, _, dn, hdn, hname, _⟩ := (sound b h).edgesKnown es hes e he
    exact hunk (List.mem_map.mpr ⟨dn, hdn, hname⟩)

/-- a listed value that is not an output of the source node -/
theorem flaw_edge_value_not_output (b : BuildInput) (es : List (Name × Name × Option (List Name)))
    (hes : b.explicitEdges = some es) (e : Name × Name × Option (List Name)) (he : e ∈ es)
    (vs : List Name) (hvs : e.2.2 = some vs) (v : Name) (hv : v ∈ vs) (sn : NodeD) (hsn : sn ∈ b.nodes)
    (hname : sn.name = e.1) (hbad : v ∉ sn.outputs) : buildGraph b ≠ .ok () :=
  fun h => by
    have w := sound b h
    obtain ⟨sn', hsn', hname', _, _, _, hval⟩ := w.edgesKnown es hes e he
    have : sn' = sn := node_eq_of_name_eq w.uniqueNames hsn' hsn (hname'.trans hname.symm)
    exact hbad (this ▸ (hval vs hvs v hv).1)

/-- a listed value that is not an input of the target node -/
theorem flaw_edge_value_not_input (b : BuildInput) (es : List (Name × Name × Option (List Name)))
    (hes : b.explicitEdges = some es) (e : Name × Name × Option (List Name)) (he : e ∈ es)
    (vs : List Name) (hvs : e.2.2 = some vs) (v : Name) (hv : v ∈ vs) (dn : NodeD) (hdn : dn ∈ b.nodes)
    (hname : dn.name = e.2.1) (hbad : v ∉ dn.inputs) : buildGraph b ≠ .ok () :=
  fun h => by
    have w := sound b h
    obtain ⟨_, _, _, dn', hdn', hname', hval⟩ := w.edgesKnown es hes e he
    have : dn' = dn := node_eq_of_name_eq w.uniqueNames hdn' hdn (hname'.trans hname.symm)
    exact hbad (this ▸ (hval vs hvs v hv).2)

/-- strict mode, ANY non-ordering edge of the built graph, ANY value on it: incompatible annotations -/
theorem flaw_type_mismatch (b : BuildInput) (hs : b.strict = true) (e : Edge) (he : e ∈ graphEdges b)
    (hk : e.kind ≠ .ordering) (v : Name) (hv : v ∈ e.values) (to ti : Ty) (ho : outType b e.src v = some to)
    (hi : inType b e.dst v = some ti) (hc : compat to ti = false) : buildGraph b ≠ .ok () :=
  fun h => by
    obtain ⟨to', ti', ho', hi', hc'⟩ := (sound b h).typed hs e he hk v hv
    rw [ho] at ho'; rw [hi] at hi'
    cases ho'; cases hi'
    rw [hc] at hc'; cases hc'

/-- strict mode: a missing annotation on either side of a non-ordering edge -/
theorem flaw_missing_annotation (b : BuildInput) (hs : b.strict = true) (e : Edge) (he : e ∈ graphEdges b)
    (hk : e.kind ≠ .ordering) (v : Name) (hv : v ∈ e.values)
    (hmiss : outType b e.src v = none ∨ inType b e.dst v = none) : buildGraph b ≠ .ok () :=
  fun h => by
    obtain ⟨to', ti', ho', hi', _⟩ := (sound b h).typed hs e he hk v hv
    rcases hmiss with hm | hm
    · rw [hm] at ho'; cases ho'
    · rw [hm] at hi'; cases hi'

/-- the same in the vocabulary of nodes (auto-inference mode): ANY consumer `nd` of a parameter `p`
whose (first) producer `s` is annotated incompatibly -/
theorem flaw_type_mismatch_consumer (b : BuildInput) (hs : b.strict = true) (hx : b.explicitEdges = none)
    (nd : NodeD) (hnd : nd ∈ b.nodes) (p s : Name) (hp : p ∈ nd.inputs)
    (hsrc : firstSource b.nodes p = some s) (to ti : Ty) (ho : outType b s p = some to)
    (hi : inType b nd.name p = some ti) (hc : compat to ti = false) : buildGraph b ≠ .ok () := by
  obtain ⟨e, he, hk, h1, h2, h3⟩ := graphEdges_hasVal_auto hx hnd hp hsrc
  exact flaw_type_mismatch b hs e he (by rw [hk]; decide) p h3 to ti (h1 ▸ ho) (h2 ▸ hi) hc

theorem flaw_missing_annotation_consumer (b : BuildInput) (hs : b.strict = true) (hx : b.explicitEdges = none)
    (nd : NodeD) (hnd : nd ∈ b.nodes) (p s : Name) (hp : p ∈ nd.inputs)
    (hsrc : firstSource b.nodes p = some s)
    (hmiss : outType b s p = none ∨ inType b nd.name p = none) : buildGraph b ≠ .ok () := by
  obtain ⟨e, he, hk, h1, h2, h3⟩ := graphEdges_hasVal_auto hx hnd hp hsrc
  exact flaw_missing_annotation b hs e he (by rw [hk]; decide) p h3 (h1 ▸ h2 ▸ hmiss)

/-- strict mode, ANY non-ordering edge, ANY value on it, ANY OTHER node `p` producing that value as data
(not the edge's source — that is `flaw_type_mismatch` / `flaw_missing_annotation`; since repair `07d3d31`
it MAY be the edge's target): `p` not annotated compatibly with the target's parameter (a missing
annotation on either side, or an incompatible pair) -/
theorem flaw_type_mismatch_any_producer (b : BuildInput) (hs : b.strict = true) (e : Edge)
    (he : e ∈ graphEdges b) (hk : e.kind ≠ .ordering) (v : Name) (hv : v ∈ e.values) (p : NodeD)
    (hp : p ∈ b.nodes) (hpv : v ∈ p.dataOuts) (h1 : p.name ≠ e.src)
    (hbad : ¬ TypedTriple b p.name e.dst v) : buildGraph b ≠ .ok () :=
  fun h => hbad ((sound b h).typedAllProducers hs e he hk v hv p hp hpv h1)

/-- … with the incompatible annotations named -/
theorem flaw_type_mismatch_other_producer (b : BuildInput) (hs : b.strict = true) (e : Edge)
    (he : e ∈ graphEdges b) (hk : e.kind ≠ .ordering) (v : Name) (hv : v ∈ e.values) (p : NodeD)
    (hp : p ∈ b.nodes) (hpv : v ∈ p.dataOuts) (h1 : p.name ≠ e.src) (to ti : Ty)
    (ho : outType b p.name v = some to) (hi : inType b e.dst v = some ti) (hc : compat to ti = false) :
    buildGraph b ≠ .ok () :=
  flaw_type_mismatch_any_producer b hs e he hk v hv p hp hpv h1 (by
    rintro ⟨to', ti', ho', hi', hc'⟩
    rw [ho] at ho'; rw [hi] at hi'
    cases ho'; cases hi'
    rw [hc] at hc'; cases hc')

/-- the same in the vocabulary of nodes (auto-inference mode), WHEREVER the producer is listed: ANY
consumer `nd` of a parameter `q` and ANY node `s` producing `q` as data — `nd` itself included, repair
`07d3d31` — not annotated compatibly with it.  (The first-listed producer is the source of the data edge,
every other one falls under `typedAllProducers`: acceptance does not depend on which of them comes first.) -/
theorem flaw_type_mismatch_any_producer_consumer (b : BuildInput) (hs : b.strict = true)
    (hx : b.explicitEdges = none) (nd : NodeD) (hnd : nd ∈ b.nodes) (q : Name) (hq : q ∈ nd.inputs)
    (s : NodeD) (hsn : s ∈ b.nodes) (hsq : q ∈ s.dataOuts)
    (hbad : ¬ TypedTriple b s.name nd.name q) : buildGraph b ≠ .ok () := by
  intro h
  have hmem : s.name ∈ sourcesOf b.nodes q :=
    mem_sourcesOf.mpr ⟨s, hsn, rfl, List.mem_append_left _ hsq⟩
  obtain ⟨f, hf⟩ : ∃ f, firstSource b.nodes q = some f := by
    unfold firstSource
    cases hl : sourcesOf b.nodes q with
    | nil => rw [hl] at hmem; cases hmem
    | cons x xs => exact ⟨x, rfl⟩
  obtain ⟨e, he, hk, h1, h2, h3⟩ := graphEdges_hasVal_auto hx hnd hq hf
  have hk' : e.kind ≠ .ordering := by rw [hk]; decide
  by_cases hsf : s.name = e.src
  · have := (sound b h).typed hs e he hk' q h3
    exact hbad (by rw [hsf, ← h2]; exact this)
  · have := (sound b h).typedAllProducers hs e he hk' q h3 s hsn hsq hsf
    exact hbad (by rw [← h2]; exact this)

/-! ## 4. the repaired graph is accepted -/

/-- whatever the flaw was: once the description satisfies the specification it is accepted -/
theorem repair_accepted (b' : BuildInput) (w : WellFormed b') : buildGraph b' = .ok () :=
  (validate_iff_wellformed b').mpr w

/-! ## 5. a rejected graph can never be run -/

/-- every runnable graph value is well-formed -/
theorem built_wellFormed (g : Built) : WellFormed g.input := sound g.input g.ok

/-- a rejected description is the input of no runnable graph value -/
theorem rejected_never_runs (b : BuildInput) (h : buildGraph b ≠ .ok ()) : ¬ ∃ g : Built, g.input = b := by
  rintro ⟨g, rfl⟩; exact h g.ok

/-- … and conversely a well-formed one is -/
theorem wellFormed_runs (b : BuildInput) (w : WellFormed b) : ∃ g : Built, g.input = b :=
  ⟨⟨b, repair_accepted b w⟩, rfl⟩

/-! ## non-vacuity -/

/-- the five-node graph with a gate and two exclusive producers of `r` is accepted (strict mode) … -/
example : buildGraph exGood = .ok () := buildGraph_ok_of_simple (by decide)
/-- … hence well-formed, and its two producers of `r` are `Mutex` (not merely `Ordered`) -/
example : WellFormed exGood := sound exGood (buildGraph_ok_of_simple (by decide))
example : Mutex exGood "left" "right" := (isPairMutex_groups_iff "left" "right").mp (by decide)
example : Produces exGood "left" "r" ∧ Produces exGood "right" "r" :=
  ⟨⟨exLeft, by simp [exGood], rfl, by decide⟩, ⟨exRight, by simp [exGood], rfl, by decide⟩⟩
example : (⟨exGood, buildGraph_ok_of_simple (by decide)⟩ : Built).input = exGood := rfl

/-- one single-flaw variant per class, each rejected with the error of its class -/
example : buildGraph exDupNode = .error (.duplicateNode "src") := by decide
example : buildGraph exUnknownTarget = .error (.unknownTarget "decide" "nope") := by decide
example : buildGraph exSelfLoop = .error (.gateSelfLoop "again") := by decide
example : buildGraph exSelfLoopRepaired = .ok () := buildGraph_ok_of_simple (by decide)
example : buildGraph exIllegalNodeName = .error (.invalidNodeName "sink-1") := by decide
example : buildGraph exIllegalOutputName = .error (.keywordOutputName "sink" "class") := by decide
example : buildGraph exReserved = .error (.reservedName "END") := by decide
example : buildGraph exCollision = .error (.namespaceCollision "a" "src") := by decide
example : buildGraph exWithSub = .ok () := buildGraph_ok_of_simple (by decide)
example : buildGraph exDefaults = .error (.mixedDefaults "a" ["left"] ["decide", "right"]) := by decide
example : buildGraph exDefaultsValue = .error (.defaultMismatch "a" "decide" "left") := by decide
example : buildGraph exDefaultsRepaired = .ok () := buildGraph_ok_of_simple (by decide)
example : buildGraph exConflict = .error (.outputConflict "r" "left" "right") := by decide
example : buildGraph exMultiBad = .error (.multiTargetConflict "g" "res") := by decide
example : buildGraph exMultiRepaired = .ok () := by decide
example : buildGraph exInterruptInMap = .error (.interruptInMap "sub") := by decide
example : buildGraph exMapNoInterrupt = .ok () := buildGraph_ok_of_simple (by decide)
example : buildGraph exCacheOnGraph = .error (.cacheOnGraphNode "sub") := by decide
example : buildGraph exWaitFor = .error (.waitForUnknown "sink" "ghost") := by decide
example : buildGraph exBadEdgeNode = .error (.edgeUnknownTarget "nope") := by decide
example : buildGraph exBadEdgeValue = .error (.edgeNotInput "src" "sink" "a") := by decide
example : buildGraph exExplicitGood = .ok () := buildGraph_ok_of_simple (by decide)
example : buildGraph exTypeMismatch = .error (.typeMismatch "left" "sink" "r") := by
  have hE : nxOrder exTypeMismatch.nodes (graphEdges exTypeMismatch) =
      [⟨"src", "decide", .data, ["a"]⟩, ⟨"src", "left", .data, ["a"]⟩, ⟨"src", "right", .data, ["a"]⟩,
       ⟨"decide", "left", .control, []⟩, ⟨"decide", "right", .control, []⟩, ⟨"left", "sink", .data, ["r"]⟩] := rfl
  have hT : chkTypes exTypeMismatch = some (.typeMismatch "left" "sink" "r") := by
    have hA : dataSourcesOf exTypeMismatch.nodes "a" = ["src"] := by decide
    have hR : dataSourcesOf exTypeMismatch.nodes "r" = ["left", "right"] := by decide
    unfold chkTypes
    rw [hE]
    simp only [List.findSome?_cons, List.findSome?_nil, chkTypesEdgeProducers, typeSourcesFor, hA, hR]
    simp [chkTypesTriple, exTypeMismatch, exGood, outType, inType, exOutTypes, AL.get?,
      compat_of_clsEq (t := .cls "int") (u := .cls "int") rfl, compat_int_str]
  rw [buildGraph_of_untyped (by decide), hT]
example : buildGraph exMissingAnnotation = .error (.missingInputAnnotation "sink" "r") := by
  have hE : nxOrder exMissingAnnotation.nodes (graphEdges exMissingAnnotation) =
      [⟨"src", "decide", .data, ["a"]⟩, ⟨"src", "left", .data, ["a"]⟩, ⟨"src", "right", .data, ["a"]⟩,
       ⟨"decide", "left", .control, []⟩, ⟨"decide", "right", .control, []⟩, ⟨"left", "sink", .data, ["r"]⟩] := rfl
  have hT : chkTypes exMissingAnnotation = some (.missingInputAnnotation "sink" "r") := by
    have hA : dataSourcesOf exMissingAnnotation.nodes "a" = ["src"] := by decide
    have hR : dataSourcesOf exMissingAnnotation.nodes "r" = ["left", "right"] := by decide
    unfold chkTypes
    rw [hE]
    simp only [List.findSome?_cons, List.findSome?_nil, chkTypesEdgeProducers, typeSourcesFor, hA, hR]
    simp [chkTypesTriple, exMissingAnnotation, exGood, outType, inType, exOutTypes, AL.get?,
      compat_of_clsEq (t := .cls "int") (u := .cls "int") rfl]
  rw [buildGraph_of_untyped (by decide), hT]
example : buildGraph exGraphName = .error (.graphName "pipe.line") := by decide
example : classify exConflict = "output_conflict" ∧ classify exUnknownTarget = "unknown_target" ∧
    classifyOld exOldRaw = "raw_networkx_error" ∧ classify exOldRaw = "unknown_target" := by decide

/-- the flaw theorems apply to the variants (hypotheses satisfiable) -/
example : buildGraph exUnknownTarget ≠ .ok () :=
  flaw_unknown_target exUnknownTarget
    { exDecide with targets := [.node "left", .node "right", .node "nope"] }
    (by simp [exUnknownTarget, exWith]) (by decide) "nope" (by decide) (by decide)
example : buildGraph exDupNode ≠ .ok () :=
  flaw_duplicate_node exDupNode 0 4 (by decide) (by decide) (by decide) (by decide)
example : buildGraph exTypeMismatch ≠ .ok () :=
  flaw_type_mismatch_consumer exTypeMismatch rfl rfl exSink (by simp [exTypeMismatch, exGood]) "r" "left"
    (by decide) (by decide) (.cls "int") (.cls "str") rfl rfl compat_int_str
example : ¬ ∃ g : Built, g.input = exConflict := rejected_never_runs exConflict (by decide)

/-! ## surprising behaviour of the code, as facts of the model (each replayed on the real constructor) -/

/-- BEFORE the repair "strict typing skips ordering edges" strict mode rejected a VALID graph: `a` emits
`done`, `c` waits for it; the ordering edge carries the value name `done`, the pre-repair
`_validate_types` (`chkTypesAllEdges`, constructor `buildGraphAllEdges`) asked for its annotations, there are none by construction.  The
repaired constructor accepts the graph, strict or not. -/
theorem strict_waitfor_rejected :
    let a : NodeD := { mkNode "a" .fn ["x"] ["y"] with emits := ["done"] }
    let c : NodeD := { mkNode "c" .fn ["q"] ["z"] with waitFor := ["done"] }
    let tyIn : AL (AL Ty) := [("a", [("x", .cls "int")]), ("c", [("q", .cls "int")])]
    let tyOut : AL (AL Ty) := [("a", [("y", .cls "int")]), ("c", [("z", .cls "int")])]
    buildGraphAllEdges { nodes := [a, c], strict := true, inTypes := tyIn, outTypes := tyOut }
        = .error (.missingOutputAnnotation "a" "done") ∧
      buildGraphAllEdges { nodes := [a, c], strict := false, inTypes := tyIn, outTypes := tyOut } = .ok () ∧
      buildGraph { nodes := [a, c], strict := true, inTypes := tyIn, outTypes := tyOut } = .ok () ∧
      buildGraph { nodes := [a, c], strict := false, inTypes := tyIn, outTypes := tyOut } = .ok () := by
  exact ⟨by decide, by decide, buildGraph_ok_of_simple (by decide), by decide⟩

/-- known as the defect repaired by the fix "strict typing skips ordering edges".  The producer `p`
(`x : int → a : int`, emits `done`) and the node `r` (`q : int → z : int`) that only WAITS for `done`:
no data edge between them (`x` and `q` are fed from outside), every data parameter and output annotated.
The built graph has the single edge `p → r`, an ordering edge labelled `done`.  The constructor accepts
the graph; the pre-repair type check (`chkTypesAllEdges`, every edge with value names) reports a missing
annotation for it — the emit name `done` has no output type — and so the pre-repair constructor
`buildGraphAllEdges` rejects it. -/
theorem strict_wait_for_witness :
    let p : NodeD := { mkNode "p" .fn ["x"] ["a"] with emits := ["done"] }
    let r : NodeD := { mkNode "r" .fn ["q"] ["z"] with waitFor := ["done"] }
    let b : BuildInput :=
      { nodes := [p, r], strict := true,
        inTypes := [("p", [("x", .cls "int")]), ("r", [("q", .cls "int")])],
        outTypes := [("p", [("a", .cls "int")]), ("r", [("z", .cls "int")])] }
    graphEdges b = [⟨"p", "r", .ordering, ["done"]⟩] ∧
      buildGraph b = .ok () ∧ classify b = "ok" ∧
      chkTypesAllEdges b = some (.missingOutputAnnotation "p" "done") ∧
      buildGraphAllEdges b = .error (.missingOutputAnnotation "p" "done") ∧
      classifyAllEdges b = "missing_annotation" := by
  intro p r b
  have hok : buildGraph b = .ok () := buildGraph_ok_of_simple (by decide)
  exact ⟨rfl, hok, (classify_ok_iff b).mpr (sound b hok), by decide, by decide, by decide⟩

/-- the repair "strict typing skips ordering edges" never turned an accepted graph into a rejected one:
what the all-edges constructor accepted, the constructor it was repaired into (`buildGraphFirstProducer`)
accepted.  (Against the PRESENT constructor that is false — the later repair "strict_types checks every
producer of a value against its consumer" rejects `exSecondStr`, which has no ordering edge and which both
earlier constructors accepted: `strict_second_producer_witness`.) -/
theorem allEdges_accepted_still_accepted (b : BuildInput) (h : buildGraphAllEdges b = .ok ()) :
    buildGraphFirstProducer b = .ok () := buildGraphFirstProducer_ok_of_allEdges h

theorem chkTypes_exSecondStr : chkTypes exSecondStr = some (.typeMismatch "right" "sink" "r") := by
  have hE : nxOrder exSecondStr.nodes (graphEdges exSecondStr) =
      [⟨"src", "decide", .data, ["a"]⟩, ⟨"src", "left", .data, ["a"]⟩, ⟨"src", "right", .data, ["a"]⟩,
       ⟨"decide", "left", .control, []⟩, ⟨"decide", "right", .control, []⟩, ⟨"left", "sink", .data, ["r"]⟩] := rfl
  have hA : dataSourcesOf exSecondStr.nodes "a" = ["src"] := by decide
  have hR : dataSourcesOf exSecondStr.nodes "r" = ["left", "right"] := by decide
  unfold chkTypes
  rw [hE]
  simp only [List.findSome?_cons, List.findSome?_nil, chkTypesEdgeProducers, typeSourcesFor, hA, hR]
  simp [chkTypesTriple, exSecondStr, exStrOut, exGood, exInTypes, outType, inType, AL.get?,
    compat_of_clsEq (t := .cls "int") (u := .cls "int") rfl, compat_str_int]

theorem chkTypes_exSecondStrSwapped :
    chkTypes exSecondStrSwapped = some (.typeMismatch "right" "sink" "r") ∧
      chkTypesFirstProducer exSecondStrSwapped = some (.typeMismatch "right" "sink" "r") := by
  have hE : nxOrder exSecondStrSwapped.nodes (graphEdges exSecondStrSwapped) =
      [⟨"src", "decide", .data, ["a"]⟩, ⟨"src", "right", .data, ["a"]⟩, ⟨"src", "left", .data, ["a"]⟩,
       ⟨"decide", "left", .control, []⟩, ⟨"decide", "right", .control, []⟩, ⟨"right", "sink", .data, ["r"]⟩] := rfl
  have hA : dataSourcesOf exSecondStrSwapped.nodes "a" = ["src"] := by decide
  have hR : dataSourcesOf exSecondStrSwapped.nodes "r" = ["right", "left"] := by decide
  constructor
  · unfold chkTypes
    rw [hE]
    simp only [List.findSome?_cons, List.findSome?_nil, chkTypesEdgeProducers, typeSourcesFor, hA, hR]
    simp [chkTypesTriple, exSecondStrSwapped, exSecondStr, exStrOut, exGood, exInTypes, outType, inType, AL.get?,
      compat_of_clsEq (t := .cls "int") (u := .cls "int") rfl, compat_str_int]
  · unfold chkTypesFirstProducer
    rw [hE]
    simp only [List.findSome?_cons, List.findSome?_nil, chkTypesEdge]
    simp [chkTypesTriple, exSecondStrSwapped, exSecondStr, exStrOut, exGood, exInTypes, outType, inType, AL.get?,
      compat_of_clsEq (t := .cls "int") (u := .cls "int") rfl, compat_str_int]

/-- known as the defect repaired by the fix "strict_types checks every producer of a value against its
consumer".  `exSecondStr` is the five-node strict graph with `right` — the SECOND-listed of the two
exclusive producers of `r` — annotated `-> str`, the consumer being `sink(r : int)`.  The built graph has a
data edge `left → sink` only; the pre-repair type check (`chkTypesFirstProducer`, constructor
`buildGraphFirstProducer`) followed the data edges and accepted the graph, although `right` delivers a
`str` whenever the gate picks it.  With `right` listed first (`exSecondStrSwapped`) the very same graph
was rejected: acceptance depended on the order of the node list.  The repaired constructor checks every
data producer of `r` against `sink` and rejects both with the class of a type mismatch.
(Not `by decide`: `compat` is defined by well-founded recursion; the pieces that are kernel-evaluable are.) -/
theorem strict_second_producer_witness :
    buildGraphFirstProducer exSecondStr = .ok () ∧ classifyFirstProducer exSecondStr = "ok" ∧
      buildGraph exSecondStr = .error (.typeMismatch "right" "sink" "r") ∧
      classify exSecondStr = "type_mismatch" ∧
      buildGraphFirstProducer exSecondStrSwapped = .error (.typeMismatch "right" "sink" "r") ∧
      buildGraph exSecondStrSwapped = .error (.typeMismatch "right" "sink" "r") := by
  have h1 : buildGraphFirstProducer exSecondStr = .ok () := buildGraphFirstProducer_ok_of_simple (by decide)
  have h2 : buildGraph exSecondStr = .error (.typeMismatch "right" "sink" "r") := by
    rw [buildGraph_of_untyped (by decide), chkTypes_exSecondStr]
  have h3 : buildGraphFirstProducer exSecondStrSwapped = .error (.typeMismatch "right" "sink" "r") := by
    rw [buildGraphFirstProducer_of_untyped (by decide), chkTypes_exSecondStrSwapped.2]
  have h4 : buildGraph exSecondStrSwapped = .error (.typeMismatch "right" "sink" "r") := by
    rw [buildGraph_of_untyped (by decide), chkTypes_exSecondStrSwapped.1]
  refine ⟨h1, ?_, h2, ?_, h3, h4⟩
  · unfold classifyFirstProducer; rw [h1]
  · unfold classify; rw [h2]; rfl

/-- the flaw theorem applies to it (hypotheses satisfiable): `right` is another data producer of the value
`r` on the edge `left → sink` -/
theorem strict_second_producer_flaw : buildGraph exSecondStr ≠ .ok () :=
  flaw_type_mismatch_other_producer exSecondStr rfl ⟨"left", "sink", .data, ["r"]⟩
    (mem_nxOrder.mp (by
      have hE : nxOrder exSecondStr.nodes (graphEdges exSecondStr) =
          [⟨"src", "decide", .data, ["a"]⟩, ⟨"src", "left", .data, ["a"]⟩, ⟨"src", "right", .data, ["a"]⟩,
           ⟨"decide", "left", .control, []⟩, ⟨"decide", "right", .control, []⟩,
           ⟨"left", "sink", .data, ["r"]⟩] := rfl
      rw [hE]; simp)) (by decide)
    "r" (by decide) exRight (by simp [exSecondStr, exGood]) (by decide) (by decide)
    (.cls "str") (.cls "int") rfl rfl compat_str_int

/-- the repair never accepts a graph the pre-repair constructor rejected -/
theorem accepted_was_accepted_firstProducer (b : BuildInput) (h : buildGraph b = .ok ()) :
    buildGraphFirstProducer b = .ok () := buildGraphFirstProducer_ok_of h

/-! ### self-feeding producer (repair `07d3d31`)

`_validate_types` collected, for a value `v` on an edge `source → target`, the other producers of `v` with
`other not in (source_name, target_name)`: the TARGET itself was skipped.  A node that reads and writes the
same name (an accumulator: parameter `messages`, data output `messages`) and is listed after the first
producer of that name gets its data edge from the first producer only, so its own output annotation was
never compared with its own parameter annotation — although on the next round the node is fed what it
wrote.  The repair compares `other != source_name` only. -/

/-- `init() -> messages : str`, `add(messages : str) -> messages : int`, listed `[init, add]`, strict: the
built graph has the single data edge `init → add` carrying `messages` -/
def exSelfFeed : BuildInput :=
  { nodes := [mkNode "init" .fn [] ["messages"], mkNode "add" .fn ["messages"] ["messages"]], strict := true,
    inTypes := [("add", [("messages", .cls "str")])],
    outTypes := [("init", [("messages", .cls "str")]), ("add", [("messages", .cls "int")])] }

/-- the same with the edge `init → add` declared (`edges=[("init", "add")]`): the two producers of
`messages` are then ordered by a declared edge and every check before `_validate_types` passes -/
def exSelfFeedDeclared : BuildInput := { exSelfFeed with explicitEdges := some [("init", "add", none)] }

/-- the repaired type check rejects the self-feeding node: `add` writes an `int` into the name it reads as
a `str`.  The triple `(init, add, messages)` — the edge's own — is fine (`str` into `str`); the triple
`(add, add, messages)`, present since repair `07d3d31`, is the mismatch.  With the edge declared the
constructor reaches `_validate_types` and reports exactly that error.  (In auto-inference mode the
constructor stops earlier, at the output-conflict check: a data edge carrying the contested name does not
order its producers; stated as the last conjunct so that nothing is claimed about `buildGraph exSelfFeed`
beyond what the model says.) -/
theorem self_feed_rejected_witness :
    graphEdges exSelfFeed = [⟨"init", "add", .data, ["messages"]⟩] ∧
      chkTypes exSelfFeed = some (.typeMismatch "add" "add" "messages") ∧
      graphEdges exSelfFeedDeclared = [⟨"init", "add", .data, ["messages"]⟩] ∧
      chkTypes exSelfFeedDeclared = some (.typeMismatch "add" "add" "messages") ∧
      buildGraph exSelfFeedDeclared = .error (.typeMismatch "add" "add" "messages") ∧
      classify exSelfFeedDeclared = "type_mismatch" ∧
      buildGraph exSelfFeed = .error (.outputConflict "messages" "init" "add") := by
  have hM : dataSourcesOf exSelfFeed.nodes "messages" = ["init", "add"] := by decide
  have hM' : dataSourcesOf exSelfFeedDeclared.nodes "messages" = ["init", "add"] := by decide
  have hE : nxOrder exSelfFeed.nodes (graphEdges exSelfFeed) = [⟨"init", "add", .data, ["messages"]⟩] := rfl
  have hE' : nxOrder exSelfFeedDeclared.nodes (graphEdges exSelfFeedDeclared) =
      [⟨"init", "add", .data, ["messages"]⟩] := rfl
  have h1 : chkTypes exSelfFeed = some (.typeMismatch "add" "add" "messages") := by
    unfold chkTypes
    rw [hE]
    simp only [List.findSome?_cons, List.findSome?_nil, chkTypesEdgeProducers, typeSourcesFor, hM]
    simp [chkTypesTriple, exSelfFeed, outType, inType, AL.get?,
      compat_of_clsEq (t := .cls "str") (u := .cls "str") rfl, compat_int_str]
  have h2 : chkTypes exSelfFeedDeclared = some (.typeMismatch "add" "add" "messages") := by
    unfold chkTypes
    rw [hE']
    simp only [List.findSome?_cons, List.findSome?_nil, chkTypesEdgeProducers, typeSourcesFor, hM']
    simp [chkTypesTriple, exSelfFeedDeclared, exSelfFeed, outType, inType, AL.get?,
      compat_of_clsEq (t := .cls "str") (u := .cls "str") rfl, compat_int_str]
  have h3 : buildGraph exSelfFeedDeclared = .error (.typeMismatch "add" "add" "messages") := by
    rw [buildGraph_of_untyped (by decide), h2]
  refine ⟨rfl, h1, rfl, h2, h3, ?_, by decide⟩
  unfold classify; rw [h3]; rfl

/-- known as the defect repaired by `07d3d31`: the type check as it was before the repair (`chkTypesSkipSelf`:
the consumer skipped among the other producers) finds nothing wrong with the very same graphs, and with the
edge declared every other check passes too, so the pre-repair constructor — the checks before
`_validate_types` followed by `chkTypesSkipSelf` — accepted a graph whose node `add` is fed its own `int`
where it declares a `str`. -/
theorem flaw_self_feed_unchecked_witness :
    chkTypesSkipSelf exSelfFeed = none ∧ chkTypesSkipSelf exSelfFeedDeclared = none ∧
      runChecks (checksUntyped ++ [chkTypesSkipSelf]) exSelfFeedDeclared = .ok () := by
  have hM : dataSourcesOf exSelfFeed.nodes "messages" = ["init", "add"] := by decide
  have hM' : dataSourcesOf exSelfFeedDeclared.nodes "messages" = ["init", "add"] := by decide
  have hE : nxOrder exSelfFeed.nodes (graphEdges exSelfFeed) = [⟨"init", "add", .data, ["messages"]⟩] := rfl
  have hE' : nxOrder exSelfFeedDeclared.nodes (graphEdges exSelfFeedDeclared) =
      [⟨"init", "add", .data, ["messages"]⟩] := rfl
  have h1 : chkTypesSkipSelf exSelfFeed = none := by
    unfold chkTypesSkipSelf
    rw [hE]
    simp only [List.findSome?_cons, List.findSome?_nil, chkTypesEdgeProducersSkipSelf, typeSourcesForSkipSelf, hM]
    simp [chkTypesTriple, exSelfFeed, outType, inType, AL.get?,
      compat_of_clsEq (t := .cls "str") (u := .cls "str") rfl]
  have h2 : chkTypesSkipSelf exSelfFeedDeclared = none := by
    unfold chkTypesSkipSelf
    rw [hE']
    simp only [List.findSome?_cons, List.findSome?_nil, chkTypesEdgeProducersSkipSelf, typeSourcesForSkipSelf, hM']
    simp [chkTypesTriple, exSelfFeedDeclared, exSelfFeed, outType, inType, AL.get?,
      compat_of_clsEq (t := .cls "str") (u := .cls "str") rfl]
  refine ⟨h1, h2, runChecks_ok.mpr fun c hc => ?_⟩
  rcases List.mem_append.mp hc with hc | hc
  · exact runChecks_ok.mp (show runChecks checksUntyped exSelfFeedDeclared = .ok () by decide) c hc
  · rw [List.mem_singleton.mp hc]; exact h2

/-- the general statement: in an accepted strict description, on ANY non-ordering edge and for ANY value `v`
on it, a target that also produces `v` as data (the node named `e.dst` lists `v` among its `dataOuts`) is
typed against ITSELF: its output annotation for `v` and its parameter annotation for `v` are both present
and compatible.  (Whether or not the edge is a self-loop: if `e.dst = e.src` this is the edge's own triple.) -/
theorem self_feed_checked (b : BuildInput) (h : chkTypes b = none) (hs : b.strict = true) (e : Edge)
    (he : e ∈ graphEdges b) (hk : e.kind ≠ .ordering) (v : Name) (hv : v ∈ e.values) (n : NodeD)
    (hn : n ∈ b.nodes) (hname : n.name = e.dst) (hnv : v ∈ n.dataOuts) :
    TypedOK b { e with src := e.dst } v := by
  have h' := chkTypes_none.mp h hs e he hk v hv
  by_cases hne : e.dst = e.src
  · have h0 : TypedTriple b e.src e.dst v := h'.1
    show TypedTriple b e.dst e.dst v
    rw [hne]; rw [hne] at h0; exact h0
  · have h2 := h'.2 n hn hnv (by rw [hname]; exact hne)
    rw [hname] at h2
    exact h2

/-- … of a graph the constructor accepted, annotations spelled out -/
theorem self_feed_checked_built (b : BuildInput) (h : buildGraph b = .ok ()) (hs : b.strict = true) (e : Edge)
    (he : e ∈ graphEdges b) (hk : e.kind ≠ .ordering) (v : Name) (hv : v ∈ e.values) (n : NodeD)
    (hn : n ∈ b.nodes) (hname : n.name = e.dst) (hnv : v ∈ n.dataOuts) :
    ∃ to ti, outType b e.dst v = some to ∧ inType b e.dst v = some ti ∧ compat to ti = true :=
  self_feed_checked b (chkTypes_none_split.mpr ⟨(sound b h).typed, (sound b h).typedAllProducers⟩)
    hs e he hk v hv n hn hname hnv

/-- the flaw form: a consumer that also produces the value and is not annotated compatibly with itself is
rejected, wherever it is listed -/
theorem flaw_self_feed_mismatch (b : BuildInput) (hs : b.strict = true) (e : Edge)
    (he : e ∈ graphEdges b) (hk : e.kind ≠ .ordering) (v : Name) (hv : v ∈ e.values) (n : NodeD)
    (hn : n ∈ b.nodes) (hname : n.name = e.dst) (hnv : v ∈ n.dataOuts)
    (hbad : ¬ TypedTriple b e.dst e.dst v) : buildGraph b ≠ .ok () :=
  fun h => hbad (self_feed_checked_built b h hs e he hk v hv n hn hname hnv)

/-- the flaw theorem applies to the witness (hypotheses satisfiable) -/
example : buildGraph exSelfFeedDeclared ≠ .ok () :=
  flaw_self_feed_mismatch exSelfFeedDeclared rfl ⟨"init", "add", .data, ["messages"]⟩
    (by rw [self_feed_rejected_witness.2.2.1]; simp) (by decide) "messages" (by decide)
    (mkNode "add" .fn ["messages"] ["messages"]) (by simp [exSelfFeedDeclared, exSelfFeed]) rfl (by decide)
    (by
      rintro ⟨to, ti, ho, hi, hc⟩
      have ho' : outType exSelfFeedDeclared "add" "messages" = some (.cls "int") := rfl
      have hi' : inType exSelfFeedDeclared "add" "messages" = some (.cls "str") := rfl
      rw [ho'] at ho; rw [hi'] at hi
      cases ho; cases hi
      rw [compat_int_str] at hc; cases hc)

/-- repair `07d3d31` only ever accepts less: what the present type check passes, the pre-repair one passed -/
theorem chkTypes_accepted_was_accepted_skipSelf (b : BuildInput) (h : chkTypes b = none) :
    chkTypesSkipSelf b = none := chkTypesSkipSelf_of_chkTypes h

/-- BEFORE the repair "output names of a nested graph are validated" the identifier rule skipped graph
nodes together with their outputs (`chkIdentifiersSkipGraph`, constructor `buildGraphSkipGraph`); the repaired rule still exempts the NAME
of a graph node (`my-graph` is fine) but rejects its first illegal output -/
theorem graph_node_output_names_unchecked :
    buildGraphSkipGraph { nodes := [mkNode "my-graph" .graph ["x"] ["not valid!", "class"]] } = .ok () ∧
      buildGraph { nodes := [mkNode "my-graph" .graph ["x"] ["not valid!", "class"]] }
        = .error (.invalidOutputName "my-graph" "not valid!") ∧
      buildGraph { nodes := [mkNode "my-graph" .graph ["x"] ["valid", "cls"]] } = .ok () := by
  decide

/-- the repair "output names of a nested graph are validated" never accepts a graph the pre-repair
constructor rejected -/
theorem accepted_was_accepted_skipGraph (b : BuildInput) (h : buildGraph b = .ok ()) :
    buildGraphSkipGraph b = .ok () := buildGraphSkipGraph_ok_of h

/-- known as the defect repaired by the fix "output names of a nested graph are validated"
(`inner.as_node().with_outputs(y="for")`): a nested-graph node `sub` whose output is named `for`, a
Python keyword.  The repaired identifier check rejects it (and so does the constructor, with the error
class of an illegal name); the pre-repair check, which `continue`d on graph nodes, accepts it, and so
does the pre-repair constructor `buildGraphSkipGraph`. -/
theorem graph_node_output_name_witness :
    let b : BuildInput := { nodes := [mkNode "src" .fn ["x"] ["a"], mkNode "sub" .graph ["a"] ["for"]] }
    chkIdentifiers b = some (.keywordOutputName "sub" "for") ∧
      buildGraph b = .error (.keywordOutputName "sub" "for") ∧ classify b = "illegal_name" ∧
      chkIdentifiersSkipGraph b = none ∧ buildGraphSkipGraph b = .ok () ∧ classifySkipGraph b = "ok" := by
  decide

/-- known as the defect repaired by the fix "reserved characters in a nested-graph node name are rejected
at construction" (`inner.as_node().with_name("a/b")`): the repaired identifier check rejects the node
(class of an illegal name), and so does the constructor; the pre-repair check did not look at the name
of a graph node.  A name without separators (`my-graph`) stays legal. -/
theorem graph_node_path_name_witness :
    let b : BuildInput := { nodes := [mkNode "src" .fn ["x"] ["a"], mkNode "a/b" .graph ["a"] ["r"]] }
    chkIdentifiers b = some (.invalidNodeName "a/b") ∧
      buildGraph b = .error (.invalidNodeName "a/b") ∧ classify b = "illegal_name" ∧
      chkIdentifiersAnyGraphName b = none ∧
      buildGraph { nodes := [mkNode "src" .fn ["x"] ["a"], mkNode "my-graph" .graph ["a"] ["r"]] } = .ok () := by
  decide

/-- known as the defect repaired by the fix "a node cannot declare one output name twice"
(`@node(output_name=("a", "a"))`): the repaired constructor rejects it with the class `duplicate_output`;
the pre-repair constructor `buildGraphDupOutputs` accepted it (the second value silently overwrote the first). -/
theorem duplicate_output_name_witness :
    let b : BuildInput := { nodes := [mkNode "f" .fn ["x"] ["a", "a"], mkNode "g" .fn ["a"] ["r"]] }
    chkDistinctOutputs b = some (.duplicateOutputName "f" "a") ∧
      buildGraph b = .error (.duplicateOutputName "f" "a") ∧ classify b = "duplicate_output" ∧
      buildGraphDupOutputs b = .ok () := by
  decide

/-- the repair never accepts a graph the pre-repair constructor rejected -/
theorem accepted_was_accepted_dupOutputs (b : BuildInput) (h : buildGraph b = .ok ()) :
    buildGraphDupOutputs b = .ok () := buildGraphDupOutputs_ok_of h

/-! ## the repair "two producers of one name are exclusive only if neither can run without its branch" -/

/-- what the specification means at the target itself: the branch of `t` is non-empty only if no gate
other than `gate` routes to `t` (a target shared with another gate runs whenever THAT gate picks it) -/
theorem inBranch_root_sole_controller {nodes : List NodeD} {V : List Name} {adj : Name → Name → Bool}
    {T : List Name} {gate t : Name} (h : InBranch nodes V adj T gate t t) :
    ∀ g ∈ nodes, g.isGate = true → t ∈ g.targetNames → g.name = gate := h.sole

/-- … and that holds for every member, not only for the target -/
theorem inBranch_sole_controller {nodes : List NodeD} {V : List Name} {adj : Name → Name → Bool}
    {T : List Name} {gate t m : Name} (h : InBranch nodes V adj T gate t m) :
    ∀ g ∈ nodes, g.isGate = true → t ∈ g.targetNames → g.name = gate := h.sole

/-- what the specification means below the target: a member `m ≠ t` of the branch is reachable from `t`
and from no other target, and needs the branch — (a) a parameter of `m` without a default of its own has
producers, all in the branch; or (b) a signal `m` waits for has producers, all in the branch; or (c) some
gate routes to `m` and every gate routing to `m` is in the branch -/
theorem inBranch_needs {nodes : List NodeD} {V : List Name} {adj : Name → Name → Bool}
    {T : List Name} {gate t m : Name} (h : InBranch nodes V adj T gate t m) (hne : m ≠ t) :
    Excl V adj T t m ∧
      ((∃ nd ∈ nodes, nd.name = m ∧ ∃ p ∈ nd.inputs, p ∉ nd.hasDefault ∧ sourcesOf nodes p ≠ [] ∧
          ∀ s ∈ sourcesOf nodes p, InBranch nodes V adj T gate t s) ∨
        (∃ nd ∈ nodes, nd.name = m ∧ ∃ w ∈ nd.waitFor, sourcesOf nodes w ≠ [] ∧
          ∀ s ∈ sourcesOf nodes w, InBranch nodes V adj T gate t s) ∨
        (controllersOf nodes m ≠ [] ∧ ∀ c ∈ controllersOf nodes m, InBranch nodes V adj T gate t c)) :=
  h.needs.resolve_left hne

/-- conversely the branch is closed under that rule (with `inBranch_needs`: it is the least such set) -/
theorem inBranch_closed {nodes : List NodeD} {V : List Name} {adj : Name → Name → Bool}
    {T : List Name} {gate t m : Name} (he : Excl V adj T t m)
    (hn : NeedsBranch nodes (InBranch nodes V adj T gate t) m) : InBranch nodes V adj T gate t m :=
  .step he hn

/-- the executable branch sets (`branchOf`, `|candidates|` rounds) are the declarative ones -/
theorem branchOf_iff_inBranch (nodes : List NodeD) (V : List Name) (adj : Name → Name → Bool) (T : List Name)
    (gate t m : Name) : m ∈ branchOf nodes gate t (candOf V adj T t) ↔ InBranch nodes V adj T gate t m :=
  mem_branchOf_iff fun _ => mem_candOf

/-- every member of a repaired branch is the target itself or a member of the pre-repair branch -/
theorem inBranch_root_or_excl {nodes : List NodeD} {V : List Name} {adj : Name → Name → Bool}
    {T : List Name} {gate t m : Name} (h : InBranch nodes V adj T gate t m) : m = t ∨ Excl V adj T t m :=
  h.root_or_excl

/-- the repaired rule calls no more pairs exclusive than the pre-repair one — on graphs where no target of
an exclusive gate is reachable from a sibling target (`TargetsApart`).  The hypothesis cannot be dropped:
`_dependent_on_branch` starts from `{target}` even when the target lies below a sibling target, where the
pre-repair rule counted it out (`loop_back_branches_now_mutex_witness`). -/
theorem mutex_was_mutex (b : BuildInput) (hap : TargetsApart b) (a c : Name) (h : Mutex b a c) :
    MutexReach b a c := h.mutexReach hap

/-- … so on those graphs the repair never accepts a graph the pre-repair constructor rejected -/
theorem accepted_was_accepted_mutexReach (b : BuildInput) (hap : TargetsApart b) (h : buildGraph b = .ok ()) :
    buildGraphMutexReach b = .ok () := buildGraphMutexReach_ok_of hap h

/-- known as the defect repaired by the fix "two producers of one name are exclusive only if neither can
run without its branch", first shape: a target shared by two gates.  `g1` routes to `n6` or `n3`, `g25`
routes to `n6` or ends; `n3 → v5 → n8 → v10`, `n6 → v7 → n21 → v10`.  `n8` and `n21` are reachable from one
target of `g1` each, the pre-repair rule called them exclusive and the pre-repair constructor accepted the
graph — but `g25` can start `n6` (hence `n21`) in a run where `g1` chose `n3` (hence `n8`).  The repaired
rule gives `n6` an empty branch under `g1` and under `g25`; the constructor rejects the graph with the
class of two producers of one name. -/
theorem shared_target_not_mutex_witness :
    let g1 : NodeD := { mkNode "g1" .ifelse ["c1"] [] with targets := [.node "n6", .node "n3"] }
    let g25 : NodeD := { mkNode "g25" .ifelse ["c2"] [] with targets := [.node "n6", .end_] }
    let b : BuildInput :=
      { nodes := [g1, g25, mkNode "n3" .fn ["x"] ["v5"], mkNode "n6" .fn ["y"] ["v7"],
          mkNode "n8" .fn ["v5"] ["v10"], mkNode "n21" .fn ["v7"] ["v10"]] }
    let adj := rowsAdj (adjRows (nodeNames b) (hasEdge (graphEdges b)))
    isPairMutex (expandedGroupsReach b.nodes (nodeNames b) adj) "n8" "n21" = true ∧
      buildGraphMutexReach b = .ok () ∧ classifyMutexReach b = "ok" ∧
      isPairMutex (expandedGroups b.nodes (nodeNames b) adj) "n8" "n21" = false ∧
      buildGraph b = .error (.outputConflict "v10" "n8" "n21") ∧ classify b = "output_conflict" := by
  decide

/-- the same in the vocabulary of the specification -/
theorem shared_target_not_mutex_spec :
    let g1 : NodeD := { mkNode "g1" .ifelse ["c1"] [] with targets := [.node "n6", .node "n3"] }
    let g25 : NodeD := { mkNode "g25" .ifelse ["c2"] [] with targets := [.node "n6", .end_] }
    let b : BuildInput :=
      { nodes := [g1, g25, mkNode "n3" .fn ["x"] ["v5"], mkNode "n6" .fn ["y"] ["v7"],
          mkNode "n8" .fn ["v5"] ["v10"], mkNode "n21" .fn ["v7"] ["v10"]] }
    MutexReach b "n8" "n21" ∧ ¬ Mutex b "n8" "n21" := by
  intro g1 g25 b
  exact ⟨(isPairMutex_groupsReach_iff "n8" "n21").mp (by decide),
    fun h => absurd ((isPairMutex_groups_iff "n8" "n21").mpr h) (by decide)⟩

/-- second shape: a node fed by the branch that has a default of its own.  `g` routes to `p` or `q`;
`p → v`, `m(v = 1) → r`, `q → r`.  `m` is reachable from `p` only, the pre-repair rule put it in the branch
of `p` and accepted the two producers `m`, `q` of `r` — but `m` starts on its default in a run where `g`
chose `q`.  The repaired rule leaves `m` out (its only input has a default), the constructor rejects. -/
theorem default_fed_not_mutex_witness :
    let g : NodeD := { mkNode "g" .ifelse ["c"] [] with targets := [.node "p", .node "q"] }
    let m : NodeD := { mkNode "m" .fn ["v"] ["r"] with hasDefault := ["v"], sigDefaults := [("v", .int 1)] }
    let b : BuildInput := { nodes := [g, mkNode "p" .fn ["x"] ["v"], m, mkNode "q" .fn ["y"] ["r"]] }
    let adj := rowsAdj (adjRows (nodeNames b) (hasEdge (graphEdges b)))
    isPairMutex (expandedGroupsReach b.nodes (nodeNames b) adj) "m" "q" = true ∧
      buildGraphMutexReach b = .ok () ∧ classifyMutexReach b = "ok" ∧
      isPairMutex (expandedGroups b.nodes (nodeNames b) adj) "m" "q" = false ∧
      buildGraph b = .error (.outputConflict "r" "m" "q") ∧ classify b = "output_conflict" ∧
      -- without the default `m` needs the branch of `p` and the graph is accepted
      buildGraph { nodes := [g, mkNode "p" .fn ["x"] ["v"], mkNode "m" .fn ["v"] ["r"],
        mkNode "q" .fn ["y"] ["r"]] } = .ok () := by
  decide

/-- the repair is NOT a pure restriction: the branch of a target always holds the target itself
(`branch = {target}`), also when the target is reachable from a sibling target — where the pre-repair rule
counted it out of every branch.  `g` routes to `p` or `q`; `p → r`, `q(r) → r`: the only edge between the
two producers of `r` carries the contested `r` itself, so they are not ordered; `q` lies below `p`, the
pre-repair rule had no branch for it and REJECTED the graph; the repaired rule calls the two direct targets
of one exclusive gate exclusive and ACCEPTS it. -/
theorem loop_back_branches_now_mutex_witness :
    let g : NodeD := { mkNode "g" .ifelse ["c"] [] with targets := [.node "p", .node "q"] }
    let b : BuildInput := { nodes := [g, mkNode "p" .fn ["x"] ["r"], mkNode "q" .fn ["r"] ["r"]] }
    let adj := rowsAdj (adjRows (nodeNames b) (hasEdge (graphEdges b)))
    graphEdges b = [⟨"p", "q", .data, ["r"]⟩, ⟨"g", "p", .control, []⟩, ⟨"g", "q", .control, []⟩] ∧
      isPairMutex (expandedGroupsReach b.nodes (nodeNames b) adj) "p" "q" = false ∧
      buildGraphMutexReach b = .error (.outputConflict "r" "p" "q") ∧
      classifyMutexReach b = "output_conflict" ∧
      isPairMutex (expandedGroups b.nodes (nodeNames b) adj) "p" "q" = true ∧
      buildGraph b = .ok () ∧ classify b = "ok" := by
  intro g b adj
  exact ⟨rfl, by decide⟩

/-- … in the vocabulary of the specification: `Mutex` without `MutexReach`, and the side condition of
`mutex_was_mutex` fails on that graph -/
theorem loop_back_branches_now_mutex_spec :
    let g : NodeD := { mkNode "g" .ifelse ["c"] [] with targets := [.node "p", .node "q"] }
    let b : BuildInput := { nodes := [g, mkNode "p" .fn ["x"] ["r"], mkNode "q" .fn ["r"] ["r"]] }
    Mutex b "p" "q" ∧ ¬ MutexReach b "p" "q" ∧ ¬ TargetsApart b := by
  intro g b
  have hm : Mutex b "p" "q" := (isPairMutex_groups_iff "p" "q").mp (by decide)
  have hr : ¬ MutexReach b "p" "q" :=
    fun h => absurd ((isPairMutex_groupsReach_iff "p" "q").mpr h) (by decide)
  exact ⟨hm, hr, fun hap => hr (hm.mutexReach hap)⟩

/-- every node of an accepted graph declares pairwise different output names -/
theorem outputs_distinct {b : BuildInput} (w : WellFormed b) {nd : NodeD} (h : nd ∈ b.nodes) : nd.outputs.Nodup :=
  w.distinctOutputs nd h

end HG.C19s
