import HG.Lemmas.Map
/-! # C10 — `map`: input generation, per-item runs, aligned collection, order restoration

Property theorems and non-vacuity examples only; helpers are in `HG/Lemmas/Map.lean`. -/
namespace HG.C10
open HG HG.MapEx

/-! ## 1. `generate_map_inputs`, zip mode -/

/-- zip is position-wise: all mapped lists share the length of the first, there is one item per
position, item `i` holds `l[i]` under every mapped key `k` (keys distinct, as in a Python dict) and
the broadcast value under every other key. -/
theorem zip_spec (mapped : AL (List Val)) (bcast : AL Val) (items : List (AL Val))
    (hne : mapped ≠ []) (h : zipInputs mapped bcast = .ok items) :
    items.length = (mapped.head hne).2.length ∧
    (∀ kl ∈ mapped, kl.2.length = items.length) ∧
    ∀ (i : Nat) (hi : i < items.length),
      (∀ k, k ∉ AL.keys mapped → AL.get? items[i] k = AL.get? bcast k) ∧
      ((AL.keys mapped).Nodup → ∀ k l, (k, l) ∈ mapped →
        AL.get? items[i] k = l[i]? ∧ (l[i]?).isSome) := by
  cases mapped with
  | nil => exact absurd rfl hne
  | cons hd rest =>
    obtain ⟨k0, l0⟩ := hd
    obtain ⟨hall, rfl⟩ := zipInputs_cons_ok_iff k0 l0 rest bcast items h
    refine ⟨by simp, by simpa using hall, ?_⟩
    intro i hi
    have hi0 : i < l0.length := by simpa using hi
    simp only [List.getElem_map, List.getElem_range]
    refine ⟨fun k hk => get?_zipItem_bcast _ _ _ _ hk, ?_⟩
    intro hnd k l hkl
    have hil : i < l.length := by have := hall (k, l) hkl; simp at this; omega
    rw [get?_zipItem_mapped _ _ _ _ l hnd hkl]
    simp [List.getD_eq_getElem?_getD, hil]

/-- unequal lengths are rejected with `ValueError` -/
theorem zip_unequal_rejected (mapped : AL (List Val)) (bcast : AL Val) (hne : mapped ≠ [])
    (h : ∃ kl ∈ mapped, kl.2.length ≠ (mapped.head hne).2.length) :
    zipInputs mapped bcast = .error (.valueError "zip") := by
  cases mapped with
  | nil => exact absurd rfl hne
  | cons hd rest =>
    obtain ⟨k0, l0⟩ := hd
    exact zipInputs_cons_err k0 l0 rest bcast h

/-- all mapped lists empty: zero items -/
theorem zip_empty (mapped : AL (List Val)) (bcast : AL Val) (hne : mapped ≠ [])
    (h : ∀ kl ∈ mapped, kl.2 = []) : zipInputs mapped bcast = .ok [] := by
  cases mapped with
  | nil => exact absurd rfl hne
  | cons hd rest =>
    obtain ⟨k0, l0⟩ := hd
    have h0 : l0 = [] := h (k0, l0) List.mem_cons_self
    subst h0
    rw [zipInputs_cons_ok k0 [] rest bcast (fun kl hkl => by simp [h kl hkl])]
    rfl

/-- some mapped list empty: zero items, or the lengths differ and the call is rejected -/
theorem zip_some_empty (mapped : AL (List Val)) (bcast : AL Val)
    (h : ∃ kl ∈ mapped, kl.2 = []) :
    zipInputs mapped bcast = .ok [] ∨ zipInputs mapped bcast = .error (.valueError "zip") := by
  obtain ⟨kl, hkl, he⟩ := h
  cases hz : zipInputs mapped bcast with
  | error e =>
    right
    cases mapped with
    | nil => cases hkl
    | cons hd rest =>
      obtain ⟨k0, l0⟩ := hd
      by_cases hall : ∀ kl ∈ (k0, l0) :: rest, kl.2.length = l0.length
      · rw [zipInputs_cons_ok _ _ _ _ hall] at hz; cases hz
      · have hex : ∃ kl ∈ (k0, l0) :: rest, kl.2.length ≠ l0.length :=
          Classical.byContradiction fun hno => hall fun kl hkl =>
            Classical.byContradiction fun hne => hno ⟨kl, hkl, hne⟩
        rw [zipInputs_cons_err _ _ _ _ hex] at hz
        cases hz; rfl
  | ok items =>
    left
    have hne : mapped ≠ [] := by intro h0; subst h0; cases hkl
    obtain ⟨_, hall, _⟩ := zip_spec mapped bcast items hne hz
    have := hall kl hkl
    rw [he] at this
    rw [List.eq_nil_of_length_eq_zero this.symm]

section examples
example : zipInputs [("a", [.int 1, .int 2]), ("b", [.int 10, .int 20])] [("c", .int 7)]
    = .ok [[("c", .int 7), ("a", .int 1), ("b", .int 10)], [("c", .int 7), ("a", .int 2), ("b", .int 20)]] := by rfl
example : zipInputs [("a", [.int 1, .int 2]), ("b", [.int 10])] [] = .error (.valueError "zip") := by rfl
example : zipInputs [("a", []), ("b", [])] [("c", .int 7)] = .ok [] := by rfl
/-- a broadcast key that is also mapped is overwritten by the mapped value -/
example : zipInputs [("a", [.int 1])] [("a", .int 7)] = .ok [[("a", .int 1)]] := by rfl
end examples

/-! ## 2. `generate_map_inputs`, product mode -/

/-- general (inductive) characterisation of `itertools.product` in key order, last key fastest:
the block structure `vs.flatMap …`, the number of combinations, and row-major indexing. -/
theorem product_spec (k : Name) (vs : List Val) (rest : AL (List Val)) :
    productCombos ((k, vs) :: rest)
      = (vs.flatMap fun v => (productCombos rest).map fun t => (k, v) :: t) ∧
    (productCombos ((k, vs) :: rest)).length = vs.length * (productCombos rest).length ∧
    ∀ (i j : Nat) (hi : i < vs.length) (hj : j < (productCombos rest).length),
      (productCombos ((k, vs) :: rest))[i * (productCombos rest).length + j]?
        = some ((k, vs[i]) :: (productCombos rest)[j]) := by
  refine ⟨rfl, ?_, ?_⟩
  · rw [productCombos_cons, length_flatMap_map]
  · intro i j hi hj
    rw [productCombos_cons]
    exact getElem?_flatMap_map vs (productCombos rest) (fun v t => (k, v) :: t) i j hi hj

/-- number of combinations = product of the list lengths -/
theorem product_length (mapped : AL (List Val)) :
    (productCombos mapped).length = (mapped.map fun kv => kv.2.length).prod :=
  productCombos_length mapped

/-- every combination assigns exactly the mapped keys, in key order -/
theorem product_keys (mapped : AL (List Val)) :
    ∀ c ∈ productCombos mapped, AL.keys c = AL.keys mapped :=
  productCombos_keys mapped

/-- two keys: the combination at row-major index `i * n₂ + j` is `{k₁: l₁[i], k₂: l₂[j]}` -/
theorem product_spec_two (k₁ k₂ : Name) (l₁ l₂ : List Val) (i j : Nat)
    (hi : i < l₁.length) (hj : j < l₂.length) :
    (productCombos [(k₁, l₁), (k₂, l₂)]).length = l₁.length * l₂.length ∧
    (productCombos [(k₁, l₁), (k₂, l₂)])[i * l₂.length + j]? = some [(k₁, l₁[i]), (k₂, l₂[j])] := by
  have hlen : (productCombos [(k₂, l₂)]).length = l₂.length := by
    rw [productCombos_length]; simp
  obtain ⟨_, h2, h3⟩ := product_spec k₁ l₁ [(k₂, l₂)]
  refine ⟨by rw [h2, hlen], ?_⟩
  have hj' : j < (productCombos [(k₂, l₂)]).length := by omega
  have := h3 i j hi hj'
  rw [hlen] at this
  rw [this]
  obtain ⟨_, _, h3'⟩ := product_spec k₂ l₂ []
  have h0 : (0 : Nat) < (productCombos []).length := by simp [productCombos]
  have hb := h3' j 0 hj h0
  have hone : (productCombos []).length = 1 := rfl
  simp only [hone, Nat.mul_one, Nat.add_zero] at hb
  have hget : (productCombos [(k₂, l₂)])[j] = [(k₂, l₂[j])] := by
    have := List.getElem?_eq_getElem hj'
    rw [hb] at this
    simpa [productCombos] using (Option.some.inj this).symm
  rw [hget]

/-- two keys, with broadcast values merged in: the map item at index `i * n₂ + j` -/
theorem product_inputs_two (k₁ k₂ : Name) (l₁ l₂ : List Val) (bcast : AL Val) (i j : Nat)
    (hk : k₁ ≠ k₂) (hi : i < l₁.length) (hj : j < l₂.length) :
    ∃ item, (productInputs [(k₁, l₁), (k₂, l₂)] bcast)[i * l₂.length + j]? = some item ∧
      AL.get? item k₁ = some l₁[i] ∧ AL.get? item k₂ = some l₂[j] ∧
      ∀ k, k ≠ k₁ → k ≠ k₂ → AL.get? item k = AL.get? bcast k := by
  refine ⟨AL.merge bcast [(k₁, l₁[i]), (k₂, l₂[j])], ?_, ?_, ?_, ?_⟩
  · rw [productInputs_getElem? _ _ (by simp), (product_spec_two k₁ k₂ l₁ l₂ i j hi hj).2]; rfl
  · exact AL.get?_merge_of_mem _ _ _ _ (by simp [AL.keys, hk]) (by simp)
  · exact AL.get?_merge_of_mem _ _ _ _ (by simp [AL.keys, hk]) (by simp)
  · intro k h1 h2
    exact AL.get?_merge_of_not_mem _ _ _ (by simp [AL.keys, h1, h2])

/-- any empty mapped list: zero combinations, zero map items -/
theorem product_empty (mapped : AL (List Val)) (bcast : AL Val) (h : ∃ kl ∈ mapped, kl.2 = []) :
    productCombos mapped = [] ∧ productInputs mapped bcast = [] := by
  have hc := productCombos_eq_nil mapped h
  refine ⟨hc, ?_⟩
  cases mapped with
  | nil => obtain ⟨_, hkl, _⟩ := h; cases hkl
  | cons hd t => simp [productInputs, hc]

/-- number of map items in product mode (the empty product is 1: no mapped key gives one item) -/
theorem product_inputs_length (mapped : AL (List Val)) (bcast : AL Val) :
    (productInputs mapped bcast).length = (mapped.map fun kv => kv.2.length).prod :=
  productInputs_length mapped bcast

/-- broadcast values are kept in every product item -/
theorem product_inputs_bcast (mapped : AL (List Val)) (bcast : AL Val) (k : Name)
    (hk : k ∉ AL.keys mapped) :
    ∀ item ∈ productInputs mapped bcast, AL.get? item k = AL.get? bcast k := by
  intro item hitem
  cases mapped with
  | nil => simp [productInputs] at hitem; subst hitem; rfl
  | cons hd t =>
    simp only [productInputs, List.mem_map] at hitem
    obtain ⟨c, hc, rfl⟩ := hitem
    apply AL.get?_merge_of_not_mem
    rw [productCombos_keys _ c hc]; exact hk

section examples
example : productCombos [("a", [.int 1, .int 2]), ("b", [.int 10, .int 20, .int 30])]
    = [[("a", .int 1), ("b", .int 10)], [("a", .int 1), ("b", .int 20)], [("a", .int 1), ("b", .int 30)],
       [("a", .int 2), ("b", .int 10)], [("a", .int 2), ("b", .int 20)], [("a", .int 2), ("b", .int 30)]] := by rfl
/-- index `1 * 3 + 2 = 5` -/
example : (productCombos [("a", [.int 1, .int 2]), ("b", [.int 10, .int 20, .int 30])])[1 * 3 + 2]?
    = some [("a", .int 2), ("b", .int 30)] := by rfl
example : productInputs [("a", [.int 1, .int 2]), ("b", [])] [("c", .int 7)] = [] := by rfl
example : productInputs [("a", [.int 1]), ("b", [.int 5])] [("c", .int 7)]
    = [[("c", .int 7), ("a", .int 1), ("b", .int 5)]] := by rfl
end examples

/-! ## 3. `collect_as_lists` (repaired): one entry per item in every output list -/

/-- Every output list has exactly one entry per item: `None` for a failed item (continue mode),
the (renamed) value for a successful item that produced the output, `None` if it did not. -/
theorem collect_aligned (nd : NodeD) (results : List RunOut) (out : AL Val)
    (h : collectAsLists nd results = .ok out) :
    AL.keys out = collectNames nd ∧
    ∀ o ∈ collectNames nd, ∃ l : List Val,
      AL.get? out o = some (Val.mkLst l) ∧
      l.length = results.length ∧
      ∀ (i : Nat) (hi : i < results.length) (hl : i < l.length),
        (results[i].status = .failed → l[i] = Val.none) ∧
        (results[i].status ≠ .failed →
          l[i] = (AL.get? (renameOutputs nd results[i].values) o).getD Val.none) := by
  have hc := collectAsLists_ok_cases nd results out h
  rw [collectAsLists_ok nd results hc] at h
  cases h
  refine ⟨by simp [AL.keys, List.map_map, Function.comp_def], ?_⟩
  intro o ho
  refine ⟨results.map fun r => collectEntry nd r o, ?_, by simp, ?_⟩
  · exact AL.get?_of_keys (collectNames nd) _ o ho
  · intro i hi hl
    simp only [List.getElem_map, collectEntry]
    constructor
    · intro hs; simp [hs]
    · intro hs; simp [hs]

/-- the names collected are the declared outputs that are not ordering signals only (the repair "signals are not collected by a
mapping node": `'done': [None, None]` used to be returned) -/
theorem collect_no_signal (nd : NodeD) (results : List RunOut) (out : AL Val)
    (h : collectAsLists nd results = .ok out) (o : Name) (hs : o ∈ nd.signalOuts) : AL.get? out o = none := by
  have hk := (collect_aligned nd results out h).1
  cases hg : AL.get? out o with
  | none => rfl
  | some v =>
    have hmem : o ∈ AL.keys out := (AL.mem_keys_iff_has _ _).2 (by simp [AL.has, hg])
    rw [hk] at hmem
    have := (List.mem_filter.mp hmem).2
    simp [List.contains_iff_mem, hs] at this

/-- without signal-only outputs nothing changes: every declared output is collected -/
theorem collectNames_eq_outputs (nd : NodeD) (h : nd.signalOuts = []) : collectNames nd = nd.outputs := by
  simp [collectNames, h]

/-- a successful item that produced `o` contributes exactly that value -/
theorem collect_aligned_value (nd : NodeD) (results : List RunOut) (out : AL Val)
    (h : collectAsLists nd results = .ok out) (o : Name) (ho : o ∈ collectNames nd)
    (i : Nat) (hi : i < results.length) (v : Val)
    (hs : results[i].status ≠ .failed)
    (hv : AL.get? (renameOutputs nd results[i].values) o = some v) :
    ∃ l : List Val, AL.get? out o = some (Val.mkLst l) ∧ l[i]? = some v := by
  obtain ⟨_, hall⟩ := collect_aligned nd results out h
  obtain ⟨l, hget, hlen, hent⟩ := hall o ho
  refine ⟨l, hget, ?_⟩
  have hl : i < l.length := by omega
  rw [List.getElem?_eq_getElem hl, (hent i hi hl).2 hs, hv]; rfl

/-- raise mode: the error of the FIRST failed result (list order) is raised -/
theorem collect_raise_first_error (nd : NodeD) (results : List RunOut) (r : RunOut)
    (hm : nd.errMode = .raise)
    (h : results.find? (fun r => r.status == .failed) = some r) :
    collectAsLists nd results = .error (r.error.getD .depth) :=
  collectAsLists_raise nd results r hm h

/-- the same, with "first" spelled out as a split of the list -/
theorem collect_raise_first_error_split (nd : NodeD) (pre post : List RunOut) (r : RunOut) (e : ErrId)
    (hm : nd.errMode = .raise)
    (hpre : ∀ x ∈ pre, x.status ≠ .failed) (hr : r.status = .failed) (he : r.error = some e) :
    collectAsLists nd (pre ++ r :: post) = .error e := by
  have : (pre ++ r :: post).find? (fun r => r.status == .failed) = some r := by
    rw [List.find?_eq_some_iff_append]
    refine ⟨by simp [hr], pre, post, rfl, ?_⟩
    intro a ha; simpa using hpre a ha
  rw [collect_raise_first_error nd _ r hm this, he]; rfl

/-- continue mode never raises -/
theorem collect_cont_ok (nd : NodeD) (results : List RunOut) (hm : nd.errMode = .cont) :
    ∃ out, collectAsLists nd results = .ok out :=
  ⟨_, collectAsLists_ok nd results (.inl hm)⟩

section examples
/-- repaired code: both lists have length 2, with `None` placeholders -/
example : collectAsLists (ndBS .raise) [rB, rS]
    = .ok [("b", Val.mkLst [.int 1, .none]), ("s", Val.mkLst [.none, .int 2])] := by rfl
example : collectAsLists (ndBS .cont) [rB, rF "x", rS]
    = .ok [("b", Val.mkLst [.int 1, .none, .none]), ("s", Val.mkLst [.none, .none, .int 2])] := by rfl
/-- first failure in list order -/
example : collectAsLists (ndBS .raise) [rB, rF "x", rS, rF "y"] = .error (.user "x") := by rfl

/-- **negative witness** for the unrepaired code (`collectAsListsOld`): two successful items, the
first producing only `b`, the second only `s` (`MapEx.rB`, `MapEx.rS`): each old list has ONE entry
although there are two items; the repaired code pads both lists to length 2. -/
theorem old_collect_misaligned :
    collectAsListsOld (ndBS .raise) [rB, rS]
      = .ok [("b", Val.mkLst [.int 1]), ("s", Val.mkLst [.int 2])] ∧
    collectAsLists (ndBS .raise) [rB, rS]
      = .ok [("b", Val.mkLst [.int 1, .none]), ("s", Val.mkLst [.none, .int 2])] ∧
    ([rB, rS] : List RunOut).length = 2 ∧
    ([Val.int 1] : List Val).length = 1 ∧ ([Val.int 2] : List Val).length = 1 :=
  ⟨by rfl, by rfl, rfl, rfl, rfl⟩

/-- hence the alignment property (`collect_aligned`) is FALSE for the unrepaired code -/
theorem old_collect_not_aligned :
    ¬ ∀ (nd : NodeD) (results : List RunOut) (out : AL Val),
        collectAsListsOld nd results = .ok out →
        ∀ o ∈ nd.outputs, ∃ l : List Val, AL.get? out o = some (Val.mkLst l) ∧ l.length = results.length := by
  intro H
  obtain ⟨l, hl, hlen⟩ := H (ndBS .raise) [rB, rS] _ old_collect_misaligned.1 "b" (by decide)
  have hl' : some (Val.mkLst [.int 1]) = some (Val.mkLst l) := hl
  have := mkLst_inj _ _ (Option.some.inj hl')
  subst this
  cases hlen
end examples


/-- a mapping nested-graph node: when it succeeds, the inner `map` raised nothing and the node's
outputs are the aligned lists over ALL item results (so `collect_aligned` applies to them) -/
theorem map_node_collects (nested : Nested) (nd : NodeD) (inputs : AL Val) (nodeSpan : Span)
    (out : AL Val) (hm : nd.mapOver.isEmpty = false)
    (h : (execGraphNode nested nd inputs nodeSpan).res = .ok out) :
    (nested.map nd.inner (toParams nd inputs) (nd.mapOver.map fun p => (AL.get? nd.origIn p).getD p)
        nd.mapMode nd.errMode nodeSpan).raised = .none ∧
    collectAsLists nd (nested.map nd.inner (toParams nd inputs)
        (nd.mapOver.map fun p => (AL.get? nd.origIn p).getD p) nd.mapMode nd.errMode nodeSpan).results
      = .ok out := by
  unfold execGraphNode at h
  simp only [hm, Bool.not_false, if_true] at h
  split at h
  · cases h
  · next hr =>
    refine ⟨hr, ?_⟩
    split at h
    · next o ho => cases h; exact ho
    · cases h

/-! ## 4. the async worker pool restores input order -/

/-- The pool appends `(index, result)` pairs in completion order — any permutation of the indexed
results — and returns `[r for _, r in sorted(pairs)]`: exactly the results in input order. -/
theorem order_restored {α : Type} (n : Nat) (rs : List α) (pairs : List (Nat × α))
    (hlen : rs.length = n) (hperm : List.Perm pairs ((List.range n).zip rs)) :
    restore pairs = rs := by
  have hfst : ((List.range n).zip rs).map Prod.fst = List.range n :=
    List.map_fst_zip (by simp [hlen])
  have hnd : (((List.range n).zip rs).map Prod.fst).Nodup := by rw [hfst]; exact List.nodup_range
  have hsorted : ((List.range n).zip rs).Pairwise fun a b => a.1 ≤ b.1 := by
    have h1 : (((List.range n).zip rs).map Prod.fst).Pairwise (fun a b => a ≤ b) := by
      rw [hfst]
      exact List.Pairwise.imp (fun h => Nat.le_of_lt h) List.pairwise_lt_range
    exact List.pairwise_map.1 h1
  unfold restore
  rw [sortByIdx_eq_of_perm_sorted pairs _ hperm hnd hsorted]
  exact List.map_snd_zip (by simp [hlen])

/-- the same with an explicit completion order `order` (a permutation of `0 … n-1`) -/
theorem order_restored_of_order {α : Type} (n : Nat) (f : Nat → α) (order : List Nat)
    (hperm : List.Perm order (List.range n)) :
    restore (order.map fun i => (i, f i)) = (List.range n).map f := by
  apply order_restored n ((List.range n).map f) _ (by simp)
  have hz : (List.range n).zip ((List.range n).map f) = (List.range n).map fun i => (i, f i) := by
    have := List.zip_map' (f := fun i : Nat => i) (g := f) (l := List.range n)
    simpa using this
  rw [hz]
  exact hperm.map _

section examples
example : restore [(2, "c"), (0, "a"), (1, "b")] = ["a", "b", "c"] := by rfl
example : List.Perm [(2, "c"), (0, "a"), (1, "b")] ((List.range 3).zip ["a", "b", "c"]) := by decide
/-- equal results under different indices are never confused -/
example : restore [(1, "x"), (2, "y"), (0, "x")] = ["x", "x", "y"] := by rfl
end examples

/-! ## 5. every map item is an independent single run; failure propagation -/

/-- `mapItemRun` (the abbreviation used below) is literally the single run of item `v` with
index `i`: continue-mode config, span `["m", i]`, parent `["m"]`. -/
theorem mapItemRun_eq (sem : Sem) (runner : Runner) (prog : Program) (root : Nat) (cfg : RunCfg)
    (v : AL Val) (i : Nat) :
    mapItemRun sem runner prog root cfg v i
      = runGraph (nestedAt sem runner prog prog.length) sem runner root (prog.getD root default) v
          { cfg with errMode := .cont } ["m", toString i] (some ["m"]) := rfl

/-- The `i`-th result of `map` is the single run of the `i`-th generated input —
for the async runner for every `i`; for the sync runner for every `i` in continue mode and, in
raise mode, for every `i` up to and including the first failing item. -/
theorem map_item_eq_single_run (sem : Sem) (runner : Runner) (prog : Program) (root : Nat)
    (values : AL Val) (mapOver : List Name) (mode : MapMode) (em : ErrMode) (cfg : RunCfg)
    (items : List (AL Val)) (hgen : generateMapInputs values mapOver mode = .ok items)
    (i : Nat) (hi : i < items.length)
    (hrun : isSyncRunner runner = false ∨ em = .cont ∨
      ∀ j (hj : j < items.length), j < i →
        (mapItemRun sem runner prog root cfg items[j] j).status ≠ .failed) :
    (map sem runner prog root values mapOver mode em cfg).results[i]?
      = some (runGraph (nestedAt sem runner prog prog.length) sem runner root (prog.getD root default)
          items[i] { cfg with errMode := .cont } ["m", toString i] (some ["m"])) := by
  rw [map_results sem runner prog root values mapOver mode em cfg items hgen]
  have hget : (mapItemRuns sem runner prog root cfg items)[i]?
      = some (mapItemRun sem runner prog root cfg items[i] i) := by
    rw [mapItemRuns_getElem?, List.getElem?_eq_getElem hi]; rfl
  by_cases hc : (isSyncRunner runner && em == .raise) = true
  · simp only [hc, if_true]
    rw [takeThrough_getElem?, hget]; rfl
    intro j hj hji
    rcases hrun with h | h | h
    · simp [h] at hc
    · simp [h] at hc
    · have hj' : j < items.length := by rwa [mapItemRuns_length] at hj
      have hgj : (mapItemRuns sem runner prog root cfg items)[j]
          = mapItemRun sem runner prog root cfg items[j] j := by
        have := mapItemRuns_getElem? sem runner prog root cfg items j
        rw [List.getElem?_eq_getElem hj, List.getElem?_eq_getElem hj'] at this
        simpa using this
      rw [hgj]
      simpa [isFailed] using h j hj' hji
  · simp only [hc, Bool.false_eq_true, if_false]
    rw [hget]; rfl

/-- async runner: every item, both error modes -/
theorem map_item_eq_single_run_async (sem : Sem) (order : Nat → List Nat) (prog : Program) (root : Nat)
    (values : AL Val) (mapOver : List Name) (mode : MapMode) (em : ErrMode) (cfg : RunCfg)
    (items : List (AL Val)) (hgen : generateMapInputs values mapOver mode = .ok items)
    (i : Nat) (hi : i < items.length) :
    (map sem (.async order) prog root values mapOver mode em cfg).results[i]?
      = some (runGraph (nestedAt sem (.async order) prog prog.length) sem (.async order) root
          (prog.getD root default) items[i] { cfg with errMode := .cont } ["m", toString i] (some ["m"])) :=
  map_item_eq_single_run sem (.async order) prog root values mapOver mode em cfg items hgen i hi (.inl rfl)

/-- sync runner, raise mode: nothing runs after the first failing item -/
theorem map_sync_raise_stops (sem : Sem) (prog : Program) (root : Nat)
    (values : AL Val) (mapOver : List Name) (mode : MapMode) (cfg : RunCfg)
    (items : List (AL Val)) (hgen : generateMapInputs values mapOver mode = .ok items)
    (n : Nat) (hn : n < items.length)
    (hfail : (mapItemRun sem .sync prog root cfg items[n] n).status = .failed)
    (hpre : ∀ j (hj : j < items.length), j < n →
      (mapItemRun sem .sync prog root cfg items[j] j).status ≠ .failed) :
    (map sem .sync prog root values mapOver mode .raise cfg).results.length = n + 1 := by
  rw [map_results sem .sync prog root values mapOver mode .raise cfg items hgen]
  have hgj : ∀ j (hj : j < (mapItemRuns sem .sync prog root cfg items).length) (hj' : j < items.length),
      (mapItemRuns sem .sync prog root cfg items)[j] = mapItemRun sem .sync prog root cfg items[j] j := by
    intro j hj hj'
    have := mapItemRuns_getElem? sem .sync prog root cfg items j
    rw [List.getElem?_eq_getElem hj, List.getElem?_eq_getElem hj'] at this
    simpa using this
  have hn' : n < (mapItemRuns sem .sync prog root cfg items).length := by rwa [mapItemRuns_length]
  simp only [isSyncRunner, beq_self_eq_true, Bool.and_self, if_true]
  apply takeThrough_length_of_find isFailed _ n hn'
  · rw [hgj n hn' hn]; simp [isFailed, hfail]
  · intro j hj hjn
    have hj' : j < items.length := by rwa [mapItemRuns_length] at hj
    rw [hgj j hj hj']
    simpa [isFailed] using hpre j hj' hjn

/-- raise mode, both runners: the raised error is the error of the first failed item in INPUT order -/
theorem map_raise_first_failure (sem : Sem) (runner : Runner) (prog : Program) (root : Nat)
    (values : AL Val) (mapOver : List Name) (mode : MapMode) (cfg : RunCfg)
    (items : List (AL Val)) (hgen : generateMapInputs values mapOver mode = .ok items)
    (n : Nat) (hn : n < items.length)
    (hfail : (mapItemRun sem runner prog root cfg items[n] n).status = .failed)
    (hpre : ∀ j (hj : j < items.length), j < n →
      (mapItemRun sem runner prog root cfg items[j] j).status ≠ .failed) :
    ∃ e, (mapItemRun sem runner prog root cfg items[n] n).error = some e ∧
      (map sem runner prog root values mapOver mode .raise cfg).raised = some e := by
  obtain ⟨e, he⟩ := runGraph_failed_error _ _ _ _ _ _ _ _ _ hfail
  refine ⟨e, he, ?_⟩
  rw [map_raised sem runner prog root values mapOver mode .raise cfg items hgen]
  have hgj : ∀ j (hj : j < (mapItemRuns sem runner prog root cfg items).length) (hj' : j < items.length),
      (mapItemRuns sem runner prog root cfg items)[j] = mapItemRun sem runner prog root cfg items[j] j := by
    intro j hj hj'
    have := mapItemRuns_getElem? sem runner prog root cfg items j
    rw [List.getElem?_eq_getElem hj, List.getElem?_eq_getElem hj'] at this
    simpa using this
  have hn' : n < (mapItemRuns sem runner prog root cfg items).length := by rwa [mapItemRuns_length]
  have hfind : (mapItemRuns sem runner prog root cfg items).find? isFailed
      = some (mapItemRuns sem runner prog root cfg items)[n] := by
    apply find?_eq_of_first isFailed _ n hn'
    · rw [hgj n hn' hn]; simp [isFailed, hfail]
    · intro j hj hjn
      have hj' : j < items.length := by rwa [mapItemRuns_length] at hj
      rw [hgj j hj hj']
      simpa [isFailed] using hpre j hj' hjn
  simp only [beq_self_eq_true, if_true, hfind, Option.bind_some, hgj n hn' hn]
  exact he

/-- raise mode without a failing item: nothing raised, one result per item -/
theorem map_raise_no_failure (sem : Sem) (runner : Runner) (prog : Program) (root : Nat)
    (values : AL Val) (mapOver : List Name) (mode : MapMode) (cfg : RunCfg)
    (items : List (AL Val)) (hgen : generateMapInputs values mapOver mode = .ok items)
    (hok : ∀ j (hj : j < items.length),
      (mapItemRun sem runner prog root cfg items[j] j).status ≠ .failed) :
    (map sem runner prog root values mapOver mode .raise cfg).raised = .none ∧
    (map sem runner prog root values mapOver mode .raise cfg).results.length = items.length := by
  have hgj : ∀ j (hj : j < (mapItemRuns sem runner prog root cfg items).length) (hj' : j < items.length),
      (mapItemRuns sem runner prog root cfg items)[j] = mapItemRun sem runner prog root cfg items[j] j := by
    intro j hj hj'
    have := mapItemRuns_getElem? sem runner prog root cfg items j
    rw [List.getElem?_eq_getElem hj, List.getElem?_eq_getElem hj'] at this
    simpa using this
  have hfind : (mapItemRuns sem runner prog root cfg items).find? isFailed = none := by
    apply find?_eq_none_of_all
    intro j hj
    have hj' : j < items.length := by rwa [mapItemRuns_length] at hj
    rw [hgj j hj hj']
    simpa [isFailed] using hok j hj'
  constructor
  · rw [map_raised sem runner prog root values mapOver mode .raise cfg items hgen]
    simp [hfind]
  · rw [map_results sem runner prog root values mapOver mode .raise cfg items hgen]
    rw [takeThrough_of_find?_none _ _ hfind]
    simp [mapItemRuns_length]

/-- continue mode, both runners: nothing is raised and there is one result per item -/
theorem map_cont_no_raise (sem : Sem) (runner : Runner) (prog : Program) (root : Nat)
    (values : AL Val) (mapOver : List Name) (mode : MapMode) (cfg : RunCfg)
    (items : List (AL Val)) (hgen : generateMapInputs values mapOver mode = .ok items) :
    (map sem runner prog root values mapOver mode .cont cfg).raised = .none ∧
    (map sem runner prog root values mapOver mode .cont cfg).results.length = items.length := by
  constructor
  · rw [map_raised sem runner prog root values mapOver mode .cont cfg items hgen]; rfl
  · rw [map_results sem runner prog root values mapOver mode .cont cfg items hgen]
    have : (isSyncRunner runner && (ErrMode.cont == ErrMode.raise)) = false := by
      cases runner <;> rfl
    simp [this, mapItemRuns_length]

/-- invalid `map_over` inputs (not a list / unequal zip lengths) are raised, with no results -/
theorem map_input_error_raised (sem : Sem) (runner : Runner) (prog : Program) (root : Nat)
    (values : AL Val) (mapOver : List Name) (mode : MapMode) (em : ErrMode) (cfg : RunCfg) (e : ErrId)
    (hgen : generateMapInputs values mapOver mode = .error e) :
    (map sem runner prog root values mapOver mode em cfg).raised = some e ∧
    (map sem runner prog root values mapOver mode em cfg).results = [] := by
  unfold map
  rw [mapGraph_gen_error _ _ _ _ _ _ _ _ _ e hgen]
  exact ⟨rfl, rfl⟩

/-! ## 6. number of results in continue mode -/

/-- continue mode: one result per combination — zip: the common list length; product: the product
of the list lengths (`mapList values k` is the list bound to the mapped key `k`). -/
theorem map_length (sem : Sem) (runner : Runner) (prog : Program) (root : Nat)
    (values : AL Val) (mapOver : List Name) (mode : MapMode) (cfg : RunCfg)
    (items : List (AL Val)) (hgen : generateMapInputs values mapOver mode = .ok items) :
    (map sem runner prog root values mapOver mode .cont cfg).results.length = items.length ∧
    (mode = .zip → ∀ k ∈ mapOver,
      (map sem runner prog root values mapOver mode .cont cfg).results.length = (mapList values k).length) ∧
    (mode = .product →
      (map sem runner prog root values mapOver mode .cont cfg).results.length
        = (mapOver.map fun k => (mapList values k).length).prod) := by
  have hlen := (map_cont_no_raise sem runner prog root values mapOver mode cfg items hgen).2
  refine ⟨hlen, ?_, ?_⟩
  · intro hm k hk
    subst hm
    have hz := generateMapInputs_zip values mapOver items hgen
    have hne : mappedLists values mapOver ≠ [] := by
      cases mapOver with
      | nil => cases hk
      | cons a t => simp [mappedLists]
    obtain ⟨_, hall, _⟩ := zip_spec _ _ items hne hz
    have := hall (k, mapList values k) (List.mem_map.2 ⟨k, hk, rfl⟩)
    rw [hlen]; exact this.symm
  · intro hm
    subst hm
    have hp := generateMapInputs_product values mapOver items hgen
    rw [hlen, hp, productInputs_length]
    simp [mappedLists, List.map_map, Function.comp_def]

/-- the mapped value bound to `k` is `mapList values k` whenever input generation succeeds -/
theorem map_list_is_value (values : AL Val) (mapOver : List Name) (mode : MapMode)
    (items : List (AL Val)) (hgen : generateMapInputs values mapOver mode = .ok items) :
    ∀ k ∈ mapOver, ∃ v, AL.get? values k = some v ∧ Val.seqItems v = some (mapList values k) := by
  intro k hk
  have := generateMapInputs_seq values mapOver mode items hgen k hk
  unfold mapList
  cases hv : AL.get? values k with
  | none => simp [hv] at this
  | some v =>
    refine ⟨v, rfl, ?_⟩
    simp only [hv, Option.bind_some] at this ⊢
    cases hs : Val.seqItems v with
    | none => simp [hs] at this
    | some l => rfl

section examples
example : generateMapInputs vals1 ["x"] .zip = .ok [[("x", .int 1)], [("x", .int 2)], [("x", .int 3)]] := by rfl
/-- item 1 (`x = 2`) fails: sync/raise stops after it, async/raise runs all three; both raise "boom" -/
example : (map bodySem .sync prog1 0 vals1 ["x"] .zip .raise {}).results.map (·.status)
    = [.completed, .failed] := by rfl
example : (map bodySem .sync prog1 0 vals1 ["x"] .zip .raise {}).raised = some (.user "boom") := by rfl
example : (map bodySem (.async fun _ => []) prog1 0 vals1 ["x"] .zip .raise {}).results.map (·.status)
    = [.completed, .failed, .completed] := by rfl
example : (map bodySem (.async fun _ => []) prog1 0 vals1 ["x"] .zip .raise {}).raised
    = some (.user "boom") := by rfl
/-- continue mode: three results, nothing raised -/
example : (map bodySem .sync prog1 0 vals1 ["x"] .zip .cont {}).results.map (·.status)
    = [.completed, .failed, .completed] := by rfl
example : (map bodySem .sync prog1 0 vals1 ["x"] .zip .cont {}).raised = .none := by rfl
/-- the hypothesis of `map_item_eq_single_run` holds for `i = 1` (item 0 did not fail) -/
example : (mapItemRun bodySem .sync prog1 0 {} [("x", .int 1)] 0).status = .completed := by rfl
example : (mapItemRun bodySem .sync prog1 0 {} [("x", .int 2)] 1).status = .failed := by rfl
/-- product: 2 * 3 = 6 results, row-major -/
example : (map bodySem .sync prog2 0 vals2 ["x", "z"] .product .cont {}).results.map (·.values)
    = [[("y", .int 11)], [("y", .int 21)], [("y", .int 31)],
       [("y", .int 12)], [("y", .int 22)], [("y", .int 32)]] := by rfl
example : generateMapInputs vals2 ["x", "z"] .zip = .error (.valueError "zip") := by rfl
example : generateMapInputs [("x", .int 3)] ["x"] .zip = .error (.typeError "map_over") := by rfl
/-- fix 4b4565d: the inner graph `a(x) -> r, emit done` selects `r`; the mapping wrapper renames `r` to `done`. The exposed output `done` is
DATA (the hidden inner signal of that name is not exposed): it is collected. Before the repair the signal-only names were looked for among
ALL inner outputs and the renamed data output was dropped. -/
def gHidden : GraphD := elabGraph [] { name := "g0", nodes := [{ name := "a", kind := .fn, params := [("x", .none)], dataOuts := ["r"], emits := ["done"], body := .tag "a" }], selected := some ["r"] }
def ndHidden : NodeD := elabGraphNode { name := "m", kind := .graph, inner := 0, outRen := [("r", "done")], mapOver := ["x"] } gHidden
example : ndHidden.outputs = ["done"] ∧ ndHidden.signalOuts = [] ∧ collectNames ndHidden = ["done"] := by decide
/-- a limit without a slot: refused, nothing ran -/
example : (mapLimited bodySem .sync prog1 0 vals1 ["x"] .zip .cont {} (some 0)).raised = some (.valueError "max_concurrency") := by rfl
example : (mapLimited bodySem .sync prog1 0 vals1 ["x"] .zip .cont {} (some 2)).results.length = 3 := by rfl
end examples

/-! ## the concurrency limit (fix b2c6023): validated up front, otherwise absent from the result -/

/-- every valid limit gives the result of the unlimited map: all theorems above about `map` hold under every `max_concurrency ≥ 1` -/
theorem map_limit_irrelevant (sem : Sem) (runner : Runner) (prog : Program) (root : Nat) (values : AL Val)
    (mapOver : List Name) (mode : MapMode) (em : ErrMode) (cfg : RunCfg) (k : Option Int) (hk : limitOk k = true) :
    mapLimited sem runner prog root values mapOver mode em cfg k = map sem runner prog root values mapOver mode em cfg := by
  simp [mapLimited, hk]

/-- a limit below one is refused before anything runs: no result, no log entry (no call, no event), `ValueError` raised -/
theorem map_no_slot_rejected (sem : Sem) (runner : Runner) (prog : Program) (root : Nat) (values : AL Val)
    (mapOver : List Name) (mode : MapMode) (em : ErrMode) (cfg : RunCfg) (k : Int) (hk : k < 1) :
    let m := mapLimited sem runner prog root values mapOver mode em cfg (some k)
    m.raised = some (.valueError "max_concurrency") ∧ m.results = [] ∧ m.log = [] := by
  have : limitOk (some k) = false := by simp [limitOk]; omega
  simp [mapLimited, this]

/-- what the unrepaired code did with `max_concurrency = 0`: zero workers, the empty list returned for any number of combinations —
not one result per combination (witness: three items) -/
def mapNoSlotOld (_k : Option Int) : MapOut := {}

theorem flaw_no_slot_drops_items :
    (mapNoSlotOld (some 0)).raised = .none ∧
    (mapNoSlotOld (some 0)).results.length ≠ (map bodySem .sync prog1 0 vals1 ["x"] .zip .cont {}).results.length := by
  constructor
  · rfl
  · decide

end HG.C10
