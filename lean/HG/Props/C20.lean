import HG.Lemmas.Viz
/-! # C20 — diagrams are faithful to the dependencies the runtime resolves (translation validation)

Model: `HG.Model.Viz`.  The routing code of `hypergraph.viz` is heuristic and is NOT modelled; what
is proved here is that the *validator* run by the harness on the real diagram data is correct:

1. `check_sound_complete` — `checkFaithful` accepts a diagram iff it is `Faithful` (the specification:
   self-consistent, lists exactly the visible nodes, draws every dependency that is not internal to a
   collapsed container, and draws nothing that covers no dependency); `explain_nil_iff`;
2. `flatten_once` — the model of `to_flat_graph` node flattening lists every nested node once, under
   its parent, with distinct hierarchical ids; parent links form a forest that the ancestor walk
   exhausts within its fuel;
3. `valid_states_exact`, `valid_states_nodup` — `validStates` = exactly the parent-closed assignments;
4. `rep_visible` (+ `expanded_visible`, `rep_visible_flatten`) — representatives;
5. `two_consumers_witness`, `mutex_producer_witness` — the specification rejects the diagrams the real
   code used to produce / still produces.

SCOPE (TRUSTED, established by the harness, not by these theorems): that the `Flat` and `Diagram`
values sent to the checker are the real `to_flat_graph()` attributes and the real renderer / mermaid
output; that `deps` (name-based, all producers, leaf-most endpoints) is what the runtime resolves. -/
namespace HG.C20
open HG.Viz

/-! ## 1. the validator is sound and complete -/

/-- the executable checker accepts exactly the faithful diagrams (every flat graph, every expansion
state — valid or not —, both output modes, every diagram) -/
theorem check_sound_complete (f : Flat) (st : Expansion) (sep : Bool) (d : Diagram) :
    checkFaithful f st sep d = true ↔ Faithful f st sep d :=
  checkFaithful_iff f st sep d

/-- the reasons list is empty exactly when the checker accepts -/
theorem explain_nil_iff (f : Flat) (st : Expansion) (sep : Bool) (d : Diagram) :
    explain f st sep d = [] ↔ checkFaithful f st sep d = true :=
  explain_eq_nil_iff f st sep d

/-! ## 2. flattening -/

/-- `flatten` (model of `_flatten_nodes`), for a forest of any depth whose names are unique per scope
and contain no `/`:
* lists as many nodes as the forest has, with pairwise distinct ids (each nested node exactly once);
* every nested node `x` of scope `Q` is listed with id `Q/x` and parent link `Q`;
* every listed id is `parent/name` for its own parent link, which is the root or a listed GRAPH node;
* the ancestor walk from every listed node ends at a root within the fuel, through listed GRAPH nodes
  (the parent links form a forest). -/
theorem flatten_once (F : Forest) (hok : F.NamesOK) :
    (flatten F).nodes.length = F.size ∧
    ((flatten F).nodes.map (·.id)).Nodup ∧
    (∀ x Q, F.At none x Q → ∃ n ∈ (flatten F).nodes, n.id = mkId Q x ∧ n.parent = Q) ∧
    (∀ n ∈ (flatten F).nodes, (∃ nm, n.id = mkId n.parent nm) ∧
      (n.parent = none ∨ ∃ c ∈ (flatten F).nodes, c.kind = "GRAPH" ∧ n.parent = some c.id)) ∧
    (∀ n ∈ (flatten F).nodes, Rooted (flatten F) n.id ∧
      ∀ a ∈ anc (flatten F) n.id, ∃ c ∈ (flatten F).nodes, c.id = a ∧ c.kind = "GRAPH") :=
  ⟨flattenForest_length none F, flatten_ids_nodup none F hok, fun _ _ h => at_listed h,
    fun n hn => ⟨flatten_id_shape none F n hn, flatten_parent_listed none F n hn⟩,
    fun n hn => ⟨flatten_rooted F hok n hn, flatten_anc_listed F hok _ n hn⟩⟩

/-- the same under any scope `P` (what the recursion of `_flatten_nodes` produces for a nested graph) -/
theorem flatten_once_scope (P : Option String) (F : Forest) (hok : F.NamesOK) :
    (flattenForest P F).length = F.size ∧
    ((flattenForest P F).map (·.id)).Nodup ∧
    (∀ x Q, F.At P x Q → ∃ n ∈ flattenForest P F, n.id = mkId Q x ∧ n.parent = Q) ∧
    (∀ n ∈ flattenForest P F, (∃ nm, n.id = mkId n.parent nm) ∧
      (n.parent = P ∨ ∃ c ∈ flattenForest P F, c.kind = "GRAPH" ∧ n.parent = some c.id)) :=
  ⟨flattenForest_length P F, flatten_ids_nodup P F hok, fun _ _ h => at_listed h,
    fun n hn => ⟨flatten_id_shape P F n hn, flatten_parent_listed P F n hn⟩⟩

/-! ## 3. valid expansion states -/

/-- `validStates` lists exactly the parent-closed assignments over the containers -/
theorem valid_states_exact (f : Flat) (st : Expansion) :
    st ∈ validStates f ↔ validState f st = true ∧ AL.keys st = containers f :=
  mem_validStates_iff f st

/-- … each once -/
theorem valid_states_nodup (f : Flat) : (validStates f).Nodup := validStates_nodup f

/-! ## 4. representatives -/

/-- for a node whose ancestor walk reaches a root (`Rooted`) through listed, non-hidden nodes (itself
included): `rep` is not empty, all its elements (in particular its head, the nearest visible
ancestor-or-self) are visible, all are ancestors-or-self, and it is upward closed (every ancestor of a
representative is a representative).  Holds in every expansion state, valid or not. -/
theorem rep_visible (f : Flat) (st : Expansion) (id : String) (hr : Rooted f id)
    (hl : ∀ a ∈ id :: anc f id, ∃ n, f.find? a = some n ∧ n.hidden = false) :
    rep f st id ≠ [] ∧
    (∀ h : rep f st id ≠ [], visible f st ((rep f st id).head h) = true) ∧
    (∀ a ∈ rep f st id, visible f st a = true ∧ (a = id ∨ a ∈ anc f id)) ∧
    (∀ a ∈ rep f st id, ∀ b ∈ anc f a, b ∈ rep f st id) := by
  obtain ⟨h1, h2, h3, h4⟩ := rep_props f st id hr hl
  exact ⟨h1, fun h => h2 _ (List.head_mem h), fun a ha => ⟨h2 a ha, h3 a ha⟩, h4⟩

/-- in a VALID state an expanded, listed, non-hidden container whose ancestors are containers is
visible and all its ancestors are expanded (so `rep` of its non-hidden children starts with the child) -/
theorem expanded_visible (f : Flat) (st : Expansion) (c : String) (hv : validState f st = true)
    (hc : c ∈ containers f) (he : AL.get? st c = some true)
    (hanc : ∀ a ∈ anc f c, a ∈ containers f)
    (hl : ∃ n, f.find? c = some n ∧ n.hidden = false) :
    visible f st c = true ∧ ∀ a ∈ anc f c, AL.get? st a = some true := by
  have h := expanded_anc f st hv _ c hc he hanc
  obtain ⟨n, hn, hh⟩ := hl
  refine ⟨?_, h⟩
  simp only [visible, hn, hh, Bool.not_false, Bool.true_and, List.all_eq_true, beq_iff_eq]
  exact h

/-- for a node without listed descendants (every FUNCTION / BRANCH node) the admissible endpoints
`stand` of clauses (F1)/(F2) are exactly its representatives `rep` -/
theorem stand_eq_rep_of_leaf (f : Flat) (st : Expansion) (id : String)
    (h : ∀ n ∈ f.nodes, id ∉ anc f n.id) : stand f st id = rep f st id := by
  have : desc f st id = [] := by
    simp only [desc, List.map_eq_nil_iff, List.filter_eq_nil_iff, Bool.and_eq_true,
      List.contains_eq_mem, decide_eq_true_eq, not_and]
    exact fun n hn _ => h n hn
  simp [stand, this]

/-- for a flattened forest without hidden nodes the hypotheses of `rep_visible` hold for every node -/
theorem rep_visible_flatten (F : Forest) (hok : F.NamesOK)
    (hh : ∀ n ∈ (flatten F).nodes, n.hidden = false) (st : Expansion) :
    ∀ n ∈ (flatten F).nodes,
      rep (flatten F) st n.id ≠ [] ∧
      (∀ h : rep (flatten F) st n.id ≠ [], visible (flatten F) st ((rep (flatten F) st n.id).head h) = true) ∧
      (∀ a ∈ rep (flatten F) st n.id, ∀ b ∈ anc (flatten F) a, b ∈ rep (flatten F) st n.id) := by
  intro n hn
  have hnd : ((flatten F).nodes.map (·.id)).Nodup := flatten_ids_nodup none F hok
  have hl : ∀ a ∈ n.id :: anc (flatten F) n.id,
      ∃ m, (flatten F).find? a = some m ∧ m.hidden = false := by
    intro a ha
    rcases List.mem_cons.1 ha with rfl | ha
    · exact ⟨n, find?_of_mem_nodup hnd hn, hh n hn⟩
    · obtain ⟨c, hc, rfl, _⟩ := flatten_anc_listed F hok _ n hn a ha
      exact ⟨c, find?_of_mem_nodup hnd hc, hh c hc⟩
  obtain ⟨h1, h2, _, h4⟩ := rep_visible (flatten F) st n.id (flatten_rooted F hok n hn) hl
  exact ⟨h1, h2, h4⟩

/-! ## 5. negative witnesses -/

def fn (id : String) (parent : Option String) (ins outs : List Name) : FNode :=
  ⟨id, parent, "FUNCTION", ins, outs, [], [], false⟩
def dn (id kind : String) (parent : Option String := none) : DNode := ⟨id, kind, parent, false, none⟩
def de (s t kind : String) (v : Option Name := none) : DEdge := ⟨s, t, kind, v⟩

/-- `src → v`; expanded container `inn` with two internal consumers `c1(v)`, `c2(v)` -/
def twoCons : Flat := ⟨[fn "src" none [] ["v"],
  ⟨"inn", none, "GRAPH", ["v"], ["o1", "o2"], [], [], false⟩,
  fn "inn/c1" (some "inn") ["v"] ["o1"], fn "inn/c2" (some "inn") ["v"] ["o2"]]⟩
def twoConsNodes : List DNode :=
  [dn "src" "FUNCTION", dn "inn" "GRAPH", dn "inn/c1" "FUNCTION" (some "inn"),
   dn "inn/c2" "FUNCTION" (some "inn")]

example : deps twoCons = [⟨"src", "inn/c1", .data, some "v"⟩, ⟨"src", "inn/c2", .data, some "v"⟩] := by
  decide

/-- the pinned tree drew only one edge into an expanded container with two internal consumers of the
same value: that diagram is NOT faithful (no edge for `src → inn/c2`), the one with both edges is -/
theorem two_consumers_witness :
    ¬ Faithful twoCons [("inn", true)] false ⟨twoConsNodes, [de "src" "inn/c1" "data" (some "v")]⟩ ∧
    Faithful twoCons [("inn", true)] false
      ⟨twoConsNodes, [de "src" "inn/c1" "data" (some "v"), de "src" "inn/c2" "data" (some "v")]⟩ := by
  decide

example : explain twoCons [("inn", true)] false ⟨twoConsNodes, [de "src" "inn/c1" "data" (some "v")]⟩ =
    ["F1: dependency has no edge", "src -> inn/c2 [data v]"] := by decide

/-- gate `g` with exclusive branches `p1`, `p2`, both producing `r`; `use(r)` -/
def mutex : Flat := ⟨[⟨"g", none, "BRANCH", ["x"], [], [], ["p1", "p2"], false⟩,
  fn "p1" none ["x"] ["r"], fn "p2" none ["x"] ["r"], fn "use" none ["r"] ["out"]]⟩
def mutexNodes : List DNode :=
  [dn "g" "BRANCH", dn "p1" "FUNCTION", dn "p2" "FUNCTION", dn "use" "FUNCTION", dn "input_x" "INPUT"]
def mutexEdges : List DEdge :=
  [de "input_x" "g" "input", de "input_x" "p1" "input", de "input_x" "p2" "input",
   de "g" "p1" "control", de "g" "p2" "control", de "p1" "use" "data" (some "r")]

/-- KNOWN FINDING of the real code: the second producer of a mutex output gets no data edge
(`output_to_source` keeps the first producer only).  Such a diagram is NOT faithful (no edge for
`p2 → use`); adding that edge makes it faithful. -/
theorem mutex_producer_witness :
    ¬ Faithful mutex [] false ⟨mutexNodes, mutexEdges⟩ ∧
    Faithful mutex [] false ⟨mutexNodes, mutexEdges ++ [de "p2" "use" "data" (some "r")]⟩ := by
  decide

example : explain mutex [] false ⟨mutexNodes, mutexEdges⟩ =
    ["F1: dependency has no edge", "p2 -> use [data r]"] := by decide

/-- soundness side: an edge that covers no dependency is rejected (`use → p1` is not a dependency) -/
example : explain mutex [] false
      ⟨mutexNodes, mutexEdges ++ [de "p2" "use" "data", de "use" "p1" "data"]⟩ =
    ["F2: edge covers no dependency", "use -> p1 [data]"] := by decide

/-- self-consistency side: an undeclared endpoint is rejected -/
example : (explain mutex [] false
      ⟨mutexNodes, mutexEdges ++ [de "p2" "use" "data", de "p2" "ghost" "data"]⟩).head? =
    some "S1a: edge endpoint is not a declared node" := by decide

/-! ## non-vacuity: two-level nesting, two expansion states, both output modes -/

/-- `out{ a(x→y), mid{ b(y→z) } }`, `fin(z→w)` -/
def nestedF : Forest :=
  .container "out" ["x"] ["z"] false
    (.leaf "a" "FUNCTION" ["x"] ["y"] [] [] false
      (.container "mid" ["y"] ["z"] false (.leaf "b" "FUNCTION" ["y"] ["z"] [] [] false .nil) .nil))
    (.leaf "fin" "FUNCTION" ["z"] ["w"] [] [] false .nil)
def nested : Flat := flatten nestedF

example : nestedF.NamesOK := by decide
example : nested.nodes.map (·.id) = ["out", "out/a", "out/mid", "out/mid/b", "fin"] := by decide
example : nested.nodes.map (·.parent) = [none, some "out", some "out", some "out/mid", none] := by
  decide
example : NestedSpec.flatten ⟨[.container "out" ["x"] ["z"] false
      [.leaf "a" "FUNCTION" ["x"] ["y"] [] [] false,
       .container "mid" ["y"] ["z"] false [.leaf "b" "FUNCTION" ["y"] ["z"] [] [] false]],
      .leaf "fin" "FUNCTION" ["z"] ["w"] [] [] false]⟩ = nested := by decide
example : deps nested = [⟨"out/mid/b", "fin", .data, some "z"⟩, ⟨"out/a", "out/mid/b", .data, some "y"⟩] := by
  decide
/-- exactly the three parent-closed states (inner expanded under a collapsed outer is excluded) -/
example : validStates nested = [[("out", false), ("out/mid", false)], [("out", true), ("out/mid", false)],
    [("out", true), ("out/mid", true)]] := by decide

def stAll : Expansion := [("out", true), ("out/mid", true)]
def stMid : Expansion := [("out", true), ("out/mid", false)]
def stNone : Expansion := [("out", false), ("out/mid", false)]
example : rep nested stAll "out/mid/b" = ["out/mid/b", "out/mid", "out"] := by decide
example : rep nested stMid "out/mid/b" = ["out/mid", "out"] := by decide
example : rep nested stNone "out/mid/b" = ["out"] := by decide

def nestedNodes (bHidden : Bool) : List DNode :=
  [dn "input_x" "INPUT", dn "out" "GRAPH", dn "out/a" "FUNCTION" (some "out"),
   dn "out/mid" "GRAPH" (some "out"), ⟨"out/mid/b", "FUNCTION", some "out/mid", bHidden, none⟩,
   dn "fin" "FUNCTION"]

/-- merged mode, everything expanded: edges join the innermost nodes -/
example : Faithful nested stAll false ⟨nestedNodes false,
    [de "input_x" "out/a" "input", de "out/a" "out/mid/b" "data" (some "y"),
     de "out/mid/b" "fin" "data" (some "z")]⟩ := by decide
/-- merged mode, inner container collapsed: edges end at the collapsed container -/
example : Faithful nested stMid false ⟨nestedNodes true,
    [de "input_x" "out/a" "input", de "out/a" "out/mid" "data" (some "y"),
     de "out/mid" "fin" "data" (some "z")]⟩ := by decide
/-- … and the fully expanded edge list is not faithful in that state (hidden endpoint) -/
example : ¬ Faithful nested stMid false ⟨nestedNodes true,
    [de "input_x" "out/a" "input", de "out/a" "out/mid/b" "data" (some "y"),
     de "out/mid/b" "fin" "data" (some "z")]⟩ := by decide
/-- merged mode, everything collapsed: only `out → fin` remains (`a → b` is internal to `out`) -/
example : Faithful nested stNone false
    ⟨[dn "input_x" "INPUT", dn "out" "GRAPH", dn "fin" "FUNCTION"],
     [de "input_x" "out" "input", de "out" "fin" "data" (some "z")]⟩ := by decide

def dataNode (id owner : String) (parent : Option String) : DNode := ⟨id, "DATA", parent, false, some owner⟩

/-- separate mode, everything expanded: producer → DATA → consumer -/
example : Faithful nested stAll true
    ⟨nestedNodes false ++ [dataNode "data_out/a_y" "out/a" (some "out"),
       dataNode "data_out/mid/b_z" "out/mid/b" (some "out/mid"),
       dataNode "data_fin_w" "fin" none],
     [de "input_x" "out/a" "input", de "out/a" "data_out/a_y" "output",
      de "data_out/a_y" "out/mid/b" "data" (some "y"), de "out/mid/b" "data_out/mid/b_z" "output",
      de "data_out/mid/b_z" "fin" "data" (some "z"), de "fin" "data_fin_w" "output"]⟩ := by decide
/-- separate mode, inner container collapsed: its DATA node is owned by the collapsed container -/
example : Faithful nested stMid true
    ⟨nestedNodes true ++ [dataNode "data_out/a_y" "out/a" (some "out"),
       dataNode "data_out/mid_z" "out/mid" (some "out"), dataNode "data_fin_w" "fin" none],
     [de "input_x" "out/a" "input", de "out/a" "data_out/a_y" "output",
      de "data_out/a_y" "out/mid" "data" (some "y"), de "out/mid" "data_out/mid_z" "output",
      de "data_out/mid_z" "fin" "data" (some "z"), de "fin" "data_fin_w" "output"]⟩ := by decide
/-- … a DATA node with a consumer edge but no producer edge is not a path in separate mode -/
example : ¬ Faithful nested stMid true
    ⟨nestedNodes true ++ [dataNode "data_out/a_y" "out/a" (some "out"),
       dataNode "data_out/mid_z" "out/mid" (some "out")],
     [de "input_x" "out/a" "input", de "out/a" "data_out/a_y" "output",
      de "data_out/a_y" "out/mid" "data" (some "y"), de "data_out/mid_z" "fin" "data" (some "z")]⟩ := by
  decide

/-- gate target that is an expanded container: the control edge may end at a node inside it -/
def gated : Flat := ⟨[⟨"g", none, "BRANCH", ["x"], [], [], ["sub"], false⟩,
  ⟨"sub", none, "GRAPH", ["x"], ["y"], [], [], false⟩, fn "sub/e" (some "sub") ["x"] ["y"]]⟩
example : Faithful gated [("sub", true)] false
    ⟨[dn "g" "BRANCH", dn "sub" "GRAPH", dn "sub/e" "FUNCTION" (some "sub"), dn "input_x" "INPUT"],
     [de "input_x" "g" "input", de "input_x" "sub/e" "input", de "g" "sub/e" "control"]⟩ := by decide

/-- the hypotheses of `rep_visible` hold for the nested example -/
example : ∀ n ∈ nested.nodes, rep nested stMid n.id ≠ [] :=
  fun n hn => (rep_visible_flatten nestedF (by decide) (by decide) stMid n hn).1

end HG.C20
