import HG.Lemmas.Events
/-! # C13 — observers (event processors) cannot alter execution

Model: `HG.Model.Events` (`EventDispatcher.emit/emit_async/shutdown/shutdown_async`, non-strict;
processors are oracles answering `ok | raiseException | raiseBaseException`).

SCOPE of the property: failures of class `Exception`.  A `BaseException` raised inside a processor
(`KeyboardInterrupt`, `SystemExit`, `asyncio.CancelledError`) is not caught by `except Exception`
and does abort the run — theorem 4 states exactly what happens; it is outside the claim. -/
namespace HG.C13
open HG.Events

variable {ε : Type}

/-! ## processors used by the non-vacuity examples (`ε = Nat`) -/

def healthy : Processor Nat := { onEvent := fun _ _ => .ok }
/-- raises an `Exception` on the `k`-th delivered event -/
def failAt (k : Nat) : Processor Nat := { onEvent := fun i _ => if i = k then .raiseException else .ok }
/-- raises an `Exception` on every event -/
def failAlways : Processor Nat := { onEvent := fun _ _ => .raiseException }
/-- raises an `Exception` at shutdown -/
def failShutdown : Processor Nat := { onEvent := fun _ _ => .ok, onShutdown := .raiseException }
/-- raises a `KeyboardInterrupt`-like BaseException on the `k`-th delivered event -/
def interruptAt (k : Nat) : Processor Nat :=
  { onEvent := fun i _ => if i = k then .raiseBaseException else .ok }

/-! ## 1. one emission -/

/-- if no processor answers this event with a BaseException, `emit` returns normally and every
processor is called exactly once, in registration order (the call log is `[0, 1, …, n-1]`),
regardless of which of them raise `Exception`s -/
theorem emit_absorbs (ps : List (Processor ε)) (i : Nat) (e : ε)
    (h : ∀ p ∈ ps, p.onEvent i e ≠ .raiseBaseException) :
    (emit ps i e).escaped = none ∧ (emit ps i e).calls = List.range ps.length ∧
      (emit ps i e).called = List.replicate ps.length true := by
  obtain ⟨h1, h2, h3⟩ := loopFrom_clean (fun p => p.onEvent i e) ps 0 h
  exact ⟨h3, by rw [List.range_eq_range']; exact h1, h2⟩

/-- non-vacuity: two of four processors raise on event 1; all four are called, in order, both
failures are logged, nothing escapes -/
example : emit [failAlways, healthy, failAt 1, failShutdown] 1 7 =
    { calls := [0, 1, 2, 3], called := [true, true, true, true], logged := [0, 2], escaped := none } := by
  decide
example : (emit [failAlways, healthy, failAt 1, failShutdown] 1 7).escaped = none :=
  (emit_absorbs _ 1 7 (by decide)).1
/-- `active = False` (no processors): the runners skip the call, which is the same as calling -/
theorem emit_inactive (i : Nat) (e : ε) :
    active ([] : List (Processor ε)) = false ∧
      emit ([] : List (Processor ε)) i e = { calls := [], called := [], logged := [], escaped := none } :=
  ⟨rfl, rfl⟩

/-! ## 2. a whole trace -/

/-- for every family of processors none of which raises a BaseException and every trace:
`deliverAll` completes and each processor's received list is exactly the trace, in order -/
theorem deliver_indep (ps : List (Processor ε)) (evs : List ε)
    (h : ∀ p ∈ ps, ∀ i e, p.onEvent i e ≠ .raiseBaseException) :
    (deliverAll ps evs).escaped = none ∧
      (deliverAll ps evs).received = List.replicate ps.length evs := by
  have hc : CleanFrom ps 0 evs := fun m e _ p hp => h p hp _ e
  obtain ⟨h1, h2⟩ := deliverFrom_clean ps 0 evs (List.replicate ps.length []) [] (by simp) hc
  exact ⟨h2, by rw [deliverAll, h1]; simp⟩

/-- sharper form: only the answers to the events actually delivered matter -/
theorem deliver_indep' (ps : List (Processor ε)) (evs : List ε)
    (h : ∀ (i : Nat) (e : ε), evs[i]? = some e → ∀ p ∈ ps, p.onEvent i e ≠ .raiseBaseException) :
    (deliverAll ps evs).escaped = none ∧
      (deliverAll ps evs).received = List.replicate ps.length evs := by
  have hc : CleanFrom ps 0 evs := fun m e hm p hp => by
    have := h m e hm p hp
    simpa using this
  obtain ⟨h1, h2⟩ := deliverFrom_clean ps 0 evs (List.replicate ps.length []) [] (by simp) hc
  exact ⟨h2, by rw [deliverAll, h1]; simp⟩

/-- a healthy processor registered anywhere among processors that fail with `Exception`s (at one
index, at every index, at shutdown, …) receives the complete stream -/
theorem healthy_sees_all (before after : List (Processor ε)) (hp : Processor ε) (evs : List ε)
    (hb : ∀ p ∈ before, ∀ i e, p.onEvent i e ≠ .raiseBaseException)
    (ha : ∀ p ∈ after, ∀ i e, p.onEvent i e ≠ .raiseBaseException)
    (hh : ∀ i e, hp.onEvent i e ≠ .raiseBaseException) :
    (deliverAll (before ++ hp :: after) evs).received[before.length]? = some evs ∧
      (deliverAll (before ++ hp :: after) evs).escaped = none := by
  have hall : ∀ p ∈ before ++ hp :: after, ∀ i e, p.onEvent i e ≠ .raiseBaseException := by
    intro p hm
    rcases List.mem_append.1 hm with h | h
    · exact hb p h
    · rcases List.mem_cons.1 h with h | h
      · subst h; exact hh
      · exact ha p h
  obtain ⟨h1, h2⟩ := deliver_indep _ evs hall
  refine ⟨?_, h1⟩
  rw [h2, List.getElem?_replicate]
  simp

/-- non-vacuity: `healthy` sits between a processor failing at index 1, one failing at every index
and one failing at shutdown; everybody (the failing ones too) gets the whole stream -/
example : deliverAll [failAt 1, failAlways, healthy, failShutdown] [10, 20, 30] =
    { received := [[10, 20, 30], [10, 20, 30], [10, 20, 30], [10, 20, 30]], escaped := none,
      logged := [(0, 1), (1, 0), (1, 1), (2, 1)] } := by decide
example : (deliverAll ([failAt 1, failAlways] ++ healthy :: [failShutdown]) [10, 20, 30]).received[2]?
    = some [10, 20, 30] :=
  (healthy_sees_all [failAt 1, failAlways] [failShutdown] healthy [10, 20, 30]
    (by intro p hp i e; simp at hp; rcases hp with rfl | rfl <;> simp [failAt, failAlways] <;> split <;> simp)
    (by intro p hp i e; simp at hp; subst hp; simp [failShutdown])
    (by intro i e; simp [healthy])).1

/-! ## 3. the run result does not depend on the processors

TRUSTED (not established by this theorem): that the real runners have the SHAPE of `runWith`, i.e.
that at each of the ≈ dozen emission sites — `_emit_run_start`/`_emit_run_end` in
`runners/{sync,async_}/runner.py` and the NodeStart / CacheHit / RouteDecision / NodeEnd / NodeError
emissions in `runners/{sync,async_}/superstep.py`, plus `dispatcher.shutdown[_async]()` in the
`finally` of `run`/`map` — (a) the event goes through `EventDispatcher.emit[_async]` (never a direct
`processor.on_event`), (b) the dispatcher is built with `strict=False`, (c) nothing the runner computes
afterwards reads a processor's return value, exception or mutable state.  That tie is established
by the CORRESPONDENCE CHECK (differential runs of the real library with healthy / failing /
no processors, comparing results and received streams against `deliverAll`), plus the grep-level
observation that `on_event`, `strict=` and `_processors` occur nowhere outside `events/`.
What the theorem contributes: GIVEN that shape, no choice of processors can change the result. -/

/-- `runWith` produces its result without consulting processor outcomes: the `R` component is the
same for every processor list (including `[]`); and as long as no BaseException escapes, what the
caller observes (`runOutcome`) is that result, the same as with no processors at all -/
theorem run_indep_of_processors {R : Type} (ps : List (Processor ε)) (body : Unit → R × List ε) :
    (∀ ps' : List (Processor ε), (runWith ps body).1 = (runWith ps' body).1) ∧
    ((runWith ps body).2.escaped = none →
      runOutcome ps body = some (body ()).1 ∧ runOutcome ps body = runOutcome [] body) := by
  refine ⟨fun _ => rfl, fun h => ?_⟩
  have h0 : (deliverAll ([] : List (Processor ε)) (body ()).2).escaped = none :=
    (deliver_indep [] _ (by simp)).1
  have h' : (deliverAll ps (body ()).2).escaped = none := h
  simp [runOutcome, runWith, h', h0]

/-- in particular for processors that only ever fail with `Exception`s -/
theorem run_indep_of_failing_processors {R : Type} (ps : List (Processor ε))
    (body : Unit → R × List ε) (h : ∀ p ∈ ps, ∀ i e, p.onEvent i e ≠ .raiseBaseException) :
    runOutcome ps body = runOutcome [] body ∧ (runWith ps body).2.received =
      List.replicate ps.length (body ()).2 := by
  obtain ⟨h1, h2⟩ := deliver_indep ps (body ()).2 h
  exact ⟨((run_indep_of_processors ps body).2 h1).2, h2⟩

/-- non-vacuity -/
example : runOutcome [failAt 1, failAlways, healthy, failShutdown] (fun _ => ("result", [10, 20, 30]))
    = some "result" ∧
    runOutcome ([] : List (Processor Nat)) (fun _ => ("result", [10, 20, 30])) = some "result" := by
  decide

/-! ## 4. BaseException-class failures are outside the claim: they propagate -/

/-- if the first BaseException is raised by processor `p` (position `before.length`) on event `e`
(emission index `pre.length`), `deliverAll` reports the escape exactly there; processors
registered up to and including `p` were called with `e`, processors registered after `p` do
not receive `e`; nothing after `e` is delivered to anybody -/
theorem base_exception_propagates (before after : List (Processor ε)) (p : Processor ε)
    (pre post : List ε) (e : ε)
    (hpre : ∀ (m : Nat) (e' : ε), pre[m]? = some e' →
      ∀ q ∈ before ++ p :: after, q.onEvent m e' ≠ .raiseBaseException)
    (hbefore : ∀ q ∈ before, q.onEvent pre.length e ≠ .raiseBaseException)
    (hp : p.onEvent pre.length e = .raiseBaseException) :
    (deliverAll (before ++ p :: after) (pre ++ e :: post)).escaped = some (pre.length, before.length) ∧
    (deliverAll (before ++ p :: after) (pre ++ e :: post)).received =
      List.replicate (before.length + 1) (pre ++ [e]) ++ List.replicate after.length pre := by
  have hc : CleanFrom (before ++ p :: after) 0 pre := fun m e' hm q hq => by
    have := hpre m e' hm q hq
    simpa using this
  obtain ⟨lg', hd⟩ := deliverFrom_append_clean (before ++ p :: after) pre 0 (e :: post)
    (List.replicate (before ++ p :: after).length []) [] (by simp) hc
  have hacc : (List.replicate (before ++ p :: after).length ([] : List ε)).map (· ++ pre) =
      List.replicate (before.length + 1) pre ++ List.replicate after.length pre := by
    simp [List.replicate_append_replicate]
    omega
  rw [deliverAll, hd, hacc, Nat.zero_add]
  obtain ⟨h1, h2⟩ := deliverFrom_escape before after p pre.length e post
    (List.replicate (before.length + 1) pre) (List.replicate after.length pre) lg'
    (by simp) (by simp) hbefore hp
  exact ⟨h2, by rw [h1]; simp⟩

/-- and then the caller does not get a result -/
theorem base_exception_aborts {R : Type} (ps : List (Processor ε)) (body : Unit → R × List ε)
    (x : Nat × Nat) (h : (runWith ps body).2.escaped = some x) : runOutcome ps body = none := by
  have h' : (deliverAll ps (body ()).2).escaped = some x := h
  simp [runOutcome, runWith, h']

/-- non-vacuity: the interrupt comes from processor 1 on event 1: processor 2 never sees event 1,
nobody sees event 2; the earlier `Exception` of processor 0 was still swallowed -/
example : deliverAll [failAt 0, interruptAt 1, healthy] [10, 20, 30] =
    { received := [[10, 20], [10, 20], [10]], escaped := some (1, 1), logged := [(0, 0)] } := by decide
example : (deliverAll ([failAt 0] ++ interruptAt 1 :: [healthy]) ([10] ++ 20 :: [30])).escaped = some (1, 1) :=
  (base_exception_propagates [failAt 0] [healthy] (interruptAt 1) [10] [30] 20
    (by
      intro m e' hm q hq
      have hm0 : m = 0 := by
        cases m with
        | zero => rfl
        | succ m => simp at hm
      subst hm0
      simp at hq
      rcases hq with rfl | rfl | rfl <;> simp [failAt, interruptAt, healthy])
    (by intro q hq; simp at hq; subst hq; simp [failAt])
    (by simp [interruptAt])).1
example : runOutcome [failAt 0, interruptAt 1, healthy] (fun _ => ("result", [10, 20, 30])) = none := by
  decide

/-! ## 5. shutdown -/

/-- `shutdown` calls every processor's shutdown exactly once, in registration order, even if some
raise `Exception`s -/
theorem shutdown_best_effort (ps : List (Processor ε))
    (h : ∀ p ∈ ps, p.onShutdown ≠ .raiseBaseException) :
    (shutdown ps).escaped = none ∧ (shutdown ps).calls = List.range ps.length ∧
      (shutdown ps).called = List.replicate ps.length true := by
  obtain ⟨h1, h2, h3⟩ := loopFrom_clean (fun p : Processor ε => p.onShutdown) ps 0 h
  exact ⟨h3, by rw [List.range_eq_range']; exact h1, h2⟩

/-- non-vacuity: the first and third processors raise at shutdown, the others are still shut down -/
example : shutdown [failShutdown, healthy, failShutdown, failAlways] =
    { calls := [0, 1, 2, 3], called := [true, true, true, true], logged := [0, 2], escaped := none } := by
  decide
/-- a full top-level run: result, complete streams, complete shutdown -/
example : runAndShutdown [failAt 1, healthy, failShutdown] (fun _ => ("result", [10, 20])) =
    ("result",
     { received := [[10, 20], [10, 20], [10, 20]], escaped := none, logged := [(1, 0)] },
     { calls := [0, 1, 2], called := [true, true, true], logged := [2], escaped := none }) := by decide

end HG.C13
