import HG.Lemmas.DagSat
/-! # HG.Props.C01 — for acyclic gate-free graphs a run equals dependency-order evaluation

Vocabulary (defined in `HG/Lemmas/Dag*.lean`): `AllFn` (only `Kind.fn` nodes, hence gate-free),
`NoWaitFor`, `WellDefaulted`, `UniqueProducers`, `Levelled g level` (acyclicity through a tight level
function), `NoFallbackOnFedParam`, `SemTotal`, `Satisfiable`, `component`, `callsOf`, `argsIn`.

The specification `evalSpec` is kept in the fixed-point form of the spike: in the final state every
satisfiable node holds the result of its function on the arguments it collects *in that final state*,
and no unsatisfiable node has run or written anything. -/
namespace HG.C01

/-! ## 1. value resolution precedence -/

/-- `get_value_source` returns the first available of: state value, graph bound value, inner bound
value, signature default -/
theorem resolve_precedence (g : GraphD) (s : GState) (nd : NodeD) (p : Name) :
    valueSource g s nd p =
      match AL.get? s.values p, AL.get? g.spec.bound p, AL.get? nd.innerBound p, AL.get? nd.sigDefaults p with
      | some v, _, _, _ => some (.edge, v)
      | .none, some v, _, _ => some (.bound, v)
      | .none, .none, some v, _ => some (.innerBound, v)
      | .none, .none, .none, some v => some (.default, v)
      | .none, .none, .none, .none => .none := by
  unfold valueSource
  cases AL.get? s.values p <;> cases AL.get? g.spec.bound p <;>
    cases AL.get? nd.innerBound p <;> cases AL.get? nd.sigDefaults p <;> rfl

theorem resolve_state (g : GraphD) (s : GState) (nd : NodeD) (p : Name) (v : Val)
    (h : AL.get? s.values p = some v) : valueSource g s nd p = some (.edge, v) := by
  rw [resolve_precedence, h]

theorem resolve_bound (g : GraphD) (s : GState) (nd : NodeD) (p : Name) (v : Val)
    (h0 : AL.get? s.values p = .none) (h : AL.get? g.spec.bound p = some v) :
    valueSource g s nd p = some (.bound, v) := by
  rw [resolve_precedence, h0, h]

theorem resolve_innerBound (g : GraphD) (s : GState) (nd : NodeD) (p : Name) (v : Val)
    (h0 : AL.get? s.values p = .none) (h1 : AL.get? g.spec.bound p = .none)
    (h : AL.get? nd.innerBound p = some v) : valueSource g s nd p = some (.innerBound, v) := by
  rw [resolve_precedence, h0, h1, h]

theorem resolve_default (g : GraphD) (s : GState) (nd : NodeD) (p : Name) (v : Val)
    (h0 : AL.get? s.values p = .none) (h1 : AL.get? g.spec.bound p = .none)
    (h2 : AL.get? nd.innerBound p = .none) (h : AL.get? nd.sigDefaults p = some v) :
    valueSource g s nd p = some (.default, v) := by
  rw [resolve_precedence, h0, h1, h2, h]

/-- `get_value_source` finds nothing iff none of the four sources has the name -/
theorem resolve_none_iff (g : GraphD) (s : GState) (nd : NodeD) (p : Name) :
    valueSource g s nd p = .none ↔
      AL.get? s.values p = .none ∧ AL.get? g.spec.bound p = .none ∧
      AL.get? nd.innerBound p = .none ∧ AL.get? nd.sigDefaults p = .none := by
  rw [resolve_precedence]
  cases AL.get? s.values p <;> cases AL.get? g.spec.bound p <;>
    cases AL.get? nd.innerBound p <;> cases AL.get? nd.sigDefaults p <;> simp

/-- the resolved value as a first-available chain -/
theorem resolve_value (g : GraphD) (s : GState) (nd : NodeD) (p : Name) :
    resolveInput g s nd p =
      (AL.get? s.values p).or ((AL.get? g.spec.bound p).or
        ((AL.get? nd.innerBound p).or (AL.get? nd.sigDefaults p))) :=
  resolveInput_eq_or g s nd p

/-- with consistent default bookkeeping, `_has_input` implies that resolution succeeds -/
theorem resolve_of_hasInput (g : GraphD) (s : GState) (nd : NodeD) (p : Name)
    (hwd : nd.hasDefault = AL.keys nd.sigDefaults) (h : hasInput g s nd p = true) :
    ∃ v, resolveInput g s nd p = some v :=
  Option.isSome_iff_exists.mp (resolveInput_of_hasInput hwd h)

/-! ## 2. the ready set without gates and ordering constraints -/

/-- bridge lemma: `get_ready_nodes` on a graph with no gate and no `wait_for` is a plain filter
(all inputs available and the node needs execution) and leaves the state untouched -/
theorem ready_gatefree (g : GraphD) (s : GState) (hg : GateFree g) (hw : NoWaitFor g) :
    ready g .none s =
      (g.nodes.filter (fun nd => nd.inputs.all (hasInput g s nd) && needsExec g s nd), s) :=
  ready_eq_readyL hg hw s

/-! ## 3. a run is dependency-order evaluation -/

/-- C01 (full model, multi-output nodes with emits): the sync runner loop on an acyclic graph of
function nodes ends `done` after at most `height + 1` supersteps, quiescent; every satisfiable node has
executed, is fresh, and each of its outputs holds what `wrap_outputs` makes of its function's result
on the arguments it collects in the final state (data output `i` holds component `i`, emits hold the
sentinel); no unsatisfiable node has an execution record or any output value. -/
theorem dag_run (nested : Nested) (sem : Sem) (gi : Nat) (g : GraphD) (span : Span) (values : AL Val)
    (level : Name → Nat) (height maxIter : Nat) (log₀ : List Log)
    (hfn : AllFn g) (hnw : NoWaitFor g) (hwd : WellDefaulted g) (hup : UniqueProducers g)
    (hlv : Levelled g level) (hnf : NoFallbackOnFedParam g values) (hsem : SemTotal sem g)
    (hheight : ∀ nd ∈ g.nodes, level nd.name ≤ height) (hfuel : height + 1 ≤ maxIter) :
    ∃ s' log n,
      runLoop (fun k s rs => stepSync nested sem gi g span k s rs s []) g .none maxIter maxIter 0
          (initState values) log₀ = .done s' log n ∧
      n ≤ height + 1 ∧
      (ready g .none s').1 = [] ∧
      (∀ p, (∀ m ∈ g.nodes, p ∉ m.outputs) → AL.get? s'.values p = AL.get? (initState values).values p) ∧
      (∀ nd ∈ g.nodes, Satisfiable g values nd →
        AL.has s'.execs nd.name = true ∧ needsExec g s' nd = false ∧
        ∃ args v outs, collectInputs g s' nd nd.inputs = some args ∧
          sem nd (toParams nd args) = .val v ∧ wrapOutputs nd v = some outs ∧
          (∀ o ∈ nd.outputs, AL.get? s'.values o = AL.get? outs o) ∧
          (∀ i o, nd.dataOuts[i]? = some o → AL.get? s'.values o = component nd v i) ∧
          (∀ e ∈ nd.emits, AL.get? s'.values e = some Val.sentinel)) ∧
      (∀ nd ∈ g.nodes, ¬ Satisfiable g values nd →
        AL.get? s'.execs nd.name = .none ∧ ∀ o ∈ nd.outputs, AL.get? s'.values o = .none) := by
  have hW : WF g values level := ⟨hfn, hnw, hwd, hup, hlv, hnf⟩
  obtain ⟨k', s', l', hrun, hk, hq, hI, hbelow, _⟩ :=
    dag_core nested hW hsem gi span height hheight maxIter hfuel log₀
  refine ⟨s', log₀ ++ l', k', hrun, hk, ?_, hI.static_vals, ?_, fun nd hn hns => hI.unsat nd hn hns⟩
  · rw [ready_eq_readyL hfn.gateFree hnw]; exact hq
  · intro nd hn hsat
    obtain ⟨hne, args, v, outs, hc, hv, hw, hvals⟩ := hI.done nd hn (hbelow nd hn hsat) hsat
    refine ⟨?_, hne, args, v, outs, hc, hv, hw, hvals, ?_, ?_⟩
    · unfold needsExec at hne
      unfold AL.has
      cases he : AL.get? s'.execs nd.name with
      | none => rw [he] at hne; cases hne
      | some e => rfl
    · intro i o hi
      have ho : o ∈ nd.outputs := by
        unfold NodeD.outputs; exact List.mem_append_left _ (List.mem_of_getElem? hi)
      rw [hvals o ho]
      exact wrapOutputs_component (hup.outputs_nodup hn) hw hi
    · intro e he
      have ho : e ∈ nd.outputs := by unfold NodeD.outputs; exact List.mem_append_right _ he
      rw [hvals e ho]
      exact wrapOutputs_emit (hup.emits_nodup hn) hw he

/-- the final state of the run satisfies the fixed-point specification `evalSpec` … -/
theorem dag_run_evalSpec (nested : Nested) (sem : Sem) (gi : Nat) (g : GraphD) (span : Span) (values : AL Val)
    (level : Name → Nat) (height maxIter : Nat) (log₀ : List Log)
    (hfn : AllFn g) (hnw : NoWaitFor g) (hwd : WellDefaulted g) (hup : UniqueProducers g)
    (hlv : Levelled g level) (hnf : NoFallbackOnFedParam g values) (hsem : SemTotal sem g)
    (hheight : ∀ nd ∈ g.nodes, level nd.name ≤ height) (hfuel : height + 1 ≤ maxIter) :
    ∃ s' log n,
      runLoop (fun k s rs => stepSync nested sem gi g span k s rs s []) g .none maxIter maxIter 0
          (initState values) log₀ = .done s' log n ∧ evalSpec sem g values s' := by
  obtain ⟨s', log, n, hrun, _, _, hst, hsat, hun⟩ :=
    dag_run nested sem gi g span values level height maxIter log₀ hfn hnw hwd hup hlv hnf hsem hheight hfuel
  refine ⟨s', log, n, hrun, hst, ?_, hun⟩
  intro nd hn hs
  obtain ⟨_, _, args, v, outs, hc, hv, hw, hvals, _⟩ := hsat nd hn hs
  exact ⟨args, v, outs, hc, hv, hw, hvals⟩

/-- … and that specification determines the value of every output name: any two states satisfying it
(for instance the final states of two runs, or the result of a reference evaluator) agree on every
name written by a node -/
theorem evalSpec_unique (sem : Sem) (g : GraphD) (values : AL Val) (level : Name → Nat)
    (hlv : Levelled g level) (s₁ s₂ : GState)
    (h₁ : evalSpec sem g values s₁) (h₂ : evalSpec sem g values s₂) :
    ∀ nd ∈ g.nodes, ∀ o ∈ nd.outputs, AL.get? s₁.values o = AL.get? s₂.values o :=
  fun nd hn o ho => evalSpec_unique_aux hlv h₁ h₂ _ nd hn rfl o ho

/-! ## 4. every satisfiable node's function is called exactly once -/

/-- the calls logged by the loop are, in order, one per satisfiable node (each on the arguments the
node collects in the final state), and nothing else -/
theorem dag_calls (nested : Nested) (sem : Sem) (gi : Nat) (g : GraphD) (span : Span) (values : AL Val)
    (level : Name → Nat) (height maxIter : Nat) (log₀ : List Log)
    (hfn : AllFn g) (hnw : NoWaitFor g) (hwd : WellDefaulted g) (hup : UniqueProducers g)
    (hlv : Levelled g level) (hnf : NoFallbackOnFedParam g values) (hsem : SemTotal sem g)
    (hheight : ∀ nd ∈ g.nodes, level nd.name ≤ height) (hfuel : height + 1 ≤ maxIter) :
    ∃ (s' : GState) (log : List Log) (n : Nat) (order : List NodeD),
      runLoop (fun k s rs => stepSync nested sem gi g span k s rs s []) g .none maxIter maxIter 0
          (initState values) log₀ = .done s' (log₀ ++ log) n ∧
      order.Nodup ∧ (∀ nd, nd ∈ order ↔ nd ∈ g.nodes ∧ Satisfiable g values nd) ∧
      callsOf log = order.map fun nd => (fnId gi nd, toParams nd (argsIn g s' nd)) := by
  have hW : WF g values level := ⟨hfn, hnw, hwd, hup, hlv, hnf⟩
  obtain ⟨k', s', l', hrun, _, _, _, hbelow, order, hnd, hmem, hcalls⟩ :=
    dag_core nested hW hsem gi span height hheight maxIter hfuel log₀
  refine ⟨s', l', k', order, hrun, hnd, ?_, hcalls⟩
  intro nd
  rw [hmem nd]
  exact ⟨fun h => ⟨h.1, h.2.2⟩, fun h => ⟨h.1, hbelow nd h.1 h.2, h.2⟩⟩

/-- under the hypotheses of `dag_run` the log produced by the loop contains exactly one
`Log.call (fnId gi nd) args` for every satisfiable node `nd`, with `args` the final arguments of `nd`
under the function's own parameter names, and none for an unsatisfiable node -/
theorem dag_exactly_once (nested : Nested) (sem : Sem) (gi : Nat) (g : GraphD) (span : Span) (values : AL Val)
    (level : Name → Nat) (height maxIter : Nat) (log₀ : List Log)
    (hfn : AllFn g) (hnw : NoWaitFor g) (hwd : WellDefaulted g) (hup : UniqueProducers g)
    (hlv : Levelled g level) (hnf : NoFallbackOnFedParam g values) (hsem : SemTotal sem g)
    (hheight : ∀ nd ∈ g.nodes, level nd.name ≤ height) (hfuel : height + 1 ≤ maxIter) :
    ∃ s' log n,
      runLoop (fun k s rs => stepSync nested sem gi g span k s rs s []) g .none maxIter maxIter 0
          (initState values) log₀ = .done s' (log₀ ++ log) n ∧
      (∀ nd ∈ g.nodes, Satisfiable g values nd →
        ∃ args, collectInputs g s' nd nd.inputs = some args ∧
          (callsOf log).filter (fun c => c.1 == fnId gi nd) = [(fnId gi nd, toParams nd args)]) ∧
      (∀ nd ∈ g.nodes, ¬ Satisfiable g values nd →
        (callsOf log).filter (fun c => c.1 == fnId gi nd) = []) ∧
      (∀ c ∈ callsOf log, ∃ nd ∈ g.nodes, Satisfiable g values nd ∧ c.1 = fnId gi nd) := by
  have hW : WF g values level := ⟨hfn, hnw, hwd, hup, hlv, hnf⟩
  obtain ⟨k', s', l', hrun, _, _, hI, hbelow, order, hnd, hmem, hcalls⟩ :=
    dag_core nested hW hsem gi span height hheight maxIter hfuel log₀
  have hfilter : ∀ nd : NodeD, (callsOf l').filter (fun c => c.1 == fnId gi nd) =
      (order.filter fun n => fnId gi n == fnId gi nd).map (callIn gi g s') := by
    intro nd; rw [hcalls, List.filter_map]; rfl
  have hkey : ∀ nd ∈ g.nodes, ∀ x ∈ order, (fnId gi x == fnId gi nd) = true ↔ x = nd := by
    intro nd hn x hx
    constructor
    · intro h
      exact hup.name_inj ((hmem x).mp hx).1 hn (fnId_inj gi (by simpa using h))
    · intro h; subst h; simp
  refine ⟨s', l', k', hrun, ?_, ?_, ?_⟩
  · intro nd hn hsat
    obtain ⟨_, args, _, _, hc, _⟩ := hI.done nd hn (hbelow nd hn hsat) hsat
    refine ⟨args, hc, ?_⟩
    have hmo : nd ∈ order := (hmem nd).mpr ⟨hn, hbelow nd hn hsat, hsat⟩
    rw [hfilter nd, filter_unique _ nd order hnd hmo (hkey nd hn)]
    simp [callIn, argsIn, hc]
  · intro nd hn hns
    rw [hfilter nd]
    have : (order.filter fun n => fnId gi n == fnId gi nd) = [] := by
      apply List.filter_eq_nil_iff.mpr
      intro x hx hfx
      have : x = nd := (hkey nd hn x hx).mp hfx
      exact hns (this ▸ ((hmem x).mp hx).2.2)
    rw [this]; rfl
  · intro c hc
    rw [hcalls] at hc
    obtain ⟨nd, hno, rfl⟩ := List.mem_map.mp hc
    exact ⟨nd, ((hmem nd).mp hno).1, ((hmem nd).mp hno).2.2, rfl⟩

/-! ## 5. the result of `run` -/

/-- corollary of `dag_run` for `runGraph … .sync …` (no entry-point restriction): the loop ends in the
final state `s'` of `dag_run` (same `runLoop` expression, started on the run-start event); whenever
`filter_outputs` succeeds on `s'` — always unless `on_missing = "error"` — the `RunOut` is `completed`,
nothing raised, and its values are `filterOutputs` of `s'` -/
theorem dag_run_result (nested : Nested) (sem : Sem) (gi : Nat) (g : GraphD) (values : AL Val)
    (level : Name → Nat) (height : Nat) (cfg : RunCfg) (span : Span) (parent : Option Span)
    (hfn : AllFn g) (hnw : NoWaitFor g) (hwd : WellDefaulted g) (hup : UniqueProducers g)
    (hlv : Levelled g level) (hnf : NoFallbackOnFedParam g values) (hsem : SemTotal sem g)
    (hep : g.entrypoints = .none)
    (hheight : ∀ nd ∈ g.nodes, level nd.name ≤ height) (hfuel : height + 1 ≤ cfg.maxIter) :
    ∃ s' log n,
      runLoop (fun k s rs => stepSync nested sem gi g span k s rs s []) g .none cfg.maxIter cfg.maxIter 0
          (initState values) [runStartEv span parent g ""] = .done s' log n ∧
      (∀ vals w, filterOutputs g s' cfg.select cfg.onMissing = .ok (vals, w) →
        runGraph nested sem .sync gi g values cfg span parent =
          { status := .completed, values := vals, warnings := w
            log := log ++ [runEndEv span parent g "completed"] ++
              (if parent.isNone then [Log.shutdown] else []) }) ∧
      (cfg.onMissing ≠ .error →
        ∃ vals w, filterOutputs g s' cfg.select cfg.onMissing = .ok (vals, w) ∧
          (runGraph nested sem .sync gi g values cfg span parent).status = .completed ∧
          (runGraph nested sem .sync gi g values cfg span parent).values = vals ∧
          (runGraph nested sem .sync gi g values cfg span parent).raised = false ∧
          (runGraph nested sem .sync gi g values cfg span parent).error = .none) := by
  obtain ⟨s', log, n, hrun, _⟩ :=
    dag_run nested sem gi g span values level height cfg.maxIter [runStartEv span parent g ""]
      hfn hnw hwd hup hlv hnf hsem hheight hfuel
  have hres : ∀ vals w, filterOutputs g s' cfg.select cfg.onMissing = .ok (vals, w) →
      runGraph nested sem .sync gi g values cfg span parent =
        { status := .completed, values := vals, warnings := w
          log := log ++ [runEndEv span parent g "completed"] ++
            (if parent.isNone then [Log.shutdown] else []) } := by
    intro vals w hf
    unfold runGraph
    simp only [activeNodeSet, hep, Option.map_none, hrun, hf]
  refine ⟨s', log, n, hrun, hres, ?_⟩
  intro hom
  obtain ⟨vals, w, hf⟩ := filterOutputs_ok g s' cfg.select cfg.onMissing hom
  rw [hres vals w hf]
  exact ⟨vals, w, hf, rfl, rfl, rfl, rfl⟩

/-! ## non-vacuity

The diamond `exG` (`HG/Lemmas/DagSat.lean`): a two-output node, a side-effect-only node (no data
output, one emit), one bound, one defaulted and one provided parameter; elaborated by the model's own
`elabGraph`. It satisfies every hypothesis of the theorems above. -/

example : exG.spec.bound = [("c", .int 7)] := by decide

example : AllFn exG ∧ GateFree exG ∧ NoWaitFor exG ∧ WellDefaulted exG ∧ UniqueProducers exG ∧
    Levelled exG exLevel ∧ NoFallbackOnFedParam exG exValues ∧ SemTotal bodySem exG ∧
    exG.entrypoints = .none ∧ (∀ nd ∈ exG.nodes, exLevel nd.name ≤ 2) ∧ 2 + 1 ≤ ({} : RunCfg).maxIter :=
  ⟨by decide, AllFn.gateFree (by decide), by decide, by decide, by decide, by decide, by decide,
    bodySem_total (by decide), by decide, by decide, by decide⟩

/-- all five nodes of the diamond are satisfiable with `x` provided … -/
example : ∀ nd ∈ exG.nodes, Satisfiable exG exValues nd :=
  satisfiable_of_covered (level := exLevel) (by decide) (by decide)

/-- … and without `x` the hypotheses still hold but `src` and `left` are not satisfiable -/
example : NoFallbackOnFedParam exG [] ∧ ¬ Satisfiable exG [] (elabNode [] exSrc) ∧
    ¬ Satisfiable exG [] (elabNode [] exLeft) := by
  have hsrc : ¬ Satisfiable exG [] (elabNode [] exSrc) :=
    not_satisfiable_of_missing (p := "x") (by decide) (by decide) (by decide)
  refine ⟨by decide, hsrc, ?_⟩
  exact not_satisfiable_of_producer (p := "a") (m := elabNode [] exSrc) (by decide)
    ⟨List.mem_cons_self .., by decide⟩ (by decide) hsrc

/-- the theorems instantiated on the diamond -/
example (nested : Nested) :
    ∃ s' log n,
      runLoop (fun k s rs => stepSync nested bodySem 0 exG ["r"] k s rs s []) exG .none 1000 1000 0
          (initState exValues) [] = .done s' log n ∧ n ≤ 3 ∧
      (∀ nd ∈ exG.nodes, AL.has s'.execs nd.name = true) ∧
      AL.get? s'.values "audited" = some Val.sentinel := by
  obtain ⟨s', log, n, hrun, hn, _, _, hsat, _⟩ :=
    dag_run nested bodySem 0 exG ["r"] exValues exLevel 2 1000 []
      (by decide) (by decide) (by decide) (by decide) (by decide) (by decide)
      (bodySem_total (by decide)) (by decide) (by decide)
  have hall := satisfiable_of_covered (g := exG) (values := exValues) (level := exLevel) (by decide) (by decide)
  refine ⟨s', log, n, hrun, hn, fun nd hnd => (hsat nd hnd (hall nd hnd)).1, ?_⟩
  have haud : elabNode [] exAudit ∈ exG.nodes := by simp [exG, elabGraph, exSpec]
  obtain ⟨_, _, _, _, _, _, _, _, _, _, hem⟩ := hsat _ haud (hall _ haud)
  exact hem "audited" (by decide)

/-! ## C01-F2 (repaired): a default replaced by an equal value of another type

`update_value` used to compare with Python's `old != new` alone, and `True == 1`: when an upstream node
replaced the signature default `1` of a fed parameter by `True`, the version of the name did not
advance and its consumers were not re-run (`equal_other_type_no_rerun_witness`, stated on the
pre-repair step `stepSyncPyEq`).  The repaired test `type(old) is not type(new) or old != new`
(`GState.bumps`) advances the version and the consumer IS re-run (`equal_other_type_rerun`).
The graph violates `NoFallbackOnFedParam` (the parameter `a` of `B` is fed by `A` AND has a default),
which is why `dag_run` does not apply; every other hypothesis holds.

The type test is top-level only: one wrapping level defeats it (`equal_nested_no_rerun_witness`). -/

/-- `A(x) -> a` returns its argument -/
def f2A : NodeSpec := { name := "A", kind := .fn, params := [("x", .none)], dataOuts := ["a"], body := .first }
/-- `B(a = 1) -> b` returns its argument; `a` has the signature default `1` and is fed by `A` -/
def f2B : NodeSpec :=
  { name := "B", kind := .fn, params := [("a", some (.int 1))], dataOuts := ["b"], body := .first }
/-- `C(b) -> c` returns the tuple `("C", b)` -/
def f2C : NodeSpec := { name := "C", kind := .fn, params := [("b", .none)], dataOuts := ["c"], body := .tag "C" }
def f2Spec : GraphSpec := { name := "f2", nodes := [f2A, f2B, f2C] }
def f2Prog : Program := elabProgram [f2Spec]
def f2G : GraphD := elabGraph [] f2Spec
/-- run-time input `x = True` -/
def f2Values : AL Val := [("x", .bool true)]
def f2Level : Name → Nat := fun n => if n = "A" then 0 else if n = "B" then 1 else 2

/-- after superstep 0 (`A` on `x`, `B` on its default — `a` was not there yet); every name written so
far is new, so this state is the same before and after the repair -/
def f2Mid : GState :=
  { values := [("x", .bool true), ("a", .bool true), ("b", .int 1)]
    versions := [("x", 1), ("a", 1), ("b", 1)]
    execs := [("A", { inputVersions := [("x", 1)], waitForVersions := [] }),
              ("B", { inputVersions := [("a", 0)], waitForVersions := [] })] }

/-- PRE-REPAIR, after superstep 1 (`B` again, on `a = True`; `C` on the snapshot's `b = 1`): `b` is
still at version 1, quiescent -/
def f2FinalPyEq : GState :=
  { values := [("x", .bool true), ("a", .bool true), ("b", .bool true), ("c", Val.mkTup [.str "C", .int 1])]
    versions := [("x", 1), ("a", 1), ("b", 1), ("c", 1)]
    execs := [("A", { inputVersions := [("x", 1)], waitForVersions := [] }),
              ("B", { inputVersions := [("a", 1)], waitForVersions := [] }),
              ("C", { inputVersions := [("b", 1)], waitForVersions := [] })] }

/-- repaired, after superstep 1: the same values, but `b` is at version 2 — `C` (which recorded `b`@1)
is stale -/
def f2Mid2 : GState :=
  { values := [("x", .bool true), ("a", .bool true), ("b", .bool true), ("c", Val.mkTup [.str "C", .int 1])]
    versions := [("x", 1), ("a", 1), ("b", 2), ("c", 1)]
    execs := [("A", { inputVersions := [("x", 1)], waitForVersions := [] }),
              ("B", { inputVersions := [("a", 1)], waitForVersions := [] }),
              ("C", { inputVersions := [("b", 1)], waitForVersions := [] })] }

/-- repaired, after superstep 2 (`C` again, on `b = True`): quiescent.  (`c` keeps version 1:
`("C", 1)` and `("C", True)` are both tuples and Python-equal; nothing consumes `c` here.) -/
def f2Final : GState :=
  { values := [("x", .bool true), ("a", .bool true), ("b", .bool true), ("c", Val.mkTup [.str "C", .bool true])]
    versions := [("x", 1), ("a", 1), ("b", 2), ("c", 1)]
    execs := [("A", { inputVersions := [("x", 1)], waitForVersions := [] }),
              ("B", { inputVersions := [("a", 1)], waitForVersions := [] }),
              ("C", { inputVersions := [("b", 2)], waitForVersions := [] })] }

/-- PRE-REPAIR `run_superstep_sync`, kept for the negative witness: `stepSync` verbatim, except that
outputs are applied with `applyOutputsPyEq` (version test `bumpsPyEq`: `old != new` alone) -/
def stepSyncPyEq (nested : Nested) (sem : Sem) (gi : Nat) (g : GraphD) (runSpan : Span) (k : Nat)
    (s : GState) : List NodeD → GState → List Log → StepOut
  | [], ns, log => .ok ns log
  | nd :: rest, ns, log =>
    match collectInputs g s nd nd.inputs with
    | .none => .fail (.keyError nd.name) s log
    | some inputs =>
      let sp := nodeSpanOf runSpan k nd
      let startEv := Log.ev { kind := "NodeStart", span := sp, parent := some runSpan, name := nd.name }
      let out := execNode nested sem gi nd inputs ns sp
      let ns1 := match out.dec with
        | some d => { ns with decisions := AL.put ns.decisions nd.name d }
        | .none => ns
      match out.pause with
      | some p =>
        .pause p s (log ++ [startEv] ++ out.log ++
          [.ev { kind := "NodeError", span := sp, parent := some runSpan, name := nd.name }])
      | .none =>
        match out.res with
        | .error e =>
          .fail e ns1 (log ++ [startEv] ++ out.log ++
            [.ev { kind := "NodeError", span := sp, parent := some runSpan, name := nd.name }])
        | .ok outs =>
          let ns2 := recordExec s (ns1.applyOutputsPyEq outs) nd
          stepSyncPyEq nested sem gi g runSpan k s rest ns2
            (log ++ [startEv] ++ out.log ++ routeEvent runSpan k nd ns1 ++
              [.ev { kind := "NodeEnd", span := sp, parent := some runSpan, name := nd.name }])

theorem f2_semTotal : SemTotal bodySem f2G := by
  intro nd hn args
  have h : nd.dataOuts.length ≤ 1 := by
    have : nd = elabNode [] f2A ∨ nd = elabNode [] f2B ∨ nd = elabNode [] f2C := by
      simpa [f2G, elabGraph, f2Spec] using hn
    rcases this with rfl | rfl | rfl <;> decide
  have hv : ∃ v, bodySem nd args = .val v := by
    have : nd = elabNode [] f2A ∨ nd = elabNode [] f2B ∨ nd = elabNode [] f2C := by
      simpa [f2G, elabGraph, f2Spec] using hn
    rcases this with rfl | rfl | rfl <;> exact ⟨_, rfl⟩
  obtain ⟨v, hv⟩ := hv
  obtain ⟨outs, ho⟩ := wrapOutputs_isSome_of_le_one nd v h
  exact ⟨v, outs, hv, ho⟩

/-- PRE-REPAIR: the consumer's output in `f2FinalPyEq` is NOT its function applied to the input it would
collect there -/
theorem f2_not_holds : ¬ Holds bodySem f2G f2FinalPyEq (elabNode [] f2C) := by
  rintro ⟨args, v, outs, hc, hv, hw, ho⟩
  have e1 : collectInputs f2G f2FinalPyEq (elabNode [] f2C) (elabNode [] f2C).inputs =
      some [("b", .bool true)] := by decide
  rw [e1] at hc
  cases hc
  have e2 : bodySem (elabNode [] f2C) (toParams (elabNode [] f2C) [("b", .bool true)]) =
      .val (Val.mkTup [.str "C", .bool true]) := rfl
  rw [e2] at hv
  cases hv
  have e3 : wrapOutputs (elabNode [] f2C) (Val.mkTup [.str "C", .bool true]) =
      some [("c", Val.mkTup [.str "C", .bool true])] := by decide
  rw [e3] at hw
  cases hw
  have := ho "c" (by decide)
  revert this
  decide

/-- repaired: every node of `f2G` holds its function's result on its final input in `f2Final` -/
theorem f2_holds : ∀ nd ∈ f2G.nodes, Holds bodySem f2G f2Final nd := by
  intro nd hn
  have : nd = elabNode [] f2A ∨ nd = elabNode [] f2B ∨ nd = elabNode [] f2C := by
    simpa [f2G, elabGraph, f2Spec] using hn
  rcases this with rfl | rfl | rfl
  · exact ⟨[("x", .bool true)], .bool true, [("a", .bool true)], by decide, rfl, by decide, by decide⟩
  · exact ⟨[("a", .bool true)], .bool true, [("b", .bool true)], by decide, rfl, by decide, by decide⟩
  · exact ⟨[("b", .bool true)], Val.mkTup [.str "C", .bool true], [("c", Val.mkTup [.str "C", .bool true])],
      by decide, rfl, by decide, by decide⟩

/-- repaired: the final state of the run IS dependency-order evaluation -/
theorem f2_evalSpec : evalSpec bodySem f2G f2Values f2Final := by
  have hall := satisfiable_of_covered (g := f2G) (values := f2Values) (level := f2Level) (by decide) (by decide)
  refine ⟨?_, fun nd hn _ => f2_holds nd hn, fun nd hn h => absurd (hall nd hn) h⟩
  intro p hp
  have hA : elabNode [] f2A ∈ f2G.nodes := by simp [f2G, elabGraph, f2Spec]
  have hB : elabNode [] f2B ∈ f2G.nodes := by simp [f2G, elabGraph, f2Spec]
  have hC : elabNode [] f2C ∈ f2G.nodes := by simp [f2G, elabGraph, f2Spec]
  have ha : p ≠ "a" := by
    intro e; subst e; exact hp _ hA (by decide)
  have hb : p ≠ "b" := by
    intro e; subst e; exact hp _ hB (by decide)
  have hc : p ≠ "c" := by
    intro e; subst e; exact hp _ hC (by decide)
  have hi : (initState f2Values).values = [("x", .bool true)] := by decide
  rw [hi]
  simp [f2Final, AL.get?, ha, hb, hc]

/-- C01-F2, NEGATIVE WITNESS ON THE PRE-REPAIR STEP (the behaviour was confirmed on the real library before
the repair).  The three-node program `A(x) -> a`, `B(a = 1) -> b`, `C(b) -> c = ("C", b)` run with
`x = True` under the pre-repair sync step function `stepSyncPyEq` (version test `bumpsPyEq`):

* superstep 0 runs `A` and `B` — `B` is ready on its signature default, `a` is not in the state yet —
  and leaves `a = True`, `b = 1` (only new names are written: the same as after the repair);
* superstep 1 re-runs `B` (its input `a` went from version 0 to 1) and runs `C` on the superstep's
  snapshot `b = 1`; `B` now writes `b = True`, but `1 == True` in Python, so the pre-repair
  `update_value` did NOT advance the version of `b` (`bumpsPyEq = false`, whereas the repaired test
  `bumps` and the structural test `bumpsStructural` do);
* the scheduler is quiescent: `C` recorded `b`@1 and `b` is still @1.

The loop is DONE after 2 supersteps with `b = True` but `c = ("C", 1)`: the consumer was not re-run (`C`
is called exactly once, on `1`), so the run did NOT equal dependency-order evaluation, which gives
`c = ("C", True)`: `C` is satisfiable but does not hold its function's result on its final input, and the
final state violates `evalSpec`.  Every hypothesis of `dag_run` except `NoFallbackOnFedParam` holds. -/
theorem equal_other_type_no_rerun_witness :
    -- the two pre-repair supersteps, one by one, and the loop
    (∀ nested : Nested,
      ({} : GState).applyOutputsPyEq f2Values = initState f2Values ∧
      (ready f2G .none (initState f2Values)).1 = [elabNode [] f2A, elabNode [] f2B] ∧
      (∃ log, stepSyncPyEq nested bodySem 0 f2G ["r"] 0 (initState f2Values) [elabNode [] f2A, elabNode [] f2B]
        (initState f2Values) [] = .ok f2Mid log) ∧
      (ready f2G .none f2Mid).1 = [elabNode [] f2B, elabNode [] f2C] ∧
      (∃ log, stepSyncPyEq nested bodySem 0 f2G ["r"] 1 f2Mid [elabNode [] f2B, elabNode [] f2C] f2Mid [] =
        .ok f2FinalPyEq log) ∧
      (ready f2G .none f2FinalPyEq).1 = [] ∧
      (∃ log, runLoop (fun k s rs => stepSyncPyEq nested bodySem 0 f2G ["r"] k s rs s []) f2G .none 1000 1000 0
          (initState f2Values) [] = .done f2FinalPyEq log 2 ∧
        callsOf log =
          [("0:A", [("x", .bool true)]), ("0:B", [("a", .int 1)]), ("0:B", [("a", .bool true)]),
           ("0:C", [("b", .int 1)])])) ∧
    -- the cause: writing `True` over `1` was no new version (it is one now)
    (f2Mid.bumpsPyEq "b" (.bool true) = false ∧ f2Mid.bumps "b" (.bool true) = true ∧
      f2Mid.bumpsStructural "b" (.bool true) = true) ∧
    (f2Mid.updateValuePyEq "b" (.bool true)).ver "b" = 1 ∧
    -- the outcome is not dependency-order evaluation
    AL.get? f2FinalPyEq.values "b" = some (.bool true) ∧
    AL.get? f2FinalPyEq.values "c" = some (Val.mkTup [.str "C", .int 1]) ∧
    bodySem (elabNode [] f2C) [("b", .bool true)] = .val (Val.mkTup [.str "C", .bool true]) ∧
    Satisfiable f2G f2Values (elabNode [] f2C) ∧
    ¬ Holds bodySem f2G f2FinalPyEq (elabNode [] f2C) ∧
    ¬ evalSpec bodySem f2G f2Values f2FinalPyEq ∧
    -- which hypothesis of `dag_run` fails
    (AllFn f2G ∧ NoWaitFor f2G ∧ WellDefaulted f2G ∧ UniqueProducers f2G ∧ Levelled f2G f2Level ∧
      SemTotal bodySem f2G ∧ ¬ NoFallbackOnFedParam f2G f2Values) := by
  have hC : elabNode [] f2C ∈ f2G.nodes := by simp [f2G, elabGraph, f2Spec]
  have hsat : Satisfiable f2G f2Values (elabNode [] f2C) :=
    satisfiable_of_covered (level := f2Level) (by decide) (by decide) _ hC
  refine ⟨fun nested => ⟨rfl, rfl, ⟨_, rfl⟩, rfl, ⟨_, rfl⟩, by decide, ⟨_, rfl, rfl⟩⟩,
    by decide, by decide, by decide, by decide, rfl, hsat, f2_not_holds,
    fun h => f2_not_holds (h.2.1 _ hC hsat),
    ⟨by decide, by decide, by decide, by decide, by decide, f2_semTotal, by decide⟩⟩

/-- one successful superstep of `runLoop` -/
theorem runLoop_step_ok {step : Nat → GState → List NodeD → StepOut} {g : GraphD} {act : Option (List Name)}
    {mi fuel k : Nat} {s s1 ns : GState} {log l : List Log} {rs : List NodeD}
    (hr : ready g act s = (rs, s1)) (hne : rs ≠ []) (hs : step k s1 rs = .ok ns l) :
    runLoop step g act mi (fuel + 1) k s log = runLoop step g act mi fuel (k + 1) ns (log ++ l) := by
  rw [runLoop, hr]
  cases rs with
  | nil => exact absurd rfl hne
  | cons a t => simp only [hs]

/-- `runLoop` stops on an empty ready set -/
theorem runLoop_quiescent {step : Nat → GState → List NodeD → StepOut} {g : GraphD} {act : Option (List Name)}
    {mi fuel k : Nat} {s s1 : GState} {log : List Log} (hr : ready g act s = ([], s1)) :
    runLoop step g act mi (fuel + 1) k s log = .done s1 log k := by
  rw [runLoop, hr]

/-- repaired: the loop takes three supersteps -/
theorem f2_loop (nested : Nested) :
    ∃ log, runLoop (fun k s rs => stepSync nested bodySem 0 f2G ["r"] k s rs s []) f2G .none 1000 1000 0
      (initState f2Values) [] = .done f2Final log 3 := by
  obtain ⟨l0, h0⟩ : ∃ log, stepSync nested bodySem 0 f2G ["r"] 0 (initState f2Values)
      [elabNode [] f2A, elabNode [] f2B] (initState f2Values) [] = .ok f2Mid log := ⟨_, rfl⟩
  obtain ⟨l1, h1⟩ : ∃ log, stepSync nested bodySem 0 f2G ["r"] 1 f2Mid [elabNode [] f2B, elabNode [] f2C]
      f2Mid [] = .ok f2Mid2 log := ⟨_, rfl⟩
  obtain ⟨l2, h2⟩ : ∃ log, stepSync nested bodySem 0 f2G ["r"] 2 f2Mid2 [elabNode [] f2C] f2Mid2 [] =
      .ok f2Final log := ⟨_, rfl⟩
  have r0 : ready f2G .none (initState f2Values) =
      ([elabNode [] f2A, elabNode [] f2B], initState f2Values) := rfl
  have r1 : ready f2G .none f2Mid = ([elabNode [] f2B, elabNode [] f2C], f2Mid) := rfl
  have r2 : ready f2G .none f2Mid2 = ([elabNode [] f2C], f2Mid2) := rfl
  have r3 : ready f2G .none f2Final = ([], f2Final) := rfl
  refine ⟨[] ++ l0 ++ l1 ++ l2, ?_⟩
  show runLoop _ f2G .none 1000 (996 + 1 + 1 + 1 + 1) 0 _ _ = _
  rw [runLoop_step_ok r0 (by simp) h0, runLoop_step_ok r1 (by simp) h1, runLoop_step_ok r2 (by simp) h2,
    runLoop_quiescent r3]

/-- C01-F2 REPAIRED.  The same program under the model's step function (version test `bumps`: a value of
another type always counts as a change):

* superstep 0 as before (`a = True`, `b = 1`);
* superstep 1 re-runs `B` and runs `C` on the snapshot `b = 1`; `B` writes `b = True` over `1` — another
  type, so the version of `b` advances to 2 (`f2Mid2`);
* `C` recorded `b`@1 and is stale: superstep 2 re-runs it on `b = True`; then the scheduler is quiescent.

The run COMPLETES with `b = True` and `c = ("C", True)`; `C` is called twice (on `1`, then on `True`) — the
graph still violates `NoFallbackOnFedParam`, so `dag_run` (exactly-once) does not apply — and the final
state IS dependency-order evaluation (`evalSpec`).  Control: with `x = 2` nothing changed. -/
theorem equal_other_type_rerun :
    -- through `run()`
    (run bodySem .sync f2Prog 0 f2Values {}).status = .completed ∧
    (run bodySem .sync f2Prog 0 f2Values {}).values =
      [("a", .bool true), ("b", .bool true), ("c", Val.mkTup [.str "C", .bool true])] ∧
    callsOf (run bodySem .sync f2Prog 0 f2Values {}).log =
      [("0:A", [("x", .bool true)]), ("0:B", [("a", .int 1)]), ("0:B", [("a", .bool true)]),
       ("0:C", [("b", .int 1)]), ("0:C", [("b", .bool true)])] ∧
    -- the three supersteps, one by one
    (∀ nested : Nested,
      (ready f2G .none (initState f2Values)).1 = [elabNode [] f2A, elabNode [] f2B] ∧
      (∃ log, stepSync nested bodySem 0 f2G ["r"] 0 (initState f2Values) [elabNode [] f2A, elabNode [] f2B]
        (initState f2Values) [] = .ok f2Mid log) ∧
      (ready f2G .none f2Mid).1 = [elabNode [] f2B, elabNode [] f2C] ∧
      (∃ log, stepSync nested bodySem 0 f2G ["r"] 1 f2Mid [elabNode [] f2B, elabNode [] f2C] f2Mid [] =
        .ok f2Mid2 log) ∧
      (ready f2G .none f2Mid2).1 = [elabNode [] f2C] ∧
      (∃ log, stepSync nested bodySem 0 f2G ["r"] 2 f2Mid2 [elabNode [] f2C] f2Mid2 [] = .ok f2Final log) ∧
      (ready f2G .none f2Final).1 = [] ∧
      (∃ log, runLoop (fun k s rs => stepSync nested bodySem 0 f2G ["r"] k s rs s []) f2G .none 1000 1000 0
        (initState f2Values) [] = .done f2Final log 3)) ∧
    -- the cause: writing `True` over `1` is a new version
    f2Mid.bumps "b" (.bool true) = true ∧
    (f2Mid.updateValue "b" (.bool true)).ver "b" = 2 ∧
    -- the outcome is dependency-order evaluation
    AL.get? f2Final.values "b" = some (.bool true) ∧
    AL.get? f2Final.values "c" = some (Val.mkTup [.str "C", .bool true]) ∧
    Holds bodySem f2G f2Final (elabNode [] f2C) ∧
    evalSpec bodySem f2G f2Values f2Final ∧
    -- `dag_run` still does not apply (the consumer ran twice)
    ¬ NoFallbackOnFedParam f2G f2Values ∧
    -- control
    (run bodySem .sync f2Prog 0 [("x", .int 2)] {}).values =
      [("a", .int 2), ("b", .int 2), ("c", Val.mkTup [.str "C", .int 2])] := by
  have hC : elabNode [] f2C ∈ f2G.nodes := by simp [f2G, elabGraph, f2Spec]
  refine ⟨by decide, by decide, by decide,
    fun nested => ⟨rfl, ⟨_, rfl⟩, rfl, ⟨_, rfl⟩, rfl, ⟨_, rfl⟩, by decide, f2_loop nested⟩,
    by decide, by decide, by decide, by decide, f2_holds _ hC, f2_evalSpec, by decide, by decide⟩

/-! ### residual: the type test is top-level only

`[1]` and `[True]`, `("C", 1)` and `("C", True)` have the same top-level type and are Python-equal: the
repaired `update_value` still does not advance the version.  One more node `D(c) -> d = ("D", c)`
behind `C` shows it on the very same run: `D` runs in superstep 2 on the snapshot `c = ("C", 1)` while
`C` re-runs and writes `("C", True)` — no new version of `c`, and `D` is not re-run. -/

/-- `D(c) -> d` returns the tuple `("D", c)` -/
def f3D : NodeSpec := { name := "D", kind := .fn, params := [("c", .none)], dataOuts := ["d"], body := .tag "D" }
def f3Spec : GraphSpec := { name := "f3", nodes := [f2A, f2B, f2C, f3D] }
def f3Prog : Program := elabProgram [f3Spec]
/-- `B` with the default `[1]`, run with `x = [True]` -/
def f4B : NodeSpec :=
  { name := "B", kind := .fn, params := [("a", some (Val.mkLst [.int 1]))], dataOuts := ["b"], body := .first }
def f4Spec : GraphSpec := { name := "f4", nodes := [f2A, f4B, f2C] }
def f4Prog : Program := elabProgram [f4Spec]

/-- KNOWN RESIDUAL OF THE C01-F2 REPAIR (negative witness on the repaired model; values and call
order confirmed on the real library with the repair patched into `GraphState.update_value` in-process).  (1) `A, B(a = 1), C, D` with `x = True`: the run completes with
`c = ("C", True)` but `d = ("D", ("C", 1))` — `D` was called once, on the stale `c`.  (2) `A, B(a = [1]), C`
with `x = [True]`: the run completes with `b = [True]` but `c = ("C", [1])`, exactly the pre-repair
behaviour of C01-F2 one level down.  In both cases the value not propagated is Python-EQUAL to the one
that was (`Val.pyEq`), so the run agrees with dependency-order evaluation up to Python `==`, not up to
identity of the values (`type`, `repr`, `is`). -/
theorem equal_nested_no_rerun_witness :
    (run bodySem .sync f3Prog 0 f2Values {}).status = .completed ∧
    (run bodySem .sync f3Prog 0 f2Values {}).values =
      [("a", .bool true), ("b", .bool true), ("c", Val.mkTup [.str "C", .bool true]),
       ("d", Val.mkTup [.str "D", Val.mkTup [.str "C", .int 1]])] ∧
    callsOf (run bodySem .sync f3Prog 0 f2Values {}).log =
      [("0:A", [("x", .bool true)]), ("0:B", [("a", .int 1)]), ("0:B", [("a", .bool true)]),
       ("0:C", [("b", .int 1)]), ("0:C", [("b", .bool true)]), ("0:D", [("c", Val.mkTup [.str "C", .int 1])])] ∧
    Val.pyEq (Val.mkTup [.str "D", Val.mkTup [.str "C", .int 1]])
      (Val.mkTup [.str "D", Val.mkTup [.str "C", .bool true]]) = true ∧
    (run bodySem .sync f4Prog 0 [("x", Val.mkLst [.bool true])] {}).status = .completed ∧
    (run bodySem .sync f4Prog 0 [("x", Val.mkLst [.bool true])] {}).values =
      [("a", Val.mkLst [.bool true]), ("b", Val.mkLst [.bool true]),
       ("c", Val.mkTup [.str "C", Val.mkLst [.int 1]])] ∧
    callsOf (run bodySem .sync f4Prog 0 [("x", Val.mkLst [.bool true])] {}).log =
      [("0:A", [("x", Val.mkLst [.bool true])]), ("0:B", [("a", Val.mkLst [.int 1])]),
       ("0:B", [("a", Val.mkLst [.bool true])]), ("0:C", [("b", Val.mkLst [.int 1])])] := by
  refine ⟨by decide, by decide, by decide, by decide, by decide, by decide, by decide⟩

end HG.C01
