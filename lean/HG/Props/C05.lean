import HG.Lemmas.NestEx2
import HG.Props.C01
/-! # HG.Props.C05 — a nested graph used as a node behaves like its nodes inlined

Vocabulary: `HG.Nest.exposed I` (the names a graph exposes as a node: its selection, else all its
outputs), `HG.Nest.visible` (the emit sentinel is never reported), `HG.Nest.outRenOf` (output renaming
of a wrapper), and the C01 vocabulary (`AllFn`, `Levelled`, `evalSpec`, …). -/
namespace HG.C05
open HG HG.C01 HG.Intr HG.Nest

/-! ## Tier 1 — the nested-graph node is a function node -/

/-- C05.1: a nested-graph node `W = elabGraphNode s I` (no `map_over`) whose inner graph `I = prog[s.inner]`
satisfies the hypotheses of `dag_run` for the translated inputs `toParams W inputs`: the executor
returns — no pause, no routing decision, no error — `renameOutputs W vals`, where `vals` is
`filter_outputs` of THE final state `sI` of the inner loop, which satisfies the fixed-point
specification `evalSpec`. Read through the wrapper's (injective) output renaming, every exposed inner
output `o` carries the value of `o` in `sI` (the emit sentinel is not reported), and no other key is
present. -/
theorem graphnode_as_function (sem : Sem) (prog : Program) (d : Nat) (s : NodeSpec) (I : GraphD)
    (inputs : AL Val) (sp : Span) (level : Name → Nat) (height : Nat)
    (hI : prog.getD s.inner default = I) (hmap : s.mapOver = [])
    (hfn : AllFn I) (hnw : NoWaitFor I) (hwd : WellDefaulted I) (hup : UniqueProducers I)
    (hlv : Levelled I level) (hnf : NoFallbackOnFedParam I (toParams (elabGraphNode s I) inputs))
    (hsem : SemTotal sem I) (hep : I.entrypoints = .none)
    (hheight : ∀ nd ∈ I.nodes, level nd.name ≤ height) (hfuel : height + 1 ≤ ({} : RunCfg).maxIter)
    (hout : ((exposed I).map (renameOf s.outRen)).Nodup) :
    ∃ sI log n vals,
      runLoop (fun k st rs => stepSync (nestedAt sem .sync prog d) sem s.inner I (sp ++ ["run"]) k st rs st [])
        I .none ({} : RunCfg).maxIter ({} : RunCfg).maxIter 0
        (initState (toParams (elabGraphNode s I) inputs)) [runStartEv (sp ++ ["run"]) (some sp) I ""] =
          .done sI log n ∧
      evalSpec sem I (toParams (elabGraphNode s I) inputs) sI ∧
      filterOutputs I sI .unset .ignore = .ok (vals, 0) ∧
      (execGraphNode (nestedAt sem .sync prog (d + 1)) (elabGraphNode s I) inputs sp).res =
        .ok (renameOutputs (elabGraphNode s I) vals) ∧
      (execGraphNode (nestedAt sem .sync prog (d + 1)) (elabGraphNode s I) inputs sp).pause = .none ∧
      (execGraphNode (nestedAt sem .sync prog (d + 1)) (elabGraphNode s I) inputs sp).dec = .none ∧
      (∀ o ∈ exposed I,
        AL.get? (renameOutputs (elabGraphNode s I) vals) (renameOf s.outRen o) = visible (AL.get? sI.values o)) ∧
      (∀ k, k ∉ (elabGraphNode s I).dataOuts → AL.get? (renameOutputs (elabGraphNode s I) vals) k = .none) := by
  obtain ⟨sI, log, n, hrun, hres, hcompl⟩ :=
    dag_run_result (nestedAt sem .sync prog d) sem s.inner I (toParams (elabGraphNode s I) inputs) level height
      {} (sp ++ ["run"]) (some sp) hfn hnw hwd hup hlv hnf hsem hep hheight hfuel
  obtain ⟨sI', log', n', hrun', hspec⟩ :=
    dag_run_evalSpec (nestedAt sem .sync prog d) sem s.inner I (sp ++ ["run"])
      (toParams (elabGraphNode s I) inputs) level height ({} : RunCfg).maxIter
      [runStartEv (sp ++ ["run"]) (some sp) I ""] hfn hnw hwd hup hlv hnf hsem hheight hfuel
  have hsame : sI' = sI := by
    rw [hrun] at hrun'; injection hrun' with h1 _ _; exact h1.symm
  subst hsame
  obtain ⟨vals, hf, hnk, hget⟩ := filterOutputs_ignore_spec I sI'
  have hrunG := hres vals 0 hf
  have hr : (nestedAt sem .sync prog (d + 1)).run (elabGraphNode s I).inner
      (toParams (elabGraphNode s I) inputs) sp =
      { status := .completed, values := vals, warnings := 0
        log := log ++ [runEndEv (sp ++ ["run"]) (some sp) I "completed"] ++
          (if (some sp).isNone then [Log.shutdown] else []) } := by
    rw [nestedAt_run]
    show runGraph _ sem .sync s.inner (prog.getD s.inner default) _ _ _ _ = _
    rw [hI]; exact hrunG
  have hex := execGraphNode_completed (nestedAt sem .sync prog (d + 1)) (elabGraphNode s I) inputs sp hmap
    (by rw [hr]) (by rw [hr])
  have hsub : ∀ k ∈ AL.keys vals, k ∈ exposed I := by
    intro k hk
    have hh := (AL.mem_keys_iff_has vals k).1 hk
    obtain ⟨v, hv⟩ := (C01.has_eq_true_iff _ _).1 hh
    have := hget k
    rw [hv] at this
    by_cases hm : k ∈ exposed I
    · exact hm
    · rw [if_neg hm] at this; cases this
  obtain ⟨hg1, hg2⟩ := renameOutputs_elab_get? s I vals hnk hsub hout
  refine ⟨sI', log, n, vals, hrun, hspec, hf, ?_, by rw [hex], by rw [hex], ?_, hg2⟩
  · rw [hex, hr]
  · intro o ho
    rw [hg1 o ho, hget o, if_pos ho]

/-- C05.1, value form: an exposed inner output whose final inner value is `v` (not the emit sentinel)
is returned under its renamed name with exactly that value -/
theorem graphnode_as_function_value (sem : Sem) (prog : Program) (d : Nat) (s : NodeSpec) (I : GraphD)
    (inputs : AL Val) (sp : Span) (level : Name → Nat) (height : Nat)
    (hI : prog.getD s.inner default = I) (hmap : s.mapOver = [])
    (hfn : AllFn I) (hnw : NoWaitFor I) (hwd : WellDefaulted I) (hup : UniqueProducers I)
    (hlv : Levelled I level) (hnf : NoFallbackOnFedParam I (toParams (elabGraphNode s I) inputs))
    (hsem : SemTotal sem I) (hep : I.entrypoints = .none)
    (hheight : ∀ nd ∈ I.nodes, level nd.name ≤ height) (hfuel : height + 1 ≤ ({} : RunCfg).maxIter)
    (hout : ((exposed I).map (renameOf s.outRen)).Nodup) :
    ∃ sI outs, evalSpec sem I (toParams (elabGraphNode s I) inputs) sI ∧
      (execGraphNode (nestedAt sem .sync prog (d + 1)) (elabGraphNode s I) inputs sp).res = .ok outs ∧
      (execGraphNode (nestedAt sem .sync prog (d + 1)) (elabGraphNode s I) inputs sp).pause = .none ∧
      ∀ o ∈ exposed I, ∀ v, AL.get? sI.values o = some v → v ≠ Val.sentinel →
        AL.get? outs (renameOf s.outRen o) = some v := by
  obtain ⟨sI, _, _, vals, _, hspec, _, hres, hp, _, hget, _⟩ :=
    graphnode_as_function sem prog d s I inputs sp level height hI hmap hfn hnw hwd hup hlv hnf hsem hep
      hheight hfuel hout
  refine ⟨sI, _, hspec, hres, hp, ?_⟩
  intro o ho v hv hs
  rw [hget o ho]
  exact visible_eq_some.2 ⟨hv, hs⟩

/-- C05.2: the boundary of a nested-graph node is exact. Inputs: on a dict whose keys are the wrapper's
inputs (what `collect_inputs_for_node` returns), `map_inputs_to_params` yields a dict whose keys are
exactly the inner graph's input names, with the values unchanged and in the same positions; read by
name, the inner name `p` receives the value addressed to the current name of `p`. Outputs: the wrapper
exposes exactly the selected (else all) inner outputs, renamed; `map_outputs_from_original` sends an
exposed inner output to its renamed name. (`renameOf ren n` = `ren[n]` if present, else `n`.) -/
theorem boundary_exact (s : NodeSpec) (I : GraphD) :
    (elabGraphNode s I).inputs = I.spec.all.map (renameOf s.inRen) ∧
    (elabGraphNode s I).dataOuts = (exposed I).map (renameOf s.outRen) ∧
    (elabGraphNode s I).emits = [] ∧
    (∀ o ∈ exposed I, outRenOf (elabGraphNode s I) o = renameOf s.outRen o) ∧
    ((I.spec.all.map (renameOf s.inRen)).Nodup →
      (∀ p ∈ I.spec.all,
        (AL.get? (elabGraphNode s I).origIn (renameOf s.inRen p)).getD (renameOf s.inRen p) = p) ∧
      ∀ inputs : AL Val, AL.keys inputs = (elabGraphNode s I).inputs →
        AL.keys (toParams (elabGraphNode s I) inputs) = I.spec.all ∧
        (toParams (elabGraphNode s I) inputs).map (·.2) = inputs.map (·.2) ∧
        ∀ p ∈ I.spec.all,
          AL.get? (toParams (elabGraphNode s I) inputs) p = AL.get? inputs (renameOf s.inRen p)) :=
  ⟨rfl, elabGraphNode_dataOuts s I, rfl, fun _ ho => outRenOf_elab s I ho,
    fun hinj => ⟨fun _ hp => origIn_elab s I hinj hp, fun inputs hk => toParams_elab s I hinj inputs hk⟩⟩

/-! ## Tier 2 — inlining

`inline O W I` (`HG/Lemmas/NestOuter.lean`) = the nodes of `O` with the node named like `W` replaced by the
nodes of `I`. Hypotheses of `nest_values_eq_partial`, by origin:

* on the flat graph `G` (nodes = `inline O W I`): `WFI G levelG` (gate-free, no `wait_for`, consistent default
  bookkeeping, unique producers, acyclic through `levelG`, no default / bound value on a fed parameter), all
  nodes function nodes, total `sem`, no bound values, leaf nodes (`innerBound = []`), every input covered
  (`Covered`: fed by a node, supplied, or defaulted), no supplied value shadows an output;
* on the nested part `I ⊆ G`: dependency-closed (`Convex`), its declared inputs are exactly what its nodes need
  from outside (`InnerOK`, `I.spec.all.Nodup`), consistent defaults on shared parameters (the library's
  build-time check), no selection / entry points / bound values, node functions do not return the emit
  sentinel;
* on the outer graph `O`: ONLY its shape (`O.nodes = pre ++ W :: post`, the wrapper's name is fresh, the
  wrapper is `Plain`: no renames, no `map_over`, no `wait_for`) and `O.spec.bound = []`.

Every other hypothesis on `O` that `dag_run` would need is DERIVED: gate-freeness, no `wait_for`,
`WellDefaulted` (for the wrapper: from consistent defaults), unique producers, acyclicity (`outer_lt`, from
convexity), no fallback on fed parameters, coverage, freshness, totality of the wrapper as a function. -/

/- FULL STATEMENT (not proved) — C05.3 as requested, i.e. WITHOUT the hypotheses `Covered G (initState values)`,
`ConsistentDefaults I` and `NoSentinel sem I`:

  theorem nest_values_eq … (hWG : WFI G levelG) (hfnG : AllFn G) (hsG : SemTotal sem G) … (values : AL Val)
      (hfresh : ∀ m ∈ G.nodes, ∀ o ∈ m.outputs, AL.has values o = false) … :
      ∃ sO sG …, (outer loop) = .done sO … ∧ (flat loop) = .done sG … ∧
        ∀ o ∈ graphOutputs G.nodes, AL.get? sO.values o = AL.get? sG.values o

It is FALSE of the model; each of the three extra hypotheses is necessary. Counterexamples (all `example`s
below, section "why the hypotheses are there", computed by `decide`):
 * without `Covered` (a required input missing): the flat graph runs the satisfiable part of the nested nodes,
   the wrapper is all-or-nothing (`q` present in the flat run, absent in the outer run);
 * without `ConsistentDefaults` (shared inner parameter, different / partial defaults): the wrapper surfaces ONE
   default for all inner users, or fails with `KeyError` where the flat graph completes;
 * without `NoSentinel` (model artefact): `filter_outputs` of the nested run drops a sentinel-valued output.
`nest_values_eq_partial` is the statement with exactly these hypotheses added (and it concludes agreement on
every name, not only on outputs). -/

/-- C05.3: the sync run of the outer graph (the wrapper executed through the real nested runner
`nestedAt sem .sync prog (d+1)`) and the sync run of the flat graph both end `done`, and their final states
agree on EVERY name — in particular on every output of the flat graph. -/
theorem nest_values_eq_partial (sem : Sem) (prog : Program) (d : Nat) (s : NodeSpec) (I O G : GraphD)
    (pre post : List NodeD) (levelG : Name → Nat) (H : Nat) (nestedG : Nested) (giO giG : Nat)
    (spanO spanG : Span) (mi : Nat) (log₀ log₁ : List Log)
    -- shape
    (hplain : Plain s) (hI : prog.getD s.inner default = I)
    (hO : O.nodes = pre ++ elabGraphNode s I :: post) (hname : ∀ n ∈ pre ++ post, n.name ≠ s.name)
    (hG : G.nodes = inline O (elabGraphNode s I) I)
    (hOb : O.spec.bound = [])
    -- the flat graph
    (hWG : WFI G levelG) (hfnG : AllFn G) (hsG : SemTotal sem G) (hGb : G.spec.bound = [])
    (hleaf : ∀ n ∈ G.nodes, n.innerBound = []) (hH : ∀ n ∈ G.nodes, levelG n.name ≤ H)
    -- the nested part
    (hconv : Convex G I.nodes) (hok : InnerOK I) (hnd : I.spec.all.Nodup) (hcd : ConsistentDefaults I)
    (hnsI : NoSentinel sem I) (hIsel : I.selected = .none) (hIep : I.entrypoints = .none)
    (hIb : I.spec.bound = []) (hfuelI : I.nodes.length ≤ ({} : RunCfg).maxIter)
    -- the inputs
    (values : AL Val) (hfresh : ∀ m ∈ G.nodes, ∀ o ∈ m.outputs, AL.has values o = false)
    (hcov : Covered G (initState values))
    (hfuelG : G.nodes.length ≤ mi) (hfuelO : O.nodes.length ≤ mi) :
    ∃ sO sG logO logG nO nG,
      runLoop (fun k st rs => stepSync (nestedAt sem .sync prog (d + 1)) sem giO O spanO k st rs st []) O .none
        mi mi 0 (initState values) log₀ = .done sO logO nO ∧
      runLoop (fun k st rs => stepSync nestedG sem giG G spanG k st rs st []) G .none
        mi mi 0 (initState values) log₁ = .done sG logG nG ∧
      (∀ k, AL.get? sO.values k = AL.get? sG.values k) ∧
      (∀ o ∈ graphOutputs G.nodes, AL.get? sO.values o = AL.get? sG.values o) ∧
      (∀ o, o ∈ graphOutputs O.nodes ↔ o ∈ graphOutputs G.nodes) := by
  have hGn : G.nodes = pre ++ I.nodes ++ post := by
    rw [hG]; exact inline_eq O _ I pre post hO hname
  have L : Layout s I O G pre post := ⟨⟨hplain, hO, hGn, hIsel⟩, hGb, hOb, hIb, hleaf⟩
  have hltO := outer_lt L.toShape hWG hok hconv H hH hname
  have hWO := outer_wfi L hWG hcd hname _ hltO
  obtain ⟨sO, sG, logO, logG, nO, nG, h1, h2, h3, _, _⟩ :=
    nest_values_core sem prog d s I O G pre post levelG _ nestedG giO giG spanO spanG mi log₀ log₁ L hI hWG hfnG
      hsG hnsI hok hcd hnd hIep hfuelI hWO values hfresh hcov hfuelG hfuelO
  refine ⟨sO, sG, logO, logG, nO, nG, h1, h2, h3, fun o _ => h3 o, ?_⟩
  intro o
  rw [Spec.mem_graphOutputs, Spec.mem_graphOutputs]
  exact ⟨L.producedO, L.producedG⟩

/-- C05.3, at the level of `run`: the two `RunOut`s are both completed (nothing raised, no pause) and report
the same value for every name (same selection on both graphs, `on_missing ≠ "error"`). -/
theorem nest_run_eq (sem : Sem) (prog : Program) (d : Nat) (s : NodeSpec) (I O G : GraphD)
    (pre post : List NodeD) (levelG : Name → Nat) (H : Nat) (nestedG : Nested) (giO giG : Nat)
    (spanO spanG : Span) (parentO parentG : Option Span) (cfg : RunCfg)
    (hplain : Plain s) (hI : prog.getD s.inner default = I)
    (hO : O.nodes = pre ++ elabGraphNode s I :: post) (hname : ∀ n ∈ pre ++ post, n.name ≠ s.name)
    (hG : G.nodes = inline O (elabGraphNode s I) I)
    (hOb : O.spec.bound = []) (hOep : O.entrypoints = .none) (hGep : G.entrypoints = .none)
    (hsel : O.selected = G.selected)
    (hWG : WFI G levelG) (hfnG : AllFn G) (hsG : SemTotal sem G) (hGb : G.spec.bound = [])
    (hleaf : ∀ n ∈ G.nodes, n.innerBound = []) (hH : ∀ n ∈ G.nodes, levelG n.name ≤ H)
    (hconv : Convex G I.nodes) (hok : InnerOK I) (hnd : I.spec.all.Nodup) (hcd : ConsistentDefaults I)
    (hnsI : NoSentinel sem I) (hIsel : I.selected = .none) (hIep : I.entrypoints = .none)
    (hIb : I.spec.bound = []) (hfuelI : I.nodes.length ≤ ({} : RunCfg).maxIter)
    (values : AL Val) (hfresh : ∀ m ∈ G.nodes, ∀ o ∈ m.outputs, AL.has values o = false)
    (hcov : Covered G (initState values))
    (hfuelG : G.nodes.length ≤ cfg.maxIter) (hfuelO : O.nodes.length ≤ cfg.maxIter)
    (hom : cfg.onMissing ≠ .error) :
    let rO := runGraph (nestedAt sem .sync prog (d + 1)) sem .sync giO O values cfg spanO parentO
    let rG := runGraph nestedG sem .sync giG G values cfg spanG parentG
    rO.status = .completed ∧ rG.status = .completed ∧ rO.raised = false ∧ rG.raised = false ∧
    rO.pause = .none ∧ rG.pause = .none ∧ rO.warnings = rG.warnings ∧
    ∀ k, AL.get? rO.values k = AL.get? rG.values k := by
  obtain ⟨sO, sG, logO, logG, nO, nG, h1, h2, h3, _, h5⟩ :=
    nest_values_eq_partial sem prog d s I O G pre post levelG H nestedG giO giG spanO spanG cfg.maxIter
      [runStartEv spanO parentO O ""] [runStartEv spanG parentG G ""] hplain hI hO hname hG hOb hWG hfnG hsG hGb
      hleaf hH hconv hok hnd hcd hnsI hIsel hIep hIb hfuelI values hfresh hcov hfuelG hfuelO
  obtain ⟨vO, wO, hfO⟩ := filterOutputs_ok O sO cfg.select cfg.onMissing hom
  obtain ⟨vG, wG, hfG⟩ := filterOutputs_ok G sG cfg.select cfg.onMissing hom
  have hrO := runGraph_of_done (nestedAt sem .sync prog (d + 1)) sem giO O values cfg spanO parentO hOep h1 hfO
  have hrG := runGraph_of_done nestedG sem giG G values cfg spanG parentG hGep h2 hfG
  have heff : effectiveSelect O cfg.select = effectiveSelect G cfg.select := by
    cases cfg.select <;> simp [effectiveSelect, hsel]
  have hvals : wO = wG ∧ ∀ k, AL.get? vO k = AL.get? vG k := by
    cases he : effectiveSelect G cfg.select with
    | none =>
      rw [filterOutputs_none O sO _ _ (heff.trans he)] at hfO
      rw [filterOutputs_none G sG _ _ he] at hfG
      injection hfO with hfO; injection hfG with hfG
      injection hfO with e1 e2; injection hfG with e3 e4
      refine ⟨by rw [← e2, ← e4], ?_⟩
      intro k
      rw [← e1, ← e3, get?_filterMap_outStep, get?_filterMap_outStep, h3 k]
      by_cases hk : k ∈ graphOutputs G.nodes
      · rw [if_pos hk, if_pos ((h5 k).2 hk)]
      · rw [if_neg hk, if_neg (fun h => hk ((h5 k).1 h))]
    | some names =>
      have hfO' := hfO
      rw [filterOutputs_congr_get O (s' := sG) h3] at hfO'
      have : filterOutputs O sG cfg.select cfg.onMissing = filterOutputs G sG cfg.select cfg.onMissing := by
        rw [filterOutputs_some O sG _ _ names (heff.trans he), filterOutputs_some G sG _ _ names he]
      rw [this, hfG] at hfO'
      injection hfO' with e; injection e with e1 e2
      exact ⟨e2.symm, fun k => by rw [e1]⟩
  simp only
  rw [hrO, hrG]
  exact ⟨rfl, rfl, rfl, rfl, rfl, rfl, hvals.1, hvals.2⟩

/-- C05.4: the outer graph and the flat graph have the same required and the same optional inputs (as
sets). `Elab g` (`HG/Lemmas/NestSpec.lean`): `g.spec` is `compute_input_spec` of the edges inferred from
`g.nodes`, no gates, no `wait_for`, no configured entry points / selection, and no cycle entry point was
computed (`g.spec.entrypoints = []`, i.e. the graph is acyclic). Bound values: the two graphs bind the same
names, the inner graph binds none. Uses the closed form of `edgeProduced` proved in `NestSpec.lean`
(`mem_edgeProduced_infer`: edge-produced = written by a node and read by a node) on top of the C08
characterisations. -/
theorem nest_inputspec_eq (s : NodeSpec) (I O G : GraphD) (pre post : List NodeD)
    (hplain : Plain s) (hO : O.nodes = pre ++ elabGraphNode s I :: post)
    (hname : ∀ n ∈ pre ++ post, n.name ≠ s.name)
    (hG : G.nodes = inline O (elabGraphNode s I) I) (hIsel : I.selected = .none)
    (hOe : Elab O) (hGe : Elab G) (hIe : Elab I)
    (hbound : ∀ p, AL.has O.bound p = AL.has G.bound p) (hIb : I.spec.bound = []) :
    (∀ p, p ∈ O.spec.required ↔ p ∈ G.spec.required) ∧
    (∀ p, p ∈ O.spec.optional ↔ p ∈ G.spec.optional) :=
  inputspec_core ⟨hplain, hO, by rw [hG]; exact inline_eq O _ I pre post hO hname, hIsel⟩ hOe hGe hIe hbound hIb

/-- C05.4 with acyclicity given as in C01 (a level function on the flat graph) and convexity of the nested part:
that no cycle entry point is computed for any of the three graphs is then DERIVED (`entrypoints_nil_of_level`,
`outer_lt`). `WFI G levelG` also contains gate-freeness and the absence of `wait_for`. -/
theorem nest_inputspec_eq_dag (s : NodeSpec) (I O G : GraphD) (pre post : List NodeD) (levelG : Name → Nat) (H : Nat)
    (hplain : Plain s) (hO : O.nodes = pre ++ elabGraphNode s I :: post)
    (hname : ∀ n ∈ pre ++ post, n.name ≠ s.name)
    (hG : G.nodes = inline O (elabGraphNode s I) I) (hIsel : I.selected = .none)
    (hOs : O.spec = computeInputSpec O.nodes (inferEdges O.nodes) O.bound .none .none)
    (hGs : G.spec = computeInputSpec G.nodes (inferEdges G.nodes) G.bound .none .none)
    (hIs : I.spec = computeInputSpec I.nodes (inferEdges I.nodes) I.bound .none .none)
    (hWG : WFI G levelG) (hH : ∀ n ∈ G.nodes, levelG n.name ≤ H) (hconv : Convex G I.nodes)
    (hbound : ∀ p, AL.has O.bound p = AL.has G.bound p) (hIb : I.spec.bound = []) :
    (∀ p, p ∈ O.spec.required ↔ p ∈ G.spec.required) ∧
    (∀ p, p ∈ O.spec.optional ↔ p ∈ G.spec.optional) := by
  have L : Shape s I O G pre post := ⟨hplain, hO, by rw [hG]; exact inline_eq O _ I pre post hO hname, hIsel⟩
  have hGe : Elab G := Elab.of_level hGs hWG.gf hWG.nw levelG hWG.lt
  have hIe : Elab I := Elab.of_level hIs (fun n hn => hWG.gf n (L.innerG hn)) (fun n hn => hWG.nw n (L.innerG hn))
    levelG (fun n hn p hp m hm hpo => hWG.lt n (L.innerG hn) p hp m (L.innerG hm) hpo)
  have hltO := outer_lt L hWG hIe.innerOK hconv H hH hname
  have hOe : Elab O := by
    refine Elab.of_level hOs ?_ ?_ _ hltO
    · intro n hn
      rcases L.casesO hn with h | h
      · subst h; rfl
      · exact hWG.gf n h.1
    · intro n hn
      rcases L.casesO hn with h | h
      · subst h; exact hplain.waitFor
      · exact hWG.nw n h.1
  exact inputspec_core L hOe hGe hIe hbound hIb

/-- C05.4 for graphs produced by the model's elaborator -/
theorem nest_inputspec_eq_elab (doneO doneG : List GraphD) (so sg : GraphSpec) (s : NodeSpec) (I : GraphD)
    (pre post : List NodeD)
    (hso : so.entrypoints = .none ∧ so.selected = .none) (hsg : sg.entrypoints = .none ∧ sg.selected = .none)
    (hplain : Plain s) (hO : (elabGraph doneO so).nodes = pre ++ elabGraphNode s I :: post)
    (hname : ∀ n ∈ pre ++ post, n.name ≠ s.name)
    (hG : (elabGraph doneG sg).nodes = inline (elabGraph doneO so) (elabGraphNode s I) I)
    (hIsel : I.selected = .none) (hIe : Elab I) (hIb : I.spec.bound = [])
    (hgfO : ∀ n ∈ (elabGraph doneO so).nodes, n.isGate = false ∧ n.waitFor = [])
    (hgfG : ∀ n ∈ (elabGraph doneG sg).nodes, n.isGate = false ∧ n.waitFor = [])
    (hacO : (elabGraph doneO so).spec.entrypoints = []) (hacG : (elabGraph doneG sg).spec.entrypoints = [])
    (hbound : ∀ p, AL.has so.bound p = AL.has sg.bound p) :
    (∀ p, p ∈ (elabGraph doneO so).spec.required ↔ p ∈ (elabGraph doneG sg).spec.required) ∧
    (∀ p, p ∈ (elabGraph doneO so).spec.optional ↔ p ∈ (elabGraph doneG sg).spec.optional) :=
  nest_inputspec_eq s I _ _ pre post hplain hO hname hG hIsel
    ⟨elabGraph_spec doneO so hso.1 hso.2, fun n hn => (hgfO n hn).1, fun n hn => (hgfO n hn).2, hacO⟩
    ⟨elabGraph_spec doneG sg hsg.1 hsg.2, fun n hn => (hgfG n hn).1, fun n hn => (hgfG n hn).2, hacG⟩
    hIe hbound hIb

/-- the side conditions `InnerOK I` and `I.spec.all.Nodup` of `nest_values_eq_partial` hold for every elaborated
acyclic gate-free inner graph -/
theorem innerOK_of_elab (I : GraphD) (h : Elab I) : InnerOK I ∧ I.spec.all.Nodup := ⟨h.innerOK, h.all_nodup⟩

/-! ## non-vacuity (Tiers 1–2)

`HG/Lemmas/NestEx.lean`: the flat graph `a(x)→p`, `b(p)→q`, `c(q, y)→r`, `d(r)→out`, the nested part
`{b, c}`, all built by `elabProgram` from literals: program index 0 = inner graph, 1 = outer graph
`a, W, d`, 2 = flat graph. -/

example : nxI.spec.all = ["p", "y"] ∧ (elabGraphNode nxW nxI).inputs = ["p", "y"] ∧
    (elabGraphNode nxW nxI).dataOuts = ["q", "r"] ∧ nxO.spec.required = ["x", "y"] ∧
    nxG.spec.required = ["x", "y"] := by decide

/-- every hypothesis of `nest_values_eq_partial` / `nest_run_eq` holds on the example … -/
example : Plain nxW ∧ nxProg.getD nxW.inner default = nxI ∧
    nxO.nodes = [elabLeaf nxA] ++ elabGraphNode nxW nxI :: [elabLeaf nxD] ∧
    (∀ n ∈ [elabLeaf nxA] ++ [elabLeaf nxD], n.name ≠ nxW.name) ∧
    nxG.nodes = inline nxO (elabGraphNode nxW nxI) nxI ∧
    WFI nxG nxLevelG ∧ AllFn nxG ∧ SemTotal bodySem nxG ∧ Convex nxG nxI.nodes ∧ InnerOK nxI ∧
    ConsistentDefaults nxI ∧ NoSentinel bodySem nxI ∧ Covered nxG (initState nxVals) :=
  ⟨by decide, rfl, rfl, by decide, rfl, by decide, by decide, bodySem_total (by decide),
    convex_of_sides_seg nxG [elabLeaf nxA] nxI.nodes [elabLeaf nxD] nxSide rfl (by decide) (by decide), by decide, by decide,
    bodySem_noSentinel (by decide), by unfold Covered; decide⟩

/-- … so the theorem applies to the two top-level runs `run … 1` (outer) and `run … 2` (flat) … -/
example :
    (run bodySem .sync nxProg 1 nxVals {}).status = .completed ∧
    (run bodySem .sync nxProg 2 nxVals {}).status = .completed ∧
    ∀ k, AL.get? (run bodySem .sync nxProg 1 nxVals {}).values k =
      AL.get? (run bodySem .sync nxProg 2 nxVals {}).values k := by
  have h := nest_run_eq bodySem nxProg 2 nxW nxI nxO nxG [elabLeaf nxA] [elabLeaf nxD] nxLevelG 3
    (nestedAt bodySem .sync nxProg 3) 1 2 ["r"] ["r"] .none .none {}
    (by decide) rfl rfl (by decide) rfl (by decide) (by decide) (by decide) (by decide)
    (by decide) (by decide) (bodySem_total (by decide)) (by decide) (by decide) (by decide)
    (convex_of_sides_seg nxG [elabLeaf nxA] nxI.nodes [elabLeaf nxD] nxSide rfl (by decide) (by decide)) (by decide) (by decide) (by decide)
    (bodySem_noSentinel (by decide)) (by decide) (by decide) (by decide) (by decide)
    nxVals (by decide) (by unfold Covered; decide) (by decide) (by decide) (by decide)
  exact ⟨h.1, h.2.1, h.2.2.2.2.2.2.2⟩

/-- … and, computed by evaluation, the two runs return the same dict (same order even) -/
example : (run bodySem .sync nxProg 1 nxVals {}).values = (run bodySem .sync nxProg 2 nxVals {}).values ∧
    AL.keys (run bodySem .sync nxProg 1 nxVals {}).values = ["p", "q", "r", "out"] := by decide

/-- Tier 1 on the example: the wrapper `W` called on `p`, `y` returns `q`, `r` of the inner fixed point -/
example : ∃ sI outs,
    evalSpec bodySem nxI (toParams (elabGraphNode nxW nxI) [("p", .int 7), ("y", .int 2)]) sI ∧
    (execGraphNode (nestedAt bodySem .sync nxProg 1) (elabGraphNode nxW nxI)
      [("p", .int 7), ("y", .int 2)] ["n"]).res = .ok outs ∧
    (execGraphNode (nestedAt bodySem .sync nxProg 1) (elabGraphNode nxW nxI)
      [("p", .int 7), ("y", .int 2)] ["n"]).pause = .none ∧
    ∀ o ∈ exposed nxI, ∀ v, AL.get? sI.values o = some v → v ≠ Val.sentinel →
      AL.get? outs (renameOf nxW.outRen o) = some v :=
  graphnode_as_function_value bodySem nxProg 0 nxW nxI [("p", .int 7), ("y", .int 2)] ["n"]
    (fun n => if n = "b" then 0 else 1) 1 rfl (by decide) (by decide) (by decide) (by decide) (by decide)
    (by decide) (by decide) (bodySem_total (by decide)) (by decide) (by decide) (by decide) (by decide)

example : (execGraphNode (nestedAt bodySem .sync nxProg 1) (elabGraphNode nxW nxI)
    [("p", .int 7), ("y", .int 2)] ["n"]).res =
    .ok [("q", Val.mkTup [.str "b", .int 7]), ("r", Val.mkTup [.str "c", Val.mkTup [.str "b", .int 7], .int 2])] := by
  decide

/-- item 4 on the example: same required inputs, no optional ones -/
example : (∀ p, p ∈ nxO.spec.required ↔ p ∈ nxG.spec.required) ∧
    (∀ p, p ∈ nxO.spec.optional ↔ p ∈ nxG.spec.optional) :=
  nest_inputspec_eq nxW nxI nxO nxG [elabLeaf nxA] [elabLeaf nxD] (by decide) rfl (by decide) rfl (by decide)
    ⟨rfl, by decide, by decide, by decide⟩ ⟨rfl, by decide, by decide, by decide⟩
    ⟨rfl, by decide, by decide, by decide⟩ (fun _ => rfl) (by decide)

example : (∀ p, p ∈ nxO.spec.required ↔ p ∈ nxG.spec.required) ∧
    (∀ p, p ∈ nxO.spec.optional ↔ p ∈ nxG.spec.optional) :=
  nest_inputspec_eq_dag nxW nxI nxO nxG [elabLeaf nxA] [elabLeaf nxD] nxLevelG 3 (by decide) rfl (by decide) rfl
    (by decide) rfl rfl rfl (by decide) (by decide)
    (convex_of_sides_seg nxG [elabLeaf nxA] nxI.nodes [elabLeaf nxD] nxSide rfl (by decide) (by decide))
    (fun _ => rfl) (by decide)

/-! ## why the hypotheses are there: concrete differences between nested and flat graphs in the model -/

/-- `Covered` (all required inputs supplied) is necessary: without `y` the flat graph still runs `a` and `b`
and reports `q`, the outer graph cannot start the wrapper and reports only `p`. (The library rejects such a
call in `validate_inputs`: `y` is required in both graphs.) -/
example : AL.keys (run bodySem .sync nxProg 2 [("x", .int 1)] {}).values = ["p", "q"] ∧
    AL.keys (run bodySem .sync nxProg 1 [("x", .int 1)] {}).values = ["p"] ∧
    (run bodySem .sync nxProg 1 [("x", .int 1)] {}).status = .completed := by decide

/-- `ConsistentDefaults` is necessary (1): two inner users of `k` with DIFFERENT defaults (1 in `b`, 2 in `c`). The
flat graph gives each node its own default; the wrapper surfaces the first user's default and feeds it to both,
so `r` differs. (The library rejects the inner graph at build time: `_validate_consistent_defaults`.) -/
example : ¬ ConsistentDefaults (cxProg.getD 0 default) ∧
    AL.get? (run bodySem .sync cxProg 1 [("x", .int 1)] {}).values "r" ≠
      AL.get? (run bodySem .sync cxProg 2 [("x", .int 1)] {}).values "r" ∧
    AL.get? (run bodySem .sync cxProg 1 [("x", .int 1)] {}).values "q" =
      AL.get? (run bodySem .sync cxProg 2 [("x", .int 1)] {}).values "q" := by decide

/-- `ConsistentDefaults` is necessary (2): a default for `k` in `b` only. Both graphs list `k` as optional; the flat
run completes with `p`, `q` (node `c` never becomes ready), the outer run FAILS with the `KeyError` of
`collect_inputs_for_node` on the wrapper (it reports a default for `k` but has no signature default to
resolve). (Again rejected by the library at build time.) -/
example : ¬ ConsistentDefaults (cxProg2.getD 0 default) ∧
    (cxProg2.getD 1 default).spec.optional = ["k"] ∧ (cxProg2.getD 2 default).spec.optional = ["k"] ∧
    (run bodySem .sync cxProg2 2 [("x", .int 1)] {}).status = .completed ∧
    AL.keys (run bodySem .sync cxProg2 2 [("x", .int 1)] {}).values = ["p", "q"] ∧
    (run bodySem .sync cxProg2 1 [("x", .int 1)] {}).status = .failed ∧
    (run bodySem .sync cxProg2 1 [("x", .int 1)] {}).error = some (.keyError "W") := by decide

/-- `NoSentinel` is necessary in the MODEL: if an inner function returned the emit sentinel object as data, the flat
graph would pass it on (`d` runs), while `filter_outputs` of the nested run drops it (`d` never becomes ready).
User code cannot obtain that private object, so this is an artefact of `Val` having a `sentinel` constructor. -/
example : AL.keys (run bodySem .sync cxProg3 2 nxVals {}).values = ["p", "q", "out"] ∧
    AL.keys (run bodySem .sync cxProg3 1 nxVals {}).values = ["p", "q"] := by decide

/-! ## Tier 3 — renames and depth -/

/-- C05.5: the wrapper renames inputs (`s.inRen`) and outputs (`s.outRen`), and the outer graph uses the renamed
names. The flat counterpart is the outer graph with the wrapper replaced by the inner nodes renamed by `ρ`
(`renameNode ρ`: current input / output names renamed, the function and its parameter names unchanged), where
`ρ` is the wrapper's input renaming on inner inputs and its output renaming on inner outputs, injective on the
names of the inner graph (`ShapeR`, `HG/Lemmas/NestRename.lean`; it also records: no `map_over`, no selection on
`I`, no bound values, leaf nodes). Then both sync runs end `done` and agree on every (outer) name; in
particular the renamed inner output `ρ o` carries in the outer run the value the flat run gives it.
`hsemR`: the node semantics does not look at names (true of `bodySem`). Well-formedness (`WFI`), coverage and
freshness are assumed for each of the three graphs separately (they are decidable); `Elab I` would give
`InnerOK I` and `I.spec.all.Nodup`. -/
theorem nest_values_eq_renamed (sem : Sem) (prog : Program) (d : Nat) (s : NodeSpec) (ρ : Name → Name)
    (I O G : GraphD) (pre post : List NodeD) (levelG levelO levelI : Name → Nat) (nestedG : Nested)
    (giO giG : Nat) (spanO spanG : Span) (mi : Nat) (log₀ log₁ : List Log)
    (L : ShapeR s ρ I O G pre post) (hI : prog.getD s.inner default = I)
    (hWG : WFI G levelG) (hfnG : AllFn G) (hsG : SemTotal sem G)
    (hWI : WFI I levelI) (hfnI : AllFn I) (hsI : SemTotal sem I)
    (hsemR : ∀ n ∈ I.nodes, ∀ a, sem (renameNode ρ n) a = sem n a)
    (hnsI : NoSentinel sem I) (hok : InnerOK I) (hcd : ConsistentDefaults I) (hnd : I.spec.all.Nodup)
    (hepI : I.entrypoints = .none) (hfuelI : I.nodes.length ≤ ({} : RunCfg).maxIter)
    (hWO : WFI O levelO)
    (values : AL Val) (hfreshG : ∀ m ∈ G.nodes, ∀ o ∈ m.outputs, AL.has values o = false)
    (hcovG : Covered G (initState values))
    (hfreshO : ∀ m ∈ O.nodes, ∀ o ∈ m.outputs, AL.has values o = false)
    (hcovO : Covered O (initState values))
    (hfuelG : G.nodes.length ≤ mi) (hfuelO : O.nodes.length ≤ mi) :
    ∃ sO sG logO logG nO nG,
      runLoop (fun k st rs => stepSync (nestedAt sem .sync prog (d + 1)) sem giO O spanO k st rs st []) O .none
        mi mi 0 (initState values) log₀ = .done sO logO nO ∧
      runLoop (fun k st rs => stepSync nestedG sem giG G spanG k st rs st []) G .none
        mi mi 0 (initState values) log₁ = .done sG logG nG ∧
      (∀ k, AL.get? sO.values k = AL.get? sG.values k) ∧
      (∀ o ∈ graphOutputs I.nodes, AL.get? sO.values (renameOf s.outRen o) = AL.get? sG.values (ρ o)) := by
  obtain ⟨sO, sG, logO, logG, nO, nG, h1, h2, h3⟩ :=
    nest_values_core_R sem prog d I levelG levelO levelI nestedG giO giG spanO spanG mi log₀ log₁ L hI hWG hfnG hsG
      hWI hfnI hsI hsemR hnsI hok hcd hnd hepI hfuelI hWO values hfreshG hcovG hfreshO hcovO hfuelG hfuelO
  exact ⟨sO, sG, logO, logG, nO, nG, h1, h2, h3, fun o ho => by rw [L.rout o ho]; exact h3 _⟩

/-- C05.6, compositional form. `Behaved sem prog d g` (`HG/Lemmas/NestDepth.lean`): the nodes of `g` are
function nodes or wrappers that behave like total functions under the depth-`d'` nested runner for every
`d' ≥ d`, with depth-independent results. `behaved_base`: a graph of function nodes is behaved at depth 0;
`behaved_step`: wrapping a behaved graph and surrounding the wrapper with function nodes gives a graph behaved
one level up. The inlining step below holds for every behaved inner graph, so inlining can be iterated through
any nesting depth. -/
theorem nest_depth_step (sem : Sem) (prog : Program) (d D : Nat) (hD : d < D) (s : NodeSpec) (I O G : GraphD)
    (pre post : List NodeD) (levelG levelO : Name → Nat) (giO giG : Nat)
    (spanO spanG : Span) (mi : Nat) (log₀ log₁ : List Log)
    (L : Layout s I O G pre post) (hI : prog.getD s.inner default = I)
    (hWG : WFI G levelG) (hBG : Behaved sem prog D G) (hfn : OuterFn sem pre post)
    (hB : Behaved sem prog d I)
    (hok : InnerOK I) (hcd : ConsistentDefaults I) (hnd : I.spec.all.Nodup)
    (hepI : I.entrypoints = .none) (hfuelI : I.nodes.length ≤ ({} : RunCfg).maxIter)
    (hWO : WFI O levelO)
    (values : AL Val) (hfresh : ∀ m ∈ G.nodes, ∀ o ∈ m.outputs, AL.has values o = false)
    (hcov : Covered G (initState values))
    (hfuelG : G.nodes.length ≤ mi) (hfuelO : O.nodes.length ≤ mi) :
    ∃ sO sG logO logG nO nG,
      runLoop (fun k st rs => stepSync (nestedAt sem .sync prog D) sem giO O spanO k st rs st []) O .none
        mi mi 0 (initState values) log₀ = .done sO logO nO ∧
      runLoop (fun k st rs => stepSync (nestedAt sem .sync prog D) sem giG G spanG k st rs st []) G .none
        mi mi 0 (initState values) log₁ = .done sG logG nG ∧
      (∀ k, AL.get? sO.values k = AL.get? sG.values k) :=
  nest_step_behaved sem prog d D hD s I O G pre post levelG levelO giO giG spanO spanG mi log₀ log₁ L hI hWG hBG hfn
    hB hok hcd hnd hepI hfuelI hWO values hfresh hcov hfuelG hfuelO

/-- C05.6, depth 2: `O₂ = pre₂ ++ W₂ :: post₂` with `W₂` wrapping `O₁ = pre₁ ++ W₁ :: post₁` with `W₁` wrapping
`I`. The run of `O₂` (nested runner of depth `d+2`), the run of the half-inlined `G₂ = pre₂ ++ O₁.nodes ++ post₂`
and the run of the flat graph `G` all end `done` and agree on every name. Hypotheses: on the flat graph, the two
nested parts (convexity in `G` resp. `G₂`, `InnerOK`, consistent defaults, …), shapes, fresh wrapper names, no
bound values; all properties of `O₁`, `O₂`, `G₂` that the runs need are derived. -/
theorem nest_depth (sem : Sem) (prog : Program) (d : Nat) (s₁ s₂ : NodeSpec) (I O₁ O₂ G₂ G : GraphD)
    (pre₁ post₁ pre₂ post₂ : List NodeD) (levelG : Name → Nat) (H : Nat) (nestedG : Nested)
    (gi₂ giG₂ giG : Nat) (span₂ spanG₂ spanG : Span) (mi : Nat) (log₀ log₁ log₂ : List Log)
    (hp₁ : Plain s₁) (hp₂ : Plain s₂)
    (hI : prog.getD s₁.inner default = I) (hI₂ : prog.getD s₂.inner default = O₁)
    (hO₁ : O₁.nodes = pre₁ ++ elabGraphNode s₁ I :: post₁)
    (hO₂ : O₂.nodes = pre₂ ++ elabGraphNode s₂ O₁ :: post₂)
    (hG₂ : G₂.nodes = pre₂ ++ O₁.nodes ++ post₂)
    (hG : G.nodes = (pre₂ ++ pre₁) ++ I.nodes ++ (post₁ ++ post₂))
    (hname₁ : ∀ n ∈ (pre₂ ++ pre₁) ++ (post₁ ++ post₂), n.name ≠ s₁.name)
    (hname₂ : ∀ n ∈ pre₂ ++ post₂, n.name ≠ s₂.name)
    (hGb : G.spec.bound = []) (hG₂b : G₂.spec.bound = []) (hO₂b : O₂.spec.bound = [])
    (hO₁b : O₁.spec.bound = []) (hIb : I.spec.bound = [])
    (hWG : WFI G levelG) (hfnG : AllFn G) (hsG : SemTotal sem G) (hnsG : NoSentinel sem G)
    (hleaf : ∀ n ∈ G.nodes, n.innerBound = []) (hH : ∀ n ∈ G.nodes, levelG n.name ≤ H)
    (hconv₁ : Convex G I.nodes) (hok₁ : InnerOK I) (hnd₁ : I.spec.all.Nodup) (hcd₁ : ConsistentDefaults I)
    (hsel₁ : I.selected = .none) (hep₁ : I.entrypoints = .none)
    (hfuel₁ : I.nodes.length ≤ ({} : RunCfg).maxIter)
    (hconv₂ : Convex G₂ O₁.nodes) (hok₂ : InnerOK O₁) (hnd₂ : O₁.spec.all.Nodup) (hcd₂ : ConsistentDefaults O₁)
    (hsel₂ : O₁.selected = .none) (hep₂ : O₁.entrypoints = .none)
    (hfuel₂ : O₁.nodes.length ≤ ({} : RunCfg).maxIter)
    (values : AL Val) (hfresh : ∀ m ∈ G.nodes, ∀ o ∈ m.outputs, AL.has values o = false)
    (hcov : Covered G (initState values))
    (hfuelG : G.nodes.length ≤ mi) (hfuelG₂ : G₂.nodes.length ≤ mi) (hfuelO₂ : O₂.nodes.length ≤ mi) :
    ∃ sO₂ sG₂ sG logO₂ logG₂ logG nO₂ nG₂ nG,
      runLoop (fun k st rs => stepSync (nestedAt sem .sync prog (d + 2)) sem gi₂ O₂ span₂ k st rs st []) O₂ .none
        mi mi 0 (initState values) log₀ = .done sO₂ logO₂ nO₂ ∧
      runLoop (fun k st rs => stepSync (nestedAt sem .sync prog (d + 2)) sem giG₂ G₂ spanG₂ k st rs st []) G₂ .none
        mi mi 0 (initState values) log₁ = .done sG₂ logG₂ nG₂ ∧
      runLoop (fun k st rs => stepSync nestedG sem giG G spanG k st rs st []) G .none
        mi mi 0 (initState values) log₂ = .done sG logG nG ∧
      (∀ k, AL.get? sO₂.values k = AL.get? sG.values k) ∧
      (∀ k, AL.get? sG₂.values k = AL.get? sG.values k) := by
  obtain ⟨sO₂, sG₂, sG, logO₂, logG₂, logG, nO₂, nG₂, nG, h1, h2, h3, hA, hB⟩ :=
    nest_depth2_core sem prog d s₁ s₂ I O₁ O₂ G₂ G pre₁ post₁ pre₂ post₂ levelG H nestedG gi₂ giG₂ giG span₂ spanG₂
      spanG mi log₀ log₁ log₂ hp₁ hp₂ hI hI₂ hO₁ hO₂ hG₂ hG hname₁ hname₂ hGb hG₂b hO₂b hO₁b hIb hWG hfnG hsG hnsG
      hleaf hH hconv₁ hok₁ hnd₁ hcd₁ hsel₁ hep₁ hfuel₁ hconv₂ hok₂ hnd₂ hcd₂ hsel₂ hep₂ hfuel₂ values hfresh hcov
      hfuelG hfuelG₂ hfuelO₂
  exact ⟨sO₂, sG₂, sG, logO₂, logG₂, logG, nO₂, nG₂, nG, h1, h2, h3, fun k => (hA k).trans (hB k), hB⟩

/-! ## non-vacuity (Tier 3) — `HG/Lemmas/NestEx2.lean` -/

/-- renames: the wrapper takes `p` as `pp` and exposes `r` as `rr`; the flat graph is built by the elaborator
from the renamed leaf descriptions and coincides with `renameNode ρ` of the inner nodes -/
example : (elabGraphNode rxW rxI).inputs = ["pp", "y"] ∧ (elabGraphNode rxW rxI).dataOuts = ["q", "rr"] ∧
    rxO.spec.required = ["x", "y"] ∧ rxG.spec.required = ["x", "y"] := by decide

example : ∃ sO sG logO logG nO nG,
    runLoop (fun k st rs => stepSync (nestedAt bodySem .sync rxProg 3) bodySem 1 rxO ["r"] k st rs st []) rxO .none
      1000 1000 0 (initState nxVals) [] = .done sO logO nO ∧
    runLoop (fun k st rs => stepSync (nestedAt bodySem .sync rxProg 3) bodySem 2 rxG ["r"] k st rs st []) rxG .none
      1000 1000 0 (initState nxVals) [] = .done sG logG nG ∧
    (∀ k, AL.get? sO.values k = AL.get? sG.values k) ∧
    (∀ o ∈ graphOutputs rxI.nodes, AL.get? sO.values (renameOf rxW.outRen o) = AL.get? sG.values (rxRho o)) :=
  nest_values_eq_renamed bodySem rxProg 2 rxW rxRho rxI rxO rxG [elabLeaf rxA] [elabLeaf rxD] nxLevelG rxLevelO
    rxLevelI (nestedAt bodySem .sync rxProg 3) 1 2 ["r"] ["r"] 1000 [] []
    ⟨rfl, rfl, rfl, by decide, by decide, by decide, by decide, by decide, by decide, by decide, by decide, by decide⟩
    rfl (by decide) (by decide) (bodySem_total (by decide)) (by decide) (by decide) (bodySem_total (by decide))
    (fun _ _ _ => rfl) (bodySem_noSentinel (by decide)) (by decide) (by decide) (by decide) (by decide) (by decide)
    (by decide) nxVals (by decide) (by unfold Covered; decide) (by decide) (by unfold Covered; decide)
    (by decide) (by decide)

example : (run bodySem .sync rxProg 1 nxVals {}).values = (run bodySem .sync rxProg 2 nxVals {}).values ∧
    AL.keys (run bodySem .sync rxProg 1 nxVals {}).values = ["pp", "q", "rr", "out"] := by decide

/-- depth 2 on the example: `{c}` inside `{b, W1}` inside `{a, W2, d}` -/
example : ∃ sO₂ sG₂ sG logO₂ logG₂ logG nO₂ nG₂ nG,
    runLoop (fun k st rs => stepSync (nestedAt bodySem .sync dxProg (4 + 2)) bodySem 2 dxO2 ["r"] k st rs st [])
      dxO2 .none 1000 1000 0 (initState nxVals) [] = .done sO₂ logO₂ nO₂ ∧
    runLoop (fun k st rs => stepSync (nestedAt bodySem .sync dxProg (4 + 2)) bodySem 3 dxG2 ["r"] k st rs st [])
      dxG2 .none 1000 1000 0 (initState nxVals) [] = .done sG₂ logG₂ nG₂ ∧
    runLoop (fun k st rs => stepSync (nestedAt bodySem .sync dxProg 6) bodySem 4 dxG ["r"] k st rs st [])
      dxG .none 1000 1000 0 (initState nxVals) [] = .done sG logG nG ∧
    (∀ k, AL.get? sO₂.values k = AL.get? sG.values k) ∧ (∀ k, AL.get? sG₂.values k = AL.get? sG.values k) :=
  nest_depth bodySem dxProg 4 dxW1 dxW2 dxI dxO1 dxO2 dxG2 dxG [elabLeaf nxB] [] [elabLeaf nxA] [elabLeaf nxD]
    nxLevelG 3 (nestedAt bodySem .sync dxProg 6) 2 3 4 ["r"] ["r"] ["r"] 1000 [] [] []
    (by decide) (by decide) rfl rfl rfl rfl rfl rfl (by decide) (by decide)
    (by decide) (by decide) (by decide) (by decide) (by decide)
    (by decide) (by decide) (bodySem_total (by decide)) (bodySem_noSentinel (by decide)) (by decide) (by decide)
    (convex_of_sides_seg dxG ([elabLeaf nxA] ++ [elabLeaf nxB]) dxI.nodes ([] ++ [elabLeaf nxD]) nxSide rfl
      (by decide) (by decide))
    (by decide) (by decide) (by decide) (by decide) (by decide) (by decide)
    (convex_of_sides_seg dxG2 [elabLeaf nxA] dxO1.nodes [elabLeaf nxD] nxSide rfl (by decide) (by decide))
    (by decide) (by decide) (by decide) (by decide) (by decide) (by decide)
    nxVals (by decide) (by unfold Covered; decide) (by decide) (by decide) (by decide)

/-- depths 2 and 3 computed: `{a, W2, d}` (index 2) and `{W3}` wrapping it (index 5) return what the flat graph
(index 4) returns -/
example : (run bodySem .sync dxProg 2 nxVals {}).values = (run bodySem .sync dxProg 4 nxVals {}).values ∧
    (run bodySem .sync dxProg 5 nxVals {}).values = (run bodySem .sync dxProg 4 nxVals {}).values := by decide

/-- the induction on depth is not vacuous: the three levels of the example are behaved at depths 0, 1, 2 -/
example : Behaved bodySem dxProg 0 dxI ∧ Behaved bodySem dxProg 1 dxO1 ∧ Behaved bodySem dxProg 2 dxO2 := by
  have h0 : Behaved bodySem dxProg 0 dxI :=
    behaved_base bodySem dxProg dxI (by decide) (bodySem_total (by decide)) (bodySem_noSentinel (by decide))
  have hns : ∀ (l : List NodeD), (∀ nd ∈ l, tagOne nd = true) → ∀ n ∈ l, ∀ args v outs, bodySem n args = .val v →
      wrapOutputs n v = some outs → ∀ o w, AL.get? outs o = some w → w ≠ Val.sentinel := by
    intro l hl n hn
    exact bodySem_noSentinel (g := { (default : GraphD) with nodes := l }) hl n hn
  have h1 : Behaved bodySem dxProg 1 dxO1 :=
    behaved_step (levelI := fun _ => 0) (pre := [elabLeaf nxB]) (post := []) rfl (by decide) (by decide) rfl
      ⟨by decide, fun n hn => bodySem_total (g := { (default : GraphD) with nodes := [elabLeaf nxB] ++ [] })
        (by decide) n hn⟩
      (hns _ (by decide)) (by decide) h0 (by decide) (by decide) (by decide) (by decide)
  have h2 : Behaved bodySem dxProg 2 dxO2 :=
    behaved_step (levelI := fun n => if n = "b" then 0 else 1) (pre := [elabLeaf nxA]) (post := [elabLeaf nxD])
      rfl (by decide) (by decide) rfl
      ⟨by decide, fun n hn => bodySem_total (g := { (default : GraphD) with nodes := [elabLeaf nxA] ++ [elabLeaf nxD] })
        (by decide) n hn⟩
      (hns _ (by decide)) (by decide) h1 (by decide) (by decide) (by decide) (by decide)
  exact ⟨h0, h1, h2⟩

end HG.C05
