import HG.Lemmas.Loop
import HG.Lemmas.LoopStep
import HG.Lemmas.LoopProv
import HG.Lemmas.LoopEx
/-! # C11 — errors surface unwrapped; partial results are the completed work -/
namespace HG.C11
open HG

section step
variable (nested : Nested) (sem : Sem) (gi : Nat) (g : GraphD) (span : Span) (k : Nat) (s : GState)

/-- (6) a failing sync superstep reports, unchanged, the error of the FIRST failing node in ready
order: every node before it succeeded (`stepSync … pre … = .ok`), and the error is either the
`KeyError` of input collection for that node or exactly what `execNode` returned for it. -/
theorem step_error_is_node_error (rs : List NodeD) (ns : GState) (log : List Log) {e : ErrId} {ps : GState}
    {log' : List Log} (h : stepSync nested sem gi g span k s rs ns log = .fail e ps log') :
    ∃ (pre : List NodeD) (nd : NodeD) (post : List NodeD) (ns' : GState) (lg' : List Log),
      rs = pre ++ nd :: post ∧ stepSync nested sem gi g span k s pre ns log = .ok ns' lg' ∧
      ((collectInputs g s nd nd.inputs = .none ∧ e = .keyError nd.name) ∨
       (∃ inputs, collectInputs g s nd nd.inputs = some inputs ∧
          (execNode nested sem gi nd inputs ns' (nodeSpanOf span k nd)).res = .error e)) := by
  obtain ⟨pre, nd, post, ns', lg', h1, h2, h3⟩ := stepSync_fail_split nested sem gi g span k s rs ns log h
  refine ⟨pre, nd, post, ns', lg', h1, h2, ?_⟩
  rcases h3 with ⟨a, b, _⟩ | ⟨inputs, a, _, b, _⟩
  · exact .inl ⟨a, b⟩
  · exact .inr ⟨inputs, a, b⟩

/-- (10a) the partial state of a failing superstep is exactly the working copy after the successful
prefix — nothing the failing node computed is in it (a failing node stores no routing decision either,
`execNode_error_dec`). Exception, mirrored from the implementation: the `KeyError` of input collection is
raised outside the node's `try` block, and then the partial state is the snapshot `s` itself. -/
theorem partial_state_excludes_failing_node (rs : List NodeD) {e : ErrId} {ps : GState} {log' : List Log}
    (h : stepSync nested sem gi g span k s rs s [] = .fail e ps log') :
    ∃ (pre : List NodeD) (nd : NodeD) (post : List NodeD) (ps' : GState) (lg' : List Log),
      rs = pre ++ nd :: post ∧ stepSync nested sem gi g span k s pre s [] = .ok ps' lg' ∧
      ((∃ inputs, collectInputs g s nd nd.inputs = some inputs ∧
          (execNode nested sem gi nd inputs ps' (nodeSpanOf span k nd)).res = .error e ∧
          (execNode nested sem gi nd inputs ps' (nodeSpanOf span k nd)).dec = .none ∧ ps = ps') ∨
       (collectInputs g s nd nd.inputs = .none ∧ e = .keyError nd.name ∧ ps = s)) := by
  obtain ⟨pre, nd, post, ns', lg', h1, h2, h3⟩ := stepSync_fail_split nested sem gi g span k s rs s [] h
  refine ⟨pre, nd, post, ns', lg', h1, h2, ?_⟩
  rcases h3 with ⟨a, b, c⟩ | ⟨inputs, a, _, b, c⟩
  · exact .inr ⟨a, b, c⟩
  · exact .inl ⟨inputs, a, b, execNode_error_dec _ _ _ _ _ _ _ b, c⟩

/-- (10b) every value present before the step is still present in the partial state -/
theorem partial_state_keeps_earlier_values (rs : List NodeD) {e : ErrId} {ps : GState} {log' : List Log}
    (h : stepSync nested sem gi g span k s rs s [] = .fail e ps log') (key : Name)
    (hk : AL.has s.values key = true) : AL.has ps.values key = true := by
  obtain ⟨pre, nd, post, ns', lg', _, h2, h3⟩ := stepSync_fail_split nested sem gi g span k s rs s [] h
  rcases h3 with ⟨_, _, c⟩ | ⟨inputs, _, _, _, c⟩
  · rw [c]; exact hk
  · rw [c]; exact stepSync_ok_has nested sem gi g span k s pre s [] h2 key hk
end step

/-- (7) a nested run that raised `e` makes the graph node fail with the very same `e` -/
theorem graphnode_propagates_unwrapped (nested : Nested) (nd : NodeD) (inputs : AL Val) (sp : Span) (e : ErrId)
    (hm : nd.mapOver = [])
    (hr : (nested.run nd.inner (toParams nd inputs) sp).raised = true)
    (he : (nested.run nd.inner (toParams nd inputs) sp).error = some e) :
    (execGraphNode nested nd inputs sp).res = .error e := by
  simp [execGraphNode, hm, hr, he]

/-- (7') the same for a mapped graph node whose `map` raised `e` -/
theorem graphnode_map_propagates_unwrapped (nested : Nested) (nd : NodeD) (inputs : AL Val) (sp : Span) (e : ErrId)
    (hm : nd.mapOver ≠ [])
    (hr : (nested.map nd.inner (toParams nd inputs) (nd.mapOver.map fun p => (AL.get? nd.origIn p).getD p)
            nd.mapMode nd.errMode sp).raised = some e) :
    (execGraphNode nested nd inputs sp).res = .error e := by
  simp [execGraphNode, hm, hr]

/-- (9) shape of the result of a run whose loop failed with `e` and partial state `ps` -/
theorem failed_result_shape (nested : Nested) (sem : Sem) (runner : Runner) (gi : Nat) (g : GraphD)
    (values : AL Val) (cfg : RunCfg) (span : Span) (parent : Option Span) {e : ErrId} {ps : GState}
    {log : List Log} {n : Nat}
    (h : runGraphLoop nested sem runner gi g values cfg span parent = .fail e ps log n) :
    let r := runGraph nested sem runner gi g values cfg span parent
    r.status = .failed ∧ r.error = some e ∧
    (cfg.errMode = .cont → r.raised = false ∧
      r.values = (match filterOutputs g ps cfg.select .ignore with | .ok (v, _) => v | .error _ => [])) ∧
    (cfg.errMode = .raise → r.raised = true ∧ r.values = []) := by
  simp only [runGraph_eq, h, finishRun]
  cases cfg.errMode <;> simp [partialValues] <;> rfl

/-- (8) provenance: at every nesting depth, for every program, graph, runner (sync, or async with any
completion order), error mode and `map` mode — if a run reports the user exception `t` then some
node function raised exactly `t`. No layer (superstep, loop, `run`, `map`, `collect_as_lists`,
nested graph node) replaces or wraps it.  (Interrupt handlers DO wrap: `execInterrupt` returns
`.wrapped e`, a different `ErrId`; recorded finding.) -/
theorem run_error_provenance (sem : Sem) (runner : Runner) (prog : Program) (d : Nat) (gi : Nat) (g : GraphD)
    (values : AL Val) (cfg : RunCfg) (span : Span) (parent : Option Span) (t : String)
    (h : (runGraph (nestedAt sem runner prog d) sem runner gi g values cfg span parent).error = some (.user t)) :
    ∃ (nd : NodeD) (args : AL Val), sem nd args = .raise (.user t) :=
  runGraph_prov (nestedAt_prov sem t runner prog d) runner gi g values cfg span parent h

/-- (8') top-level `runner.run` -/
theorem run_error_provenance_top (sem : Sem) (runner : Runner) (prog : Program) (root : Nat) (values : AL Val)
    (cfg : RunCfg) (t : String) (h : (run sem runner prog root values cfg).error = some (.user t)) :
    ∃ (nd : NodeD) (args : AL Val), sem nd args = .raise (.user t) :=
  run_error_provenance sem runner prog prog.length root _ values cfg ["r"] .none t h

/-- (8'') top-level `runner.map`: the raised error, and the error of every item result -/
theorem map_error_provenance_top (sem : Sem) (runner : Runner) (prog : Program) (root : Nat) (values : AL Val)
    (mapOver : List Name) (mode : MapMode) (em : ErrMode) (cfg : RunCfg) (t : String) :
    ((map sem runner prog root values mapOver mode em cfg).raised = some (.user t) →
        ∃ (nd : NodeD) (args : AL Val), sem nd args = .raise (.user t)) ∧
    (∀ r ∈ (map sem runner prog root values mapOver mode em cfg).results, r.error = some (.user t) →
        ∃ (nd : NodeD) (args : AL Val), sem nd args = .raise (.user t)) :=
  mapGraph_prov (fun _ _ h => runGraph_prov (nestedAt_prov sem t runner prog prog.length) _ _ _ _ _ _ _ h)
    _ _ _ _ _ _ _ _

/-! ## non-vacuity -/
section examples
open HG.Ex

/-- (6)/(10): in `gFail` both `a` and `f` are ready; `a` succeeds, `f` raises "boom": the step fails with
exactly that error and a partial state that holds `a`'s output `y` but no `z` -/
example : ∃ ps lg, stepSync (nestedAt semBoom .sync [] 0) semBoom 0 gFail ["r"] 0 s0 [nA, nF] s0 [] =
      .fail (.user "boom") ps lg ∧ AL.get? ps.values "y" = some (.int 1) ∧ AL.has ps.values "z" = false ∧
      AL.has ps.values "x" = true := by
  refine ⟨_, _, rfl, ?_, ?_, ?_⟩ <;> decide

/-- the ready set of `gFail` at the start is `[a, f]`, in that order -/
example : (ready gFail .none s0).1.map (·.name) = ["a", "f"] := by decide

/-- (9) `error_handling="continue"`: FAILED, the user error itself, the completed sibling's output -/
example :
    let r := runGraph (nestedAt semBoom .sync [] 0) semBoom .sync 0 gFail [("x", .int 0)] { errMode := .cont } ["r"] .none
    r.status = .failed ∧ r.raised = false ∧ r.error = some (.user "boom") ∧ r.values = [("y", .int 1)] := by
  decide

/-- (9) `error_handling="raise"` -/
example :
    let r := runGraph (nestedAt semBoom .sync [] 0) semBoom .sync 0 gFail [("x", .int 0)] { errMode := .raise } ["r"] .none
    r.status = .failed ∧ r.raised = true ∧ r.error = some (.user "boom") ∧ r.values = [] := by
  decide

/-- (7)/(8) through a nested graph node (depth 1), sync runner: the outer run reports the inner
user exception itself -/
example : (run semBoom .sync (prog [] .raise) 1 [("x", .int 0)] { errMode := .cont }).error = some (.user "boom") := by
  decide

/-- (7) the hypotheses of `graphnode_propagates_unwrapped` are satisfiable: the graph node `sub` over `gFail` -/
example : (execGraphNode (nestedAt semBoom .sync (prog [] .raise) 1) (nSub [] .raise) [("x", .int 0)] ["n"]).res
    = .error (.user "boom") :=
  graphnode_propagates_unwrapped _ _ _ _ _ rfl (by decide) (by decide)

/-- (8) through `map` in raise mode inside a graph node, async runner -/
example : (run semBoom (.async fun _ => []) (prog ["x"] .raise) 1 [("x", Val.mkLst [.int 0, .int 1])] {}).error
    = some (.user "boom") := by
  decide

/-- … and the hypothesis of (8) then yields the raising node function -/
example : ∃ nd args, semBoom nd args = .raise (.user "boom") :=
  run_error_provenance_top semBoom .sync (prog [] .raise) 1 [("x", .int 0)] { errMode := .cont } "boom" (by decide)

end examples

/-! ## the exception OBJECT: its explicit cause (fix eaf8c90)

`ErrId` identifies the exception object a node raised; the object also carries the cause its node gave it (`raise High(...) from low`).
Every level of nesting re-raises the surfaced object once (`error_handling="raise"`, which nested runs always use). -/

/-- the part of an exception object a re-raise can touch: which object it is, and its `__cause__` -/
structure ExcObj where
  id : ErrId
  cause : Option ErrId
  deriving DecidableEq, Repr

/-- `raise error from error.__cause__` (both runner templates): the runner's own handling is hidden, the cause is kept -/
def reraise (e : ExcObj) : ExcObj := { e with cause := e.cause }

/-- `raise error from None`, what the templates did before the repair -/
def reraiseOld (e : ExcObj) : ExcObj := { e with cause := .none }

/-- surfacing through `depth` levels of nesting -/
def surface (f : ExcObj → ExcObj) : Nat → ExcObj → ExcObj
  | 0, e => e
  | d + 1, e => surface f d (f e)

/-- the exception reaches the caller as it left the node function — same object, same cause — through any depth of nesting -/
theorem cause_survives_nesting (depth : Nat) (e : ExcObj) : surface reraise depth e = e := by
  induction depth generalizing e with
  | zero => rfl
  | succ d ih => simpa [surface, reraise] using ih e

/-- the unrepaired re-raise: one level is enough to strip an explicit cause (the identity survives, which is why no test noticed) -/
theorem flaw_reraise_from_none (i c : ErrId) (depth : Nat) :
    (surface reraiseOld (depth + 1) ⟨i, some c⟩).cause = .none ∧ (surface reraiseOld (depth + 1) ⟨i, some c⟩).id = i := by
  have h : ∀ d (e : ExcObj), e.cause = .none → (surface reraiseOld d e).cause = .none ∧ (surface reraiseOld d e).id = e.id := by
    intro d
    induction d with
    | zero => intro e he; exact ⟨he, rfl⟩
    | succ d ih => intro e _; simpa [surface, reraiseOld] using ih { e with cause := .none } rfl
  simpa [surface, reraiseOld] using h depth ⟨i, .none⟩ rfl

example : surface reraise 3 ⟨.user "high", some (.user "low")⟩ = ⟨.user "high", some (.user "low")⟩ := cause_survives_nesting _ _
example : (surface reraiseOld 1 ⟨.user "high", some (.user "low")⟩).cause = .none := by rfl

end HG.C11
