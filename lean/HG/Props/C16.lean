import HG.Lemmas.Ready
/-! # C16 — scoping: active set, result keys, `select` precedence, `on_missing`

Only nodes of the active set start; a run result contains exactly real (non-sentinel) values of
the state under selected (or graph-output) names, each at most once; a run-time `select` beats the
graph's own selection; `on_missing` behaves as documented. -/
namespace HG.C16
open HG

/-! ## concrete graph for the non-vacuity examples -/

/-- `a` produces `x` and emits `sig`; `b` produces `y` -/
def nA : NodeD := elabLeaf { name := "a", kind := .fn, dataOuts := ["x"], emits := ["sig"] }
def nB : NodeD := elabLeaf { name := "b", kind := .fn, dataOuts := ["y"] }

def gAB (selected : Option (List Name)) : GraphD :=
  { name := "g", nodes := [nA, nB], bound := [], selected := selected, entrypoints := .none, edges := []
    spec := { required := [], optional := [], entrypoints := [], bound := [] } }

/-- state after `a` ran: `x`, the sentinel `sig`; `y` absent -/
def sA : GState := { values := [("x", .int 1), ("sig", .sentinel)], versions := [("x", 1), ("sig", 1)] }
/-- state after both ran -/
def sAB : GState :=
  { values := [("x", .int 1), ("sig", .sentinel), ("y", .int 2)], versions := [("x", 1), ("sig", 1), ("y", 1)] }

/-! ## 11. only active nodes start -/

theorem only_active_ready (g : GraphD) (a : List Name) (s : GState) (nd : NodeD)
    (h : nd ∈ (ready g (some a) s).1) : nd.name ∈ a :=
  ((mem_cand g (some a) nd).1 ((mem_ready0 g (some a) s nd).1 (ready_sub_ready0 h)).1).2 a rfl

theorem ready_active : (ready (gAB .none) (some ["b"]) {}).1 = [nB] := rfl
/-- non-vacuity: both nodes are individually ready, only the active one starts -/
example : nB.name ∈ ["b"] :=
  only_active_ready (gAB .none) ["b"] {} nB (by rw [ready_active]; exact List.mem_singleton.2 rfl)
example : (ready (gAB .none) .none {}).1.map (·.name) = ["a", "b"] ∧
    (ready (gAB .none) (some ["b"]) {}).1.map (·.name) = ["b"] := ⟨rfl, rfl⟩

/-! ## 12. keys and values of a result -/

theorem result_keys (g : GraphD) (s : GState) (sel : Select) (om : OnMissing) (vals : AL Val) (w : Nat)
    (k : Name) (v : Val)
    (h : filterOutputs g s sel om = .ok (vals, w)) (hm : (k, v) ∈ vals) :
    v ≠ Val.sentinel ∧ AL.get? s.values k = some v ∧
    (match effectiveSelect g sel with
     | .none => k ∈ graphOutputs g.nodes
     | some names => k ∈ names) := by
  cases hs : effectiveSelect g sel with
  | none =>
    rw [filterOutputs_none g s sel om hs] at h
    injection h with h
    have hv : vals = (graphOutputs g.nodes).filterMap (outStep s) := (congrArg Prod.fst h).symm
    subst hv
    obtain ⟨a, ha, hstep⟩ := List.mem_filterMap.1 hm
    obtain ⟨e, hget, hne⟩ := outStep_some s a k v hstep
    subst e
    exact ⟨hne, hget, ha⟩
  | some names =>
    have hv := filterOutputs_some_ok g s sel om names hs vals w h
    subst hv
    have := selFold_sound s names names [] (fun _ hk => hk) (by intro kv hkv; cases hkv) (k, v) hm
    exact ⟨this.2.1, this.2.2, this.1⟩

/-- every key occurs at most once -/
theorem result_keys_nodup (g : GraphD) (s : GState) (sel : Select) (om : OnMissing) (vals : AL Val) (w : Nat)
    (h : filterOutputs g s sel om = .ok (vals, w)) : (AL.keys vals).Nodup := by
  cases hs : effectiveSelect g sel with
  | none =>
    rw [filterOutputs_none g s sel om hs] at h
    injection h with h
    have hv : vals = (graphOutputs g.nodes).filterMap (outStep s) := (congrArg Prod.fst h).symm
    subst hv
    exact (keys_filterMap_outStep_sublist s _).nodup (dedup_nodup _)
  | some names =>
    have hv := filterOutputs_some_ok g s sel om names hs vals w h
    subst hv
    exact selFold_nodup s names [] List.nodup_nil

/-- converse: every real value under a requested name is returned -/
theorem result_complete (g : GraphD) (s : GState) (sel : Select) (om : OnMissing) (vals : AL Val) (w : Nat)
    (k : Name) (v : Val)
    (h : filterOutputs g s sel om = .ok (vals, w))
    (hk : match effectiveSelect g sel with
          | .none => k ∈ graphOutputs g.nodes
          | some names => k ∈ names)
    (hv : AL.get? s.values k = some v) (hne : v ≠ Val.sentinel) : (k, v) ∈ vals := by
  cases hs : effectiveSelect g sel with
  | none =>
    rw [hs] at hk
    rw [filterOutputs_none g s sel om hs] at h
    injection h with h
    have hvals : vals = (graphOutputs g.nodes).filterMap (outStep s) := (congrArg Prod.fst h).symm
    subst hvals
    refine List.mem_filterMap.2 ⟨k, hk, ?_⟩
    unfold outStep; rw [hv]; simp [hne]
  | some names =>
    rw [hs] at hk
    have hvals := filterOutputs_some_ok g s sel om names hs vals w h
    subst hvals
    exact AL.mem_of_get?₁ _ k v (selFold_complete s names [] k v hv hne (Or.inl hk))

/-- non-vacuity (no selection): the result of `sA` is `x` only — the emit sentinel is dropped -/
example : filterOutputs (gAB .none) sA .unset .ignore = .ok ([("x", .int 1)], 0) := rfl
example : Val.int 1 ≠ Val.sentinel ∧ AL.get? sA.values "x" = some (.int 1) ∧
    (match effectiveSelect (gAB .none) .unset with
     | .none => "x" ∈ graphOutputs (gAB .none).nodes
     | some names => "x" ∈ names) :=
  result_keys (gAB .none) sA .unset .ignore [("x", .int 1)] 0 "x" (.int 1) rfl (List.mem_singleton.2 rfl)
/-- non-vacuity (selection, with a duplicate and a sentinel name requested) -/
example : filterOutputs (gAB .none) sAB (.names ["y", "sig", "x", "y"]) .ignore = .ok ([("y", .int 2), ("x", .int 1)], 0) := rfl
example : Val.int 2 ≠ Val.sentinel ∧ AL.get? sAB.values "y" = some (.int 2) ∧
    (match effectiveSelect (gAB .none) (.names ["y", "sig", "x", "y"]) with
     | .none => "y" ∈ graphOutputs (gAB .none).nodes
     | some names => "y" ∈ names) :=
  result_keys (gAB .none) sAB (.names ["y", "sig", "x", "y"]) .ignore _ 0 "y" (.int 2) rfl List.mem_cons_self
example : (AL.keys [("y", Val.int 2), ("x", Val.int 1)]).Nodup :=
  result_keys_nodup (gAB .none) sAB (.names ["y", "sig", "x", "y"]) .ignore _ 0 rfl

/-! ## 13. run-time `select` beats the graph's selection -/

theorem select_precedence (g : GraphD) (l : List Name) :
    effectiveSelect g (.names l) = some l ∧ effectiveSelect g .all = .none ∧
    effectiveSelect g .unset = g.selected := ⟨rfl, rfl, rfl⟩

/-- non-vacuity: the graph selects `x`; the call selects `y` / everything / nothing -/
example : filterOutputs (gAB (some ["x"])) sAB (.names ["y"]) .ignore = .ok ([("y", .int 2)], 0) ∧
    filterOutputs (gAB (some ["x"])) sAB .all .ignore = .ok ([("x", .int 1), ("y", .int 2)], 0) ∧
    filterOutputs (gAB (some ["x"])) sAB .unset .ignore = .ok ([("x", .int 1)], 0) := ⟨rfl, rfl, rfl⟩

/-! ## 14. the `on_missing` table -/

/-- a requested name is absent from the state: `ignore` returns silently, `warn` returns the same
values with one warning, `error` raises -/
theorem on_missing_table (g : GraphD) (s : GState) (sel : Select) (names : List Name) (k : Name)
    (hs : effectiveSelect g sel = some names) (hk : k ∈ names) (hmiss : AL.has s.values k = false) :
    ∃ vals,
      filterOutputs g s sel .ignore = .ok (vals, 0) ∧
      filterOutputs g s sel .warn = .ok (vals, 1) ∧
      filterOutputs g s sel .error = .error (.valueError "on_missing") := by
  have hne : (missingOf s names).isEmpty = false := by
    have : k ∈ missingOf s names := by
      unfold missingOf; rw [List.mem_filter]; exact ⟨hk, by simp [hmiss]⟩
    cases hl : missingOf s names with
    | nil => rw [hl] at this; cases this
    | cons _ _ => rfl
  refine ⟨selVals s names, ?_, ?_, ?_⟩ <;> rw [filterOutputs_some g s sel _ names hs, hne] <;> rfl

/-- nothing is missing: every mode returns the values without warning -/
theorem on_missing_nothing (g : GraphD) (s : GState) (sel : Select) (names : List Name)
    (hs : effectiveSelect g sel = some names) (hall : ∀ k ∈ names, AL.has s.values k = true)
    (om : OnMissing) : ∃ vals, filterOutputs g s sel om = .ok (vals, 0) := by
  have he : (missingOf s names).isEmpty = true := by
    rw [List.isEmpty_iff]
    unfold missingOf
    rw [List.filter_eq_nil_iff]
    intro k hk; simp [hall k hk]
  exact ⟨selVals s names, by rw [filterOutputs_some g s sel om names hs, he]; rfl⟩

/-- without any selection nothing can be missing -/
theorem on_missing_unselected (g : GraphD) (s : GState) (sel : Select) (hs : effectiveSelect g sel = .none)
    (om : OnMissing) : ∃ vals, filterOutputs g s sel om = .ok (vals, 0) :=
  ⟨_, filterOutputs_none g s sel om hs⟩

/-- non-vacuity: `y` requested but absent in `sA` -/
example : ∃ vals,
    filterOutputs (gAB .none) sA (.names ["x", "y"]) .ignore = .ok (vals, 0) ∧
    filterOutputs (gAB .none) sA (.names ["x", "y"]) .warn = .ok (vals, 1) ∧
    filterOutputs (gAB .none) sA (.names ["x", "y"]) .error = .error (.valueError "on_missing") :=
  on_missing_table (gAB .none) sA (.names ["x", "y"]) ["x", "y"] "y" rfl (by decide) rfl
example : filterOutputs (gAB .none) sA (.names ["x", "y"]) .warn = .ok ([("x", .int 1)], 1) := rfl
example : ∃ vals, filterOutputs (gAB .none) sAB (.names ["x", "y"]) .error = .ok (vals, 0) :=
  on_missing_nothing (gAB .none) sAB (.names ["x", "y"]) ["x", "y"] rfl (by decide) .error

end HG.C16
