import HG.Lemmas.Step
/-! # C02 — the sync and the async runner agree

Property theorems and their non-vacuity examples only; every helper (and the example program
`C02Ex`) lives in `HG/Lemmas/Step.lean`. -/
namespace HG.C02
open HG

/-! ## Tier 1 -/

/-- (1) What a node computes never depends on the outputs of its step-siblings: for every kind
except `interrupt` the accumulated state handed to the executor is not read at all.  (An
interrupt executor reads `values` / `execs` of the state object it is given — in `stepAsync`
that object is the snapshot; see `execNode_congr`.) -/
theorem exec_indep_of_accumulated_state (nested : Nested) (sem : Sem) (gi : Nat) (nd : NodeD)
    (inputs : AL Val) (ns ns' : GState) (sp : Span) (h : nd.kind ≠ .interrupt) :
    execNode nested sem gi nd inputs ns sp = execNode nested sem gi nd inputs ns' sp :=
  execNode_indep nested sem gi nd inputs ns ns' sp h

/-- non-vacuity: the example ready list has four non-interrupt nodes -/
example : C02Ex.rs.map (·.name) = ["a", "b", "gt", "g2"] ∧ ∀ nd ∈ C02Ex.rs, nd.kind ≠ .interrupt := by
  decide

/-- (2a) `stepSync` for the head node of the ready list: the keyword arguments are
`collectInputs g s …` — resolved against the SNAPSHOT `s`; the accumulated copy `ns` is only
written (decision, outputs, execution record) and handed to the executor. -/
theorem step_inputs_from_snapshot (nested : Nested) (sem : Sem) (gi : Nat) (g : GraphD)
    (runSpan : Span) (k : Nat) (s : GState) (nd : NodeD) (rest : List NodeD) (ns : GState)
    (log : List Log) :
    stepSync nested sem gi g runSpan k s (nd :: rest) ns log =
      (match collectInputs g s nd nd.inputs with
       | .none => .fail (.keyError nd.name) s log
       | some inputs =>
         let sp := nodeSpanOf runSpan k nd
         let startEv := Log.ev { kind := "NodeStart", span := sp, parent := some runSpan, name := nd.name }
         let out := execNode nested sem gi nd inputs ns sp
         let ns1 := match out.dec with
           | some d => { ns with decisions := AL.put ns.decisions nd.name d }
           | .none => ns
         match out.pause with
         | some p =>
           .pause p s (log ++ [startEv] ++ out.log ++
             [.ev { kind := "NodeError", span := sp, parent := some runSpan, name := nd.name }])
         | .none =>
           match out.res with
           | .error e =>
             .fail e ns1 (log ++ [startEv] ++ out.log ++
               [.ev { kind := "NodeError", span := sp, parent := some runSpan, name := nd.name }])
           | .ok outs =>
             stepSync nested sem gi g runSpan k s rest (recordExec s (ns1.applyOutputs outs) nd)
               (log ++ [startEv] ++ out.log ++ routeEvent runSpan k nd ns1 ++
                 [.ev { kind := "NodeEnd", span := sp, parent := some runSpan, name := nd.name }])) :=
  stepSync_cons nested sem gi g runSpan k s nd rest ns log

/-- (2b) `stepAsync`: the per-node results are `asyncOne₂ … s nd` for the nodes actually run
(`asyncRs₂ rs`: all of `rs`, or the first interrupt node alone), and `asyncOne₂` resolves the
arguments with `collectInputs g s nd nd.inputs` and executes on the snapshot `s`. -/
theorem step_inputs_from_snapshot_async (nested : Nested) (sem : Sem) (gi : Nat) (g : GraphD)
    (runSpan : Span) (k : Nat) (order : List Nat) (s : GState) (rs : List NodeD) :
    (stepAsync nested sem gi g runSpan k order s rs =
      (let results := (asyncRs₂ rs).map (asyncOne₂ nested sem gi g runSpan k s)
       let ns2 := results.foldl (valStep s) ((permute results order).foldl decStep s)
       let log := (permute results order).flatMap (·.out.log)
       match results.find? isBad with
       | .none => .ok ns2 log
       | some r =>
         match r.out.pause, r.out.res with
         | some p, _ => .pause p ns2 log
         | .none, .error e => .fail e ns2 log
         | .none, .ok _ => .ok ns2 log)) ∧
    (∀ nd, collectInputs g s nd nd.inputs = .none →
      asyncOne₂ nested sem gi g runSpan k s nd =
        { nd := nd, out := { res := .error (.keyError nd.name) } }) ∧
    (∀ nd inputs, collectInputs g s nd nd.inputs = some inputs →
      let r := asyncOne₂ nested sem gi g runSpan k s nd
      let out := execNode nested sem gi nd inputs s (nodeSpanOf runSpan k nd)
      r.nd = nd ∧ r.out.res = out.res ∧ r.out.dec = out.dec ∧ r.out.pause = out.pause) :=
  ⟨stepAsync_eq nested sem gi g runSpan k order s rs,
   fun nd hc => asyncOne_none nested sem gi g runSpan k s nd hc,
   fun nd inputs hc => asyncOne_some nested sem gi g runSpan k s nd inputs hc⟩

/-- (2c) corollary: replacing the accumulated state `ns` by any `ns'` leaves every `Log.call`
item (function id + keyword arguments) of the step's log unchanged. -/
theorem step_calls_indep_of_accumulated_state (nested : Nested) (sem : Sem) (gi : Nat) (g : GraphD)
    (runSpan : Span) (k : Nat) (s : GState) (rs : List NodeD)
    (hni : ∀ nd ∈ rs, nd.kind ≠ .interrupt) (ns ns' : GState) (log : List Log) :
    (stepSync nested sem gi g runSpan k s rs ns log).log.filter isCall =
      (stepSync nested sem gi g runSpan k s rs ns' log).log.filter isCall :=
  stepSync_calls nested sem gi g runSpan k s rs hni ns ns' log log rfl

/-- non-vacuity: the example step makes four calls, all with the snapshot value `x = 1`, also
when started from a completely different accumulated state -/
example :
    (stepSync C02Ex.nested0 bodySem 0 C02Ex.g ["r"] 0 C02Ex.s1 C02Ex.rs C02Ex.s7y []).log.filter isCall =
      [.call "0:a" [("x", .int 1)], .call "0:b" [("x", .int 1)], .call "0:gt" [("x", .int 1)],
       .call "0:g2" [("x", .int 1)]] := by
  rfl

/-- (3) `GState.equiv` (same values / versions / execs, decisions equal as dicts) is an
equivalence relation -/
theorem equiv_equivalence : Equivalence GState.equiv :=
  ⟨GState.equiv.refl, GState.equiv.symm, GState.equiv.trans⟩

/-- the definition, spelled out -/
theorem equiv_def (a b : GState) : GState.equiv a b ↔
    (a.values = b.values ∧ a.versions = b.versions ∧ a.execs = b.execs ∧
      ∀ k, AL.get? a.decisions k = AL.get? b.decisions k) := Iff.rfl

/-- non-vacuity: two states that are equivalent but not equal -/
example :
    let a : GState := { decisions := [("gt", .one "c"), ("g2", .end_)] }
    let b : GState := { decisions := [("g2", .end_), ("gt", .one "c")] }
    GState.equiv a b ∧ a ≠ b := by
  refine ⟨⟨rfl, rfl, rfl, ?_⟩, by decide⟩
  intro k
  simp only [AL.get?]
  by_cases h1 : k = "gt" <;> by_cases h2 : k = "g2" <;> simp_all

/-- (4) The result of an async superstep does not depend on the completion order of its tasks:
same outcome kind, same error / pause, equivalent states, permuted logs. -/
theorem stepAsync_schedule_indep (nested : Nested) (sem : Sem) (gi : Nat) (g : GraphD)
    (runSpan : Span) (k : Nat) (order₁ order₂ : List Nat) (s : GState) (rs : List NodeD)
    (hnd : (rs.map (·.name)).Nodup) :
    (∃ a la b lb, stepAsync nested sem gi g runSpan k order₁ s rs = .ok a la ∧
        stepAsync nested sem gi g runSpan k order₂ s rs = .ok b lb ∧
        GState.equiv a b ∧ la.Perm lb) ∨
    (∃ e a la b lb, stepAsync nested sem gi g runSpan k order₁ s rs = .fail e a la ∧
        stepAsync nested sem gi g runSpan k order₂ s rs = .fail e b lb ∧
        GState.equiv a b ∧ la.Perm lb) ∨
    (∃ p a la b lb, stepAsync nested sem gi g runSpan k order₁ s rs = .pause p a la ∧
        stepAsync nested sem gi g runSpan k order₂ s rs = .pause p b lb ∧
        GState.equiv a b ∧ la.Perm lb) :=
  (stepAsync_congr nested sem gi g runSpan k order₁ order₂ (GState.equiv.refl s) rs hnd).cases

/-- non-vacuity: names are distinct; with two completion orders the decisions dicts come out in
different insertion orders (so `equiv`, not `=`, is the right relation) -/
example : (C02Ex.rs.map (·.name)).Nodup := by decide
example :
    (C02Ex.stateOf (stepAsync C02Ex.nested0 bodySem 0 C02Ex.g ["r"] 0 [0, 1, 2, 3] C02Ex.s1 C02Ex.rs)).decisions
      = [("gt", .one "c"), ("g2", .one "c")] ∧
    (C02Ex.stateOf (stepAsync C02Ex.nested0 bodySem 0 C02Ex.g ["r"] 0 [3, 2, 1, 0] C02Ex.s1 C02Ex.rs)).decisions
      = [("g2", .one "c"), ("gt", .one "c")] := by
  decide

/-! ## Tier 2 -/

/-- (5, identity order) If the sync step succeeds on an interrupt-free ready list, the async
step with the identity completion order returns exactly the same state and the same log. -/
theorem stepSync_eq_stepAsync_id (nested : Nested) (sem : Sem) (gi : Nat) (g : GraphD)
    (runSpan : Span) (k : Nat) (s : GState) (rs : List NodeD) (ns : GState) (log : List Log)
    (hsync : stepSync nested sem gi g runSpan k s rs s [] = .ok ns log)
    (hni : ∀ nd ∈ rs, nd.kind ≠ .interrupt) :
    stepAsync nested sem gi g runSpan k (List.range rs.length) s rs = .ok ns log :=
  stepSync_ok_async_id nested sem gi g runSpan k s rs hni ns log hsync

/- FULL STATEMENT (not proved) — false without `(rs.map (·.name)).Nodup`:
theorem stepSync_eq_stepAsync … (hsync : stepSync nested sem gi g runSpan k s rs s [] = .ok ns log)
    (hni : ∀ nd ∈ rs, nd.kind ≠ .interrupt) (order : List Nat) :
    ∃ ns' log', stepAsync nested sem gi g runSpan k order s rs = .ok ns' log' ∧ GState.equiv ns ns'
Counterexample: `rs = [g₁, g₂]`, two gates carrying the same name with different decisions:
sync keeps the decision of the later node in READY order, async that of the later node in
COMPLETION order.  (Graph construction rejects duplicate names, the step functions do not.) -/

/-- (5) If the sync step succeeds on an interrupt-free ready list with distinct node names,
the async step succeeds for every completion order, with an equivalent state and a permuted log. -/
theorem stepSync_eq_stepAsync_partial (nested : Nested) (sem : Sem) (gi : Nat) (g : GraphD)
    (runSpan : Span) (k : Nat) (s : GState) (rs : List NodeD) (ns : GState) (log : List Log)
    (hsync : stepSync nested sem gi g runSpan k s rs s [] = .ok ns log)
    (hni : ∀ nd ∈ rs, nd.kind ≠ .interrupt) (hnd : (rs.map (·.name)).Nodup) (order : List Nat) :
    ∃ ns' log', stepAsync nested sem gi g runSpan k order s rs = .ok ns' log' ∧
      GState.equiv ns ns' ∧ log.Perm log' := by
  have hid := stepSync_ok_async_id nested sem gi g runSpan k s rs hni ns log hsync
  have h := (stepAsync_congr nested sem gi g runSpan k (List.range rs.length) order
    (GState.equiv.refl s) rs hnd).cases
  rw [hid] at h
  rcases h with ⟨a, la, b, lb, h1, h2, h3, h4⟩ | ⟨e, a, la, b, lb, h1, _⟩ | ⟨p, a, la, b, lb, h1, _⟩
  · cases h1
    exact ⟨b, lb, h2, h3, h4⟩
  · cases h1
  · cases h1

/-- non-vacuity: the sync step of the example succeeds -/
example : C02Ex.isOk (stepSync C02Ex.nested0 bodySem 0 C02Ex.g ["r"] 0 C02Ex.s1 C02Ex.rs C02Ex.s1 []) = true := by
  decide

/-- (6) First error: if the sync step fails on an interrupt-free ready list, the async step
fails with the SAME error for every completion order, and every name present in sync's partial
state is present in async's. -/
theorem first_error_same (nested : Nested) (sem : Sem) (gi : Nat) (g : GraphD)
    (runSpan : Span) (k : Nat) (s : GState) (rs : List NodeD) (e : ErrId) (ps : GState) (log : List Log)
    (hsync : stepSync nested sem gi g runSpan k s rs s [] = .fail e ps log)
    (hni : ∀ nd ∈ rs, nd.kind ≠ .interrupt) (order : List Nat) :
    ∃ ps' log', stepAsync nested sem gi g runSpan k order s rs = .fail e ps' log' ∧
      ∀ n, AL.has ps.values n = true → AL.has ps'.values n = true := by
  obtain ⟨pre, bad, post, ps', log', _, hasync, hv', hv⟩ :=
    first_error_core nested sem gi g runSpan k s rs hni e ps log order hsync
  refine ⟨ps', log', hasync, ?_⟩
  intro n hn
  rw [hv']
  rcases hv with hv | hv
  · rw [hv] at hn; exact AL.has_merge_of_has _ _ _ hn
  · rw [hv] at hn
    rw [AL.merge_append]
    exact AL.has_merge_of_has _ _ _ hn

/- FULL STATEMENT (not proved) — false under `DisjointOutputs rs` alone:
theorem first_error_values … (hsync : stepSync … s rs s [] = .fail e ps log) (hni …) (hdis : DisjointOutputs rs) :
    ∃ ps' log', stepAsync … order s rs = .fail e ps' log' ∧
      ∀ n v, AL.get? ps.values n = some v → AL.get? ps'.values n = some v
Counterexample (`first_error_values_counterexample` below): ready list `[b, a]`, `b` raises,
`a` (after `b`) produces `y`, and `y` is already present in the snapshot (a cycle re-computing
`y`, or a provided value).  Sync stops at `b`: its partial state still has the OLD `y`; async
lets `a` finish and overwrites `y`.  Outputs of `a` and `b` are disjoint. -/

/-- (6, values) Under `DisjointOutputs rs` and `FreshOutputs s rs` (no ready node's output name is
already present in the snapshot — every step of a DAG run), for function / gate nodes, every
`(name, value)` of sync's partial state is in async's partial state with the same value. -/
theorem first_error_values_partial (nested : Nested) (sem : Sem) (gi : Nat) (g : GraphD)
    (runSpan : Span) (k : Nat) (s : GState) (rs : List NodeD) (e : ErrId) (ps : GState) (log : List Log)
    (hsync : stepSync nested sem gi g runSpan k s rs s [] = .fail e ps log)
    (hni : ∀ nd ∈ rs, nd.kind ≠ .interrupt) (hng : ∀ nd ∈ rs, nd.kind ≠ .graph)
    (hdis : DisjointOutputs rs) (hfresh : FreshOutputs s rs) (order : List Nat) :
    ∃ ps' log', stepAsync nested sem gi g runSpan k order s rs = .fail e ps' log' ∧
      ∀ n v, AL.get? ps.values n = some v → AL.get? ps'.values n = some v := by
  obtain ⟨pre, bad, post, ps', log', hrs, hasync, hv', hv⟩ :=
    first_error_core nested sem gi g runSpan k s rs hni e ps log order hsync
  refine ⟨ps', log', hasync, ?_⟩
  -- a name written by (the result of) a node of `l ⊆ rs` is a declared output of that node
  have hdecl : ∀ l : List NodeD, (∀ nd ∈ l, nd ∈ rs) → ∀ n,
      n ∈ AL.keys (writes (l.map (asyncOne₂ nested sem gi g runSpan k s))) → ∃ nd ∈ l, n ∈ nd.outputs := by
    intro l hl n hn
    obtain ⟨r, hr, hnr⟩ := mem_keys_writes hn
    obtain ⟨nd, hndl, rfl⟩ := List.mem_map.mp hr
    exact ⟨nd, hndl, okOuts_declared nested sem gi g runSpan k s nd (hng nd (hl nd hndl)) (hni nd (hl nd hndl)) n hnr⟩
  have hpre_sub : ∀ nd ∈ pre, nd ∈ rs := by intro nd h; rw [hrs]; simp [h]
  have hpost_sub : ∀ nd ∈ post, nd ∈ rs := by intro nd h; rw [hrs]; simp [h]
  intro n v hn
  rw [hv']
  rcases hv with hv | hv
  · -- inputs of the failing node unresolvable: sync's partial state is the snapshot
    rw [hv] at hn
    rw [AL.get?_merge_of_not_mem₂, hn]
    intro hmem
    have hmem' : n ∈ AL.keys (writes (pre.map (asyncOne₂ nested sem gi g runSpan k s))) ∨
        n ∈ AL.keys (writes (post.map (asyncOne₂ nested sem gi g runSpan k s))) := by
      simpa [AL.keys] using hmem
    rcases hmem' with h | h
    · obtain ⟨nd, hnd, ho⟩ := hdecl pre hpre_sub n h
      rw [hfresh nd (hpre_sub nd hnd) n ho] at hn; cases hn
    · obtain ⟨nd, hnd, ho⟩ := hdecl post hpost_sub n h
      rw [hfresh nd (hpost_sub nd hnd) n ho] at hn; cases hn
  · rw [hv] at hn
    rw [AL.merge_append, ← hv, AL.get?_merge_of_not_mem₂, hv, hn]
    intro hmem
    obtain ⟨nd, hnd, ho⟩ := hdecl post hpost_sub n hmem
    have hnotpre : n ∉ AL.keys (writes (pre.map (asyncOne₂ nested sem gi g runSpan k s))) := by
      intro hmem'
      obtain ⟨nd', hnd', ho'⟩ := hdecl pre hpre_sub n hmem'
      unfold DisjointOutputs at hdis
      rw [hrs, List.pairwise_append] at hdis
      exact hdis.2.2 nd' hnd' nd (List.mem_cons_of_mem _ hnd) n ho' ho
    rw [AL.get?_merge_of_not_mem₂ _ _ _ hnotpre, hfresh nd (hpost_sub nd hnd) n ho] at hn
    cases hn

/-- non-vacuity of (6): with `x = 7` node `b` raises; sync and async report the same error, and
the hypotheses of the values theorem hold for the example step -/
example :
    C02Ex.errOf (stepSync C02Ex.nested0 bodySem 0 C02Ex.g ["r"] 0 C02Ex.s7 C02Ex.rs C02Ex.s7 []) = some (.user "b") ∧
    C02Ex.errOf (stepAsync C02Ex.nested0 bodySem 0 C02Ex.g ["r"] 0 [3, 2, 1, 0] C02Ex.s7 C02Ex.rs) = some (.user "b") := by
  decide
example : (∀ nd ∈ C02Ex.rs, nd.kind ≠ .graph) ∧ FreshOutputs C02Ex.s7 C02Ex.rs := by
  unfold FreshOutputs; decide
example : DisjointOutputs C02Ex.rs := disjointOutputs_of_check _ (by decide)

/-- the counterexample to the FULL STATEMENT of (6): outputs disjoint, sync's partial state has
`y = 0`, async's has `y = ("a", 7)` -/
example :
    DisjointOutputs C02Ex.rsBA ∧ (∀ nd ∈ C02Ex.rsBA, nd.kind ≠ .interrupt) ∧
    C02Ex.errOf (stepSync C02Ex.nested0 bodySem 0 C02Ex.g ["r"] 0 C02Ex.s7y C02Ex.rsBA C02Ex.s7y []) = some (.user "b") ∧
    AL.get? (C02Ex.stateOf (stepSync C02Ex.nested0 bodySem 0 C02Ex.g ["r"] 0 C02Ex.s7y C02Ex.rsBA C02Ex.s7y [])).values "y"
      = some (.int 0) ∧
    AL.get? (C02Ex.stateOf (stepAsync C02Ex.nested0 bodySem 0 C02Ex.g ["r"] 0 [] C02Ex.s7y C02Ex.rsBA)).values "y"
      = some (Val.mkTup [.str "a", .int 7]) := by
  exact ⟨disjointOutputs_of_check _ (by decide), by decide, by decide, by decide, by decide⟩

/-! ## Tier 3 -/

/- FULL STATEMENT (not proved) — false for ill-formed decision dicts:
theorem ready_congr (g) (act) (a b : GState) : GState.equiv a b →
    (ready g act a).1 = (ready g act b).1 ∧ GState.equiv (ready g act a).2 (ready g act b).2
Counterexample (`example` below): `AL.del` removes only the FIRST entry of a key, so on
`b.decisions = [("gt", one c), ("gt", END)]` (equivalent to `[("gt", one c)]` under `get?`)
clearing the stale decision of `gt` uncovers the shadowed entry.  Dicts built by `AL.put` never
have duplicate keys (`GState.WF`, preserved by every step: `stepAsync_ok_wf`, `clearStale_wf`,
`initState_wf`). -/

/-- (7) The scheduler reads decisions only through `get?` / `del`: on well-formed states
(`WF`: decision keys pairwise distinct) equivalent states have the same ready list, and the
states after clearing stale decisions are equivalent (and well-formed) again. -/
theorem ready_congr_partial (g : GraphD) (act : Option (List Name)) (a b : GState)
    (h : GState.equiv a b) (ha : a.WF) (hb : b.WF) :
    (ready g act a).1 = (ready g act b).1 ∧ GState.equiv (ready g act a).2 (ready g act b).2 ∧
      (ready g act a).2.WF ∧ (ready g act b).2.WF :=
  ready_congr_wf g act h ha hb

/-- non-vacuity: two well-formed, equivalent, different states -/
example :
    let a : GState := { decisions := [("gt", .one "c"), ("g2", .end_)] }
    let b : GState := { decisions := [("g2", .end_), ("gt", .one "c")] }
    a.WF ∧ b.WF ∧ a ≠ b := by
  refine ⟨?_, ?_, by decide⟩ <;> (unfold GState.WF; decide)

/-- the counterexample to the FULL STATEMENT of (7) -/
example : GState.equiv C02Ex.dupA C02Ex.dupB ∧
    ¬ GState.equiv (ready C02Ex.g .none C02Ex.dupA).2 (ready C02Ex.g .none C02Ex.dupB).2 := by
  constructor
  · refine ⟨rfl, rfl, rfl, ?_⟩
    intro k
    simp only [C02Ex.dupA, C02Ex.dupB, AL.get?]
    by_cases h : k = "gt" <;> simp [h]
  · intro h
    have := h.2.2.2 "gt"
    revert this
    decide

/- FULL STATEMENT (not proved):
theorem run_sync_eq_async … : for interrupt-free programs with unique node names per graph,
    runGraph nested sem .sync gi g values cfg span parent  and
    runGraph nested' sem (.async order) gi g values cfg span parent
    (nested' agreeing with nested on status / values / error / raised)
    have the same status, values, error, raised.
FALSE for `values` when the run fails and `cfg.errMode = .cont`: the values are filtered from the
partial state, and async's partial state holds the outputs of the successful siblings that sync
never ran (`example` below: sync `[]`, async `[y ↦ …]`) — and, for the same reason, when the run PAUSES at
a nested-graph node of an interrupt-free graph (async reports the step's successful siblings with the
pause, the sync step its snapshot; `C02Ex.progPause` below).  Everything else is proved:
`run_sync_eq_async_partial` (one graph, nested-graph nodes allowed, hypothesis `Nested.Agree`:
`run` results agree on status / values / error / raised AND pause — `execGraphNode` reads
`r.pause` —, `map` results agree on `raised` and, when nothing was raised, item by item on
status / error / values-of-non-failed-items), `run_sync_eq_async_flat` (no hypothesis on the
callbacks when the graph has no nested-graph node) and `run_sync_eq_async_prog` (whole programs:
the real callbacks `nestedAt sem .sync` / `nestedAt sem (.async order)` do satisfy `Nested.Agree`). -/

/-- (8) Whole runs of an interrupt-free graph with unique node names, nested-graph nodes and
mapped nested-graph nodes allowed, for nested callbacks that agree up to logs: the sync runner
and the async runner (any completion orders) return the same status, error, raised flag and
pause — and the same values unless the run failed in `continue` mode or paused (a pause re-raised
by a nested-graph node: the async step reports the outputs of the step's successful siblings with
it, exactly as at a failure; the sync step reports its snapshot).  A graph without nested-graph
nodes, or a whole interrupt-free program, never pauses: `run_sync_eq_async_flat`,
`run_sync_eq_async_prog` keep the full values clause. -/
theorem run_sync_eq_async_partial (nested nested' : Nested) (hag : Nested.Agree nested nested')
    (sem : Sem) (order : Nat → List Nat)
    (gi : Nat) (g : GraphD) (values : AL Val) (cfg : RunCfg) (span : Span) (parent : Option Span)
    (hni : ∀ nd ∈ g.nodes, nd.kind ≠ .interrupt) (hnd : (g.nodes.map (·.name)).Nodup) :
    let a := runGraph nested sem .sync gi g values cfg span parent
    let b := runGraph nested' sem (.async order) gi g values cfg span parent
    a.status = b.status ∧ a.error = b.error ∧ a.raised = b.raised ∧ a.pause = b.pause ∧
      ((a.status ≠ .failed ∨ cfg.errMode = .raise) → a.status ≠ .paused → a.values = b.values) :=
  runGraph_agree nested nested' hag sem order gi g values cfg span parent hni hnd

/-- the hypothesis `Nested.Agree`, spelled out -/
theorem nested_agree_def (n n' : Nested) : Nested.Agree n n' ↔
    (∀ gi v sp, (n.run gi v sp).status = (n'.run gi v sp).status ∧ (n.run gi v sp).values = (n'.run gi v sp).values ∧
      (n.run gi v sp).error = (n'.run gi v sp).error ∧ (n.run gi v sp).raised = (n'.run gi v sp).raised ∧
      (n.run gi v sp).pause = (n'.run gi v sp).pause) ∧
    (∀ gi v mo mode em sp, (n.map gi v mo mode em sp).raised = (n'.map gi v mo mode em sp).raised ∧
      ((n.map gi v mo mode em sp).raised = none →
        ItemsSame (n.map gi v mo mode em sp).results (n'.map gi v mo mode em sp).results)) :=
  ⟨fun h => ⟨h.run, h.map⟩, fun h => ⟨h.1, h.2⟩⟩

/-- (8, flat) The same for a graph without nested-graph nodes, with NO hypothesis on the callbacks. -/
theorem run_sync_eq_async_flat (nested nested' : Nested) (sem : Sem) (order : Nat → List Nat)
    (gi : Nat) (g : GraphD) (values : AL Val) (cfg : RunCfg) (span : Span) (parent : Option Span)
    (hflat : ∀ nd ∈ g.nodes, nd.kind ≠ .graph) (hni : ∀ nd ∈ g.nodes, nd.kind ≠ .interrupt)
    (hnd : (g.nodes.map (·.name)).Nodup) :
    let a := runGraph nested sem .sync gi g values cfg span parent
    let b := runGraph nested' sem (.async order) gi g values cfg span parent
    a.status = b.status ∧ a.error = b.error ∧ a.raised = b.raised ∧ a.pause = b.pause ∧
      ((a.status ≠ .failed ∨ cfg.errMode = .raise) → a.values = b.values) := by
  obtain ⟨h1, h2, h3, h4, h5⟩ := runGraph_flat nested nested' sem order gi g values cfg span parent hflat hni hnd
  exact ⟨h1, h2, h3, h4, fun hc => h5 hc
    (runGraph_not_paused nested sem .sync gi g values cfg span parent hni
      (fun nd hnd hk => absurd hk (hflat nd hnd)))⟩

/-- (8, whole programs) `runner.run` of the sync runner and of the async runner, for a program all
of whose graphs are interrupt-free with unique node names (`Program.Regular`): nested graphs and
`map_over` nodes at any depth included. -/
theorem run_sync_eq_async_prog (sem : Sem) (order : Nat → List Nat) (prog : Program)
    (hprog : ∀ g ∈ prog, (∀ nd ∈ g.nodes, nd.kind ≠ .interrupt) ∧ (g.nodes.map (·.name)).Nodup)
    (root : Nat) (values : AL Val) (cfg : RunCfg) :
    let a := run sem .sync prog root values cfg
    let b := run sem (.async order) prog root values cfg
    a.status = b.status ∧ a.error = b.error ∧ a.raised = b.raised ∧ a.pause = b.pause ∧
      ((a.status ≠ .failed ∨ cfg.errMode = .raise) → a.values = b.values) := by
  obtain ⟨h1, h2, h3, h4, h5⟩ := run_agree sem order prog hprog root values cfg
  exact ⟨h1, h2, h3, h4, fun hc => h5 hc (run_not_paused sem .sync prog hprog root values cfg)⟩

/-- (8, `runner.map`) the top-level `map` of the two runners raises the same error, and when
nothing is raised returns item results that agree on status, error and (unless failed) values. -/
theorem map_sync_eq_async_prog (sem : Sem) (order : Nat → List Nat) (prog : Program)
    (hprog : ∀ g ∈ prog, (∀ nd ∈ g.nodes, nd.kind ≠ .interrupt) ∧ (g.nodes.map (·.name)).Nodup)
    (root : Nat) (values : AL Val) (mapOver : List Name) (mode : MapMode) (em : ErrMode) (cfg : RunCfg) :
    let a := map sem .sync prog root values mapOver mode em cfg
    let b := map sem (.async order) prog root values mapOver mode em cfg
    a.raised = b.raised ∧ (a.raised = none → ItemsSame a.results b.results) :=
  map_agree sem order prog hprog root values mapOver mode em cfg

/-- non-vacuity: the example graph satisfies the hypotheses and its run completes with three outputs -/
example : (∀ nd ∈ C02Ex.g.nodes, nd.kind ≠ .graph) ∧ (∀ nd ∈ C02Ex.g.nodes, nd.kind ≠ .interrupt) ∧
    (C02Ex.g.nodes.map (·.name)).Nodup := by decide
example :
    (run bodySem .sync C02Ex.prog 0 [("x", .int 1)] {}).status = .completed ∧
    (run bodySem (.async fun _ => [3, 2, 1, 0]) C02Ex.prog 0 [("x", .int 1)] {}).status = .completed ∧
    (run bodySem .sync C02Ex.prog 0 [("x", .int 1)] {}).values.map (·.1) = ["y", "z", "w"] := by
  decide

/-- non-vacuity (nested): a program with a nested-graph node and a mapped nested-graph node is
regular; its run completes; with a failing map item both runners raise the item's error -/
example : ∀ g ∈ C02Ex.progN, (∀ nd ∈ g.nodes, nd.kind ≠ .interrupt) ∧ (g.nodes.map (·.name)).Nodup := by
  decide
example : (C02Ex.progN.getD 1 default).nodes.map (·.kind) = [.graph, .graph, .fn] := by decide
example :
    (run bodySem .sync C02Ex.progN 1 [("x", .int 1), ("xs", Val.mkLst [.int 1, .int 2])] {}).status = .completed ∧
    (run bodySem (.async fun _ => [2, 1, 0]) C02Ex.progN 1 [("x", .int 1), ("xs", Val.mkLst [.int 1, .int 2])] {}).values.map (·.1)
      = ["y", "z", "ys", "zs", "w"] ∧
    (run bodySem .sync C02Ex.progN 1 [("x", .int 1), ("xs", Val.mkLst [.int 1, .int 7])] {}).error = some (.user "b") ∧
    (run bodySem (.async fun _ => [2, 1, 0]) C02Ex.progN 1 [("x", .int 1), ("xs", Val.mkLst [.int 1, .int 7])] {}).error
      = some (.user "b") := by
  decide
example (n : Nested) : Nested.Agree n n := Nested.Agree.refl n

/-- the counterexample to the FULL STATEMENT: a failing run in `continue` mode -/
example :
    (run bodySem .sync C02Ex.progBA 0 [("x", .int 7)] { errMode := .cont }).values = [] ∧
    (run bodySem (.async fun _ => []) C02Ex.progBA 0 [("x", .int 7)] { errMode := .cont }).values =
      [("y", Val.mkTup [.str "a", .int 7])] := by
  decide

/-- why (8) excludes paused runs from the values clause: `sub` (a nested graph whose inner interrupt
pauses) and `a` are ready in one step of an interrupt-free outer graph. Both model runners pause with the
same `PauseInfo`; the async step reports its `ns2` — `a`'s output `y` is in the values — while the sync
step (a branch that exists for totality only: the real sync runner rejects interrupts) reports its snapshot. -/
def C02Ex.progPause : Program := elabProgram [
  { name := "inner", nodes := [
     { name := "ask", kind := .interrupt, params := [("x", .none)], dataOuts := ["ans"], body := .handler .none }] },
  { name := "outer", nodes := [
     { name := "sub", kind := .graph, inner := 0 },
     { name := "a", kind := .fn, params := [("x", .none)], dataOuts := ["y"], body := .tag "a" }] }]

example : (∀ nd ∈ (C02Ex.progPause.getD 1 default).nodes, nd.kind ≠ .interrupt) ∧
    ((C02Ex.progPause.getD 1 default).nodes.map (·.name)).Nodup := by decide
example :
    (run bodySem .sync C02Ex.progPause 1 [("x", .int 1)] {}).status = .paused ∧
    (run bodySem (.async fun _ => []) C02Ex.progPause 1 [("x", .int 1)] {}).status = .paused ∧
    (run bodySem .sync C02Ex.progPause 1 [("x", .int 1)] {}).pause.map (·.nodeName) = some "sub/ask" ∧
    (run bodySem (.async fun _ => []) C02Ex.progPause 1 [("x", .int 1)] {}).pause.map (·.nodeName) = some "sub/ask" ∧
    (run bodySem .sync C02Ex.progPause 1 [("x", .int 1)] {}).values = [] ∧
    (run bodySem (.async fun _ => []) C02Ex.progPause 1 [("x", .int 1)] {}).values =
      [("y", Val.mkTup [.str "a", .int 1])] := by
  decide

/-- (9) The ready SET does not depend on the order in which the graph lists its nodes (unique
names); in fact the ready lists are permutations of each other and the cleared states are equal. -/
theorem ready_perm (g : GraphD) (nodes' : List NodeD) (hp : g.nodes.Perm nodes')
    (hnd : (g.nodes.map (·.name)).Nodup) (act : Option (List Name)) (s : GState) :
    let g' : GraphD := { g with nodes := nodes' }
    (∀ nd, nd ∈ (ready g act s).1 ↔ nd ∈ (ready g' act s).1) ∧
      (ready g act s).1.Perm (ready g' act s).1 ∧ (ready g act s).2 = (ready g' act s).2 := by
  intro g'
  have h := ready_perm_core (g := g) (g' := g') hp rfl hnd act s
  exact ⟨fun nd => h.1.mem_iff, h.1, h.2⟩

/-- non-vacuity: the example graph with its node list reversed; the ready lists are different
lists with the same members -/
example : C02Ex.g.nodes.Perm C02Ex.g.nodes.reverse := (List.reverse_perm _).symm
example :
    (ready C02Ex.g .none C02Ex.s1).1.map (·.name) = ["a", "b", "gt", "g2"] ∧
    (ready { C02Ex.g with nodes := C02Ex.g.nodes.reverse } .none C02Ex.s1).1.map (·.name) =
      ["g2", "gt", "b", "a"] := by
  decide

end HG.C02
