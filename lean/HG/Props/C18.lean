import HG.Lemmas.Heap
/-! # C18 — run isolation

Model: `HG.Iso` in `HG/Model/Heap.lean`.  Values are references to mutable cells; a node function
may mutate the cells it receives.  A run history is ANY list of events (`Ev.start rid`,
`Ev.step rid sid`) of any number of runs — sequential (`runOnce`, `runMany`) or interleaved
(`runSched`) histories are special cases, so every theorem below covers them
(`*_runMany` / `*_sched` corollaries are stated for `defaults_never_escape`).

`WF specs m0` (well-formed initial situation): every signature-default cell exists, and the user
did not ALSO hand that very object out explicitly (bind it / put it in a `values` dict / pass it as
a kwarg) — if they did, sharing is intentional and the object is passed by reference.
`wfCheck` decides `WF` (`wfCheck_sound`). -/
namespace HG.C18
open HG.Iso

/-- the initial world of a history -/
abbrev init (m0 : Mem) : World := ⟨m0, [], []⟩

/-! ## 1. defaults_never_escape -/

/-- Over EVERY run history (any number of runs, any interleaving): no node function ever receives a
reference to a signature-default cell — hence default cells are never written: their contents after
the history equal the initial contents. -/
theorem defaults_never_escape {specs : List RunSpec} {m0 : Mem} (hw : WF specs m0) (evs : List Ev) :
    (∀ call, call ∈ (runHist true specs (init m0) evs).log → ∀ a, a ∈ call.args →
      ¬ IsDefault specs a.ref) ∧
    (∀ c, IsDefault specs c → cell (runHist true specs (init m0) evs).mem c = cell m0 c) := by
  have hJ := (J.init specs m0).runHist hw evs
  exact ⟨fun call hc a ha hd => default_not_refOk hw hd (hJ.arg_refOk hc ha),
    fun c hc => hJ.default_cell hw hc⟩

/-- sequential runs -/
theorem defaults_never_escape_runMany {specs : List RunSpec} {m0 : Mem} (hw : WF specs m0)
    (rids : List Nat) (c : Ref) (hc : IsDefault specs c) :
    cell (runMany true specs (init m0) rids).mem c = cell m0 c :=
  (defaults_never_escape hw _).2 c hc
/-- arbitrary merges of several runs' steps -/
theorem defaults_never_escape_sched {specs : List RunSpec} {m0 : Mem} (hw : WF specs m0)
    (sched : List (Nat × Nat)) (c : Ref) (hc : IsDefault specs c) :
    cell (runSched true specs (init m0) sched).mem c = cell m0 c :=
  (defaults_never_escape hw _).2 c hc

/-! ## 2. repeat_equal -/

/-- A logged call all of whose by-reference arguments are initial cells that no EARLIER call of the
history received (`FreshArgs`: e.g. a fresh list the caller provides for this run only; arguments
resolved from signature defaults need no condition at all) returns exactly the result computed
from the INITIAL contents of its sources — whatever happened before, in whatever interleaving. -/
theorem result_from_initial {specs : List RunSpec} {m0 : Mem} (hw : WF specs m0) (evs : List Ev)
    (i : Nat) (call : Call) (hi : (runHist true specs (init m0) evs).log[i]? = some call)
    (hf : FreshArgs m0 ((runHist true specs (init m0) evs).log.take i) call) :
    call.res = initialRes m0 call := by
  obtain ⟨_, _, _, _, _, _, _, h⟩ := ((J.init specs m0).runHist hw evs).calls i call hi
  exact h hf

/-- REPEAT: two calls — in the same or in different histories and interleavings, at any positions —
with the same effect and equal initial source contents, whose arguments come only from defaults /
fresh provided cells, yield EQUAL results.
EXEMPTION (stated by `FreshArgs`): an argument passed by reference that an earlier call has already
received — a bound object, or one caller object provided to several runs — is shared intentionally;
see `shared_objects_accumulate`. -/
theorem repeat_equal {specs : List RunSpec} {m0 : Mem} (hw : WF specs m0) (evs₁ evs₂ : List Ev)
    (i₁ i₂ : Nat) (c₁ c₂ : Call)
    (h₁ : (runHist true specs (init m0) evs₁).log[i₁]? = some c₁)
    (h₂ : (runHist true specs (init m0) evs₂).log[i₂]? = some c₂)
    (f₁ : FreshArgs m0 ((runHist true specs (init m0) evs₁).log.take i₁) c₁)
    (f₂ : FreshArgs m0 ((runHist true specs (init m0) evs₂).log.take i₂) c₂)
    (heff : c₁.eff = c₂.eff)
    (hin : c₁.args.map (fun a => cell m0 (a.copyOf.getD a.ref)) =
           c₂.args.map (fun a => cell m0 (a.copyOf.getD a.ref))) :
    c₁.res = c₂.res := by
  rw [result_from_initial hw evs₁ i₁ c₁ h₁ f₁, result_from_initial hw evs₂ i₂ c₂ h₂ f₂]
  simp only [initialRes, heff, hin]

/-- REPEAT, the unconditional instance: any two calls of a node all of whose parameters fall back
to signature defaults — the same node in two runs, at any positions of any two histories and
interleavings — return equal results. -/
theorem repeat_equal_defaults {specs : List RunSpec} {m0 : Mem} (hw : WF specs m0)
    (evs₁ evs₂ : List Ev) (i₁ i₂ : Nat) (c₁ c₂ : Call)
    (h₁ : (runHist true specs (init m0) evs₁).log[i₁]? = some c₁)
    (h₂ : (runHist true specs (init m0) evs₂).log[i₂]? = some c₂)
    {sp₁ sp₂ : RunSpec} {nd : Node}
    (hs₁ : specs[c₁.rid]? = some sp₁) (hn₁ : sp₁.nodes[c₁.sid]? = some nd)
    (hs₂ : specs[c₂.rid]? = some sp₂) (hn₂ : sp₂.nodes[c₂.sid]? = some nd)
    (hall : ∀ src, src ∈ nd.srcs → ∃ c, src = .default c) :
    c₁.res = c₂.res := by
  obtain ⟨f₁, e₁, g₁⟩ :=
    all_defaults_call (((J.init specs m0).runHist hw evs₁).calls i₁ c₁ h₁) hs₁ hn₁ hall
  obtain ⟨f₂, e₂, g₂⟩ :=
    all_defaults_call (((J.init specs m0).runHist hw evs₂).calls i₂ c₂ h₂) hs₂ hn₂ hall
  exact repeat_equal hw evs₁ evs₂ i₁ i₂ c₁ c₂ h₁ h₂
    (fun a ha hn => absurd hn (f₁ a ha)) (fun a ha hn => absurd hn (f₂ a ha))
    (by rw [g₁, g₂]) (by rw [e₁, e₂])

/-- the exemption is real: a bound list, or the same provided list, accumulates across runs -/
theorem shared_objects_accumulate :
    runSeq .bound 3 = [1, 2, 3] ∧ runSeq .providedSame 3 = [1, 2, 3] := by decide

/-! ## 3. inputs_untouched -/

/-- The caller's mappings (every dict that exists before the history: the association of names to
references) are unchanged by any history — `normalize_inputs` copies, `GraphState` is fresh per
run, outputs are written into the run's own state.  Holds with or without the deep copy. -/
theorem inputs_untouched (deep : Bool) (specs : List RunSpec) (m0 : Mem) (evs : List Ev) (d : Nat)
    (hd : d < m0.dicts.length) :
    (runHist deep specs (init m0) evs).mem.dicts[d]? = m0.dicts[d]? :=
  ((K.init m0).runHist evs).dicts_old d hd

/-! ## 4. bound_by_identity -/

/-- For every call of every history: it is a call of a node of the run's graph, it received one
argument per parameter, a `bound`-sourced argument IS the very reference that was bound (never a
copy), and a `default`-sourced argument is a copy of the default — never the default's own
reference, nor any other default cell. -/
theorem bound_by_identity {specs : List RunSpec} {m0 : Mem} (hw : WF specs m0) (evs : List Ev)
    (call : Call) (hc : call ∈ (runHist true specs (init m0) evs).log) :
    ∃ spec nd, specs[call.rid]? = some spec ∧ spec.nodes[call.sid]? = some nd ∧
      call.args.length = nd.srcs.length ∧
      ∀ (j : Nat) (src : Src) (a : Arg), nd.srcs[j]? = some src → call.args[j]? = some a →
        (∀ c, src = .bound c → a.ref = c ∧ a.copyOf = none) ∧
        (∀ c, src = .default c → a.copyOf = some c ∧ a.ref ≠ c ∧ ¬ IsDefault specs a.ref) := by
  have hJ := (J.init specs m0).runHist hw evs
  obtain ⟨i, hi⟩ := List.getElem?_of_mem hc
  obtain ⟨spec, nd, hs, hn, _, hlen, hall, _⟩ := hJ.calls i call hi
  refine ⟨spec, nd, hs, hn, hlen, ?_⟩
  intro j src a hsrc ha
  have hok := hall j src a hsrc ha
  have hnd : ¬ IsDefault specs a.ref :=
    fun hd => default_not_refOk hw hd (hJ.arg_refOk hc (List.mem_of_getElem? ha))
  refine ⟨?_, ?_⟩
  · rintro c rfl
    simp only [SrcArgOk] at hok
    subst hok; exact ⟨rfl, rfl⟩
  · rintro c rfl
    obtain ⟨h1, _⟩ := hok
    refine ⟨h1, ?_, hnd⟩
    intro heq
    exact hnd (heq ▸ ⟨call.rid, spec, call.sid, nd, hs, hn, List.mem_of_getElem? hsrc⟩)

/-! ## 5. no_copy_leaks_witness -/

/-- WITHOUT the deep copy (`deep := false`) the second run of a function appending to its default
sees length 2, and the default cell itself has been written — on a well-formed situation. -/
theorem no_copy_leaks_witness :
    runSeqWith false .default 2 = [1, 2] ∧
    (let (w, specs) := seqSetup .default 2
     WF specs w.mem ∧ cell (runMany false specs w [0, 1]).mem 0 ≠ cell w.mem 0) :=
  ⟨by decide, wfCheck_sound (by decide), by decide⟩

/-! ## non-vacuity -/

/-- the real behaviour on the same situation: `[1, 1, …]`, default cell untouched -/
example : runSeq .default 4 = [1, 1, 1, 1] ∧ runSeq .providedFresh 3 = [1, 1, 1] := by decide

/-- `WF` is satisfiable (decided by `wfCheck`) on a situation with a default, a bound object and a
caller dict, and an interleaved history of two runs actually logs four calls -/
example :
    let m0 : Mem := ⟨[[], [7], []], [[("y", 2)]]⟩
    let nd1 : Node := ⟨[.default 0, .bound 1, .provided "y"], .appendTo 0 5, "o"⟩
    let nd2 : Node := ⟨[.provided "o", .default 0], .appendTo 1 9, "p"⟩
    let specs : List RunSpec := [⟨[nd1, nd2], some 0, []⟩, ⟨[nd1, nd2], some 0, []⟩]
    let w := runSched true specs (init m0) [(0, 0), (1, 0), (1, 1), (0, 1), (0, 2), (1, 2)]
    wfCheck specs m0 = true ∧ w.log.length = 4 ∧
    w.log.map (fun c => c.res.after) = [[5], [5], [9], [9]] ∧ cell w.mem 0 = [] := by decide

/-- `FreshArgs` is satisfiable by a call with a by-reference argument (a fresh provided list):
the second run receives initial cell `1`, which no earlier call received -/
example :
    let (w, specs) := seqSetup .providedFresh 2
    let log := (runMany true specs w [0, 1]).log
    (log[1]?.map fun c => (c.args, c.res.after)) = some ([⟨1, none⟩], [1]) ∧
    ((log.take 1).all fun c' => c'.args.all fun a' => a'.ref != 1) = true := by decide

end HG.C18
