import HG.Lemmas.Cache
import HG.Lemmas.RunCached
/-! # C09 — the caching layer

`InMemoryCache` is a correct bounded LRU refinement of a map; `DiskCache.get` never deserialises
unauthenticated bytes, never fails, and never returns a value that was not stored under the key;
a torn `set` reads as a miss; the (repaired) cache key separates definition, class, output names,
targets, the gate's fallback target and arguments — the arguments under the function's *original
parameter names*
(`map_inputs_to_params`, `toParams`), so input renames are transparent to the cache and never make two
different calls collide; cached execution of a node is transparent.

Vocabulary (`Lru.WF`, `lastSet`, `touched`, `Signed`, `Unforgeable`, `MacCollisionFree`, `CacheSound`,
`ExecRespectsKey`, `GateOnlyDec`, `NoInternalKey`, `readDec`) is defined in `HG/Lemmas/Cache.lean`. -/
namespace HG.C09
open HG HG.Cache

/-! ## 1. the in-memory LRU refines a map -/

/-- (a) size bound and distinct keys, for every reachable cache -/
theorem lru_size_bound {α : Type} (ms : Option Nat) (ops : List (Op α)) :
    (AL.keys ((Lru.empty ms).run ops).data).Nodup ∧
    ∀ n, ms = some n → ((Lru.empty ms).run ops).data.length ≤ n := by
  have h := (Lru.WF.empty (α := α) ms).run ops
  exact ⟨h.1, fun n hn => h.2 n (by rw [Lru.run_maxSize]; exact hn)⟩

/-- (b) a hit returns the value of the most recent `set` on that very key -/
theorem lru_get_sound {α : Type} (ms : Option Nat) (ops : List (Op α)) (k : Name) (v : α)
    (h : (((Lru.empty ms).run ops).get k).2 = some v) : lastSet ops k = some v := by
  rw [Lru.get_snd] at h
  simpa [Lru.empty] using lru_sound_aux ops (Lru.empty ms) (Lru.WF.empty ms) k v h

/-- (c) retention: after `set k v`, as long as at most `n - 1` distinct other keys are touched
(`T` lists them), `k` is still there — holding `v`, or whatever was `set` on `k` since -/
theorem lru_retention {α : Type} (c : Lru α) (hwf : c.WF) (n : Nat) (hn : c.maxSize = some n)
    (k : Name) (v : α) (more : List (Op α)) (T : List Name)
    (hT : ∀ x ∈ touched (c.set k v) more, x ≠ k → x ∈ T) (hlen : T.length + 1 ≤ n) :
    (((c.set k v).run more).get k).2 = some ((lastSet more k).getD v) := by
  rw [Lru.get_snd]
  refine lru_retention_aux T k n hlen more (c.set k v) v (hwf.set k v) hn ?_ hT
  rw [Lru.set_data c k v hwf.1, hn]
  exact (Holds.touch_same T k v c.data).trim (nodup_keys_touch _ _ _ hwf.1) hlen

/-- (d) `max_size = 0` never retains anything -/
theorem lru_zero_misses {α : Type} (ops : List (Op α)) (k : Name) :
    (((Lru.empty (some 0)).run ops).get k).2 = none := by
  have h := (lru_size_bound (α := α) (some 0) ops).2 0 rfl
  rw [Lru.get_snd]
  have : ((Lru.empty (some 0)).run ops).data = [] := List.eq_nil_of_length_eq_zero (Nat.le_zero.1 h)
  simp [this]

/-- (e) the unbounded cache is exactly the map -/
theorem lru_unbounded_exact {α : Type} (ops : List (Op α)) (k : Name) :
    (((Lru.empty none).run ops).get k).2 = lastSet ops k := by
  rw [Lru.get_snd]
  simpa [Lru.empty] using lru_exact_aux ops (Lru.empty none) (Lru.WF.empty none) rfl k

/-- `lastSet` is "the most recent `set`": characterisation by appending one operation -/
theorem lastSet_snoc {α : Type} (ops : List (Op α)) (op : Op α) (k : Name) :
    lastSet (ops ++ [op]) k = (opSet op k).or (lastSet ops k) := by
  induction ops with
  | nil => simp [lastSet]
  | cons o r ih => simp [lastSet, ih, Option.or_assoc]

theorem lru_refines_map {α : Type} (ms : Option Nat) (ops : List (Op α)) :
    let c := (Lru.empty ms).run ops
    -- (a) bounded, distinct keys
    ((AL.keys c.data).Nodup ∧ ∀ n, ms = some n → c.data.length ≤ n) ∧
    -- (b) a hit is the most recent `set` on that key
    (∀ k v, (c.get k).2 = some v → lastSet ops k = some v) ∧
    -- (c) retention law
    (∀ n k v (more : List (Op α)) (T : List Name), ms = some n →
      (∀ x ∈ touched (c.set k v) more, x ≠ k → x ∈ T) → T.length + 1 ≤ n →
      (((c.set k v).run more).get k).2 = some ((lastSet more k).getD v)) ∧
    -- (d) capacity 0
    (ms = some 0 → ∀ k, (c.get k).2 = none) ∧
    -- (e) unbounded
    (ms = none → ∀ k, (c.get k).2 = lastSet ops k) := by
  refine ⟨lru_size_bound ms ops, lru_get_sound ms ops, ?_, ?_, ?_⟩
  · intro n k v more T hms hT hlen
    exact lru_retention _ ((Lru.WF.empty ms).run ops) n (by rw [Lru.run_maxSize]; exact hms) k v more T hT hlen
  · intro h k; subst h; exact lru_zero_misses ops k
  · intro h k; subst h; exact lru_unbounded_exact ops k

/-! ### non-vacuity -/

/-- capacity 2: `a` survives one other key (`b`), is refreshed by the `get`, so `c` evicts `b` -/
example : runLruOps (some 2)
    [(true, "a", .int 1), (true, "b", .int 2), (false, "a", .none), (true, "c", .int 3),
     (false, "b", .none), (false, "a", .none), (false, "c", .none)]
    = [some (.int 1), none, some (.int 1), some (.int 3)] := by decide

/-- the retention law instantiated: `n = 2`, `T = ["b"]` -/
example : (((((Lru.empty (some 2)).run [Op.set "z" (Val.int 0)]).set "a" (Val.int 1)).run
    [Op.set "b" (Val.int 2), Op.get "b", Op.get "q"]).get "a").2 = some (Val.int 1) :=
  lru_retention _ ((Lru.WF.empty _).run _) 2 rfl "a" (Val.int 1) _ ["b"] (by decide) (by decide)

/-- … and it is tight: two distinct other keys evict `a` -/
example : (((((Lru.empty (some 2)).run [Op.set "z" (Val.int 0)]).set "a" (Val.int 1)).run
    [Op.set "b" (Val.int 2), Op.set "c" (Val.int 3)]).get "a").2 = none := by decide

/-- (b) is not vacuous: a hit exists, and it is the latest of two `set`s -/
example : (((Lru.empty (some 1)).run [Op.set "a" (Val.int 1), Op.set "a" (Val.int 2)]).get "a").2
      = some (Val.int 2) ∧
    lastSet [Op.set "a" (Val.int 1), Op.set "a" (Val.int 2)] "a" = some (Val.int 2) := by decide

example : runLruOps (some 0) [(true, "a", .int 1), (false, "a", .none)] = [none] := by decide
example : runLruOps none [(true, "a", .int 1), (true, "b", .int 2), (true, "a", .int 3), (false, "a", .none),
    (false, "b", .none), (false, "c", .none)] = [some (.int 3), some (.int 2), none] := by decide

/-! ## 2. `DiskCache.get`: authenticate, then deserialise -/

/-- `get` is a total function (it returns a `GetOut` for every store whatsoever: the Python catches
every exception of `pickle.loads` and performs no other partial operation) and
* `pickle.loads` is reached only on bytes whose stored tag verifies;
* a hit is the deserialisation of exactly those bytes and leaves the store untouched;
* every other branch is a miss with the payload slot evicted, and the signature slot too if there was
  one;
* no slot of another key is touched. -/
theorem disk_get_gate {V : Type} (C : Codec V) (d : Disk) (key : String) :
    let r := d.get C key
    (∀ b, r.2.unpickled = some b →
      d.cell key = some (.bytes b) ∧ d.cell (hmacKey key) = some (.str (C.H key b))) ∧
    (∀ v, r.2.result = some v → ∃ b, r.2.unpickled = some b ∧ C.unpickle b = some v ∧ r.1 = d) ∧
    (r.2.result = none → r.1.cell key = none ∧
      ∀ b c, d.cell key = some (.bytes b) → d.cell (hmacKey key) = some c → r.1.cell (hmacKey key) = none) ∧
    (∀ s, s ≠ key → s ≠ hmacKey key → r.1.cell s = d.cell s) := by
  intro r
  show _ ∧ _ ∧ _ ∧ _
  have hr : r = d.get C key := rfl
  clear_value r
  unfold Disk.get at hr
  cases h1 : d.cell key with
  | none =>
    simp only [h1] at hr
    subst hr
    simp [GetOut.miss, h1]
  | some c1 =>
    cases c1 with
    | str s =>
      simp only [h1] at hr; subst hr
      refine ⟨by simp [GetOut.miss], by simp [GetOut.miss], fun _ => ⟨by simp [Disk.cell_delete], by simp⟩, ?_⟩
      intro s hs _; simp [Disk.cell_delete, hs]
    | other =>
      simp only [h1] at hr; subst hr
      refine ⟨by simp [GetOut.miss], by simp [GetOut.miss], fun _ => ⟨by simp [Disk.cell_delete], by simp⟩, ?_⟩
      intro s hs _; simp [Disk.cell_delete, hs]
    | bytes raw =>
      cases h2 : d.cell (hmacKey key) with
      | none =>
        simp only [h1, h2] at hr; subst hr
        refine ⟨by simp [GetOut.miss], by simp [GetOut.miss], fun _ => ⟨by simp [Disk.cell_delete], by simp⟩, ?_⟩
        intro s hs _; simp [Disk.cell_delete, hs]
      | some c2 =>
        have evict : ∀ out : GetOut V, out.result = none → out.unpickled = none ∨ out.unpickled = some raw →
            r = ((d.delete key).delete (hmacKey key), out) →
            (r.2.result = none → r.1.cell key = none ∧
              ∀ b c, some (Cell.bytes raw) = some (.bytes b) → some c2 = some c → r.1.cell (hmacKey key) = none) ∧
            (∀ s, s ≠ key → s ≠ hmacKey key → r.1.cell s = d.cell s) := by
          intro out _ _ hr
          subst hr
          refine ⟨fun _ => ⟨?_, fun _ _ _ _ => by simp [Disk.cell_delete]⟩, ?_⟩
          · simp [Disk.cell_delete]
          · intro s hs hs'; simp [Disk.cell_delete, hs, hs']
        cases c2 with
        | bytes b2 =>
          simp only [h1, h2] at hr
          have := evict .miss rfl (Or.inl rfl) hr
          subst hr
          exact ⟨by simp [GetOut.miss], by simp [GetOut.miss], this.1, this.2⟩
        | other =>
          simp only [h1, h2] at hr
          have := evict .miss rfl (Or.inl rfl) hr
          subst hr
          exact ⟨by simp [GetOut.miss], by simp [GetOut.miss], this.1, this.2⟩
        | str t =>
          by_cases ht : t = C.H key raw
          · cases hu : C.unpickle raw with
            | some v =>
              simp only [h1, h2, ht, if_true, hu] at hr
              subst hr
              subst ht
              refine ⟨?_, ?_, by simp, by simp⟩
              · intro b hb; simp at hb; subst hb; exact ⟨rfl, rfl⟩
              · intro v' hv'; simp at hv'; subst hv'; exact ⟨raw, rfl, hu, rfl⟩
            | none =>
              simp only [h1, h2, ht, if_true, hu] at hr
              have := evict { result := none, unpickled := some raw } rfl (Or.inr rfl) hr
              subst hr
              subst ht
              refine ⟨?_, by simp, this.1, this.2⟩
              intro b hb; simp at hb; subst hb; exact ⟨rfl, rfl⟩
          · simp only [h1, h2, ht, if_false] at hr
            have := evict .miss rfl (Or.inl rfl) hr
            subst hr
            exact ⟨by simp [GetOut.miss], by simp [GetOut.miss], this.1, this.2⟩

/-- a tampered store: payload overwritten (bit flip) after a complete `set` — the stale tag no longer
verifies, nothing is deserialised, both slots are evicted -/
example :
    let d := Disk.run natCodec Disk.empty [.set "k" 7, .tamper (.setCell "k" (.bytes [8]))]
    ((d.get natCodec "k").2.result, (d.get natCodec "k").2.unpickled,
      (d.get natCodec "k").1.cell "k", (d.get natCodec "k").1.cell "k:hmac") = (none, none, none, none) := by
  decide

/-- truncated signature, signature of the wrong type, payload of the wrong type, deleted signature:
all four are misses that never reach `pickle.loads`; an honest entry is a hit that does -/
example : diskScenario
    [.set "k" (.int 5), .get "k",
     .tamper (.setCell "k:hmac" (.str "mac:")), .get "k", .get "k",
     .set "k" (.int 5), .tamper (.setCell "k:hmac" .other), .get "k",
     .set "k" (.int 5), .tamper (.setCell "k" (.str "x")), .get "k",
     .set "k" (.int 5), .tamper (.delCell "k:hmac"), .get "k"]
    = [⟨some (.int 5), true⟩, ⟨none, false⟩, ⟨none, false⟩, ⟨none, false⟩, ⟨none, false⟩, ⟨none, false⟩] := by
  decide

/-- the `unpickled = some b` branch with a miss is inhabited too: authenticated bytes that do not
deserialise (here: written by a complete `set` of an older, incompatible pickle format) -/
example :
    let d : Disk := ⟨[("k", .bytes [1, 2]), ("k:hmac", .str (natCodec.H "k" [1, 2]))]⟩
    ((d.get natCodec "k").2.result, (d.get natCodec "k").2.unpickled, (d.get natCodec "k").1.cell "k")
      = (none, some [1, 2], none) := by decide

/-! ## 3. no forgery -/

/-- a hit under `k` returns the deserialisation of bytes that a complete `set k _` signed -/
theorem disk_no_forgery {V : Type} (C : Codec V) (hcf : MacCollisionFree C) (hist : List (Step V))
    (hU : Unforgeable C hist) (k : String) (v : V)
    (hhit : ((Disk.empty.run C hist).get C k).2.result = some v) :
    ∃ b, Signed C hist k b ∧ C.unpickle b = some v := by
  have hinv : TagInv C (Signed C hist) (Disk.empty.run C hist) := by
    have := TagInv.run hcf hist [] Disk.empty (fun key t hc => by simp [Disk.cell_empty] at hc) hU
    simpa using this
  obtain ⟨hauth, hval, _, _⟩ := disk_get_gate C (Disk.empty.run C hist) k
  obtain ⟨b, hb, hu, _⟩ := hval v hhit
  exact ⟨b, hinv k _ (hauth b hb).2 b rfl, hu⟩

/-- with a round-tripping pickle, the hit value is one that was stored under `k` -/
theorem disk_no_forgery_value {V : Type} (C : Codec V) (hcf : MacCollisionFree C)
    (hrt : ∀ v, C.unpickle (C.pickle v) = some v) (hist : List (Step V))
    (hU : Unforgeable C hist) (k : String) (v : V)
    (hhit : ((Disk.empty.run C hist).get C k).2.result = some v) : Step.set k v ∈ hist := by
  obtain ⟨b, ⟨v', hv', hb⟩, hu⟩ := disk_no_forgery C hcf hist hU k v hhit
  subst hb
  rw [hrt] at hu
  exact (Option.some.inj hu) ▸ hv'

example : ((Disk.empty.run natCodec histEx).get natCodec "k").2.result = some 7 := by decide
example : Step.set "k" 7 ∈ histEx :=
  disk_no_forgery_value natCodec natCodec_collisionFree (fun _ => rfl) histEx histEx_unforgeable "k" 7
    (by decide)

/-- why collision freedom is a hypothesis: with a MAC that ignores its message, overwriting the payload
under a genuine tag is a hit for a value nobody stored, although the adversary never wrote a tag -/
example :
    let C : Codec Nat := { natCodec with H := fun k _ => k }
    let hist : List (Step Nat) := [.set "k" 7, .tamper (.setCell "k" (.bytes [8]))]
    Unforgeable C hist ∧ ((Disk.empty.run C hist).get C "k").2.result = some 8 ∧ Step.set "k" 8 ∉ hist := by
  refine ⟨⟨trivial, trivial, trivial⟩, by decide, by simp⟩

/-! ## 4. a torn write is a miss -/

theorem torn_write_is_miss {V : Type} (C : Codec V) :
    -- no signature slot for `k` (in particular: no entry for `k` at all)
    (∀ (d : Disk) (k : String) (v : V), d.cell (hmacKey k) = none →
      let r := (d.setCrashAfterFirstWrite C k v).get C k
      r.2.result = none ∧ r.2.unpickled = none ∧ r.1.cell k = none ∧ r.1.cell (hmacKey k) = none) ∧
    -- a valid entry for `v₀`, payload overwritten by `v₁`, signature still that of `v₀`
    (∀ (d : Disk) (k : String) (v₀ v₁ : V), MacCollisionFree C →
      d.cell k = some (.bytes (C.pickle v₀)) → d.cell (hmacKey k) = some (.str (C.H k (C.pickle v₀))) →
      C.pickle v₁ ≠ C.pickle v₀ →
      let r := (d.setCrashAfterFirstWrite C k v₁).get C k
      r.2.result = none ∧ r.2.unpickled = none ∧ r.1.cell k = none ∧ r.1.cell (hmacKey k) = none) := by
  constructor
  · intro d k v hh
    have h1 : (d.setCrashAfterFirstWrite C k v).cell k = some (.bytes (C.pickle v)) := by
      simp [Disk.setCrashAfterFirstWrite, Disk.cell_write]
    have h2 : (d.setCrashAfterFirstWrite C k v).cell (hmacKey k) = none := by
      simp [Disk.setCrashAfterFirstWrite, Disk.cell_write, hmacKey_ne, hh]
    simp only [Disk.get, h1, h2]
    simp [GetOut.miss, Disk.cell_delete, hmacKey_ne, h2]
  · intro d k v₀ v₁ hcf _ hh hne
    have h1 : (d.setCrashAfterFirstWrite C k v₁).cell k = some (.bytes (C.pickle v₁)) := by
      simp [Disk.setCrashAfterFirstWrite, Disk.cell_write]
    have h2 : (d.setCrashAfterFirstWrite C k v₁).cell (hmacKey k) = some (.str (C.H k (C.pickle v₀))) := by
      simp [Disk.setCrashAfterFirstWrite, Disk.cell_write, hmacKey_ne, hh]
    have hne' : ¬ C.H k (C.pickle v₀) = C.H k (C.pickle v₁) := fun e => hne (hcf _ _ _ e).symm
    simp only [Disk.get, h1, h2, hne', if_false]
    refine ⟨rfl, rfl, ?_, by simp [Disk.cell_delete]⟩
    simp [Disk.cell_delete]

example : let r := (Disk.setCrashAfterFirstWrite natCodec Disk.empty "k" 5).get natCodec "k"
    (r.2.result, r.2.unpickled, r.1.cell "k") = (none, none, none) := by decide
/-- never the unsigned new value, never the old one under the new payload, no mixture -/
example : let r := (Disk.setCrashAfterFirstWrite natCodec (Disk.set natCodec Disk.empty "k" 5) "k" 6).get natCodec "k"
    (r.2.result, r.2.unpickled, r.1.cell "k", r.1.cell "k:hmac") = (none, none, none, none) := by decide
/-- (re-writing the *same* value and crashing is harmless: the old signature still fits) -/
example : ((Disk.setCrashAfterFirstWrite natCodec (Disk.set natCodec Disk.empty "k" 5) "k" 5).get natCodec "k").2.result
    = some 5 := by decide

/-! ## 5. cache keys -/

/-- different definition, class, output names, targets, fallback or arguments ⇒ different keys -/
theorem key_injective (i₁ i₂ : Ident) (in₁ in₂ : AL Val) (h : cacheKey i₁ in₁ = cacheKey i₂ in₂) :
    i₁ = i₂ ∧ sortInputs in₁ = sortInputs in₂ := by
  simpa [cacheKey] using h

/-- the key before the repair: one function, output names `["a"]` vs `["b"]`, same key -/
theorem old_key_collides :
    let i₁ : Ident := { defHash := "h", cls := "FunctionNode", outputs := ["a"], targets := [],
                        fallback := none }
    let i₂ : Ident := { defHash := "h", cls := "FunctionNode", outputs := ["b"], targets := [],
                        fallback := none }
    let ins : AL Val := [("x", .int 1)]
    cacheKeyOld i₁ ins = cacheKeyOld i₂ ins ∧ cacheKey i₁ ins ≠ cacheKey i₂ ins := by
  decide

/-- the key does not depend on the insertion order of the inputs dict, and does depend on the values -/
example : cacheKey default [("b", .int 1), ("a", .int 2)] = cacheKey default [("a", .int 2), ("b", .int 1)] ∧
    cacheKey default [("a", .int 2)] ≠ cacheKey default [("a", .int 3)] := by decide

/-- WITNESS for the rename repair. `f(x, y)` and `g = f.with_inputs(x='y', y='x')` have the same kind,
output names, targets and (absent) fallback, and (renaming does not touch `definition_hash`) the same definition hash, hence
the same identity in every key environment that gives them one hash. On the inputs dict `{x: 5, y: 2}`
the function receives `(x=5, y=2)` from `f` but `(x=2, y=5)` from `g`. The pre-repair key
(`keyOfCurrent`, inputs under their *current* names) is nevertheless one and the same for both — in a
shared cache `g` was served `f(5, 2)` — while the repaired key (`keyOf`, inputs mapped back to the
parameter names) differs: already as hashed content (`cacheKey`), and as a key string for every
collision-free `hash`. -/
theorem rename_collision_witness :
    let f : NodeD := { (default : NodeD) with
      name := "f", kind := .fn, inputs := ["x", "y"], dataOuts := ["r"], cache := true }
    let g : NodeD := { f with name := "f_swapped", origIn := [("x", "y"), ("y", "x")] }
    let ins : AL Val := [("x", .int 5), ("y", .int 2)]
    -- same class, output names, targets
    f.kind = g.kind ∧ f.outputs = g.outputs ∧ f.targets = g.targets ∧
    -- the calls differ at the level of the function's parameters
    toParams f ins = [("x", .int 5), ("y", .int 2)] ∧ toParams g ins = [("y", .int 5), ("x", .int 2)] ∧
    sortInputs (toParams f ins) ≠ sortInputs (toParams g ins) ∧
    ∀ env : KeyEnv, env.defHash f = env.defHash g →
      -- same identity; before the repair: one key for both calls
      identOf env f = identOf env g ∧
      keyOfCurrent env f ins = keyOfCurrent env g ins ∧
      -- after the repair: different hashed content, hence different keys
      cacheKey (identOf env f) (toParams f ins) ≠ cacheKey (identOf env g) (toParams g ins) ∧
      ((∀ a b, env.hash a = env.hash b → a = b) → keyOf env f ins ≠ keyOf env g ins) := by
  intro f g ins
  have hne : sortInputs (toParams f ins) ≠ sortInputs (toParams g ins) := by decide
  refine ⟨rfl, rfl, rfl, rfl, rfl, hne, ?_⟩
  intro env hdh
  have hid : identOf env f = identOf env g := by
    simp only [identOf, hdh]; rfl
  have hck : cacheKey (identOf env f) (toParams f ins) ≠ cacheKey (identOf env g) (toParams g ins) :=
    fun e => hne (congrArg Prod.snd e)
  refine ⟨hid, ?_, hck, fun hinj e => hck (hinj _ _ e)⟩
  simp only [keyOfCurrent, hid]

/-- the same witness under a concrete key environment (`envSw`: every node reports the hash `"h"`) -/
example : identOf envSw fEx = identOf envSw gEx ∧
    keyOfCurrent envSw fEx insEx = keyOfCurrent envSw gEx insEx ∧
    keyOf envSw fEx insEx = "k52" ∧ keyOf envSw gEx insEx = "k25" := by decide

/-- WITNESS for the fallback repair. `g₁` and `g₂` are two route gates over one routing function (same
`definition_hash` in every key environment that gives them one hash), with the same class, output names
and targets `["a", "b"]`; they differ only in `fallback` (`"a"` vs `"b"`). When the routing function
returns `None` the executor (`execRoute`) assigns the decision *after* applying the fallback — `"a"` for
`g₁`, `"b"` for `g₂` — and that is the decision `store_in_cache` stores. The pre-repair identity
(`identOfNoFallback`: hash, class, outputs, targets) is one and the same for both, so is the pre-repair key
(`keyOfNoFallback`) on every inputs dict: in a shared cache `g₂` was served `g₁`'s decision `"a"`. The
repaired identity (`identOf`, with the `fallback` component) differs; so does the hashed content
(`cacheKey`), and the key string for every collision-free `hash`. -/
theorem fallback_collision_witness :
    let g₁ : NodeD := { (default : NodeD) with
      name := "g1", kind := .route, targets := [.node "a", .node "b"], fallback := some (.node "a"),
      cache := true }
    let g₂ : NodeD := { g₁ with name := "g2", fallback := some (.node "b") }
    let sem : Sem := fun _ _ => .dec .none
    -- same class, output names, targets; different fallback
    g₁.kind = g₂.kind ∧ g₁.outputs = g₂.outputs ∧ g₁.targets = g₂.targets ∧ g₁.fallback ≠ g₂.fallback ∧
    -- the function returns `None`: the decisions the executor assigns (and the cache stores) differ
    (execRoute sem 0 g₁ []).dec = some (.one "a") ∧ (execRoute sem 0 g₂ []).dec = some (.one "b") ∧
    outcome (execRoute sem 0 g₁ []) ≠ outcome (execRoute sem 0 g₂ []) ∧
    ∀ env : KeyEnv, env.defHash g₁ = env.defHash g₂ → ∀ ins : AL Val,
      -- before the repair: one identity, one key for both gates
      identOfNoFallback env g₁ = identOfNoFallback env g₂ ∧
      keyOfNoFallback env g₁ ins = keyOfNoFallback env g₂ ins ∧
      -- after the repair: different identity, different hashed content, hence different keys
      identOf env g₁ ≠ identOf env g₂ ∧
      cacheKey (identOf env g₁) (toParams g₁ ins) ≠ cacheKey (identOf env g₂) (toParams g₂ ins) ∧
      ((∀ a b, env.hash a = env.hash b → a = b) → keyOf env g₁ ins ≠ keyOf env g₂ ins) := by
  intro g₁ g₂ sem
  refine ⟨rfl, rfl, rfl, by decide, by decide, by decide, by decide, ?_⟩
  intro env hdh ins
  have hid : identOfNoFallback env g₁ = identOfNoFallback env g₂ := by
    simp only [identOfNoFallback, hdh]; rfl
  have hfb : g₁.fallback ≠ g₂.fallback := by decide
  have hne : identOf env g₁ ≠ identOf env g₂ := fun e => hfb (congrArg Ident.fallback e)
  have hck : cacheKey (identOf env g₁) (toParams g₁ ins) ≠ cacheKey (identOf env g₂) (toParams g₂ ins) :=
    fun e => hne (congrArg Prod.fst e)
  refine ⟨hid, ?_, hne, hck, fun hinj e => hck (hinj _ _ e)⟩
  simp only [keyOfNoFallback, hid]; rfl

/-- WITNESS for the repair "multi_target is part of a gate's cache identity": two route gates over one
routing function with the same targets and no fallback, one single-target, one multi-target.  The pre-repair
identity (`identOfNoMulti`) is one and the same, so the multi-target gate is served the single-target gate's
entry; the repaired identity differs, hence (injective hash) so do the keys. -/
theorem multi_target_collision_witness :
    let g₁ : NodeD := { (default : NodeD) with
      name := "g1", kind := .route, targets := [.node "a", .node "b"], cache := true }
    let g₂ : NodeD := { g₁ with name := "g2", multiTarget := true }
    g₁.kind = g₂.kind ∧ g₁.outputs = g₂.outputs ∧ g₁.targets = g₂.targets ∧ g₁.fallback = g₂.fallback ∧
    g₁.multiTarget ≠ g₂.multiTarget ∧
    ∀ env : KeyEnv, env.defHash g₁ = env.defHash g₂ → ∀ ins : AL Val,
      identOfNoMulti env g₁ = identOfNoMulti env g₂ ∧
      env.hash (cacheKey (identOfNoMulti env g₁) (toParams g₁ ins)) = env.hash (cacheKey (identOfNoMulti env g₂) (toParams g₂ ins)) ∧
      identOf env g₁ ≠ identOf env g₂ ∧
      ((∀ a b, env.hash a = env.hash b → a = b) → keyOf env g₁ ins ≠ keyOf env g₂ ins) := by
  intro g₁ g₂
  refine ⟨rfl, rfl, rfl, rfl, by decide, ?_⟩
  intro env hdh ins
  have hid : identOfNoMulti env g₁ = identOfNoMulti env g₂ := by
    simp only [identOfNoMulti, hdh]; rfl
  have hmt : g₁.multiTarget ≠ g₂.multiTarget := by decide
  have hne : identOf env g₁ ≠ identOf env g₂ := fun e => hmt (congrArg Ident.multiTarget e)
  have hck : cacheKey (identOf env g₁) (toParams g₁ ins) ≠ cacheKey (identOf env g₂) (toParams g₂ ins) :=
    fun e => hne (congrArg Prod.fst e)
  refine ⟨hid, ?_, hne, fun hinj e => hck (hinj _ _ e)⟩
  rw [hid]; rfl

/-- the pre-repair identity is the repaired one with the `fallback` component forgotten, and the two
agree on every node without a fallback (every non-gate, every `ifelse`, every route without one): the
repair changes no other key -/
theorem identOfNoFallback_eq (env : KeyEnv) (nd : NodeD) :
    identOfNoFallback env nd = { identOf env nd with fallback := none } ∧
    (nd.fallback = none → identOf env nd = identOfNoFallback env nd ∧
      ∀ ins, keyOf env nd ins = keyOfNoFallback env nd ins) := by
  refine ⟨rfl, fun h => ?_⟩
  have : identOf env nd = identOfNoFallback env nd := by simp only [identOf, identOfNoFallback, h]
  exact ⟨this, fun ins => by simp only [keyOf, keyOfNoFallback, this]⟩

/-- renames are transparent to the cache: the key depends on the inputs only through the sorted
*parameter-level* inputs. (1) for one node, two input dicts that are the same call of the function have
the same key; (2) two nodes of the same identity — e.g. one function wired through two different
renames — have the same key whenever their functions receive the same arguments. -/
theorem key_respects_renames (env : KeyEnv) :
    (∀ (nd : NodeD) (i i' : AL Val), sortInputs (toParams nd i) = sortInputs (toParams nd i') →
      keyOf env nd i = keyOf env nd i') ∧
    (∀ (nd nd' : NodeD) (i i' : AL Val), identOf env nd = identOf env nd' →
      sortInputs (toParams nd i) = sortInputs (toParams nd' i') → keyOf env nd i = keyOf env nd' i') := by
  have h2 : ∀ (nd nd' : NodeD) (i i' : AL Val), identOf env nd = identOf env nd' →
      sortInputs (toParams nd i) = sortInputs (toParams nd' i') → keyOf env nd i = keyOf env nd' i' := by
    intro nd nd' i i' hid hs
    simp only [keyOf, cacheKey, hid, hs]
  exact ⟨fun nd i i' hs => h2 nd nd i i' rfl hs, h2⟩

/-- (2) is not vacuous: `g = f.with_inputs(x='y', y='x')` on `{x: 2, y: 5}` is the call `f(x=5, y=2)`,
the call `f` makes on `{x: 5, y: 2}` — one key, in every key environment giving both one hash -/
example (env : KeyEnv) (hdh : env.defHash fEx = env.defHash gEx) :
    keyOf env fEx [("x", .int 5), ("y", .int 2)] = keyOf env gEx [("x", .int 2), ("y", .int 5)] :=
  (key_respects_renames env).2 fEx gEx _ _ (by simp only [identOf, hdh]; rfl) (by decide)

/-! ## 6. cached execution is transparent -/

/-
FULL STATEMENT (not proved) — `cached_exec_transparent`: under the hypotheses below,
    (execCached env cache nd inputs exec).dec = (exec nd inputs).dec
i.e. the assignment to `state.routing_decisions[nd.name]` is the same with and without the cache.
This is false of the code: a route gate (no fallback) whose function returns `None` makes the executor
assign `routing_decisions[name] = None`; `store_in_cache` does not store a `None` decision and
`restore_routing_decision` does not assign one, so on a hit *nothing* is assigned and the entry keeps
its previous content. Counterexample: `none_decision_not_restored` below. What is proved instead: the
assignments agree unless the uncached one is `None`, in which case the hit assigns nothing; and the two
are indistinguishable to `routing_decisions.get(name)` whenever the previous entry is absent or `None`
(which `_clear_stale_gate_decisions` establishes before a gate re-executes, except for an `END` entry).
-/
theorem cached_exec_transparent_partial (env : KeyEnv) (exec : NodeD → AL Val → NodeOut)
    (cache : Lru (AL Val)) (nd : NodeD) (inputs : AL Val)
    (hwf : cache.WF) (hsound : CacheSound env exec cache)
    (hresp : ExecRespectsKey env exec) (hgd : GateOnlyDec exec) (hnk : NoInternalKey exec)
    (hinj : ∀ K', env.hash K' = env.hash (cacheKey (identOf env nd) (toParams nd inputs)) →
      K' = cacheKey (identOf env nd) (toParams nd inputs)) :
    let r := execCached env cache nd inputs exec
    let u := exec nd inputs
    -- outputs (or the exception) and the pause signal are those of the uncached execution
    r.res = u.res ∧ r.pause = u.pause ∧
    -- the routing decision too, except that a hit does not re-assign a `None` decision
    (r.dec = u.dec ∨ (r.called = false ∧ u.dec = some Dec.none ∧ r.dec = none)) ∧
    (∀ prev : Option Dec, prev.getD Dec.none = Dec.none → readDec prev r.dec = readDec prev u.dec) ∧
    -- the cache stays sound (and well formed)
    CacheSound env exec r.cache ∧ r.cache.WF := by
  intro r u
  have hr : r = execCached env cache nd inputs exec := rfl
  clear_value r
  unfold execCached at hr
  cases hc : nd.cache with
  | false =>
    simp only [hc] at hr
    subst hr
    exact ⟨rfl, rfl, Or.inl rfl, fun _ _ => rfl, hsound, hwf⟩
  | true =>
    simp only [hc, if_true] at hr
    cases hg : AL.get? cache.data (keyOf env nd inputs) with
    | some entry =>
      have hget : cache.get (keyOf env nd inputs) = ((cache.get (keyOf env nd inputs)).1, some entry) := by
        rw [← hg, ← Lru.get_snd]
      rw [hget] at hr
      simp only at hr
      obtain ⟨outs, dec, hout, hentry⟩ := hsound nd inputs entry hc hg
      have hres : u.res = .ok outs ∧ u.pause = none ∧ u.dec = dec := outcome_some hout
      have hrest := restore_toCache nd outs dec (hnk nd inputs outs hres.1)
        (fun hgate => by rw [← hres.2.2]; exact hgd nd inputs hgate)
      rw [← hentry] at hrest
      subst hr
      simp only [hrest]
      refine ⟨hres.1.symm, hres.2.1.symm, ?_, ?_, ?_, hwf.get _⟩
      · rw [hres.2.2]
        by_cases hd : dec = some Dec.none
        · exact Or.inr ⟨by simp, hd, by simp [hd]⟩
        · exact Or.inl (by simp [hd])
      · intro prev hprev
        rw [hres.2.2]
        by_cases hd : dec = some Dec.none
        · subst hd
          cases prev with
          | none => simp [readDec]
          | some p => simp at hprev; subst hprev; simp [readDec]
        · simp [hd]
      · intro nd' in' e' hc' hg'
        rw [Lru.get?_get_fst hwf] at hg'
        exact hsound nd' in' e' hc' hg'
    | none =>
      have hget : cache.get (keyOf env nd inputs) = (cache, none) := by
        have h1 := Lru.get_snd cache (keyOf env nd inputs)
        have h2 := Lru.get_miss cache _ hg
        rw [hg] at h1
        exact Prod.ext h2 h1
      rw [hget] at hr
      simp only at hr
      cases ho : outcome (exec nd inputs) with
      | none =>
        simp only [ho] at hr
        subst hr
        exact ⟨rfl, rfl, Or.inl rfl, fun _ _ => rfl, hsound, hwf⟩
      | some od =>
        obtain ⟨outs, dec⟩ := od
        simp only [ho] at hr
        subst hr
        refine ⟨rfl, rfl, Or.inl rfl, fun _ _ => rfl, ?_, hwf.set _ _⟩
        intro nd' in' e' hc' hg'
        have := Lru.get?_step_sub hwf (Op.set (keyOf env nd inputs) (toCache nd outs dec)) _ e' hg'
        by_cases hk : keyOf env nd inputs = keyOf env nd' in'
        · simp only [opSet, hk, if_true, Option.some_or] at this
          have hK := hinj _ hk.symm
          have hout' : outcome (exec nd' in') = some (outs, dec) := by
            rw [hresp nd' nd in' inputs hK]; exact ho
          refine ⟨outs, dec, hout', ?_⟩
          have hid : identOf env nd' = identOf env nd := (congrArg Prod.fst hK)
          have hgate := isGate_of_ident hid
          rw [← Option.some.inj this]
          simp [toCache, hgate]
        · simp only [opSet, hk, if_false, Option.none_or] at this
          exact hsound nd' in' e' hc' this

/-- on a hit the node's function is not invoked (and a hit is exactly: cacheable node, key present) -/
theorem no_reinvoke (env : KeyEnv) (exec : NodeD → AL Val → NodeOut) (cache : Lru (AL Val))
    (nd : NodeD) (inputs : AL Val) :
    (execCached env cache nd inputs exec).called =
      !(nd.cache && (AL.get? cache.data (keyOf env nd inputs)).isSome) := by
  unfold execCached
  cases hc : nd.cache with
  | false => simp
  | true =>
    simp only [if_true]
    cases hg : AL.get? cache.data (keyOf env nd inputs) with
    | some entry =>
      have : cache.get (keyOf env nd inputs) = ((cache.get (keyOf env nd inputs)).1, some entry) := by
        rw [← hg, ← Lru.get_snd]
      rw [this]; simp
    | none =>
      have : cache.get (keyOf env nd inputs) = ((cache.get (keyOf env nd inputs)).1, none) := by
        rw [← hg, ← Lru.get_snd]
      rw [this]; simp

/-- the internal routing key never appears in the outputs handed to the state: for a gate served from
the cache this holds whatever the cache contains (the key is popped); in general it holds as long as
no node has an output of that name -/
theorem routing_key_not_leaked (env : KeyEnv) (exec : NodeD → AL Val → NodeOut) (cache : Lru (AL Val))
    (nd : NodeD) (inputs : AL Val) (outs : AL Val)
    (hres : (execCached env cache nd inputs exec).res = .ok outs) :
    (nd.isGate = true → (execCached env cache nd inputs exec).called = false →
      AL.has outs routingKey = false) ∧
    (CacheSound env exec cache → GateOnlyDec exec → NoInternalKey exec → AL.has outs routingKey = false) := by
  cases hc : nd.cache with
  | false =>
    rw [execCached_nocache env cache nd inputs exec hc] at hres ⊢
    exact ⟨fun _ h => (by cases h), fun _ _ hnk => hnk nd inputs outs hres⟩
  | true =>
    cases hg : AL.get? cache.data (keyOf env nd inputs) with
    | none =>
      rw [execCached_miss env cache nd inputs exec hc hg] at hres ⊢
      exact ⟨fun _ h => (by cases h), fun _ _ hnk => hnk nd inputs outs hres⟩
    | some entry =>
      rw [execCached_hit env cache nd inputs exec hc entry hg] at hres ⊢
      have ho : outs = (restoreDecision nd entry).1 := by injection hres with h; exact h.symm
      subst ho
      refine ⟨fun hgate _ => restore_no_key nd entry hgate, fun hsound hgd hnk => ?_⟩
      obtain ⟨outs', dec, hout, hentry⟩ := hsound nd inputs entry hc hg
      have hres' := outcome_some hout
      have hk := hnk nd inputs outs' hres'.1
      rw [hentry, restore_toCache nd outs' dec hk
        (fun hgate => by rw [← hres'.2.2]; exact hgd nd inputs hgate)]
      exact hk

/-! ### non-vacuity and the counterexample -/

/-- first execution: miss, the function runs, the decision is stored; second: hit, same outputs, same
decision, the function does not run, the internal key is not in the outputs -/
example :
    let r1 := execCached envEx (Lru.empty (some 4)) gateEx [] (execEx (.one "a"))
    let r2 := execCached envEx r1.cache gateEx [] (execEx (.one "a"))
    r1.called = true ∧ r1.cache.data = [("0", [(routingKey, .str "a")])] ∧
    r2.called = false ∧ r2.dec = some (.one "a") ∧ r2.res.toOption = some [] := by decide

/-- the theorem applies to that situation (all hypotheses are jointly satisfiable) -/
example : (execCached envEx (Lru.empty (some 4)) gateEx [] (execEx (.one "a"))).res
    = (execEx (.one "a") gateEx []).res :=
  (cached_exec_transparent_partial envEx (execEx (.one "a")) (Lru.empty (some 4)) gateEx []
    (Lru.WF.empty _) (fun _ _ _ _ h => by simp [Lru.empty] at h)
    (execEx_respects _) (execEx_gateOnly _) (execEx_noKey _) envEx_inj).1

/-- renamed nodes sharing a cache (`execFst`: the function returns its parameter `x`). `f` on
`{x: 5, y: 2}` misses and stores `f(5, 2) = 5`. `g = f.with_inputs(x='y', y='x')` on the same dict is the
call `f(2, 5)`: it misses too (before the repair it hit, and was served `5`) and computes `2`. `g` on
`{x: 2, y: 5}` is the call `f(5, 2)`: it is served `f`'s entry without running the function. -/
example :
    let r1 := execCached envSw (Lru.empty none) fEx insEx execFst
    let r2 := execCached envSw r1.cache gEx insEx execFst
    let r3 := execCached envSw r2.cache gEx [("x", .int 2), ("y", .int 5)] execFst
    r1.called = true ∧ r1.res.toOption = some [("r", .int 5)] ∧
    r1.cache.data = [("k52", [("r", .int 5)])] ∧
    r2.called = true ∧ r2.res.toOption = some [("r", .int 2)] ∧
    r3.called = false ∧ r3.res.toOption = some [("r", .int 5)] ∧
    r3.res.toOption = (execFst gEx [("x", .int 2), ("y", .int 5)]).res.toOption := by decide

/-- the theorem applies to the second call of that scenario (a renamed node, a non-empty sound cache
holding the entry of its un-renamed sibling; all hypotheses jointly satisfiable) -/
example :
    let cache : Lru (AL Val) := { maxSize := none, data := [("k52", [("r", .int 5)])] }
    (execCached envSw cache gEx insEx execFst).res = (execFst gEx insEx).res ∧
    CacheSound envSw execFst (execCached envSw cache gEx insEx execFst).cache := by
  intro cache
  have h := cached_exec_transparent_partial envSw execFst cache gEx insEx
    ⟨by decide, fun n h => by cases h⟩ envSw_sound
    (execFst_respects _) execFst_gateOnly execFst_noKey envSw_inj_g
  exact ⟨h.1, h.2.2.2.2.1⟩

/-- COUNTEREXAMPLE to the full statement: a cached `None` decision. Every hypothesis of the theorem
holds, the cache holds the entry a previous execution stored, and the hit assigns nothing where the
executor assigns `None` — visible to `routing_decisions.get` when an older decision is still there. -/
example :
    let cache : Lru (AL Val) := (execCached envEx (Lru.empty none) gateEx [] (execEx .none)).cache
    let r := execCached envEx cache gateEx [] (execEx .none)
    let u := execEx .none gateEx []
    cache.WF ∧ CacheSound envEx (execEx .none) cache ∧ ExecRespectsKey envEx (execEx .none) ∧
    GateOnlyDec (execEx .none) ∧ NoInternalKey (execEx .none) ∧
    r.called = false ∧ r.dec = none ∧ u.dec = some Dec.none ∧ r.dec ≠ u.dec ∧
    readDec (some (.one "a")) r.dec = .one "a" ∧ readDec (some (.one "a")) u.dec = .none := by
  have hcache : (execCached envEx (Lru.empty none) gateEx [] (execEx .none)).cache
      = { maxSize := none, data := [("0", [])] } := by decide
  intro cache r u
  have hc : cache = { maxSize := none, data := [("0", [])] } := hcache
  refine ⟨?_, ?_, execEx_respects _, execEx_gateOnly _, execEx_noKey _, by decide, by decide, by decide,
    by decide, by decide, by decide⟩
  · rw [hc]; exact ⟨by decide, fun n h => by cases h⟩
  · rw [hc]
    intro nd inputs entry _ hg
    have he : entry = [] := by
      simp only [AL.get?] at hg
      split at hg
      · exact (Option.some.inj hg).symm
      · cases hg
    subst he
    cases hgate : nd.isGate with
    | true => exact ⟨[], some Dec.none, by simp [execEx, hgate, outcome], by simp [toCache, hgate]⟩
    | false => exact ⟨[], none, by simp [execEx, hgate, outcome], by simp [toCache, hgate]⟩

/-- a node with an output literally named `__routing_decision__` is why `NoInternalKey` is assumed: for
a gate emitting under that name the hit drops the output and "restores" the emit sentinel as decision -/
example :
    let exec : NodeD → AL Val → NodeOut := fun _ _ => { res := .ok [(routingKey, .sentinel)], dec := some Dec.none }
    let r1 := execCached envEx (Lru.empty none) gateEx [] exec
    let r2 := execCached envEx r1.cache gateEx [] exec
    r1.res.toOption = some [(routingKey, .sentinel)] ∧ r2.res.toOption = some [] ∧ r2.dec = some Dec.end_ := by
  decide

/-! ## 7. a hit needs the same identity (fallback included) and the same arguments -/

/-- the entry served to `(nd₂, in₂)` is the argument of the most recent `set` on its own key string
(never the entry of another key), and every `set` on that key string was made for a node of the same
identity (`Ident`: definition hash, class, output names, targets, fallback — spelled out in
`hit_requires_same_fields`) with the same sorted parameter-level inputs (`toParams`: the arguments the function receives,
under its own parameter names — so a renamed sibling is served exactly when it makes the same call) -/
theorem hit_requires_same_identity (env : KeyEnv) (hinj : ∀ a b, env.hash a = env.hash b → a = b)
    (ms : Option Nat) (ops : List (Op (AL Val))) (nd₂ : NodeD) (in₂ : AL Val) (e : AL Val)
    (hhit : (((Lru.empty ms).run ops).get (keyOf env nd₂ in₂)).2 = some e) :
    (∃ pre post, ops = pre ++ Op.set (keyOf env nd₂ in₂) e :: post ∧
      ∀ w, Op.set (keyOf env nd₂ in₂) w ∉ post) ∧
    (∀ nd₁ in₁ w, Op.set (keyOf env nd₁ in₁) w ∈ ops → keyOf env nd₁ in₁ = keyOf env nd₂ in₂ →
      identOf env nd₁ = identOf env nd₂ ∧
        sortInputs (toParams nd₁ in₁) = sortInputs (toParams nd₂ in₂)) := by
  refine ⟨lastSet_split ops _ e (lru_get_sound ms ops _ e hhit), ?_⟩
  intro nd₁ in₁ _ _ hk
  exact key_injective _ _ _ _ (hinj _ _ hk)

/-- the same, field by field: every `set` on the key string that serves `(nd₂, in₂)` was made for a node
with the same definition hash, the same class (kind), the same output names, the same targets and the
same `fallback` target, on the same sorted parameter-level inputs. In particular two route gates over
one function that differ only in their fallback never share an entry. -/
theorem hit_requires_same_fields (env : KeyEnv) (hinj : ∀ a b, env.hash a = env.hash b → a = b)
    (ms : Option Nat) (ops : List (Op (AL Val))) (nd₂ : NodeD) (in₂ : AL Val) (e : AL Val)
    (hhit : (((Lru.empty ms).run ops).get (keyOf env nd₂ in₂)).2 = some e) :
    ∀ nd₁ in₁ w, Op.set (keyOf env nd₁ in₁) w ∈ ops → keyOf env nd₁ in₁ = keyOf env nd₂ in₂ →
      env.defHash nd₁ = env.defHash nd₂ ∧ nd₁.kind = nd₂.kind ∧ nd₁.outputs = nd₂.outputs ∧
      nd₁.targets = nd₂.targets ∧ nd₁.fallback = nd₂.fallback ∧ nd₁.multiTarget = nd₂.multiTarget ∧
      sortInputs (toParams nd₁ in₁) = sortInputs (toParams nd₂ in₂) := by
  intro nd₁ in₁ w hmem hk
  obtain ⟨hid, hs⟩ := (hit_requires_same_identity env hinj ms ops nd₂ in₂ e hhit).2 nd₁ in₁ w hmem hk
  have hd : nd₁.dataOuts = nd₂.dataOuts := congrArg Ident.outputs hid
  have he : nd₁.emits = nd₂.emits := congrArg Ident.emits hid
  exact ⟨congrArg Ident.defHash hid, className_inj (congrArg Ident.cls hid), by unfold NodeD.outputs; rw [hd, he],
    congrArg Ident.targets hid, congrArg Ident.fallback hid, congrArg Ident.multiTarget hid, hs⟩

/-- … and the same SPLIT of the outputs into data outputs and emit signals (the repair "data outputs and emit signals are told apart
in the cache identity") -/
theorem hit_requires_same_output_split (env : KeyEnv) (hinj : ∀ a b, env.hash a = env.hash b → a = b)
    (ms : Option Nat) (ops : List (Op (AL Val))) (nd₂ : NodeD) (in₂ : AL Val) (e : AL Val)
    (hhit : (((Lru.empty ms).run ops).get (keyOf env nd₂ in₂)).2 = some e) :
    ∀ nd₁ in₁ w, Op.set (keyOf env nd₁ in₁) w ∈ ops → keyOf env nd₁ in₁ = keyOf env nd₂ in₂ →
      nd₁.dataOuts = nd₂.dataOuts ∧ nd₁.emits = nd₂.emits := by
  intro nd₁ in₁ w hmem hk
  obtain ⟨hid, _⟩ := (hit_requires_same_identity env hinj ms ops nd₂ in₂ e hhit).2 nd₁ in₁ w hmem hk
  exact ⟨congrArg Ident.outputs hid, congrArg Ident.emits hid⟩

/-- the defect repaired by "data outputs and emit signals are told apart": with the joined identity (`node.outputs`) a node with the data
outputs `a, b` and a node over the same definition with the data output `a` and the signal `b` have ONE identity; with the split they
have two -/
theorem emit_split_collision_witness (env : KeyEnv) (hdh : ∀ nd nd' : NodeD, env.defHash nd = env.defHash nd') :
    let n₁ : NodeD := { (default : NodeD) with name := "A", kind := .fn, dataOuts := ["a", "b"], emits := [] }
    let n₂ : NodeD := { (default : NodeD) with name := "B", kind := .fn, dataOuts := ["a"], emits := ["b"] }
    identOfJoined env n₁ = identOfJoined env n₂ ∧ identOf env n₁ ≠ identOf env n₂ := by
  intro n₁ n₂
  refine ⟨?_, ?_⟩
  · simp only [identOfJoined, hdh n₁ n₂]
    rfl
  · intro h
    have := congrArg Ident.emits h
    simp [identOf] at this

/-- the fallback repair, through the cache: an entry stored for a node is never served to a node with a
different `fallback` (with the pre-repair key it was, see `fallback_collision_witness`) -/
example (env : KeyEnv) (hinj : ∀ a b, env.hash a = env.hash b → a = b) (nd₁ nd₂ : NodeD) (ins : AL Val)
    (e : AL Val) (hfb : nd₁.fallback ≠ nd₂.fallback) :
    (((Lru.empty none).run [Op.set (keyOf env nd₁ ins) e]).get (keyOf env nd₂ ins)).2 = none := by
  cases h : (((Lru.empty none).run [Op.set (keyOf env nd₁ ins) e]).get (keyOf env nd₂ ins)).2 with
  | none => rfl
  | some e' =>
    obtain ⟨⟨pre, post, hops, _⟩, _⟩ := hit_requires_same_identity env hinj none _ nd₂ ins e' h
    have hmem : Op.set (keyOf env nd₂ ins) e' ∈ [Op.set (keyOf env nd₁ ins) e] := by rw [hops]; simp
    simp at hmem
    exact absurd (hit_requires_same_fields env hinj none _ nd₂ ins e' h nd₁ ins e (by simp)
      hmem.1.symm).2.2.2.2.1 hfb

/-- … whereas with the pre-repair key it is: the second gate of `fallback_collision_witness` hits the
first one's entry, and is handed the decision `"a"` where its own executor decides `"b"` -/
example (env : KeyEnv) (hdh : ∀ nd nd' : NodeD, env.defHash nd = env.defHash nd') :
    let g₁ : NodeD := { (default : NodeD) with
      name := "g1", kind := .route, targets := [.node "a", .node "b"], fallback := some (.node "a"),
      cache := true }
    let g₂ : NodeD := { g₁ with name := "g2", fallback := some (.node "b") }
    let entry := toCache g₁ [] (execRoute (fun _ _ => .dec .none) 0 g₁ []).dec
    (((Lru.empty none).run [Op.set (keyOfNoFallback env g₁ []) entry]).get (keyOfNoFallback env g₂ [])).2
      = some entry ∧
    (restoreDecision g₂ entry).2 = some (.one "a") ∧
    (execRoute (fun _ _ => .dec .none) 0 g₂ []).dec = some (.one "b") := by
  intro g₁ g₂ entry
  have : keyOfNoFallback env g₂ [] = keyOfNoFallback env g₁ [] := by
    simp only [keyOfNoFallback, identOfNoFallback, hdh g₂ g₁]; rfl
  refine ⟨?_, by decide, by decide⟩
  rw [this, Lru.get_snd]
  simp [Lru.run, Lru.step, Lru.set, Lru.empty, AL.has, AL.get?, AL.put]

/-- two nodes sharing one function but producing under different output names never share an entry
(with the old key they did): the second node misses -/
example (env : KeyEnv) (hinj : ∀ a b, env.hash a = env.hash b → a = b) (nd₁ nd₂ : NodeD) (ins : AL Val)
    (e : AL Val) (hout : nd₁.outputs ≠ nd₂.outputs) :
    (((Lru.empty none).run [Op.set (keyOf env nd₁ ins) e]).get (keyOf env nd₂ ins)).2 = none := by
  cases h : (((Lru.empty none).run [Op.set (keyOf env nd₁ ins) e]).get (keyOf env nd₂ ins)).2 with
  | none => rfl
  | some e' =>
    obtain ⟨⟨pre, post, hops, _⟩, hsame⟩ := hit_requires_same_identity env hinj none _ nd₂ ins e' h
    have hmem : Op.set (keyOf env nd₂ ins) e' ∈ [Op.set (keyOf env nd₁ ins) e] := by rw [hops]; simp
    simp at hmem
    have := (hsame nd₁ ins e (by simp) hmem.1.symm).1
    have hd : nd₁.dataOuts = nd₂.dataOuts := congrArg Ident.outputs this
    have he : nd₁.emits = nd₂.emits := congrArg Ident.emits this
    exact absurd (by unfold NodeD.outputs; rw [hd, he]) hout

/-- and the positive case: the same node on the same arguments (in any dict order) is served. (The
two current names must stand for two different parameters, as they do for every node the library
builds: `map_inputs_to_params` is injective.) -/
example (env : KeyEnv) (nd : NodeD) (e : AL Val)
    (hne : (AL.get? nd.origIn "a").getD "a" ≠ (AL.get? nd.origIn "b").getD "b") :
    (((Lru.empty (some 1)).run [Op.set (keyOf env nd [("b", .int 1), ("a", .int 2)]) e]).get
      (keyOf env nd [("a", .int 2), ("b", .int 1)])).2 = some e := by
  have : keyOf env nd [("b", .int 1), ("a", .int 2)] = keyOf env nd [("a", .int 2), ("b", .int 1)] := by
    simp only [keyOf, cacheKey, toParams, List.map, sortInputs, List.foldr, insertKV]
    generalize (AL.get? nd.origIn "a").getD "a" = p at hne
    generalize (AL.get? nd.origIn "b").getD "b" = q at hne
    congr 2
    grind
  rw [this, Lru.get_snd]
  simp [Lru.run, Lru.step, Lru.set, Lru.empty, AL.has, AL.get?, AL.put]

/-- the rename repair, through the cache: an entry stored for `f` on `{x: 5, y: 2}` is never served to
`f.with_inputs(x='y', y='x')` on the same dict (with the pre-repair key it was) … -/
example (env : KeyEnv) (hinj : ∀ a b, env.hash a = env.hash b → a = b) (e : AL Val) :
    (((Lru.empty none).run [Op.set (keyOf env fEx insEx) e]).get (keyOf env gEx insEx)).2 = none := by
  cases h : (((Lru.empty none).run [Op.set (keyOf env fEx insEx) e]).get (keyOf env gEx insEx)).2 with
  | none => rfl
  | some e' =>
    obtain ⟨⟨pre, post, hops, _⟩, hsame⟩ := hit_requires_same_identity env hinj none _ gEx insEx e' h
    have hmem : Op.set (keyOf env gEx insEx) e' ∈ [Op.set (keyOf env fEx insEx) e] := by rw [hops]; simp
    simp at hmem
    exact absurd (hsame fEx insEx e (by simp) hmem.1.symm).2 (by decide)

/-- … whereas with the pre-repair key it is: the swapped node hits `f`'s entry -/
example (env : KeyEnv) (hdh : env.defHash fEx = env.defHash gEx) (e : AL Val) :
    (((Lru.empty none).run [Op.set (keyOfCurrent env fEx insEx) e]).get (keyOfCurrent env gEx insEx)).2
      = some e := by
  have : keyOfCurrent env gEx insEx = keyOfCurrent env fEx insEx := by
    simp only [keyOfCurrent, identOf, hdh]; rfl
  rw [this, Lru.get_snd]
  simp [Lru.run, Lru.step, Lru.set, Lru.empty, AL.has, AL.get?, AL.put]

/-! ## 8. the cache threaded through a whole run (sync runner)

`stepSyncCached` / `runLoopCached` / `runGraphCached` / `runsCached` (`HG/Model/RunCached.lean`) are the
sync superstep, loop, run and a sequence of runs with ONE cache threaded through every node execution
(`execCached`), through the steps, and across runs. Vocabulary (defined in `HG/Lemmas/RunCached.lean`):

* `GP g nd i` — the executions a run of `g` makes: `nd ∈ g.nodes`, and `i` has `nd`'s input names as keys;
* `execPlain sem gi` — the executor of function nodes and gates (independent of state and span);
* `PlainCacheable g` — every cacheable node of `g` is a function node or a gate (a graph node is never
  cacheable; a cacheable *interrupt* node is outside these theorems: its executor reads the run state);
* `CacheOK P env exec` — on the cacheable `P`-executions: same identity and parameter-level arguments ⇒
  same outcome (`ExecRespectsKey`), only gates assign decisions (`GateOnlyDec`), no output is named
  `__routing_decision__` (`NoInternalKey`). For `execPlain` the last two follow from the graph
  (`cacheOK_plain`); the first is the contract of `definition_hash`;
* `NoNoneDec P exec` — no cacheable `P`-execution assigns the decision `None`;
* `CallsInj env P gi calls` — the hash has no collision with the key of any invocation in `calls` ("hash
  injectivity on the keys that occur"; implied by global injectivity, `callsInj_of_injective`);
* `CacheInv P env exec cache` — `cache` is well formed (`Lru.WF`) and sound for the `P`-executions
  (`CacheSoundOn`, implied by `CacheSound`);
* `callsOf log` — the function invocations of a log; `eraseCache log` — the log with invocations and
  `CacheHit` markers dropped and the `cached` flag of `NodeEnd` cleared; `eraseRoute` — `RouteDecision`
  events dropped too; `routingOf log` — `(gate, decision)` of the `RouteDecision` events; `startsOf log` —
  `(node, span)` of the `NodeStart` events (which node ran, in which superstep, in which order). -/

/-- the empty cache (any capacity) is sound, for every executor -/
theorem cacheSound_empty (env : KeyEnv) (exec : NodeD → AL Val → NodeOut) (ms : Option Nat) :
    CacheSound env exec (Lru.empty ms) := by
  intro nd inputs entry _ h
  simp [Lru.empty] at h

/-- … and satisfies the invariant the run theorems start from (well formed and sound) -/
theorem cacheInv_empty (P : NodeD → AL Val → Prop) (env : KeyEnv) (exec : NodeD → AL Val → NodeOut)
    (ms : Option Nat) : CacheInv P env exec (Lru.empty ms) :=
  HG.Cache.cacheInv_empty P env exec ms

/-- a sound (`CacheSound`), well-formed cache satisfies the invariant -/
theorem cacheInv_of_sound (P : NodeD → AL Val → Prop) (env : KeyEnv) (exec : NodeD → AL Val → NodeOut)
    (cache : Lru (AL Val)) (hwf : cache.WF) (hs : CacheSound env exec cache) : CacheInv P env exec cache :=
  ⟨hwf, hs.on P⟩

/-
FULL STATEMENT (false of the code) — `cached_run_transparent` WITHOUT the hypothesis `NoNoneDec`:
    routingOf (runGraphCached … cache).1.log = routingOf (runGraph …).log
A cacheable route gate without fallback whose function returns `None`: the executor assigns the decision
`None` and the superstep announces `RouteDecision(None)`; `store_in_cache` stores no `None` decision and
`restore_routing_decision` assigns none, so a hit announces nothing (or a stale `END`).
Counterexample: `none_decision_run_witness`. Two theorems are proved instead:
* `cached_run_transparent` — with `NoNoneDec`: everything, `RouteDecision` events included;
* `cached_run_transparent_partial` — without it: status, values, error, pause, warnings, which nodes run
  in which superstep, and the log modulo `RouteDecision` events. What is missing is exactly the
  `RouteDecision` events (and `routing_decisions` entries) of cached `None` decisions.
-/

/-- C09 — WHOLE-RUN CACHE TRANSPARENCY (sync runner). From any cache satisfying the invariant — in
particular the empty cache of any capacity (`cacheInv_empty`), or the cache left by earlier runs — and
with no cacheable `None` decision, the cached run returns the same status, values, error (raised or
not), pause, warnings and routing decisions as the uncached run; the logs are equal once invocations
and cache markers are erased; the final cache again satisfies the invariant. Bounded LRU eviction is
covered (any `maxSize`): soundness speaks of the entries present. -/
theorem cached_run_transparent (env : KeyEnv) (nested : Nested) (sem : Sem) (gi : Nat) (g : GraphD)
    (values : AL Val) (cfg : RunCfg) (span : Span) (parent : Option Span) (cache : Lru (AL Val))
    (hplain : PlainCacheable g) (hok : CacheOK (GP g) env (execPlain sem gi))
    (hnn : NoNoneDec (GP g) (execPlain sem gi))
    (hinj : CallsInj env (GP g) gi (callsOf (runGraph nested sem .sync gi g values cfg span parent).log))
    (hinv : CacheInv (GP g) env (execPlain sem gi) cache) :
    let u := runGraph nested sem .sync gi g values cfg span parent
    let r := runGraphCached env nested sem gi g values cfg span parent cache
    r.1.status = u.status ∧ r.1.values = u.values ∧ r.1.error = u.error ∧ r.1.raised = u.raised ∧
    r.1.pause = u.pause ∧ r.1.warnings = u.warnings ∧
    routingOf r.1.log = routingOf u.log ∧ eraseCache r.1.log = eraseCache u.log ∧
    CacheInv (GP g) env (execPlain sem gi) r.2 := by
  intro u r
  obtain ⟨h, hc⟩ := runGraphCached_sim env (execPlain sem gi) nested sem gi g values cfg span parent cache
    hok (execIs_plain nested sem gi g hplain) hnn hinv hinj
  exact ⟨h.status, h.values, h.error, h.raised, h.pause, h.warnings, h.log.routing, h.log.1, hc⟩

/-- C09 — whole-run transparency WITHOUT the hypothesis on `None` decisions (node names distinct): the
cached run returns the same status, values, error, pause and warnings; the same nodes run, in the same
supersteps, in the same order (`startsOf`); the logs are equal once invocations, cache markers and
`RouteDecision` events are erased; the final cache satisfies the invariant. (Internally the two runs'
states are related, not equal: where the uncached run holds the decision `None`, or nothing, the cached
run may hold nothing, or a stale `END` — `StateSim`; the scheduler cannot tell these apart.) -/
theorem cached_run_transparent_partial (env : KeyEnv) (nested : Nested) (sem : Sem) (gi : Nat) (g : GraphD)
    (values : AL Val) (cfg : RunCfg) (span : Span) (parent : Option Span) (cache : Lru (AL Val))
    (hplain : PlainCacheable g) (hnames : (g.nodes.map (·.name)).Nodup)
    (hok : CacheOK (GP g) env (execPlain sem gi))
    (hinj : CallsInj env (GP g) gi (callsOf (runGraph nested sem .sync gi g values cfg span parent).log))
    (hinv : CacheInv (GP g) env (execPlain sem gi) cache) :
    let u := runGraph nested sem .sync gi g values cfg span parent
    let r := runGraphCached env nested sem gi g values cfg span parent cache
    r.1.status = u.status ∧ r.1.values = u.values ∧ r.1.error = u.error ∧ r.1.raised = u.raised ∧
    r.1.pause = u.pause ∧ r.1.warnings = u.warnings ∧
    startsOf r.1.log = startsOf u.log ∧
    eraseRoute (eraseCache r.1.log) = eraseRoute (eraseCache u.log) ∧
    CacheInv (GP g) env (execPlain sem gi) r.2 := by
  intro u r
  obtain ⟨h, hc⟩ := runGraphCached_simB env (execPlain sem gi) nested sem gi g values cfg span parent cache
    hnames hok (execIs_plain nested sem gi g hplain) hinv hinj
  exact ⟨h.status, h.values, h.error, h.raised, h.pause, h.warnings, h.log.starts, h.log.1, hc⟩

/-- C09 — NO EXTRA INVOCATIONS (no hypothesis on `None` decisions): every function invocation of the
cached run is an invocation of the uncached run, with the same arguments, in the same order — the list
of cached invocations is a sublist. (On a hit the function is not called; the cache never makes a run
call a function the uncached run does not call, nor with other arguments.) -/
theorem cached_run_no_extra_calls (env : KeyEnv) (nested : Nested) (sem : Sem) (gi : Nat) (g : GraphD)
    (values : AL Val) (cfg : RunCfg) (span : Span) (parent : Option Span) (cache : Lru (AL Val))
    (hplain : PlainCacheable g) (hnames : (g.nodes.map (·.name)).Nodup)
    (hok : CacheOK (GP g) env (execPlain sem gi))
    (hinj : CallsInj env (GP g) gi (callsOf (runGraph nested sem .sync gi g values cfg span parent).log))
    (hinv : CacheInv (GP g) env (execPlain sem gi) cache) :
    (callsOf (runGraphCached env nested sem gi g values cfg span parent cache).1.log).Sublist
      (callsOf (runGraph nested sem .sync gi g values cfg span parent).log) ∧
    ∀ c ∈ callsOf (runGraphCached env nested sem gi g values cfg span parent cache).1.log,
      c ∈ callsOf (runGraph nested sem .sync gi g values cfg span parent).log := by
  have h := (runGraphCached_simB env (execPlain sem gi) nested sem gi g values cfg span parent cache
    hnames hok (execIs_plain nested sem gi g hplain) hinv hinj).1.log.2
  exact ⟨h, fun c hc => h.subset hc⟩

/-- C09 — A SEQUENCE OF RUNS SHARING ONE CACHE, each with its own inputs: every run equals its uncached
counterpart as in `cached_run_transparent` (`RunsSim`: pointwise `RunSim`, same length —
`RunsSim.length`, `RunsSim.get`), and the final cache satisfies the invariant. Induction over the list:
the cache a run leaves is what the next run starts from. -/
theorem cached_runs_sequence_transparent (env : KeyEnv) (nested : Nested) (sem : Sem) (gi : Nat)
    (g : GraphD) (cfg : RunCfg) (span : Span) (parent : Option Span) (vs : List (AL Val))
    (cache : Lru (AL Val))
    (hplain : PlainCacheable g) (hok : CacheOK (GP g) env (execPlain sem gi))
    (hnn : NoNoneDec (GP g) (execPlain sem gi))
    (hinj : ∀ v ∈ vs, CallsInj env (GP g) gi (callsOf (runGraph nested sem .sync gi g v cfg span parent).log))
    (hinv : CacheInv (GP g) env (execPlain sem gi) cache) :
    RunsSim (runsCached env nested sem gi g cfg span parent vs cache).1
      (vs.map fun v => runGraph nested sem .sync gi g v cfg span parent) ∧
    CacheInv (GP g) env (execPlain sem gi) (runsCached env nested sem gi g cfg span parent vs cache).2 :=
  runsCached_sim env (execPlain sem gi) nested sem gi g cfg span parent hok
    (execIs_plain nested sem gi g hplain) hnn vs cache hinv hinj

/-- the same without the hypothesis on `None` decisions (`RunsSimB`: pointwise `RunSimB`, i.e. every
field but the log equal, logs equal modulo invocations, cache markers and `RouteDecision` events, no
extra invocations) -/
theorem cached_runs_sequence_transparent_partial (env : KeyEnv) (nested : Nested) (sem : Sem) (gi : Nat)
    (g : GraphD) (cfg : RunCfg) (span : Span) (parent : Option Span) (vs : List (AL Val))
    (cache : Lru (AL Val))
    (hplain : PlainCacheable g) (hnames : (g.nodes.map (·.name)).Nodup)
    (hok : CacheOK (GP g) env (execPlain sem gi))
    (hinj : ∀ v ∈ vs, CallsInj env (GP g) gi (callsOf (runGraph nested sem .sync gi g v cfg span parent).log))
    (hinv : CacheInv (GP g) env (execPlain sem gi) cache) :
    RunsSimB (runsCached env nested sem gi g cfg span parent vs cache).1
      (vs.map fun v => runGraph nested sem .sync gi g v cfg span parent) ∧
    CacheInv (GP g) env (execPlain sem gi) (runsCached env nested sem gi g cfg span parent vs cache).2 :=
  runsCached_simB env (execPlain sem gi) nested sem gi g cfg span parent hnames hok
    (execIs_plain nested sem gi g hplain) vs cache hinv hinj

/-- ONE SUPERSTEP (the lemma the run theorems are built from, restated): from a cache satisfying the
invariant, the cached superstep on ready nodes `rs` of `g` returns the state / error and partial state /
pause of the uncached superstep (`StepSim`, logs `LogRel`) and a cache satisfying the invariant. -/
theorem cached_step_transparent (env : KeyEnv) (nested : Nested) (sem : Sem) (gi : Nat) (g : GraphD)
    (runSpan : Span) (k : Nat) (s : GState) (rs : List NodeD) (cache : Lru (AL Val))
    (hrs : ∀ nd ∈ rs, nd ∈ g.nodes)
    (hplain : PlainCacheable g) (hok : CacheOK (GP g) env (execPlain sem gi))
    (hnn : NoNoneDec (GP g) (execPlain sem gi))
    (hinj : CallsInj env (GP g) gi (callsOf (stepSync nested sem gi g runSpan k s rs s []).log))
    (hinv : CacheInv (GP g) env (execPlain sem gi) cache) :
    StepSim (stepSyncCached env nested sem gi g runSpan k s rs s [] cache).1
      (stepSync nested sem gi g runSpan k s rs s []) ∧
    CacheInv (GP g) env (execPlain sem gi) (stepSyncCached env nested sem gi g runSpan k s rs s [] cache).2 :=
  stepSyncCached_sim (GP g) env (execPlain sem gi) nested sem gi g runSpan k s hok
    (execIs_plain nested sem gi g hplain) hnn rs
    (fun nd h i hi _ => ⟨hrs nd h, collectInputs_keys' g s nd nd.inputs i hi⟩) s [] [] cache hinv
    (LogRel.refl _) hinj

/-! ### non-vacuity

`progRC`: `f(x) → y = x + 1` (cacheable), `gate(y)`: `small` if `y < 5` else `END` (a cacheable `ifelse`
gate), `small(y) → s` (not cacheable); key environment `envRC` (collision free at the four keys of the
runs on `x = 1` and `x = 7`); all standing hypotheses are proved in `HG/Lemmas/RunCached.lean`
(`plainCacheable_RC`, `cacheOK_RC`, `noNoneDec_RC`, `callsInj_RC1`, `callsInj_RC7`, `gRC_names`). -/

/-- run twice on `x = 1`, from the empty cache of capacity 8. First run: `f`, `gate`, `small` are
called, two entries are stored. Second run: `f` and `gate` are served from the cache with ZERO calls
(only the non-cacheable `small` is called), two `CacheHit` events; same status, values and routing
decision (`gate → small`, restored from the cache) as the uncached run. -/
example :
    let r1 := runCached envRC bodySem progRC 0 [("x", .int 1)] {} (Lru.empty (some 8))
    let r2 := runCached envRC bodySem progRC 0 [("x", .int 1)] {} r1.2
    let u := run bodySem .sync progRC 0 [("x", .int 1)] {}
    (callsOf r1.1.log).map (·.1) = ["0:f", "0:gate", "0:small"] ∧
    r1.2.data.map (·.1) = ["kf1", "kg2"] ∧
    callsOf r2.1.log = [("0:small", [("y", .int 2)])] ∧
    (r2.1.log.filterMap fun l => match l with
      | .ev e => if e.kind = "CacheHit" then some e.name else none
      | _ => none) = ["f", "gate"] ∧
    r2.1.status = .completed ∧ u.status = .completed ∧ r2.1.values = u.values ∧
    r2.1.values = [("y", .int 2), ("s", Val.mkTup [.str "small", .int 2])] ∧
    routingOf r2.1.log = [("gate", "small")] ∧ routingOf u.log = [("gate", "small")] := by decide

/-- `cached_run_transparent` applies to the second run of that scenario: its hypotheses are jointly
satisfiable, from a NON-EMPTY cache (the one the first run left) -/
example :
    let r1 := runCached envRC bodySem progRC 0 [("x", .int 1)] {} (Lru.empty (some 8))
    let r2 := runCached envRC bodySem progRC 0 [("x", .int 1)] {} r1.2
    r2.1.values = (runRC 1).values ∧ routingOf r2.1.log = routingOf (runRC 1).log ∧
    CacheInv (GP gRC) envRC (execPlain bodySem 0) r2.2 := by
  intro r1 r2
  have h1 := cached_run_transparent envRC nestedRC bodySem 0 gRC [("x", .int 1)] {} ["r"] .none
    (Lru.empty (some 8)) plainCacheable_RC cacheOK_RC noNoneDec_RC callsInj_RC1 (cacheInv_empty _ _ _ _)
  have h2 := cached_run_transparent envRC nestedRC bodySem 0 gRC [("x", .int 1)] {} ["r"] .none
    r1.2 plainCacheable_RC cacheOK_RC noNoneDec_RC callsInj_RC1 h1.2.2.2.2.2.2.2.2
  exact ⟨h2.2.1, h2.2.2.2.2.2.2.1, h2.2.2.2.2.2.2.2.2⟩

/-- EVICTION: capacity 1. `gate`'s entry evicts `f`'s, so in the second run `f` misses (called again),
its `set` evicts `gate`'s entry, `gate` misses too: all three functions run again — and the theorem
applies all the same (any capacity) -/
example :
    let r1 := runCached envRC bodySem progRC 0 [("x", .int 1)] {} (Lru.empty (some 1))
    let r2 := runCached envRC bodySem progRC 0 [("x", .int 1)] {} r1.2
    r1.2.data.map (·.1) = ["kg2"] ∧
    (callsOf r2.1.log).map (·.1) = ["0:f", "0:gate", "0:small"] ∧ r2.1.values = (runRC 1).values := by
  intro r1 r2
  have h1 := cached_run_transparent envRC nestedRC bodySem 0 gRC [("x", .int 1)] {} ["r"] .none
    (Lru.empty (some 1)) plainCacheable_RC cacheOK_RC noNoneDec_RC callsInj_RC1 (cacheInv_empty _ _ _ _)
  have h2 := cached_run_transparent envRC nestedRC bodySem 0 gRC [("x", .int 1)] {} ["r"] .none
    r1.2 plainCacheable_RC cacheOK_RC noNoneDec_RC callsInj_RC1 h1.2.2.2.2.2.2.2.2
  exact ⟨by decide, by decide, h2.2.1⟩

/-- capacity 0 (nothing is ever retained): every run is a run of misses, still transparent -/
example :
    (runCached envRC bodySem progRC 0 [("x", .int 1)] {} (Lru.empty (some 0))).1.values = (runRC 1).values ∧
    (runCached envRC bodySem progRC 0 [("x", .int 1)] {} (Lru.empty (some 0))).2.data = [] :=
  ⟨(cached_run_transparent envRC nestedRC bodySem 0 gRC [("x", .int 1)] {} ["r"] .none
    (Lru.empty (some 0)) plainCacheable_RC cacheOK_RC noNoneDec_RC callsInj_RC1 (cacheInv_empty _ _ _ _)).2.1,
   by decide⟩

/-- `cached_run_no_extra_calls` on the second run: its single invocation is one of the three of the
uncached run -/
example :
    let r1 := runCached envRC bodySem progRC 0 [("x", .int 1)] {} (Lru.empty (some 8))
    let r2 := runCached envRC bodySem progRC 0 [("x", .int 1)] {} r1.2
    (callsOf r2.1.log).Sublist (callsOf (runRC 1).log) ∧
    (callsOf r2.1.log).length = 1 ∧ (callsOf (runRC 1).log).length = 3 := by
  intro r1 r2
  have h1 := cached_run_transparent envRC nestedRC bodySem 0 gRC [("x", .int 1)] {} ["r"] .none
    (Lru.empty (some 8)) plainCacheable_RC cacheOK_RC noNoneDec_RC callsInj_RC1 (cacheInv_empty _ _ _ _)
  exact ⟨(cached_run_no_extra_calls envRC nestedRC bodySem 0 gRC [("x", .int 1)] {} ["r"] .none r1.2
    plainCacheable_RC gRC_names cacheOK_RC callsInj_RC1 h1.2.2.2.2.2.2.2.2).1, by decide, by decide⟩

/-- A SEQUENCE of four runs sharing one cache of capacity 4, inputs `x = 1, 7, 1, 7` (`x = 7`: `f(7) = 8`,
the gate decides `END`): runs 3 and 4 are served from the cache — `f` and `gate` are not called at all,
run 4 makes zero calls — and each run's values are those of its uncached counterpart -/
example :
    let rs := runsCached envRC nestedRC bodySem 0 gRC {} ["r"] .none
      [[("x", .int 1)], [("x", .int 7)], [("x", .int 1)], [("x", .int 7)]] (Lru.empty (some 4))
    rs.1.map (fun r => (callsOf r.log).map (·.1)) =
      [["0:f", "0:gate", "0:small"], ["0:f", "0:gate"], ["0:small"], []] ∧
    rs.1.map (·.values) = [(runRC 1).values, (runRC 7).values, (runRC 1).values, (runRC 7).values] ∧
    rs.1.map (fun r => routingOf r.log) =
      [[("gate", "small")], [("gate", "END")], [("gate", "small")], [("gate", "END")]] := by decide

/-- `cached_runs_sequence_transparent` applies to that sequence, and with capacity 3 as well, where the
LRU thrashes (every run evicts what the next one needs: no run is served from the cache) -/
example (ms : Option Nat) :
    let vs : List (AL Val) := [[("x", .int 1)], [("x", .int 7)], [("x", .int 1)], [("x", .int 7)]]
    RunsSim (runsCached envRC nestedRC bodySem 0 gRC {} ["r"] .none vs (Lru.empty ms)).1
      [runRC 1, runRC 7, runRC 1, runRC 7] ∧
    CacheInv (GP gRC) envRC (execPlain bodySem 0)
      (runsCached envRC nestedRC bodySem 0 gRC {} ["r"] .none vs (Lru.empty ms)).2 := by
  intro vs
  refine cached_runs_sequence_transparent envRC nestedRC bodySem 0 gRC {} ["r"] .none vs (Lru.empty ms)
    plainCacheable_RC cacheOK_RC noNoneDec_RC ?_ (cacheInv_empty _ _ _ _)
  intro v hv
  simp only [vs, List.mem_cons, List.not_mem_nil, or_false] at hv
  rcases hv with rfl | rfl | rfl | rfl
  · exact callsInj_RC1
  · exact callsInj_RC7
  · exact callsInj_RC1
  · exact callsInj_RC7

example :
    (runsCached envRC nestedRC bodySem 0 gRC {} ["r"] .none
      [[("x", .int 1)], [("x", .int 7)], [("x", .int 1)], [("x", .int 7)]] (Lru.empty (some 3))).1.map
      (fun r => (callsOf r.log).map (·.1)) =
    [["0:f", "0:gate", "0:small"], ["0:f", "0:gate"], ["0:f", "0:gate", "0:small"], ["0:f", "0:gate"]] := by
  decide

/-- WITNESS (why `NoNoneDec` is assumed in `cached_run_transparent`). `progNN`: `r(x)`, a cacheable route
gate without fallback whose function returns `None`, with target `t`. Every other hypothesis holds
(`cacheOK_NN`, `callsInj_NN`, `plainCacheable_NN`, `gNN_names`), `NoNoneDec` fails, the second (cached)
run is served from the cache and announces NO routing decision where the uncached run announces
`RouteDecision(r, None)`. Everything `cached_run_transparent_partial` promises does hold: same status,
same values, same nodes started, logs equal modulo invocations, cache markers and `RouteDecision`. -/
theorem none_decision_run_witness :
    let r1 := runCached envNN bodySem progNN 0 [("x", .int 1)] {} (Lru.empty none)
    let r2 := runCached envNN bodySem progNN 0 [("x", .int 1)] {} r1.2
    ¬ NoNoneDec (GP gNN) (execPlain bodySem 0) ∧
    callsOf r2.1.log = [] ∧
    routingOf r2.1.log = [] ∧ routingOf runNN.log = [("r", "None")] ∧
    r2.1.status = runNN.status ∧ r2.1.values = runNN.values ∧ startsOf r2.1.log = startsOf runNN.log ∧
    eraseRoute (eraseCache r2.1.log) = eraseRoute (eraseCache runNN.log) := by
  intro r1 r2
  have h1 := cached_run_transparent_partial envNN nestedNN bodySem 0 gNN [("x", .int 1)] {} ["r"] .none
    (Lru.empty none) plainCacheable_NN gNN_names cacheOK_NN callsInj_NN (cacheInv_empty _ _ _ _)
  have h2 := cached_run_transparent_partial envNN nestedNN bodySem 0 gNN [("x", .int 1)] {} ["r"] .none
    r1.2 plainCacheable_NN gNN_names cacheOK_NN callsInj_NN h1.2.2.2.2.2.2.2.2
  exact ⟨not_noNoneDec_NN, by decide, by decide, by decide, h2.1, h2.2.1, h2.2.2.2.2.2.2.1,
    h2.2.2.2.2.2.2.2.1⟩

/-! ## the signed message determines key AND payload -/

/-- after the repair the signed message is injective in the PAIR (key, payload): a MAC that is collision-free
on messages is then collision-free on pairs, which is what the hypothesis `Unforgeable` (stated over pairs
`(key, b)`) asks of it -/
theorem macMsg_injective {k k' b b' : List Nat} (h : macMsg k b = macMsg k' b') : k = k' ∧ b = b' := by
  unfold macMsg at h
  have hlen : k.length = k'.length := (List.cons.inj h).1
  have happ : k ++ b = k' ++ b' := (List.cons.inj h).2
  exact List.append_inj happ hlen

/-- before the repair it was not: the entry signed for key `"k1"` (bytes 107, 49) with payload `P` has the
very message of key `"k"` (107) with payload `49 :: P` — a correctly signed entry could be replayed under
another key with a shifted payload, and bytes never signed as a payload for that key reached `pickle.loads` -/
theorem replay_under_other_key_witness (P : List Nat) :
    macMsgConcat [107, 49] P = macMsgConcat [107] (49 :: P) ∧ ([107, 49], P) ≠ ([107], 49 :: P) ∧
    macMsg [107, 49] P ≠ macMsg [107] (49 :: P) := by
  refine ⟨rfl, by simp, ?_⟩
  intro h
  have := (macMsg_injective h).1
  simp at this

end HG.C09
