import HG.Lemmas.IsoNested
/-! # C18 (nested / mapped part) — run isolation through sub graphs and `map_over`

Model: `HG.IsoN` in `HG/Model/IsoNested.lean` — the flat memory model `HG.Iso` extended by SUB nodes
(an inner graph run once, or once per mapped item, with an optional clone step for broadcast
values).  A run history is ANY list of events (`Ev.start rid`, `Ev.step rid sid`, `sid` a TOP-LEVEL
node of run `rid`; a sub node's inner run(s) execute atomically inside its step) of any number of
runs in any interleaving.  `runHist true` is the repaired library
(`Cfg.real`: deep copy of defaults, defaults resolved by the INNER run, i.e. once per item).

`WF specs m0`: every signature-default cell of every function node AT ANY DEPTH exists in the
initial memory, and the user did not also hand that very cell out explicitly (bound on a graph at
any depth, element of a mapped-over list at any depth, in a caller's dict, a kwarg).
`wfCheck` decides it (`wfCheck_sound`).

Every logged call carries `rid`, `sid`, `path`; `nodeAt spec.nodes sid path` is the function node
it is a call of (`path` lists `(item, node index)` per nesting level). -/
namespace HG.C18N
open HG.Iso (Ref Mem Eff Src Arg Res Ev cell dict)
open HG.IsoN

/-- the initial world of a history -/
abbrev init (m0 : Mem) : World := ⟨m0, [], [], []⟩

/-! ## 1. defaults_never_escape_nested -/

/-- Over EVERY history, for every logged call AT EVERY DEPTH (any item of any mapped sub node):
no argument is a reference to a signature-default cell of any node at any depth; the call is a call
of the function node at its `rid`/`sid`/`path`, and every default-sourced argument is a deep copy
(`copyOf = some c`) of its own default cell.  Hence default cells are never written. -/
theorem defaults_never_escape_nested {specs : List RunSpec} {m0 : Mem} (hw : WF specs m0)
    (evs : List Ev) :
    (∀ call, call ∈ (runHist true specs (init m0) evs).log →
      (∀ a, a ∈ call.args → ¬ IsDefault specs a.ref) ∧
      ∃ (spec : RunSpec) (srcs : List Src) (out : Name), specs[call.rid]? = some spec ∧
        nodeAt spec.nodes call.sid call.path = some (.fn srcs call.eff out) ∧
        ∀ (j : Nat) (c : Ref) (a : Arg), srcs[j]? = some (.default c) → call.args[j]? = some a →
          a.copyOf = some c) ∧
    (∀ c, IsDefault specs c → cell (runHist true specs (init m0) evs).mem c = cell m0 c) := by
  have hJ := (JW.init specs m0).runHist hw evs
  refine ⟨fun call hc => ?_, fun c hc => hJ.st.mem.defaults_kept c (hw.default_lt c hc) hc⟩
  have hok := hJ.st.calls call hc
  refine ⟨fun a ha hd => default_not_refOk hw hd (hok.arg_refOk ha), ?_⟩
  obtain ⟨spec, srcs, out, hs, hn, _, _, hall⟩ := hok
  exact ⟨spec, srcs, out, hs, hn, fun j c a hsrc ha => (hall j _ a hsrc ha).1.1⟩

/-- non-vacuity: a mapped sub node with 2 items whose inner function appends to its default
(cell `0`), two runs interleaved: four calls, each receives its own copy (`copyOf = some 0`), the
default cell is untouched, every call returns length 1 -/
example :
    let m0 : Mem := ⟨[[], [10], [20]], []⟩
    let g : Graph := [.sub [.fn [.default 0, .provided "x"] (.appendTo 0 7) "o"] []
      (some [[("x", 1)], [("x", 2)]]) .none ["o"]]
    let specs : List RunSpec := [⟨g, none, []⟩, ⟨g, none, []⟩]
    let w := runSched true specs (init m0) [(0, 0), (1, 0), (1, 1), (0, 1)]
    wfCheck specs m0 = true ∧
    w.log.map (fun c => (c.rid, c.path, c.args.map (·.copyOf))) =
      [(1, [(0, 0)], [some 0, none]), (1, [(1, 0)], [some 0, none]),
       (0, [(0, 0)], [some 0, none]), (0, [(1, 0)], [some 0, none])] ∧
    w.log.map (fun c => c.res.after) = [[7], [7], [7], [7]] ∧ cell w.mem 0 = [] := by decide

/-! ## 2. result_from_initial_nested -/

/-- The contents a default-sourced argument has ON ENTRY equal the INITIAL contents of its default
cell — for every call at every depth, i.e. for every item of every mapped sub node, in every run of
every interleaving.  (Before the repair item `k` saw the mutations of items `< k`:
`shared_default_across_items_witness`.) -/
theorem result_from_initial_nested {specs : List RunSpec} {m0 : Mem} (hw : WF specs m0)
    (evs : List Ev) (call : Call) (hc : call ∈ (runHist true specs (init m0) evs).log) :
    ∃ (spec : RunSpec) (srcs : List Src) (out : Name), specs[call.rid]? = some spec ∧
      nodeAt spec.nodes call.sid call.path = some (.fn srcs call.eff out) ∧
      call.res.before.length = srcs.length ∧
      ∀ (j : Nat) (c : Ref), srcs[j]? = some (.default c) →
        call.res.before[j]? = some (cell m0 c) := by
  have hJ := (JW.init specs m0).runHist hw evs
  obtain ⟨spec, srcs, out, hs, hn, hlen, hbl, hall⟩ := hJ.st.calls call hc
  refine ⟨spec, srcs, out, hs, hn, by rw [hbl, hlen], ?_⟩
  intro j c hsrc
  have hj : j < call.args.length := by
    rw [hlen]; exact (List.getElem?_eq_some_iff.mp hsrc).1
  exact (hall j _ _ hsrc (List.getElem?_eq_getElem hj)).2 c rfl

/-- REPEAT across items / runs / interleavings: two calls of function nodes with the same default
cell at parameter `j` (e.g. the same inner function in two items of one mapped sub node, or in two
runs) — at any positions of any two histories — saw equal contents for it on entry. -/
theorem repeat_equal_items {specs : List RunSpec} {m0 : Mem} (hw : WF specs m0)
    (evs₁ evs₂ : List Ev) (c₁ c₂ : Call)
    (h₁ : c₁ ∈ (runHist true specs (init m0) evs₁).log)
    (h₂ : c₂ ∈ (runHist true specs (init m0) evs₂).log)
    {sp₁ sp₂ : RunSpec} {srcs₁ srcs₂ : List Src} {e₁ e₂ : Eff} {o₁ o₂ : Name}
    (hs₁ : specs[c₁.rid]? = some sp₁) (hn₁ : nodeAt sp₁.nodes c₁.sid c₁.path = some (.fn srcs₁ e₁ o₁))
    (hs₂ : specs[c₂.rid]? = some sp₂) (hn₂ : nodeAt sp₂.nodes c₂.sid c₂.path = some (.fn srcs₂ e₂ o₂))
    (j : Nat) (c : Ref) (hj₁ : srcs₁[j]? = some (.default c)) (hj₂ : srcs₂[j]? = some (.default c)) :
    c₁.res.before[j]? = c₂.res.before[j]? := by
  obtain ⟨sp, srcs, out, hs, hn, _, hall⟩ := result_from_initial_nested hw evs₁ c₁ h₁
  rw [hs₁] at hs; cases hs
  rw [hn₁] at hn; cases hn
  obtain ⟨sp', srcs', out', hs', hn', _, hall'⟩ := result_from_initial_nested hw evs₂ c₂ h₂
  rw [hs₂] at hs'; cases hs'
  rw [hn₂] at hn'; cases hn'
  rw [hall j c hj₁, hall' j c hj₂]

/-! ## 3. bound_by_identity_nested -/

/-- For every call at every depth: it received one argument per parameter; an argument whose source
is `Src.bound c` — in particular a binding of an INNER graph inside a mapped sub node with
`clone = all` — IS the very reference that was bound (`ref = c`, never a copy); a default-sourced
argument is a copy, never the default's own reference nor any other default cell. -/
theorem bound_by_identity_nested {specs : List RunSpec} {m0 : Mem} (hw : WF specs m0)
    (evs : List Ev) (call : Call) (hc : call ∈ (runHist true specs (init m0) evs).log) :
    ∃ (spec : RunSpec) (srcs : List Src) (out : Name), specs[call.rid]? = some spec ∧
      nodeAt spec.nodes call.sid call.path = some (.fn srcs call.eff out) ∧
      call.args.length = srcs.length ∧
      ∀ (j : Nat) (src : Src) (a : Arg), srcs[j]? = some src → call.args[j]? = some a →
        (∀ c, src = .bound c → a.ref = c ∧ a.copyOf = none) ∧
        (∀ c, src = .default c → a.copyOf = some c ∧ a.ref ≠ c ∧ ¬ IsDefault specs a.ref) := by
  have hJ := (JW.init specs m0).runHist hw evs
  have hok := hJ.st.calls call hc
  obtain ⟨spec, srcs, out, hs, hn, hlen, _, hall⟩ := hok
  refine ⟨spec, srcs, out, hs, hn, hlen, ?_⟩
  intro j src a hsrc ha
  have hsa := (hall j src a hsrc ha).1
  have hnd : ¬ IsDefault specs a.ref := fun hd =>
    default_not_refOk hw hd ((hJ.st.calls call hc).arg_refOk (List.mem_of_getElem? ha))
  refine ⟨?_, ?_⟩
  · rintro c rfl
    simp only [SrcArgOk] at hsa
    subst hsa; exact ⟨rfl, rfl⟩
  · rintro c rfl
    refine ⟨hsa.1, ?_, hnd⟩
    intro heq
    refine hnd (heq ▸ isDefault_of_nodeAt hs hn ?_)
    rw [defaults_fn]
    exact List.mem_filterMap.mpr ⟨_, List.mem_of_getElem? hsrc, rfl⟩

/-- non-vacuity: the inner function's first parameter is bound on the INNER graph to cell `1`; the
sub node is mapped over two items with `clone = all` and a broadcast value `cfg` (cell `2`).  Both
items receive the bound cell ITSELF (and share its mutations: `[1] → [1, 5] → [1, 5, 5]`), while
`cfg` arrives as a fresh copy per item (cells `5` and `8`) -/
example :
    let m0 : Mem := ⟨[[], [1], [2], [30], [40]], []⟩
    let g : Graph := [.sub [.fn [.bound 1, .provided "cfg", .provided "x", .default 0] (.appendTo 0 5) "o"]
      [("cfg", .bound 2)] (some [[("x", 3)], [("x", 4)]]) .all ["o"]]
    let w := runSched true [⟨g, none, []⟩] (init m0) [(0, 0), (0, 1)]
    wfCheck [⟨g, none, []⟩] m0 = true ∧
    w.log.map (fun c => (c.path, c.args.map fun a => (a.ref, a.copyOf))) =
      [([(0, 0)], [(1, none), (5, none), (3, none), (6, some 0)]),
       ([(1, 0)], [(1, none), (8, none), (4, none), (9, some 0)])] ∧
    w.log.map (fun c => c.res.before) = [[[1], [2], [30], []], [[1, 5], [2], [40], []]] ∧
    w.inits.map (fun i => (i.item, i.fwd)) =
      [(0, [("cfg", ⟨5, some 2⟩)]), (1, [("cfg", ⟨8, some 2⟩)])] ∧
    cell w.mem 1 = [1, 5, 5] ∧ cell w.mem 2 = [2] := by decide

/-! ## 4. clone_is_fresh -/

/-- Every inner-run start ever logged (`World.inits`) is the start of an inner run of the sub node
at its `rid`/`sid`/`path`; for a MAPPED sub node (`items = some L`, `effClone = clone`) every
forwarded name `k` reaches the inner run as `a` with: `k` is forwarded by the node, and if it is
forwarded from an outer binding `Src'.bound c` the original object is `c`; if the clone
configuration selects `k`, `a` is a copy (`copyOf = some _`) whose reference is NOT among the
initial cells; if not selected, `a` is the original reference (`copyOf = none`, hence
`a.ref = c` for a bound one).  A non-mapped sub node never clones (`effClone none _ = .none`).
All references ever produced by clone steps — over all items, sub nodes, depths, runs — are
pairwise distinct (`Nodup`); in particular distinct inner-run starts (distinct items) get
distinct clones. -/
theorem clone_is_fresh {specs : List RunSpec} {m0 : Mem} (hw : WF specs m0) (evs : List Ev) :
    (∀ i, i ∈ (runHist true specs (init m0) evs).inits →
      ∃ (spec : RunSpec) (inner : List Node) (fwd : List (Name × Src'))
        (items : Option (List (AL Ref))) (cl : CloneCfg) (outs : List Name),
        specs[i.rid]? = some spec ∧
        nodeAt spec.nodes i.sid i.path = some (.sub inner fwd items cl outs) ∧
        (∀ L, items = some L → i.item < L.length) ∧
        ∀ k a, (k, a) ∈ i.fwd →
          (∃ src, (k, src) ∈ fwd ∧ ∀ c, src = .bound c → a.copyOf.getD a.ref = c) ∧
          ((effClone items cl).selects k = true →
            ∃ c, a.copyOf = some c ∧ m0.cells.length ≤ a.ref) ∧
          ((effClone items cl).selects k = false → a.copyOf = none)) ∧
    (cloneRefs (runHist true specs (init m0) evs).inits).Nodup ∧
    (∀ (n₁ n₂ : Nat) (i₁ i₂ : InnerStart), n₁ ≠ n₂ →
      (runHist true specs (init m0) evs).inits[n₁]? = some i₁ →
      (runHist true specs (init m0) evs).inits[n₂]? = some i₂ →
      ∀ p₁ p₂, p₁ ∈ i₁.fwd → p₂ ∈ i₂.fwd → p₁.2.copyOf ≠ none → p₂.2.copyOf ≠ none →
        p₁.2.ref ≠ p₂.2.ref) := by
  have hJ := (JW.init specs m0).runHist hw evs
  refine ⟨fun i hi => hJ.st.inits i hi, hJ.st.clones_nodup, ?_⟩
  intro n₁ n₂ i₁ i₂ hne h1 h2 p₁ p₂ hp₁ hp₂ hc₁ hc₂ heq
  have hnd : (List.flatMap (fun i : InnerStart => clones i.fwd)
      (runHist true specs (init m0) evs).inits).Nodup := hJ.st.clones_nodup
  have m₁ := mem_clones hp₁ hc₁
  have m₂ := mem_clones hp₂ hc₂
  rcases Nat.lt_or_gt_of_ne hne with hlt | hlt
  · exact flatMap_nodup_disjoint _ _ hnd n₁ n₂ i₁ i₂ hlt h1 h2 _ m₁ (heq ▸ m₂)
  · exact flatMap_nodup_disjoint _ _ hnd n₂ n₁ i₂ i₁ hlt h2 h1 _ m₂ (heq ▸ m₁)

/-- a graph of depth 2: a non-mapped sub node forwards the upstream output `y` to a nested mapped
sub node with `clone = ["y"]` -/
def exDeepGraph : Graph :=
  [.fn [.default 0] (.appendTo 0 1) "y",
   .sub [.sub [.fn [.default 0, .provided "x", .provided "y"] (.appendTo 0 7) "o"]
           [("y", .provided "y")] (some [[("x", 1)], [("x", 2)]]) (.only ["y"]) ["o"],
         .fn [.provided "o"] .none "p"]
     [("y", .provided "y")] none .all ["p"]]
def exDeepMem : Mem := ⟨[[], [10], [20]], []⟩
def exDeepWorld : World :=
  runSched true [⟨exDeepGraph, none, []⟩] (init exDeepMem) [(0, 0), (0, 1), (0, 2)]

/-- non-vacuity at depth 2: the outer (non-mapped) sub node passes `y` by reference (cell `4`);
each of the two items of the nested mapped sub node receives a fresh copy of `y` (cells `5`, `8`)
and its own copy of the default (cells `6`, `9`) -/
example :
    wfCheck [⟨exDeepGraph, none, []⟩] exDeepMem = true ∧
    exDeepWorld.inits.map (fun i => (i.path, i.item, i.fwd)) =
      [([], 0, [("y", ⟨4, none⟩)]), ([(0, 0)], 0, [("y", ⟨5, some 4⟩)]),
       ([(0, 0)], 1, [("y", ⟨8, some 4⟩)])] ∧
    exDeepWorld.log.map (fun c => (c.sid, c.path, c.args.map (·.ref), c.res.before)) =
      [(0, [], [3], [[]]), (1, [(0, 0), (0, 0)], [6, 1, 5], [[], [10], [1]]),
       (1, [(0, 0), (1, 0)], [9, 2, 8], [[], [20], [1]]), (1, [(0, 1)], [11], [[7, 7]])] ∧
    cloneRefs exDeepWorld.inits = [5, 8] :=
  ⟨by decide, by decide, by decide, by decide⟩

/-! ## 5. inputs_untouched_nested -/

/-- The caller's mappings (every dict that exists before the history) are unchanged by any history:
inner runs get NEW state dicts, outputs are written into the run's own state.  Holds for every
configuration (with or without deep copy / per-item defaults). -/
theorem inputs_untouched_nested (deep perItemDefaults : Bool) (specs : List RunSpec) (m0 : Mem)
    (evs : List Ev) (d : Nat) (hd : d < m0.dicts.length) :
    (runHist deep specs (init m0) evs perItemDefaults).mem.dicts[d]? = m0.dicts[d]? :=
  ((KW.init m0).runHistCfg (cfg := ⟨deep, perItemDefaults⟩) (specs := specs) evs).dicts.2 d hd

/-- non-vacuity: a caller dict provides the broadcast value and the run writes outputs -/
example :
    let m0 : Mem := ⟨[[], [10], [20], [5]], [[("b", 3)]]⟩
    let g : Graph := [.sub [.fn [.default 0, .provided "x", .provided "b"] (.appendTo 2 7) "o"]
      [("b", .provided "b")] (some [[("x", 1)], [("x", 2)]]) .none ["o"]]
    let w := runSched true [⟨g, some 0, []⟩] (init m0) [(0, 0), (0, 1)]
    w.mem.dicts[0]? = some [("b", 3)] ∧ w.mem.dicts.length = 5 ∧ cell w.mem 3 = [5, 7, 7] := by
  decide

/-! ## 6. flat_embedding -/

/-- The nested model conservatively extends the flat one: running the embedded flat specs
(`ofFlat`: every node a function node) from the embedded world gives, for EVERY event list, exactly
the embedded result of `Iso.runHist` — same memory, same run states, same log (same
`rid`/`sid`/args/refs/contents, empty `path`), no inner-run starts.  (For either value of `deep`
and of `perItemDefaults`.) -/
theorem flat_embedding (deep : Bool) (specs : List Iso.RunSpec) (w : Iso.World) (evs : List Ev)
    (perItemDefaults : Bool := true) :
    runHist deep (specs.map ofFlat) (ofFlatWorld w) evs perItemDefaults =
      ofFlatWorld (Iso.runHist deep specs w evs) :=
  runHistCfg_ofFlat ⟨deep, perItemDefaults⟩ specs evs w

/-- the logs agree call by call -/
theorem flat_embedding_log (deep : Bool) (specs : List Iso.RunSpec) (m0 : Mem) (evs : List Ev) :
    (runHist deep (specs.map ofFlat) (init m0) evs).log =
      (Iso.runHist deep specs ⟨m0, [], []⟩ evs).log.map ofFlatCall := by
  have := flat_embedding deep specs ⟨m0, [], []⟩ evs
  exact congrArg World.log this

/-- non-vacuity: the C18 example history, embedded -/
example :
    let m0 : Mem := ⟨[[], [7], []], [[("y", 2)]]⟩
    let nd1 : Iso.Node := ⟨[.default 0, .bound 1, .provided "y"], .appendTo 0 5, "o"⟩
    let nd2 : Iso.Node := ⟨[.provided "o", .default 0], .appendTo 1 9, "p"⟩
    let specs : List Iso.RunSpec := [⟨[nd1, nd2], some 0, []⟩, ⟨[nd1, nd2], some 0, []⟩]
    let w := runSched true (specs.map ofFlat) (init m0) [(0, 0), (1, 0), (1, 1), (0, 1), (0, 2), (1, 2)]
    w.log.length = 4 ∧ w.log.map (fun c => c.res.after) = [[5], [5], [9], [9]] := by decide

/-! ## 7. shared_default_across_items_witness -/

/-- The PRE-REPAIR behaviour (`perItemDefaults := false`: the inner function's default is resolved
once by the outer run and shared by all items) on a well-formed situation: item 1 of a mapped sub
node receives the SAME object as item 0 (cell `3`) and sees item 0's mutation (`[7]` on entry,
returns length 2) — whereas the repaired behaviour gives every item a fresh copy and `[]`. -/
theorem shared_default_across_items_witness :
    let m0 : Mem := ⟨[[], [10], [20]], []⟩
    let g : Graph := [.sub [.fn [.default 0, .provided "x"] (.appendTo 0 7) "o"] []
      (some [[("x", 1)], [("x", 2)]]) .none ["o"]]
    let bad := runSched true [⟨g, none, []⟩] (init m0) [(0, 0), (0, 1)] (perItemDefaults := false)
    let good := runSched true [⟨g, none, []⟩] (init m0) [(0, 0), (0, 1)]
    WF [⟨g, none, []⟩] m0 ∧
    bad.log.map (fun c => (c.path, c.args.map (·.ref), c.res.before, c.res.after)) =
      [([(0, 0)], [3, 1], [[], [10]], [7]), ([(1, 0)], [3, 2], [[7], [20]], [7, 7])] ∧
    good.log.map (fun c => (c.path, c.args.map (·.ref), c.res.before, c.res.after)) =
      [([(0, 0)], [3, 1], [[], [10]], [7]), ([(1, 0)], [5, 2], [[], [20]], [7])] :=
  ⟨wfCheck_sound (by decide), by decide, by decide⟩

/-! ## adequacy of the executable entry point -/

/-- `execStepCfg` runs a top-level node with fuel `nd.depth`; more fuel never changes the result,
so the fuel is never the reason a sub node is skipped. -/
theorem fuel_suffices (cfg : Cfg) (rid sid : Nat) {f : Nat} (env : List (Ref × Ref)) (nd : Node)
    (path : Path) (st : Ref) (s : St) (h : nd.depth ≤ f) :
    execNode cfg rid sid f env path st nd s = execNode cfg rid sid nd.depth env path st nd s :=
  execNode_fuel cfg rid sid env nd path st s h

end HG.C18N
