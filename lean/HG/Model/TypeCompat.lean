/-! # HG.Model.TypeCompat — `hypergraph._typing.is_type_compatible` on a closed type universe

Mirrors `/repo/src/hypergraph/_typing.py`:
`is_type_compatible` → `_resolve_type` → `_check_identical_or_any` → `_is_typevar_compatible`
→ `_handle_union_types` (`_all_types_compatible`) → `_handle_generic_types` → `False`.

## Universe
Annotations built from the classes `int bool str float object list dict tuple`,
`collections.abc.Sequence` (also `Mapping`, `Iterable`), `typing.Any`, `NoneType`,
`hypergraph._typing.NoAnnotation`, unions (`Union[..]`, `X | Y`, `Optional[X]`), parameterised
generics (`list[int]`, `dict[str, int]`, `tuple[int, ...]`, `typing.List[int]`, …) and
`Annotated[T, meta…]`, nested to any depth.

OUTSIDE the universe (not modelled; the corresponding Python branches are noted where they sit):
`TypeVar` (incoming TypeVar ⇒ `True`; `_is_typevar_compatible`), forward references / string
annotations and `ForwardRef` (`_resolve_type`, `_evaluate_forwardref`), `Unresolvable` (warn + `True`),
`Literal[...]`, `Callable[...]`, `ParamSpec`, user-defined generic classes.

## What `_resolve_type` does inside the universe (performed by the ENCODER, not by `compat`)
`_resolve_type` is applied to both arguments at every recursion level and is idempotent.  Inside
the universe it only *re-spells* a type; the encoding (see `/tmp/ag_c19/ENCODING.md`) is taken
after that re-spelling, so `compat` starts at `_check_identical_or_any`:
* `typing.List[int]` ↦ `list[int]`, `typing.Sequence[int]` ↦ `collections.abc.Sequence[int]`
  (`origin[resolved_args]`, origin as `get_origin` returns it);
* bare `typing.List` / `typing.Dict` / `typing.Tuple` / `typing.Sequence` ↦ `list[()]` … i.e.
  `gen c []` (an alias with *zero* arguments, `==`-different from the bare class `cls c`);
* `X | Y` (`types.UnionType`) ↦ `typing.Union[X, Y]`; unions are flattened / de-duplicated by
  `typing.Union` itself, `Union[X] = X`, `None` inside a union becomes `NoneType`;
* `Annotated[T, m…]` keeps its metadata (ignored by every later step) — `annotated T`;
  `Annotated[Annotated[T, a], b]` is flattened by `typing`.
-/
namespace HG.TypeCompat

/-- Type expressions.  `args`/`ts` are in `typing.get_args` order. -/
inductive Ty
  /-- a plain class (`int`, `list`, `collections.abc.Sequence` is `"Sequence"`, …) -/
  | cls (c : String)
  /-- `typing.Any` (a *class* since Python 3.11: `isinstance(Any, type)`) -/
  | any
  /-- `NoneType` = `type(None)` — what `safe_get_type_hints`, `Optional[..]`, `Union[.., None]`,
  `X | None` and `typing.List[None]` turn `None` into -/
  | none_
  /-- the *value* `None` left un-normalised as an argument of a builtin alias: `list[None]`,
  `dict[str, None]` (`get_args(list[None]) == (None,)`; `get_type_hints` does not rewrite it) -/
  | noneLit
  /-- `Ellipsis`, second argument of `tuple[T, ...]` -/
  | ellipsis
  /-- `hypergraph._typing.NoAnnotation` (parameter / return without annotation) -/
  | noAnn
  /-- `typing.Union[ts]` (Python guarantees: ≥ 2 members, no member is a union, no duplicates) -/
  | union (ts : List Ty)
  /-- parameterised generic `origin[args]`; `args = []` for `list[()]` (= resolved `typing.List`) -/
  | gen (origin : String) (args : List Ty)
  /-- `Annotated[t, …]` (metadata dropped: nothing after `_resolve_type` looks at it, and
  `Annotated.__eq__` with different metadata falls through to the stripping rule anyway) -/
  | annotated (t : Ty)
  deriving Repr, Inhabited

namespace Ty
def isUnion : Ty → Bool
  | union _ => true
  | _ => false
def isAnnotated : Ty → Bool
  | annotated _ => true
  | _ => false
def isAny : Ty → Bool
  | any => true
  | _ => false
def isNoAnn : Ty → Bool
  | noAnn => true
  | _ => false

/-- `get_origin(t) or t` when that object is a *class* (`isinstance(·, type)`), by name.
`none` for the two non-class atoms: the value `None` (falsy ⇒ `_handle_generic_types` returns
`None` ⇒ `False`) and `Ellipsis` (truthy, not a type ⇒ compared with `!=` ⇒ `False` unless equal,
and equal was already answered by the identity test).  Unions / `Annotated` never reach the
origin test (`none` is a don't-care there). -/
def head? : Ty → Option String
  | cls c => some c
  | any => some "Any"
  | none_ => some "NoneType"
  | noAnn => some "NoAnnotation"
  | gen c _ => some c
  | _ => none

/-- `get_args(t)` for atoms and generic aliases -/
def targs : Ty → List Ty
  | gen _ xs => xs
  | _ => []
end Ty

/-! ## `issubclass` on the class names of the universe -/

/-- Strict part of Python's `issubclass` between the named classes (everything is also a subclass
of itself and of `object`; see `isSub`).  `collections.abc` ABCs as registered by CPython 3.12:
`list`, `tuple`, `str` (!) are `Sequence`s; `dict` is a `Mapping`; all five containers are
`Iterable`. -/
def strictSub : String → String → Bool
  | "bool", "int" => true
  | "list", "Sequence" => true
  | "tuple", "Sequence" => true
  | "str", "Sequence" => true
  | "dict", "Mapping" => true
  | "list", "Iterable" => true
  | "tuple", "Iterable" => true
  | "str", "Iterable" => true
  | "dict", "Iterable" => true
  | "Sequence", "Iterable" => true
  | "Mapping", "Iterable" => true
  | _, _ => false

/-- `issubclass(a, b)` for class names.  Unknown names are treated as unrelated classes deriving
from `object` only.  `"Any"`, `"NoneType"`, `"NoAnnotation"` are ordinary classes here
(`issubclass(Any, object)` is `True`, `issubclass(Any, int)` is `False`). -/
def isSub (a b : String) : Bool :=
  a == b || b == "object" || strictSub a b

/-! ## Python `==` on annotations

`_check_identical_or_any` tests `incoming_type == required_type`.  On the universe that is
structural equality EXCEPT that `typing.Union.__eq__` compares `set(args)` (member order is
irrelevant), recursively through `types.GenericAlias.__eq__` (origin and argument tuple) and
`_AnnotatedAlias.__eq__` (origin; metadata dropped here — unequal metadata only makes Python take
the `Annotated` stripping branch, which answers the same as the identity test would). -/
mutual
  def pyEq : Ty → Ty → Bool
    | .cls a, .cls b => a == b
    | .any, .any => true
    | .none_, .none_ => true
    | .noneLit, .noneLit => true
    | .ellipsis, .ellipsis => true
    | .noAnn, .noAnn => true
    | .union as, .union bs => subEq as bs && subEq bs as
    | .gen a xs, .gen b ys => a == b && listEq xs ys
    | .annotated s, .annotated t => pyEq s t
    | _, _ => false
  termination_by i r => sizeOf i + sizeOf r
  /-- every member of `as` is `==` to some member of `bs` -/
  def subEq : List Ty → List Ty → Bool
    | [], _ => true
    | a :: as, bs => memEq a bs && subEq as bs
  termination_by as bs => sizeOf as + sizeOf bs
  def memEq : Ty → List Ty → Bool
    | _, [] => false
    | a, b :: bs => pyEq a b || memEq a bs
  termination_by a bs => sizeOf a + sizeOf bs
  /-- tuple equality: same length, pointwise `==` -/
  def listEq : List Ty → List Ty → Bool
    | [], [] => true
    | x :: xs, y :: ys => pyEq x y && listEq xs ys
    | _, _ => false
  termination_by xs ys => sizeOf xs + sizeOf ys
end

/-! ## `is_type_compatible` -/

/-- `_check_identical_or_any` (its `Unresolvable` loop is outside the universe):
`incoming == required or required is Any or incoming is NoAnnotation or required is NoAnnotation`. -/
def identicalOrAny (i r : Ty) : Bool :=
  pyEq i r || r.isAny || i.isNoAnn || r.isNoAnn

/-- Origin test of `_handle_generic_types` when at most one side carries arguments:
both origins must be truthy; two classes ⇒ `issubclass`; otherwise `!=` ⇒ `False`
(the equal case never gets here).  After it, `not required_args or not incoming_args` holds,
so the answer is `True`. -/
def originOk (i r : Ty) : Bool :=
  match i.head?, r.head? with
  | some a, some b => isSub a b
  | _, _ => false

mutual
  /-- `is_type_compatible(incoming, required)`; case ORDER as in the Python.

  Quirks of the code that are visible here (each replayed on the real function by the
  cross-check / the `_witness` theorems in `HG.Props.C19Compat`):
  * Q1 `Any` is only a *top*: `required is Any` ⇒ `True`, but an incoming `Any` is handled as the
    class `typing.Any`: `Any → object` is `True` (`issubclass(Any, object)`), `Any → int`,
    `Any → list[int]`, `Any → int | str` are `False`.
  * Q2 un-parameterised INCOMING is accepted by every parameterisation whose origin is a
    superclass (`not required_args or not incoming_args`): `list → list[int]`, `dict → dict[str,int]`,
    and — because `str` is a `Sequence` — `str → Sequence[int]`.  Only "required has no args" is
    documented.
  * Q3 generic arguments are compared covariantly for every origin (`list[bool] → list[int]`,
    `dict[bool, bool] → dict[int, int]`).
  * Q4 `tuple[T, ...]` is not understood: `Ellipsis` is compared as if it were a type, so
    `tuple[int, int] → tuple[int, ...]`, `tuple[int] → tuple[int, ...]` are `False`; `tuple[()]`
    has no `get_args` and therefore behaves as un-parameterised (`tuple[()] → tuple[int, str]`).
  * Q5 the value `None` inside a builtin alias is not normalised: `list[None] → List[None]`
    (= `list[NoneType]`) is `False` both ways; `None → object` is `False`, `NoneType → object` `True`.
  * Q6 `Annotated` is NOT transparent: union handling precedes `Annotated` stripping, so an
    `Annotated` wrapper around a union is first distributed over the REQUIRED union's members:
    `Annotated[int | str, m] → int | str` is `any(int | str → int, int | str → str)` = `False`
    although `int | str → int | str` is `True` (same for `Annotated[Optional[int], m] → Optional[int]`).
  * Q7 no numeric tower: `int → float` is `False` (PEP 484 would accept it).
  * Q8 `NoAnnotation` short-circuits at every nesting level (`list[NoAnnotation] → list[int]`),
    but a union containing it does not (`int | NoAnnotation` is just a union). -/
  def compat : Ty → Ty → Bool
    | i, r =>
      -- `isinstance(incoming, TypeVar)` and `_is_typevar_compatible`: outside the universe.
      if identicalOrAny i r then true else
      match i, r with
      -- `_handle_union_types`
      | .union as, .union bs => allAnyCompat as bs   -- `_all_types_compatible`
      | .union as, r => allCompat as r
      | i, .union bs => anyCompat i bs
      -- `_handle_generic_types`: Annotated
      | .annotated i', .annotated r' => compat i' r'
      | .annotated i', r => compat i' r
      | i, .annotated r' => compat i r'
      -- `_handle_generic_types`: origin, then arguments
      | .gen a xs, .gen b ys =>
        isSub a b &&
          (ys.isEmpty || xs.isEmpty ||            -- `not required_args or not incoming_args`
            (xs.length == ys.length && zipCompat xs ys))
      | i, r => originOk i r                      -- at most one side has `get_args`
  /-- `all(any(compat a b for b in bs) for a in as)` -/
  def allAnyCompat : List Ty → List Ty → Bool
    | [], _ => true
    | a :: as, bs => anyCompat a bs && allAnyCompat as bs
  /-- `all(compat a r for a in as)` -/
  def allCompat : List Ty → Ty → Bool
    | [], _ => true
    | a :: as, r => compat a r && allCompat as r
  /-- `any(compat i b for b in bs)` -/
  def anyCompat : Ty → List Ty → Bool
    | _, [] => false
    | i, b :: bs => compat i b || anyCompat i bs
  /-- `all(compat x y for x, y in zip(xs, ys, strict=True))`; only called with equal lengths
  (arity is checked first), the ragged case (`ValueError` in Python) is unreachable. -/
  def zipCompat : List Ty → List Ty → Bool
    | [], [] => true
    | x :: xs, y :: ys => compat x y && zipCompat xs ys
    | _, _ => false
end

end HG.TypeCompat
