import HG.Model.Basic

/-! # HG.Model.Rename — rename bookkeeping of `hypergraph.nodes`

Mirrors (Python, read-only reference):

* `nodes/_rename.py`   : `RenameEntry`, `_apply_renames`, `build_reverse_rename_map`
* `nodes/_callable.py` : `_build_forward_rename_map`, `CallableMixin.map_inputs_to_params`
* `nodes/base.py`      : `HyperNode._with_renamed` (one `RenameEntry(kind, old, new, batch_id)` per
                         pair of the call's mapping, all pairs of one call share a fresh batch id;
                         every old name must be a current name; resulting names must be distinct)
* `nodes/graph_node.py`: `_resolve_original_input_name`, `map_inputs_to_params`,
                         `_original_map_params`, `map_outputs_from_original`

Python `dict`s are insertion-ordered association lists (`HG.AL`): `d[k] = v` is `AL.put`,
`d.update(e)` is `AL.merge`, `d.get(k, k)` is `look`.  A rename mapping `{old: new}` of one call is a
`Batch` (an `AL Name`; as a Python dict its keys are unique, which `ValidBatch` records).

Everything here is total, computable, and structurally recursive (or a `foldl`/`map`/`filter`). -/
namespace HG

/-- `d.get(k, dflt)` -/
def AL.getD {α : Type} (m : AL α) (k : Name) (dflt : α) : α := (AL.get? m k).getD dflt

namespace Rename

/-- `RenameEntry.kind` -/
inductive RKind
  | inputs
  | outputs
  | name
  deriving DecidableEq, Repr, Inhabited

/-- `RenameEntry(kind, old, new, batch_id)`; `batch = none` is Python `batch_id=None`
(entries made by `_apply_renames` for the constructor argument `rename_inputs=`). -/
structure Entry where
  kind : RKind
  old : Name
  new : Name
  batch : Option Nat
  deriving DecidableEq, Repr, Inhabited

/-- `node._rename_history` -/
abbrev History := List Entry

/-- the `{old: new}` mapping of one `with_inputs` / `with_outputs` / `rename_inputs=` call -/
abbrev Batch := List (Name × Name)

/-- `m.get(k, k)` -/
def look (m : AL Name) (k : Name) : Name := AL.getD m k k

/-! ## What a rename call does to the current names -/

/-- `tuple(mapping.get(v, v) for v in current)` — simultaneous substitution -/
def applyBatch (names : List Name) (batch : Batch) : List Name := names.map (look batch)

/-- current name tuple after a sequence of calls (oldest first) -/
def current (orig : List Name) (batches : List Batch) : List Name := batches.foldl applyBatch orig

/-- one call on the ground-truth table of `(original, current)` pairs -/
def trackStep (t : List (Name × Name)) (b : Batch) : List (Name × Name) :=
  t.map fun p => (p.1, look b p.2)

/-- Ground truth: for each original name its current name after the batches (oldest first),
each batch being a simultaneous substitution. -/
def track (orig : List Name) (batches : List Batch) : List (Name × Name) :=
  batches.foldl trackStep (orig.map fun n => (n, n))

/-! ## The history `_with_renamed` writes -/

/-- `for old, new in mapping.items(): history.append(RenameEntry(kind, old, new, batch_id))` -/
def entriesOf (k : RKind) (id : Option Nat) (b : Batch) : History :=
  b.map fun p => { kind := k, old := p.1, new := p.2, batch := id }

/-- history of calls tagged with explicit batch ids (the real ids come from a process-global
counter shared by all nodes, so they are distinct per call but not consecutive) -/
def historyTagged (k : RKind) (tb : List (Option Nat × Batch)) : History :=
  tb.flatMap fun x => entriesOf k x.1 x.2

/-- calls get ids `i, i+1, …` -/
def tagFrom : Nat → List Batch → List (Option Nat × Batch)
  | _, [] => []
  | i, b :: bs => (some i, b) :: tagFrom (i + 1) bs

/-- History written by successive `with_inputs` (`k = .inputs`) / `with_outputs` (`k = .outputs`)
calls with mappings `batches` (oldest first): ids `0, 1, 2, …`, entries of one call share the id. -/
def historyOf (batches : List Batch) (k : RKind) : History := historyTagged k (tagFrom 0 batches)

/-- Same, preceded by the constructor's `rename_inputs=ctor` entries, which carry `batch_id=None`
(`_apply_renames`).  All `None` entries form ONE group in `build_reverse_rename_map`
(`batches.setdefault(None, [])`), processed at the position of the first of them. -/
def historyOfCtor (ctor : Batch) (batches : List Batch) (k : RKind) : History :=
  historyTagged k ((none, ctor) :: tagFrom 0 batches)

/-! ## `build_reverse_rename_map` -/

/-- `list(dict.fromkeys(xs))`: distinct elements in order of first occurrence -/
def dedup : List (Option Nat) → List (Option Nat)
  | [] => []
  | a :: t => a :: (dedup t).filter (fun b => b != a)

/-- `dict.fromkeys(e.batch_id for e in entries)` -/
def batchIds (es : List Entry) : List (Option Nat) := dedup (es.map (·.batch))

/-- `batches[batch_id]` : all entries carrying that id, in history order -/
def entriesWithId (es : List Entry) (id : Option Nat) : List Entry :=
  es.filter (fun e => e.batch = id)

/-- The common skeleton of both map builders: filter by kind, group by batch id, process the groups
in order of first occurrence, each group seeing the map state before the group. -/
def processGroups (G : AL Name → List Entry → AL Name) (h : History) (k : RKind) : AL Name :=
  let es := h.filter (fun e => e.kind = k)
  (batchIds es).foldl (fun m id => G m (entriesWithId es id)) []

/-- `batch_updates = {}; for entry in batch_entries:
      batch_updates[entry.new] = reverse_map.get(entry.old, entry.old)` -/
def revUpdates (m : AL Name) (es : List Entry) : AL Name :=
  es.foldl (fun u e => AL.put u e.new (look m e.old)) []

/-- `reverse_map.update(batch_updates)` — nothing is ever deleted, so entries for names that are
no longer current stay in the map (stale entries). -/
def revGroup (m : AL Name) (es : List Entry) : AL Name := AL.merge m (revUpdates m es)

/-- `build_reverse_rename_map(history, kind)` : current name ↦ original name -/
def reverseMap (h : History) (k : RKind) : AL Name := processGroups revGroup h k

/-! ## `_build_forward_rename_map` -/

/-- `next((k for k, v in rename_map.items() if v == x), None)` -/
def keyOfVal : AL Name → Name → Option Name
  | [], _ => none
  | (k, v) :: t, x => if v = x then some k else keyOfVal t x

/-- `batch_updates[next((k for k, v in rename_map.items() if v == entry.old), entry.old)] = entry.new` -/
def fwdUpdates (m : AL Name) (es : List Entry) : AL Name :=
  es.foldl (fun u e => AL.put u ((keyOfVal m e.old).getD e.old) e.new) []

def fwdGroup (m : AL Name) (es : List Entry) : AL Name := AL.merge m (fwdUpdates m es)

/-- the builder of `_callable.py` with the kind as a parameter (Python hard-codes `"inputs"`) -/
def forwardMapK (h : History) (k : RKind) : AL Name := processGroups fwdGroup h k

/-- `_build_forward_rename_map(history)` : original parameter ↦ current input name -/
def forwardMap (h : History) : AL Name := forwardMapK h .inputs

/-! ## Users of the maps -/

/-- repaired `GraphNode._resolve_original_input_name`: `reverse_map.get(param, param)` -/
def resolveOriginal (h : History) (p : Name) : Name := AL.getD (reverseMap h .inputs) p p

/-- the OLD resolver: `current = p; for entry in reversed(history):
      if entry.kind == "inputs" and entry.new == current: current = entry.old` -/
def resolveOriginalOld (h : History) (p : Name) : Name :=
  h.reverse.foldl (fun cur e => if e.kind = .inputs ∧ e.new = cur then e.old else cur) p

/-- `{reverse_map.get(key, key): value for key, value in inputs.items()}`
(`map_inputs_to_params` of `CallableMixin` and of `GraphNode`; the early return
`if not reverse_map: return inputs` is the same function when the map is empty and the keys of
`inputs` are distinct) -/
def mapInputsToParams {α : Type} (h : History) (inputs : AL α) : AL α :=
  inputs.foldl (fun acc kv => AL.put acc (look (reverseMap h .inputs) kv.1) kv.2) []

/-- `GraphNode._original_map_params` / `_original_clone`: `[reverse_map.get(p, p) for p in map_over]` -/
def originalMapParams (h : History) (mapOver : List Name) : List Name :=
  mapOver.map (resolveOriginal h)

/-- repaired `map_outputs_from_original` forward map:
`{reverse_map.get(current, current): current for current in self.outputs}` -/
def outputsForward (h : History) (currentOutputs : List Name) : AL Name :=
  currentOutputs.foldl (fun acc c => AL.put acc (look (reverseMap h .outputs) c) c) []

/-- the OLD forward map: `{v: k for k, v in reverse_map.items()}` (later items overwrite) -/
def outputsForwardOld (h : History) : AL Name :=
  (reverseMap h .outputs).foldl (fun acc kv => AL.put acc kv.2 kv.1) []

/-- `{forward_map.get(key, key): value for key, value in outputs.items()}` -/
def mapOutputsFromOriginal {α : Type} (h : History) (currentOutputs : List Name)
    (outputs : AL α) : AL α :=
  outputs.foldl (fun acc kv => AL.put acc (look (outputsForward h currentOutputs) kv.1) kv.2) []

/-! ## Validity: what `_with_renamed` accepts -/

/-- One `_with_renamed(attr, mapping)` call is accepted on the current names `cur` iff
* every key of the mapping is a current name (`if old not in current: raise`),
* the keys are distinct (the mapping is a Python dict),
* the resulting names are pairwise distinct (`_check_rename_duplicates`).
Identity pairs `{x: x}` and the empty mapping are accepted. -/
def ValidBatch (cur : List Name) (b : Batch) : Prop :=
  (∀ p ∈ b, p.1 ∈ cur) ∧ (b.map (·.1)).Nodup ∧ (applyBatch cur b).Nodup

def ValidFrom : List Name → List Batch → Prop
  | _, [] => True
  | cur, b :: bs => ValidBatch cur b ∧ ValidFrom (applyBatch cur b) bs

/-- the original names are distinct (parameters of a function / inputs of a graph) and every call
is accepted at the point where it is made -/
def Valid (orig : List Name) (batches : List Batch) : Prop :=
  orig.Nodup ∧ ValidFrom orig batches

instance (cur : List Name) (b : Batch) : Decidable (ValidBatch cur b) := by
  unfold ValidBatch; exact inferInstance

instance decValidFrom : (cur : List Name) → (bs : List Batch) → Decidable (ValidFrom cur bs)
  | _, [] => isTrue trivial
  | cur, b :: bs =>
    have := decValidFrom (applyBatch cur b) bs
    (inferInstance : Decidable (ValidBatch cur b ∧ ValidFrom (applyBatch cur b) bs))

instance (orig : List Name) (bs : List Batch) : Decidable (Valid orig bs) := by
  unfold Valid; exact inferInstance

/-- Boolean form for the driver -/
def validB (orig : List Name) (bs : List Batch) : Bool := decide (Valid orig bs)

end Rename
end HG
