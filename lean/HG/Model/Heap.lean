import HG.Model.Basic
/-! # HG.Model.Heap — explicit heap model of object derivation (C07) and run isolation (C18)

## Part 1 (`HG.Heap`): `Graph` / `HyperNode` derivation operations as heap transformers

Python objects are heap cells addressed by `Ref` (an index; allocation appends).  Every derivation
operation of `graph/core.py`, `nodes/base.py`, `nodes/graph_node.py` is mirrored statement by
statement as a sequence of three primitives:

* `alloc h o`          — a constructor call / `copy.copy` / `dict(..)` / `list(..)` / `{**a, **b}`;
* `write h i o`        — attribute assignment `obj.f = v` or in-place container mutation
                         (`clone._rename_history.append(..)`); the index is always obtained by
                         looking the field up in the *clone*, never stored on the side, so a model
                         that wrongly shared a container would write into the original;
* `fillInputs/fillHash/fillDefaults` — the lazily filled caches (`functools.cached_property inputs`,
                         `_cached_hash`, `CallableMixin.defaults`).

What is fresh and what is shared (read off the Python):

| Python                                   | fresh                                    | shared with the receiver |
|------------------------------------------|------------------------------------------|--------------------------|
| `Graph._shallow_copy`                    | graph object, `_bound` dict              | `_nodes` (hence every node), `_nx_graph`, `_selected`, `_entrypoints`, `_cached_hash`, `self_producers`, `sole_producers`, `_controlled_by`; `inputs` cache entry DROPPED |
| `bind` / `unbind`                        | + a second fresh dict that replaces the first | as above            |
| `select` / `with_entrypoint`             | as `_shallow_copy`                       | as above                 |
| `add_nodes(*ns)` (`ns` non-empty)        | whole new `Graph` (+ `dict(self._bound)`, + a `_shallow_copy` if a selection is replayed) | node objects; entry points are NOT replayed |
| `add_nodes()`                            | nothing: returns `self`                  | —                        |
| `as_node`                                | `GraphNode`, `[]` history                | the graph (`_graph`); reads `graph.inputs` (fills the receiver's cache) |
| `HyperNode._copy`                        | node object, `_rename_history` list; all `cached_property` entries cleared | everything else (immutable) |
| `GraphNode._copy`                        | node object, history list, `_map_over` list (if set), `_clone` list (if a list); no cache clearing (class has no cached properties) | `_graph` |
| `_with_renamed`                          | `_copy`, then appends to the CLONE's history and `setattr`s the clone | |
| `GraphNode.with_inputs`                  | + new `_map_over` / `_clone` lists replacing the copied ones | |
| `map_over`                               | `_copy` + new `list(params)` (+ `list(clone)`) | |

Allocation order follows the Python statement order; consequently a freshly copied object may
point *forward* to a container allocated after it (`new._bound = {..}`), while graph→node and
node→inner-graph references always point backward (the referent exists before the constructor /
copy runs).  `observe` recurses only along backward graph/node references.

Not modelled: validation errors (an operation that raises returns no object; the driver only sends
valid operations), `name`, `strict_types`, `_map_mode`, `_error_handling` (immutable scalars),
`_nx_graph`, `self_producers`, `sole_producers`, `_controlled_by` (functions of `_nodes` only — they
are covered by the `cacheHash` slot, which has the same dependency set).

No Mathlib (linked into the driver). -/
namespace HG
namespace Heap

abbrev Ref := Nat

/-- `RenameEntry(kind, old, new, batch_id)` -/
structure Hist where
  kind : Name
  old : Name
  new : Name
  batch : Nat
  deriving DecidableEq, Repr, Inhabited

/-- The public observation: a deep, reference-free value.  `cons`/`nil` chains encode lists so that
the type is a plain inductive (derivable `DecidableEq`).  `bad` marks a dangling / ill-typed /
forward reference, `none` an absent optional (`_map_over is None`, function node has no inner graph). -/
inductive Obs
  | bad
  | none
  | nil
  | cons (h t : Obs)
  | dict (m : AL Val)
  | hist (l : List Hist)
  | names (l : List Name)
  | graph (nodes bound : Obs) (selected entry : Option (List Name))
  | node (name : Name) (inputs outputs : List Name) (history mapOver clone inner : Obs)
  deriving DecidableEq, Repr, Inhabited

namespace Obs
def ofList : List Obs → Obs
  | [] => .nil
  | o :: os => .cons o (ofList os)
def toList : Obs → List Obs
  | .cons h t => h :: toList t
  | _ => []
/-- The part of an observation the definition hash depends on: node names / inputs / outputs,
recursively through inner graphs.  Bindings, selection, entry points, rename history and map
configuration are erased (`_compute_definition_hash`: "Hash excludes: Bindings"; it reads
`self._nodes` and `self._nx_graph` only, and a `GraphNode` hashes as its inner graph). -/
def skel : Obs → Obs
  | .bad => .bad
  | .none => .none
  | .nil => .nil
  | .cons h t => .cons (skel h) (skel t)
  | .dict m => .dict m
  | .hist l => .hist l
  | .names l => .names l
  | .graph ns _ _ _ => .graph (skel ns) .none .none .none
  | .node nm i o _ _ _ inner => .node nm i o .none .none .none (skel inner)
/-- no dangling reference anywhere -/
def ok : Obs → Bool
  | .bad => false
  | .cons h t => ok h && ok t
  | .graph ns b _ _ => ok ns && ok b
  | .node _ _ _ hi mo cl inner => ok hi && ok mo && ok cl && ok inner
  | _ => true
end Obs

/-- Content of a cache slot: a digest of the observation it was computed from. -/
inductive Summary
  | inputs (o : Obs)      -- `Graph.inputs` (depends on nodes, bound, selected, entrypoints)
  | hash (o : Obs)        -- `Graph._cached_hash` (depends on the skeleton only)
  | defaults (o : Obs)    -- `CallableMixin.defaults` / `parameter_annotations` (depend on the rename history)
  deriving DecidableEq, Repr, Inhabited

inductive Obj
  | graph (nodes : List Ref) (bound : Ref) (selected entry : Option (List Name))
      (cacheInputs cacheHash : Option Summary)
  | node (name : Name) (inputs outputs : List Name) (history : Ref) (mapOver clone : Option Ref)
      (inner : Option Ref) (cacheDefaults : Option Summary)
  | dict (m : AL Val)
  | hist (l : List Hist)
  | names (l : List Name)
  deriving DecidableEq, Repr, Inhabited

/-- `batch` is the process-global `_batch_counter` of `nodes/_rename.py`. -/
structure Heap where
  objs : List Obj
  batch : Nat := 0
  deriving DecidableEq, Repr, Inhabited

namespace Obj
/-- the object with every cache slot emptied -/
def erase : Obj → Obj
  | .graph ns b s e _ _ => .graph ns b s e .none .none
  | .node nm i o hi mo cl inn _ => .node nm i o hi mo cl inn .none
  | o => o
def optRef : Option Ref → List Ref
  | .none => []
  | some r => [r]
/-- references along which `observe` recurses (must point backward) -/
def recRefs : Obj → List Ref
  | .graph ns _ _ _ _ _ => ns
  | .node _ _ _ _ _ _ inn _ => optRef inn
  | _ => []
/-- references to leaf containers (dict / history / name lists) -/
def leafRefs : Obj → List Ref
  | .graph _ b _ _ _ _ => [b]
  | .node _ _ _ hi mo cl _ _ => hi :: (optRef mo ++ optRef cl)
  | _ => []
end Obj

/-! ### primitives -/
def alloc (h : Heap) (o : Obj) : Heap × Ref := ({ h with objs := h.objs ++ [o] }, h.objs.length)
def write (h : Heap) (i : Ref) (o : Obj) : Heap := { h with objs := h.objs.set i o }

def leaf (h : Heap) (c : Ref) : Obs :=
  match h.objs[c]? with
  | some (.dict m) => .dict m
  | some (.hist l) => .hist l
  | some (.names l) => .names l
  | _ => .bad
def leafOpt (h : Heap) : Option Ref → Obs
  | .none => .none
  | some c => leaf h c
def dictAt (h : Heap) (c : Ref) : AL Val := match h.objs[c]? with | some (.dict m) => m | _ => []
def histAt (h : Heap) (c : Ref) : List Hist := match h.objs[c]? with | some (.hist l) => l | _ => []
def namesAt (h : Heap) (c : Ref) : List Name := match h.objs[c]? with | some (.names l) => l | _ => []

/-- Fuelled observation.  Recursion only along backward graph→node / node→inner-graph references
(`c < r`), so fuel `r + 1` is never exhausted (`observeF_eq`).  Cache slots are ignored. -/
def observeF : Nat → Heap → Ref → Obs
  | 0, _, _ => .bad
  | n + 1, h, r =>
    match h.objs[r]? with
    | .none => .bad
    | some (.dict m) => .dict m
    | some (.hist l) => .hist l
    | some (.names l) => .names l
    | some (.graph ns b s e _ _) =>
      .graph (Obs.ofList (ns.map fun c => if c < r then observeF n h c else .bad)) (leaf h b) s e
    | some (.node nm i o hi mo cl inn _) =>
      .node nm i o (leaf h hi) (leafOpt h mo) (leafOpt h cl)
        (match inn with
         | .none => .none
         | some g => if g < r then observeF n h g else .bad)

/-- the public observation of the object at `r` -/
def observe (h : Heap) (r : Ref) : Obs := observeF (r + 1) h r

def summInputs (h : Heap) (r : Ref) : Summary := .inputs (observe h r)
def summHash (h : Heap) (r : Ref) : Summary := .hash (observe h r).skel
def summDefaults (h : Heap) (r : Ref) : Summary := .defaults (observe h r)

/-! ### cache reads (may WRITE the receiver's cache slot) -/
/-- `functools.cached_property inputs`: compute and store unless already stored -/
def fillInputs (h : Heap) (g : Ref) : Heap :=
  match h.objs[g]? with
  | some (.graph ns b s e .none ch) => write h g (.graph ns b s e (some (summInputs h g)) ch)
  | _ => h
/-- `definition_hash`: `if self._cached_hash is None: self._cached_hash = ...` -/
def fillHash (h : Heap) (g : Ref) : Heap :=
  match h.objs[g]? with
  | some (.graph ns b s e ci .none) => write h g (.graph ns b s e ci (some (summHash h g)))
  | _ => h
/-- `CallableMixin.defaults` (function nodes only: `GraphNode` has no cached property) -/
def fillDefaults (h : Heap) (n : Ref) : Heap :=
  match h.objs[n]? with
  | some (.node nm i o hi mo cl .none .none) =>
    write h n (.node nm i o hi mo cl .none (some (summDefaults h n)))
  | _ => h

/-- visit the inner graph of every nested `GraphNode` among `ns` (nodes of the graph at `g`) -/
def readNested (f : Heap → Ref → Heap) (g : Ref) (h : Heap) (ns : List Ref) : Heap :=
  ns.foldl (fun (h : Heap) (c : Ref) =>
    match h.objs[c]? with
    | some (.node _ _ _ _ _ _ (some ig) _) => if c < g ∧ ig < c then f h ig else h
    | _ => h) h

/-- `graph.inputs`: `compute_input_spec` → `_collect_bound_values` reads `node.graph.inputs.bound` of
every nested `GraphNode`, i.e. it first fills the inner graphs' caches (recursively), then its own.
(Python visits only the ACTIVE nested nodes; the model visits all — cache slots are unobservable.) -/
def readInputsF : Nat → Heap → Ref → Heap
  | 0, h, _ => h
  | n + 1, h, g =>
    match h.objs[g]? with
    | some (.graph ns _ _ _ .none _) => fillInputs (readNested (readInputsF n) g h ns) g
    | _ => h
def readInputsH (h : Heap) (g : Ref) : Heap := readInputsF (g + 1) h g
def cachedInputs (h : Heap) (g : Ref) : Summary :=
  match h.objs[g]? with
  | some (.graph _ _ _ _ (some s) _) => s
  | _ => summInputs h g
/-- read `graph.inputs`: new heap (caches filled) and the value read -/
def readInputs (h : Heap) (g : Ref) : Heap × Summary :=
  let h' := readInputsH h g
  (h', cachedInputs h' g)

/-- `graph.definition_hash`: hashes every node's `definition_hash`; a `GraphNode`'s is its inner
graph's `definition_hash` (cached there). -/
def readHashF : Nat → Heap → Ref → Heap
  | 0, h, _ => h
  | n + 1, h, g =>
    match h.objs[g]? with
    | some (.graph ns _ _ _ _ .none) => fillHash (readNested (readHashF n) g h ns) g
    | _ => h
def readHashH (h : Heap) (g : Ref) : Heap := readHashF (g + 1) h g
def cachedHash (h : Heap) (g : Ref) : Summary :=
  match h.objs[g]? with
  | some (.graph _ _ _ _ _ (some s)) => s
  | _ => summHash h g
def readHash (h : Heap) (g : Ref) : Heap × Summary :=
  let h' := readHashH h g
  (h', cachedHash h' g)

def readDefaults (h : Heap) (n : Ref) : Heap := fillDefaults h n

/-! ### field assignment on an object (`obj.f = v`) -/
def setBound (h : Heap) (r d : Ref) : Heap :=
  match h.objs[r]? with
  | some (.graph ns _ s e ci ch) => write h r (.graph ns d s e ci ch)
  | _ => h
def setSelected (h : Heap) (r : Ref) (s : Option (List Name)) : Heap :=
  match h.objs[r]? with
  | some (.graph ns b _ e ci ch) => write h r (.graph ns b s e ci ch)
  | _ => h
def setEntry (h : Heap) (r : Ref) (e : Option (List Name)) : Heap :=
  match h.objs[r]? with
  | some (.graph ns b s _ ci ch) => write h r (.graph ns b s e ci ch)
  | _ => h
/-- `obj.__dict__.pop("inputs", None)` -/
def dropInputsCache (h : Heap) (r : Ref) : Heap :=
  match h.objs[r]? with
  | some (.graph ns b s e _ ch) => write h r (.graph ns b s e .none ch)
  | _ => h
def setHistory (h : Heap) (r hi : Ref) : Heap :=
  match h.objs[r]? with
  | some (.node nm i o _ mo cl inn cd) => write h r (.node nm i o hi mo cl inn cd)
  | _ => h
def setMapOver (h : Heap) (r : Ref) (mo : Option Ref) : Heap :=
  match h.objs[r]? with
  | some (.node nm i o hi _ cl inn cd) => write h r (.node nm i o hi mo cl inn cd)
  | _ => h
def setClone (h : Heap) (r : Ref) (cl : Option Ref) : Heap :=
  match h.objs[r]? with
  | some (.node nm i o hi mo _ inn cd) => write h r (.node nm i o hi mo cl inn cd)
  | _ => h
def setName (h : Heap) (r : Ref) (nm : Name) : Heap :=
  match h.objs[r]? with
  | some (.node _ i o hi mo cl inn cd) => write h r (.node nm i o hi mo cl inn cd)
  | _ => h
def setInputs (h : Heap) (r : Ref) (i : List Name) : Heap :=
  match h.objs[r]? with
  | some (.node nm _ o hi mo cl inn cd) => write h r (.node nm i o hi mo cl inn cd)
  | _ => h
def setOutputs (h : Heap) (r : Ref) (o : List Name) : Heap :=
  match h.objs[r]? with
  | some (.node nm i _ hi mo cl inn cd) => write h r (.node nm i o hi mo cl inn cd)
  | _ => h
/-- `_invalidate_cached_properties(obj)` -/
def dropNodeCache (h : Heap) (r : Ref) : Heap :=
  match h.objs[r]? with
  | some (.node nm i o hi mo cl inn _) => write h r (.node nm i o hi mo cl inn .none)
  | _ => h
/-- `obj._rename_history.append(e)` for each `e`: IN-PLACE mutation of the list the object's
`history` field points to -/
def appendHistory (h : Heap) (r : Ref) (es : List Hist) : Heap :=
  match h.objs[r]? with
  | some (.node _ _ _ hi _ _ _ _) =>
    (match h.objs[hi]? with
     | some (.hist l) => write h hi (.hist (l ++ es))
     | _ => h)
  | _ => h
def nextBatch (h : Heap) : Heap × Nat := ({ h with batch := h.batch + 1 }, h.batch)

/-! ### Graph derivation operations -/

/-- `Graph._shallow_copy`: `copy.copy(self)` (every field shared, both hash cache and inputs cache
copied), then `new._bound = dict(self._bound)` (fresh dict), then `__dict__.pop("inputs")`. -/
def shallowCopy (h : Heap) (g : Ref) : Heap × Ref :=
  match h.objs[g]? with
  | some (.graph ns b s e ci ch) =>
    let (h1, g') := alloc h (.graph ns b s e ci ch)         -- copy.copy(self)
    let (h2, d) := alloc h1 (.dict (dictAt h b))             -- dict(self._bound)
    let h3 := setBound h2 g' d                               -- new_graph._bound = ...
    (dropInputsCache h3 g', g')                              -- new_graph.__dict__.pop("inputs", None)
  | _ => (h, g)

/-- `bind(**values)`: reads `self.inputs` (validation) — fills the RECEIVER's cache —, then
`_shallow_copy`, then `new._bound = {**self._bound, **values}` (a second fresh dict). -/
def bind (h : Heap) (g : Ref) (kvs : AL Val) : Heap × Ref :=
  match h.objs[g]? with
  | some (.graph _ b _ _ _ _) =>
    let h0 := readInputsH h g
    let (h1, g') := shallowCopy h0 g
    let (h2, d) := alloc h1 (.dict (AL.merge (dictAt h0 b) kvs))
    (setBound h2 g' d, g')
  | _ => (h, g)

/-- THE CLASSIC BUG (negative witness only): `copy.copy` without the fresh dict, then
`new._bound.update(values)` — writes into the dict the receiver still points to. -/
def bindAliasing (h : Heap) (g : Ref) (kvs : AL Val) : Heap × Ref :=
  match h.objs[g]? with
  | some (.graph ns b s e _ ch) =>
    let (h1, g') := alloc h (.graph ns b s e .none ch)
    (write h1 b (.dict (AL.merge (dictAt h b) kvs)), g')
  | _ => (h, g)

/-- `unbind(*keys)`: `_shallow_copy`, then `new._bound = {k: v for ... if k not in keys}` -/
def unbind (h : Heap) (g : Ref) (keys : List Name) : Heap × Ref :=
  match h.objs[g]? with
  | some (.graph _ b _ _ _ _) =>
    let (h1, g') := shallowCopy h g
    let (h2, d) := alloc h1 (.dict ((dictAt h b).filter fun kv => !keys.contains kv.1))
    (setBound h2 g' d, g')
  | _ => (h, g)

/-- `select(*names)`: `_shallow_copy`, `new._selected = names` -/
def select (h : Heap) (g : Ref) (names : List Name) : Heap × Ref :=
  match h.objs[g]? with
  | some (.graph _ _ _ _ _ _) =>
    let (h1, g') := shallowCopy h g
    (setSelected h1 g' (some names), g')
  | _ => (h, g)

def dedupNames : List Name → List Name
  | [] => []
  | x :: xs => x :: (dedupNames xs).filter (· != x)

/-- `with_entrypoint(*names)`: `_shallow_copy`,
`new._entrypoints = tuple(dict.fromkeys(existing + names))` -/
def withEntrypoint (h : Heap) (g : Ref) (names : List Name) : Heap × Ref :=
  match h.objs[g]? with
  | some (.graph _ _ _ e _ _) =>
    let (h1, g') := shallowCopy h g
    (setEntry h1 g' (some (dedupNames (e.getD [] ++ names))), g')
  | _ => (h, g)

def isNode (h : Heap) (c : Ref) : Bool :=
  match h.objs[c]? with
  | some (.node ..) => true
  | _ => false
def isGraph (h : Heap) (c : Ref) : Bool :=
  match h.objs[c]? with
  | some (.graph ..) => true
  | _ => false

/-- `add_nodes(*nodes)`: a `_shallow_copy` when called with no nodes; otherwise `Graph(all_nodes)`
(`__init__`: `_bound = {}`, no selection, no entry points, empty caches), and replays the bindings
(`new_graph.inputs` is read for validation, `_bound = dict(self._bound)`, inputs cache popped) and
the selection (`new_graph.select(..)` → a further `_shallow_copy`).  Entry points are NOT replayed.
Non-node arguments (a Python type error) are ignored.
Order: reading `new_graph.inputs` first fills the `inputs` caches of the inner graphs of nested
`GraphNode`s — all pre-existing objects, whose digests cannot depend on the new graph — so the model
performs these nested fills before allocating the new graph (same final heap). -/
def addNodes (h : Heap) (g : Ref) (ns : List Ref) : Heap × Ref :=
  match h.objs[g]? with
  | some (.graph nodes b sel _ _ _) =>
    if ns = [] then shallowCopy h g else
    let all := nodes ++ ns.filter (isNode h)
    let replayBound := !(dictAt h b).isEmpty                         -- `if self._bound:`
    let h0 := if replayBound then readNested readInputsH h.objs.length h all else h
    let (h1, G) := alloc h0 (.graph all (h0.objs.length + 1) .none .none .none .none) -- Graph(all_nodes)
    let (h2, _) := alloc h1 (.dict [])                               -- self._bound = {}
    let h5 :=
      if replayBound then
        let h3 := fillInputs h2 G                                    -- new_graph.inputs.all
        let (h4, d1) := alloc h3 (.dict (dictAt h b))                -- dict(self._bound)
        dropInputsCache (setBound h4 G d1) G                         -- pop("inputs")
      else h2
    match sel with
    | .none => (h5, G)
    | some names => select h5 G names
  | _ => (h, g)

def nodeInputs (h : Heap) (c : Ref) : List Name :=
  match h.objs[c]? with | some (.node _ i _ _ _ _ _ _) => i | _ => []
def nodeOutputs (h : Heap) (c : Ref) : List Name :=
  match h.objs[c]? with | some (.node _ _ o _ _ _ _ _) => o | _ => []
/-- `graph.selected if graph.selected is not None else graph.outputs` -/
def graphOutputs (h : Heap) (ns : List Ref) (sel : Option (List Name)) : List Name :=
  sel.getD (dedupNames (ns.flatMap (nodeOutputs h)))
/-- `graph.inputs.all` for the simple case (no defaults, no selection / entry-point narrowing, no
cycles): parameters no node produces; unbound (required) first, then bound (optional). -/
def graphInputsAll (h : Heap) (ns : List Ref) (bound : AL Val) : List Name :=
  let produced := ns.flatMap (nodeOutputs h)
  let free := (dedupNames (ns.flatMap (nodeInputs h))).filter fun p => !produced.contains p
  free.filter (fun p => !AL.has bound p) ++ free.filter (fun p => AL.has bound p)

/-- `as_node(name=..)` = `GraphNode(self, name)`: `_graph = graph` (SHARED), `_rename_history = []`,
`_map_over = None`, `_clone = False`, `inputs = graph.inputs.all` (reads — and caches — the
receiver's `inputs`), `outputs = graph.selected or graph.outputs` (value snapshots). -/
def asNode (h : Heap) (g : Ref) (name : Name) : Heap × Ref :=
  match h.objs[g]? with
  | some (.graph ns b sel _ _ _) =>
    let h0 := readInputsH h g                                   -- graph.inputs.all
    let (h1, c) := alloc h0 (.node name (graphInputsAll h0 ns (dictAt h0 b)) (graphOutputs h0 ns sel)
      (h0.objs.length + 1) .none .none (some g) .none)             -- the GraphNode object
    let (h2, _) := alloc h1 (.hist [])                             -- self._rename_history = []
    (h2, c)
  | _ => (h, g)

/-! ### Node derivation operations -/

/-- `HyperNode._copy` (function-like nodes) / `GraphNode._copy` (override).
Both: `copy.copy(self)` then `clone._rename_history = list(self._rename_history)`.
Base class: `_invalidate_cached_properties(clone)`.
`GraphNode`: `_map_over` / `_clone` re-pointed to fresh copies if they are lists; nothing cleared. -/
def copyNode (h : Heap) (n : Ref) : Heap × Ref :=
  match h.objs[n]? with
  | some (.node nm i o hi mo cl inn cd) =>
    let (h1, c) := alloc h (.node nm i o hi mo cl inn cd)        -- copy.copy(self)
    let (h2, hi') := alloc h1 (.hist (histAt h hi))              -- list(self._rename_history)
    let h3 := setHistory h2 c hi'
    match inn with
    | .none => (dropNodeCache h3 c, c)                           -- _invalidate_cached_properties
    | some _ =>
      let h4 := match mo with
        | .none => h3
        | some m => let (h', m') := alloc h3 (.names (namesAt h m)); setMapOver h' c (some m')
      let h5 := match cl with
        | .none => h4
        | some m => let (h', m') := alloc h4 (.names (namesAt h m)); setClone h' c (some m')
      (h5, c)
  | _ => (h, n)

def nodeName (h : Heap) (c : Ref) : Name :=
  match h.objs[c]? with | some (.node nm _ _ _ _ _ _ _) => nm | _ => ""
def nodeMapOver (h : Heap) (c : Ref) : Option Ref :=
  match h.objs[c]? with | some (.node _ _ _ _ mo _ _ _) => mo | _ => .none
def nodeClone (h : Heap) (c : Ref) : Option Ref :=
  match h.objs[c]? with | some (.node _ _ _ _ _ cl _ _) => cl | _ => .none

/-- a Python `dict` built from pairs (last value of a repeated key wins, first position kept) -/
def mkDict (pairs : List (Name × Name)) : AL Name := AL.merge [] pairs
def renameAll (m : AL Name) (l : List Name) : List Name := l.map fun v => (AL.get? m v).getD v

/-- `with_name(name)` = `_with_renamed("name", {self.name: name})`: `_copy`, `get_next_batch_id()`,
and if the name changes: append to the clone's history, `clone.name = new`. -/
def withName (h : Heap) (n : Ref) (name : Name) : Heap × Ref :=
  match h.objs[n]? with
  | some (.node ..) =>
    let (h1, c) := copyNode h n
    let (h2, bid) := nextBatch h1
    let old := nodeName h2 c
    if old = name then (h2, c)
    else (setName (appendHistory h2 c [⟨"name", old, name, bid⟩]) c name, c)
  | _ => (h, n)

/-- `_with_renamed(attr, mapping)` for a tuple attribute -/
def withRenamedTuple (h : Heap) (n : Ref) (attr : Name) (m : AL Name) : Heap × Ref :=
  let (h1, c) := copyNode h n
  let (h2, bid) := nextBatch h1
  let h3 := appendHistory h2 c (m.map fun kv => ⟨attr, kv.1, kv.2, bid⟩)
  if attr = "inputs" then (setInputs h3 c (renameAll m (nodeInputs h3 c)), c)
  else (setOutputs h3 c (renameAll m (nodeOutputs h3 c)), c)

/-- `with_inputs(mapping)`.  Empty mapping: just `_copy()`.  `GraphNode` override: additionally
`renamed._map_over = [combined.get(p, p) for p in renamed._map_over]` (a NEW list replacing the
copied one) and the same for a `_clone` list. -/
def withInputs (h : Heap) (n : Ref) (pairs : List (Name × Name)) : Heap × Ref :=
  match h.objs[n]? with
  | some (.node _ _ _ _ _ _ inn _) =>
    let m := mkDict pairs
    if m = [] then copyNode h n else
    let (h1, c) := withRenamedTuple h n "inputs" m
    match inn with
    | .none => (h1, c)
    | some _ =>
      let h2 := match nodeMapOver h1 c with
        | .none => h1
        | some mo => let (h', mo') := alloc h1 (.names (renameAll m (namesAt h1 mo))); setMapOver h' c (some mo')
      let h3 := match nodeClone h2 c with
        | .none => h2
        | some cl => let (h', cl') := alloc h2 (.names (renameAll m (namesAt h2 cl))); setClone h' c (some cl')
      (h3, c)
  | _ => (h, n)

/-- `with_outputs(mapping)` (not overridden by `GraphNode`) -/
def withOutputs (h : Heap) (n : Ref) (pairs : List (Name × Name)) : Heap × Ref :=
  match h.objs[n]? with
  | some (.node ..) =>
    let m := mkDict pairs
    if m = [] then copyNode h n else withRenamedTuple h n "outputs" m
  | _ => (h, n)

/-- `GraphNode.map_over(*params, clone=..)`: `_copy()`, `new._map_over = list(params)`,
`new._clone = list(clone) if isinstance(clone, list) else clone`.  (`cloneArg = none` is a bool.) -/
def mapOver (h : Heap) (n : Ref) (params : List Name) (cloneArg : Option (List Name)) : Heap × Ref :=
  match h.objs[n]? with
  | some (.node _ _ _ _ _ _ (some _) _) =>
    let (h1, c) := copyNode h n
    let (h2, mo) := alloc h1 (.names params)
    let h3 := setMapOver h2 c (some mo)
    match cloneArg with
    | .none => (setClone h3 c .none, c)
    | some l => let (h4, cl) := alloc h3 (.names l); (setClone h4 c (some cl), c)
  | _ => (h, n)

/-! ### operation sequences -/
inductive Op
  | bind (g : Ref) (kvs : AL Val)
  | unbind (g : Ref) (keys : List Name)
  | select (g : Ref) (names : List Name)
  | withEntrypoint (g : Ref) (names : List Name)
  | addNodes (g : Ref) (ns : List Ref)
  | asNode (g : Ref) (name : Name)
  | withName (n : Ref) (name : Name)
  | withInputs (n : Ref) (pairs : List (Name × Name))
  | withOutputs (n : Ref) (pairs : List (Name × Name))
  | mapOver (n : Ref) (params : List Name) (cloneArg : Option (List Name))
  | readInputs (g : Ref)
  | readHash (g : Ref)
  | readDefaults (n : Ref)
  deriving DecidableEq, Repr, Inhabited

/-- run one operation: new heap and result reference (a read returns its receiver) -/
def Op.run (h : Heap) : Op → Heap × Ref
  | .bind g kvs => Heap.bind h g kvs
  | .unbind g ks => Heap.unbind h g ks
  | .select g ns => Heap.select h g ns
  | .withEntrypoint g ns => Heap.withEntrypoint h g ns
  | .addNodes g ns => Heap.addNodes h g ns
  | .asNode g nm => Heap.asNode h g nm
  | .withName n nm => Heap.withName h n nm
  | .withInputs n ps => Heap.withInputs h n ps
  | .withOutputs n ps => Heap.withOutputs h n ps
  | .mapOver n ps cl => Heap.mapOver h n ps cl
  | .readInputs g => (readInputsH h g, g)
  | .readHash g => (readHashH h g, g)
  | .readDefaults n => (Heap.readDefaults h n, n)

/-- receiver of an operation -/
def Op.recv : Op → Ref
  | .bind g _ | .unbind g _ | .select g _ | .withEntrypoint g _ | .addNodes g _ | .asNode g _
  | .readInputs g | .readHash g => g
  | .withName n _ | .withInputs n _ | .withOutputs n _ | .mapOver n _ _ | .readDefaults n => n

def runOps (h : Heap) : List Op → Heap
  | [] => h
  | op :: ops => runOps (op.run h).1 ops

/-- the same operation on another receiver -/
def Op.setRecv (r : Ref) : Op → Op
  | .bind _ kvs => .bind r kvs
  | .unbind _ ks => .unbind r ks
  | .select _ ns => .select r ns
  | .withEntrypoint _ ns => .withEntrypoint r ns
  | .addNodes _ ns => .addNodes r ns
  | .asNode _ nm => .asNode r nm
  | .withName _ nm => .withName r nm
  | .withInputs _ ps => .withInputs r ps
  | .withOutputs _ ps => .withOutputs r ps
  | .mapOver _ ps cl => .mapOver r ps cl
  | .readInputs _ => .readInputs r
  | .readHash _ => .readHash r
  | .readDefaults _ => .readDefaults r

/-- Derive from `r` by a chain of operations, each applied to the RESULT of the previous one
(`g.bind(..).select(..).as_node(..).with_name(..)`); the receivers stored in `ops` are ignored. -/
def derive (h : Heap) (r : Ref) : List Op → Heap × Ref
  | [] => (h, r)
  | op :: ops => derive ((op.setRecv r).run h).1 ((op.setRecv r).run h).2 ops

def isGraphNode (h : Heap) (c : Ref) : Bool :=
  match h.objs[c]? with
  | some (.node _ _ _ _ _ _ (some _) _) => true
  | _ => false

/-- the operation is a derivation (not a cache read) applied to a receiver of the right kind -/
def Op.derives (h : Heap) : Op → Bool
  | .bind g _ | .unbind g _ | .select g _ | .withEntrypoint g _ | .asNode g _ | .addNodes g _ => isGraph h g
  | .withName n _ | .withInputs n _ | .withOutputs n _ => isNode h n
  | .mapOver n _ _ => isGraphNode h n
  | .readInputs _ | .readHash _ | .readDefaults _ => false

/-- `bind` / `unbind` / `select` / `with_entrypoint`: the operations built on `_shallow_copy` -/
def Op.isGraphCopy : Op → Bool
  | .bind .. | .unbind .. | .select .. | .withEntrypoint .. => true
  | _ => false

/-! ### replay for the differential driver -/
inductive OpSpec
  | bind (i : Nat) (k : Name) (v : Val)
  | unbind (i : Nat) (k : Name)
  | select (i : Nat) (names : List Name)
  | withEntrypoint (i : Nat) (names : List Name)
  | asNode (i : Nat) (name : Name)
  | withName (i : Nat) (name : Name)
  | withInputs (i : Nat) (pairs : List (Name × Name))
  | withOutputs (i : Nat) (pairs : List (Name × Name))
  | mapOver (i : Nat) (names : List Name)
  | readInputs (i : Nat)
  /-- extras (not required by the driver protocol) -/
  | readHash (i : Nat)
  | addNode (i : Nat) (j : Nat)       -- `results[i].add_nodes(results[j])`
  | addNone (i : Nat)                 -- `results[i].add_nodes()`
  deriving DecidableEq, Repr, Inhabited

/-- allocate one initial function node: its (empty) history list, then the node -/
def initStep (acc : Heap × List Ref) (nd : Name × List Name × List Name) : Heap × List Ref :=
  let (h1, hi) := alloc acc.1 (.hist [])
  let (h2, n) := alloc h1 (.node nd.1 nd.2.1 nd.2.2 hi .none .none .none .none)
  (h2, acc.2 ++ [n])

/-- initial heap: one function node per `(name, inputs, outputs)` (each with its own empty history
list) and one graph over them with an empty `_bound` dict.  Returns the heap, the graph's ref and
the node refs. -/
def initHeap (nodes : List (Name × List Name × List Name)) : Heap × Ref × List Ref :=
  let acc := nodes.foldl initStep (({ objs := [] } : Heap), [])
  let (h1, d) := alloc acc.1 (.dict [])
  let (h2, g) := alloc h1 (.graph acc.2 d .none .none .none .none)
  (h2, g, acc.2)

/-- translate an `OpSpec` (receiver given as an index into the results so far) into an `Op` -/
def OpSpec.toOp (res : List Ref) : OpSpec → Op
  | .bind i k v => .bind (res.getD i 0) [(k, v)]
  | .unbind i k => .unbind (res.getD i 0) [k]
  | .select i ns => .select (res.getD i 0) ns
  | .withEntrypoint i ns => .withEntrypoint (res.getD i 0) ns
  | .asNode i nm => .asNode (res.getD i 0) nm
  | .withName i nm => .withName (res.getD i 0) nm
  | .withInputs i ps => .withInputs (res.getD i 0) ps
  | .withOutputs i ps => .withOutputs (res.getD i 0) ps
  | .mapOver i ns => .mapOver (res.getD i 0) ns .none
  | .readInputs i => .readInputs (res.getD i 0)
  | .readHash i => .readHash (res.getD i 0)
  | .addNode i j => .addNodes (res.getD i 0) [res.getD j 0]
  | .addNone i => .addNodes (res.getD i 0) []

def replayFrom (h : Heap) (res : List Ref) : List OpSpec → List (List Obs)
  | [] => []
  | s :: ss =>
    let (h', r) := (s.toOp res).run h
    let res' := res ++ [r]
    res'.map (observe h') :: replayFrom h' res' ss

/-- Replay an operation history starting from one initial graph.  Results are numbered: the initial
function nodes are results `0 .. k-1` (in order), the initial graph is result `k`, and the `j`-th
operation's result is result `k + 1 + j` (a read's "result" is its receiver again).  Returns, after
each operation, the observation of EVERY result so far. -/
def replay (nodes : List (Name × List Name × List Name)) (ops : List OpSpec) : List (List Obs) :=
  let (h, g, ns) := initHeap nodes
  replayFrom h (ns ++ [g]) ops

/-- The first row: observations of the initial results before any operation. -/
def replayInit (nodes : List (Name × List Name × List Name)) : List Obs :=
  let (h, g, ns) := initHeap nodes
  (ns ++ [g]).map (observe h)

end Heap

/-! ## Part 2 (`HG.Iso`): run isolation (C18)

Values are REFERENCES to mutable cells (a cell = a Python list).  Mirrors
`runners/_shared/helpers.py`:

* `get_value_source` — resolution order EDGE (`state.values`) / PROVIDED / BOUND / DEFAULT.
  `initialize_state` stores every provided value in the fresh `GraphState.values` BY REFERENCE, and
  node outputs are stored there too, so EDGE and PROVIDED are one source here: `Src.provided k`
  = "look `k` up in this run's state dict".
* `_resolve_input` — `_safe_deepcopy` ONLY for `DEFAULT`; everything else is returned as is.
* `normalize_inputs` — `dict(values)` / `{**values, **kwargs}`: always a NEW dict.
* `GraphState` — created fresh per run by `initialize_state`; node outputs are written into it.
* `GraphNode.get_signature_default_for` returns the inner node's default object itself; the outer
  `_resolve_input` deep-copies it, so for the outer run it is again `Src.default`.

A node function may mutate the cells it receives (`Eff`) and returns a result computed from the
cell contents. -/
namespace Iso

abbrev Ref := Nat

/-- cells = mutable lists; dicts = mutable name→reference mappings (caller's `values` dicts,
normalized input dicts, `GraphState.values`) -/
structure Mem where
  cells : List (List Int)
  dicts : List (AL Ref) := []
  deriving DecidableEq, Repr, Inhabited

/-- side effect of a node function on its arguments -/
inductive Eff
  | appendTo (argIdx : Nat) (x : Int)
  | none
  deriving DecidableEq, Repr, Inhabited

/-- where an argument comes from -/
inductive Src
  | default (c : Ref)       -- the function's signature default object: ONE cell shared by all calls
  | bound (c : Ref)         -- `graph.bind(k=obj)`
  | provided (k : Name)     -- `state.values[k]`: a value the caller provided, or an upstream output
  deriving DecidableEq, Repr, Inhabited

structure Node where
  srcs : List Src
  eff : Eff
  out : Name
  deriving DecidableEq, Repr, Inhabited

/-- one `runner.run(graph, values, **kwargs)` call: the graph's nodes, the caller's `values` dict
(a reference — the caller keeps it) and the keyword arguments -/
structure RunSpec where
  nodes : List Node
  values : Option Ref
  kwargs : AL Ref
  deriving DecidableEq, Repr, Inhabited

/-- an argument as received by a node function: the reference, and (for a deep copy) the cell it
was copied from -/
structure Arg where
  ref : Ref
  copyOf : Option Ref
  deriving DecidableEq, Repr, Inhabited

/-- result of a node function: the contents of all its arguments on entry, and the contents of the
mutated argument on exit (its length is what `runSeq` reports) -/
structure Res where
  before : List (List Int)
  after : List Int
  deriving DecidableEq, Repr, Inhabited

/-- a logged node-function call -/
structure Call where
  rid : Nat
  sid : Nat
  args : List Arg
  eff : Eff
  res : Res
  deriving DecidableEq, Repr, Inhabited

structure World where
  mem : Mem
  states : List (Nat × Ref) := []      -- run id ↦ its `GraphState.values` dict
  log : List Call := []
  deriving DecidableEq, Repr, Inhabited

def cell (m : Mem) (c : Ref) : List Int := m.cells.getD c []
def dict (m : Mem) (d : Ref) : AL Ref := m.dicts.getD d []

def lookupState : List (Nat × Ref) → Nat → Option Ref
  | [], _ => .none
  | (r, s) :: t, rid => if rid = r then some s else lookupState t rid

/-- `_resolve_input`; `deep = true` is the real behaviour (`_safe_deepcopy` for `DEFAULT` only),
`deep = false` the variant WITHOUT the deep copy (negative witness). -/
def resolveArg (deep : Bool) (m : Mem) (st : AL Ref) : Src → Option (Mem × Arg)
  | .default c =>
    if deep then some ({ m with cells := m.cells ++ [cell m c] }, ⟨m.cells.length, some c⟩)
    else some (m, ⟨c, .none⟩)
  | .bound c => some (m, ⟨c, .none⟩)
  | .provided k => (AL.get? st k).map fun c => (m, ⟨c, .none⟩)

/-- `collect_inputs_for_node`: resolve every parameter in order (a missing value aborts the step) -/
def resolveArgs (deep : Bool) (st : AL Ref) : Mem → List Src → Option (Mem × List Arg)
  | m, [] => some (m, [])
  | m, s :: ss =>
    match resolveArg deep m st s with
    | .none => .none
    | some (m1, a) =>
      match resolveArgs deep st m1 ss with
      | .none => .none
      | some (m2, as) => some (m2, a :: as)

def mkRes (contents : List (List Int)) : Eff → Res
  | .appendTo i x => ⟨contents, (contents.getD i []) ++ [x]⟩
  | .none => ⟨contents, []⟩

def applyEff (m : Mem) (args : List Ref) : Eff → Mem
  | .appendTo i x =>
    match args[i]? with
    | some a => { m with cells := m.cells.set a (cell m a ++ [x]) }
    | .none => m
  | .none => m

/-- `runner.run(...)` entry: `normalize_inputs` builds a NEW dict from the caller's mapping and the
kwargs; `initialize_state` creates a fresh `GraphState` and `update_value`s every item into it. -/
def execStart (specs : List RunSpec) (w : World) (rid : Nat) : World :=
  match specs[rid]? with
  | some spec =>
    let base := match spec.values with
      | .none => []
      | some d => dict w.mem d
    let normalized := AL.merge base spec.kwargs
    let stateVals := AL.merge [] normalized
    { w with
      mem := { w.mem with dicts := w.mem.dicts ++ [normalized, stateVals] }
      states := (rid, w.mem.dicts.length + 1) :: w.states }
  | .none => w

/-- execute node `sid` of run `rid`: resolve the arguments, call the function (effect + result),
store the output (a fresh cell) in the run's state. -/
def execStep (deep : Bool) (specs : List RunSpec) (w : World) (rid sid : Nat) : World :=
  match specs[rid]?, lookupState w.states rid with
  | some spec, some st =>
    match spec.nodes[sid]? with
    | some nd =>
      match resolveArgs deep (dict w.mem st) w.mem nd.srcs with
      | some (m1, args) =>
        let res := mkRes (args.map fun a => cell m1 a.ref) nd.eff
        let m2 := applyEff m1 (args.map (·.ref)) nd.eff
        let m3 : Mem :=
          { cells := m2.cells ++ [res.after]
            dicts := m2.dicts.set st (AL.put (dict m2 st) nd.out m2.cells.length) }
        { w with mem := m3, log := w.log ++ [⟨rid, sid, args, nd.eff, res⟩] }
      | .none => w
    | .none => w
  | _, _ => w

/-- a run history is any sequence of events of any number of runs, in any interleaving -/
inductive Ev
  | start (rid : Nat)
  | step (rid sid : Nat)
  deriving DecidableEq, Repr, Inhabited

def exec (deep : Bool) (specs : List RunSpec) (w : World) : Ev → World
  | .start rid => execStart specs w rid
  | .step rid sid => execStep deep specs w rid sid

def runHist (deep : Bool) (specs : List RunSpec) (w : World) (evs : List Ev) : World :=
  evs.foldl (exec deep specs) w

/-- the events of one complete sequential run -/
def eventsOf (specs : List RunSpec) (rid : Nat) : List Ev :=
  .start rid :: (List.range ((specs[rid]?.map (·.nodes.length)).getD 0)).map (Ev.step rid)
def runOnce (deep : Bool) (specs : List RunSpec) (w : World) (rid : Nat) : World :=
  runHist deep specs w (eventsOf specs rid)
def runMany (deep : Bool) (specs : List RunSpec) (w : World) (rids : List Nat) : World :=
  runHist deep specs w (rids.flatMap (eventsOf specs))
/-- a merge given as `(runId, stepIdx)` pairs: index `0` is the run's start, `k + 1` its node `k` -/
def evOfPair : Nat × Nat → Ev
  | (rid, 0) => .start rid
  | (rid, k + 1) => .step rid k
def runSched (deep : Bool) (specs : List RunSpec) (w : World) (sched : List (Nat × Nat)) : World :=
  runHist deep specs w (sched.map evOfPair)

/-! ### executable cross-check -/
inductive ArgKind
  | default        -- `def f(x=[])`
  | bound          -- `graph.bind(x=lst)`
  | providedSame   -- `runner.run(graph, {"x": lst})` with the SAME list object every time
  | providedFresh  -- a new `[]` for every run
  deriving DecidableEq, Repr, Inhabited

/-- `n` runs of a one-node graph whose function appends to its list argument `x` and returns its
length: the initial world and the run specs -/
def seqSetup (kind : ArgKind) (n : Nat) : World × List RunSpec :=
  match kind with
  | .default =>
    (⟨⟨[[]], []⟩, [], []⟩, List.replicate n ⟨[⟨[.default 0], .appendTo 0 1, "len"⟩], .none, []⟩)
  | .bound =>
    (⟨⟨[[]], []⟩, [], []⟩, List.replicate n ⟨[⟨[.bound 0], .appendTo 0 1, "len"⟩], .none, []⟩)
  | .providedSame =>
    (⟨⟨[[]], [[("x", 0)]]⟩, [], []⟩,
      List.replicate n ⟨[⟨[.provided "x"], .appendTo 0 1, "len"⟩], some 0, []⟩)
  | .providedFresh =>
    (⟨⟨List.replicate n [], (List.range n).map fun i => [("x", i)]⟩, [], []⟩,
      (List.range n).map fun i => ⟨[⟨[.provided "x"], .appendTo 0 1, "len"⟩], some i, []⟩)

/-- results (returned lengths) of `n` sequential runs; `deep = true` is the real library.
Expected on the real code: default → `[1,1,1,…]`, bound → `[1,2,3,…]`, the same provided list →
`[1,2,3,…]`, a fresh provided list per run → `[1,1,1,…]`. -/
def runSeqWith (deep : Bool) (kind : ArgKind) (n : Nat) : List Nat :=
  let (w, specs) := seqSetup kind n
  (runMany deep specs w (List.range n)).log.map fun c => c.res.after.length
def runSeq (kind : ArgKind) (n : Nat) : List Nat := runSeqWith true kind n

end Iso
end HG
