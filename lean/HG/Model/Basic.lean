/-! # HG.Model.Basic — values, names, insertion-ordered association maps

Mirrors the Python data the runners manipulate: `dict` (insertion ordered) becomes an
association list with `get?`/`put`/`del`; Python values become the closed universe `Val`.
No Mathlib imports anywhere under `HG/Model` (the driver links these files). -/
namespace HG

abbrev Name := String

/-- Closed universe of run-time values exchanged with generated node functions.
`tup`/`lst` wrap a `cons`/`nil` chain (Python tuple / list); a plain inductive so that
`DecidableEq` is derivable (Python `==` on generated values is structural equality). -/
inductive Val
  | none
  | bool (b : Bool)
  | int (i : Int)
  | str (s : String)
  | nil
  | cons (h t : Val)
  | tup (items : Val)
  | lst (items : Val)
  | sentinel            -- `_EMIT_SENTINEL`
  deriving DecidableEq, Repr, Inhabited

namespace Val
def ofList : List Val → Val
  | [] => .nil
  | v :: vs => .cons v (ofList vs)
/-- items of a cons chain; anything else has no items -/
def toList : Val → List Val
  | .cons h t => h :: toList t
  | _ => []
def mkTup (vs : List Val) : Val := .tup (ofList vs)
def mkLst (vs : List Val) : Val := .lst (ofList vs)
/-- Python `len(result)`-style view used by `wrap_outputs`: items of a tuple or list -/
def seqItems : Val → Option (List Val)
  | .tup c => some (toList c)
  | .lst c => some (toList c)
  | _ => .none
@[simp] theorem toList_ofList (vs : List Val) : toList (ofList vs) = vs := by
  induction vs with
  | nil => rfl
  | cons v vs ih => simp [ofList, toList, ih]

/-- Python `==` on the value universe.  `bool` is a subclass of `int`, so `True == 1` and
`False == 0`, and sequence equality compares element-wise with `==`, so this holds recursively
inside tuples and lists (`(1, [True]) == (True, [1])`).  A tuple never equals a list, a `str`
only equals an equal `str`, `None` only `None`, the emit sentinel (a bare `object()`) only
itself.  Coarser than structural equality (`pyEq_of_eq`), and exactly what
`update_value`'s `old != new` test observes. -/
def pyEq : Val → Val → Bool
  | .none, .none => true
  | .bool a, .bool b => a == b
  | .bool a, .int j => (if a then (1 : Int) else 0) == j
  | .int i, .bool b => i == (if b then (1 : Int) else 0)
  | .int i, .int j => i == j
  | .str s, .str t => s == t
  | .nil, .nil => true
  | .cons h t, .cons h' t' => pyEq h h' && pyEq t t'
  | .tup a, .tup b => pyEq a b
  | .lst a, .lst b => pyEq a b
  | .sentinel, .sentinel => true
  | _, _ => false

/-- `type(a) is type(b)` on the value universe: the same TOP-LEVEL Python type (`NoneType`, `bool`,
`int`, `str`, `tuple`, `list`, the sentinel's `object`); the items of a tuple / list are not looked
at (`[1]` and `[True]` are both lists).  `bool` and `int` are DIFFERENT types here although
`True == 1` (`pyEq`).  The spine constructors `nil` / `cons` never occur as the top-level value of
a run state; a spine has the type of a spine of the same shape (which keeps the relation
reflexive and symmetric). -/
def sameType : Val → Val → Bool
  | .none, .none => true
  | .bool _, .bool _ => true
  | .int _, .int _ => true
  | .str _, .str _ => true
  | .nil, .nil => true
  | .cons _ _, .cons _ _ => true
  | .tup _, .tup _ => true
  | .lst _, .lst _ => true
  | .sentinel, .sentinel => true
  | _, _ => false

/-- `update_value`'s `changed = type(old) is not type(new) or bool(old != new)`: a value of another
(top-level) type always counts as a change; within one type Python's `!=` decides -/
def changed (old new : Val) : Bool := !(sameType old new) || !(pyEq old new)
end Val

/-- insertion-ordered association list = Python dict -/
abbrev AL (α : Type) := List (Name × α)

namespace AL
variable {α : Type}
def get? : AL α → Name → Option α
  | [], _ => .none
  | (a, v) :: t, k => if k = a then some v else get? t k
/-- `d[k] = v`: overwrite in place, else append (dict insertion order) -/
def put : AL α → Name → α → AL α
  | [], k, v => [(k, v)]
  | (a, w) :: t, k, v => if k = a then (a, v) :: t else (a, w) :: put t k v
def del : AL α → Name → AL α
  | [], _ => []
  | (a, w) :: t, k => if k = a then t else (a, w) :: del t k
def has (m : AL α) (k : Name) : Bool := (get? m k).isSome
def keys (m : AL α) : List Name := m.map (·.1)
/-- `{**a, **b}` / `a.update(b)` -/
def merge (a b : AL α) : AL α := b.foldl (fun acc kv => put acc kv.1 kv.2) a

@[simp] theorem get?_nil (k : Name) : get? ([] : AL α) k = .none := rfl
theorem get?_put_same (m : AL α) (k : Name) (v : α) : get? (put m k v) k = some v := by
  induction m with
  | nil => simp [put, get?]
  | cons h t ih =>
    obtain ⟨a, w⟩ := h
    by_cases hk : k = a
    · simp [put, hk, get?]
    · simp [put, hk, get?, ih]
theorem get?_put_other (m : AL α) (k k' : Name) (v : α) (h : k' ≠ k) :
    get? (put m k v) k' = get? m k' := by
  induction m with
  | nil => simp [put, get?, h]
  | cons hd t ih =>
    obtain ⟨a, w⟩ := hd
    by_cases hk : k = a
    · subst hk; simp [put, get?, h]
    · by_cases hk' : k' = a
      · simp [put, hk, get?, hk']
      · simp [put, hk, get?, hk', ih]
theorem get?_put (m : AL α) (k k' : Name) (v : α) :
    get? (put m k v) k' = if k' = k then some v else get? m k' := by
  by_cases h : k' = k
  · subst h; simp [get?_put_same]
  · simp [h, get?_put_other _ _ _ _ h]
theorem has_put (m : AL α) (k k' : Name) (v : α) :
    has (put m k v) k' = (decide (k' = k) || has m k') := by
  unfold has; rw [get?_put]; by_cases h : k' = k <;> simp [h]
theorem get?_del_other (m : AL α) (k k' : Name) (h : k' ≠ k) : get? (del m k) k' = get? m k' := by
  induction m with
  | nil => rfl
  | cons hd t ih =>
    obtain ⟨a, w⟩ := hd
    by_cases hk : k = a
    · subst hk; simp [del, get?, h]
    · by_cases hk' : k' = a
      · simp [del, hk, get?, hk']
      · simp [del, hk, get?, hk', ih]
theorem keys_put_of_has (m : AL α) (k : Name) (v : α) (h : has m k = true) :
    keys (put m k v) = keys m := by
  induction m with
  | nil => simp [has, get?] at h
  | cons hd t ih =>
    obtain ⟨a, w⟩ := hd
    by_cases hk : k = a
    · simp [put, hk, keys]
    · have : has t k = true := by simpa [has, get?, hk] using h
      have ih' := ih this
      simp only [keys] at ih'
      simp [put, hk, keys, ih']
theorem mem_keys_iff_has (m : AL α) (k : Name) : k ∈ keys m ↔ has m k = true := by
  induction m with
  | nil => simp [keys, has]
  | cons hd t ih =>
    obtain ⟨a, w⟩ := hd
    by_cases hk : k = a
    · simp [keys, has, get?, hk]
    · simp only [keys, List.map_cons, List.mem_cons, hk, false_or, has, get?, if_false]
      simpa [keys, has] using ih
end AL

end HG
