/-! # HG.Model.Sem — the global `max_concurrency` semaphore as a transition system

Python being modelled (`runners/async_`):

* `runner.py::_execute_graph_impl_async` creates ONE `asyncio.Semaphore(k)` when no limiter exists
  in the `_concurrency_limiter` ContextVar; nested runs (graph nodes, map items) inherit it.
* `executors/function_node.py` is the only `async with semaphore:` — around the leaf function call.
* `superstep.py::run_superstep_async` gathers the ready nodes WITHOUT taking the semaphore;
  `executors/graph_node.py` awaits the inner run WITHOUT holding a permit.
* `_shared/template_async.py::map` with a limit starts `min(k, items)` workers pulling from a queue.

A run is abstracted to its *task tree*: `leaf` = one function-node execution (the only thing that
takes a permit), `par` = things awaited together (`asyncio.gather`: nodes of a superstep, items of a
map), `seq` = things awaited one after the other (the supersteps of a run; a nested graph node is a
`seq` of `par`s sitting inside its parent's `par`).

Encoding. `Shape` is the n-ary tree handed over by the harness.  The annotated state tree `T` is
the *binary* form (`par [a,b,c]` ↦ `a ∥ (b ∥ (c ∥ skip))`, same for `seq`): `∥` and `;` are
associative with unit `skip`, the left-to-right leaf order is preserved, and `T` is an ordinary
(non-nested) inductive so every lemma is a plain structural induction.  Leaves are addressed by
their index in the left-to-right traversal.  Core Lean only (linked into the driver). -/
namespace HG.Sem

/-- task tree of one top-level `run`/`map` call -/
inductive Shape
  | leaf
  | par (children : List Shape)
  | seq (stages : List Shape)
  deriving Repr, Inhabited

/-- status of one function-node execution: before `async with semaphore`, inside it, after it -/
inductive St | pending | holding | done
  deriving DecidableEq, Repr, Inhabited

/-- annotated binary task tree; inner nodes carry no status (they never hold a permit), their
status is derived (`allDone`, startability of the right part of a `seq`) -/
inductive T
  | skip
  | leaf (s : St)
  | par (a b : T)
  | seq (a b : T)
  deriving DecidableEq, Repr, Inhabited

namespace T

/-- number of leaves -/
def leaves : T → Nat
  | skip => 0
  | leaf _ => 1
  | par a b => a.leaves + b.leaves
  | seq a b => a.leaves + b.leaves

/-- number of leaves in status `x` -/
def count (x : St) : T → Nat
  | skip => 0
  | leaf s => if s = x then 1 else 0
  | par a b => a.count x + b.count x
  | seq a b => a.count x + b.count x

/-- derived status of an inner node: done iff all children are done -/
def allDone : T → Bool
  | skip => true
  | leaf s => s == .done
  | par a b => a.allDone && b.allDone
  | seq a b => a.allDone && b.allDone

/-- set every leaf to `x` -/
def mark (x : St) : T → T
  | skip => skip
  | leaf _ => leaf x
  | par a b => par (a.mark x) (b.mark x)
  | seq a b => seq (a.mark x) (b.mark x)

/-- statuses of the leaves in traversal order -/
def statuses : T → List St
  | skip => []
  | leaf s => [s]
  | par a b => a.statuses ++ b.statuses
  | seq a b => a.statuses ++ b.statuses

/-- move leaf `i` from status `a` to status `b`.  With `gated = true` the leaf must be *startable*:
inside `seq l r` a leaf of `r` is reachable only once `l` is done (the next superstep starts after
the previous `gather` returned).  `none` = not possible. -/
def move (a b : St) (gated : Bool) : T → Nat → Option T
  | skip, _ => none
  | leaf s, i => if i = 0 ∧ s = a then some (leaf b) else none
  | par l r, i =>
    if i < l.leaves then (l.move a b gated i).map (fun l' => par l' r)
    else (r.move a b gated (i - l.leaves)).map (fun r' => par l r')
  | seq l r, i =>
    if i < l.leaves then (l.move a b gated i).map (fun l' => seq l' r)
    else if !gated || l.allDone then (r.move a b gated (i - l.leaves)).map (fun r' => seq l r')
    else none

/-- `acquire`: a pending startable leaf enters `async with semaphore` -/
def acq (t : T) (i : Nat) : Option T := t.move .pending .holding true i
/-- `finish`: a holding leaf leaves `async with semaphore` (releasing is never blocked) -/
def fin (t : T) (i : Nat) : Option T := t.move .holding .done false i

end T

/-! ## n-ary shape → binary tree -/

mutual
/-- initial (all-pending) tree of a shape -/
def Shape.toT : Shape → T
  | .leaf => .leaf .pending
  | .par cs => parL cs
  | .seq cs => seqL cs
def parL : List Shape → T
  | [] => .skip
  | c :: cs => .par c.toT (parL cs)
def seqL : List Shape → T
  | [] => .skip
  | c :: cs => .seq c.toT (seqL cs)
end

mutual
/-- number of function-node executions of a shape -/
def Shape.leaves : Shape → Nat
  | .leaf => 1
  | .par cs => leavesL cs
  | .seq cs => leavesL cs
def leavesL : List Shape → Nat
  | [] => 0
  | c :: cs => c.leaves + leavesL cs
end

/-! ## the transition system -/

structure State where
  tree : T
  /-- free permits of the one shared semaphore -/
  free : Nat
  deriving DecidableEq, Repr, Inhabited

/-- transitions, leaves identified by traversal index -/
inductive Tr
  | acquire (l : Nat)
  | finish (l : Nat)
  deriving DecidableEq, Repr, Inhabited

namespace State
def holding (s : State) : Nat := s.tree.count .holding
def pending (s : State) : Nat := s.tree.count .pending
def doneLeaves (s : State) : Nat := s.tree.count .done
/-- every leaf done -/
def final (s : State) : Bool := s.tree.allDone
/-- termination measure -/
def measure (s : State) : Nat := 2 * s.pending + s.holding
end State

def init (k : Nat) (sh : Shape) : State := ⟨sh.toT, k⟩

/-- the unique final state of a shape under limit `k` -/
def finalState (k : Nat) (sh : Shape) : State := ⟨sh.toT.mark .done, k⟩

def step (s : State) : Tr → Option State
  | .acquire l => if s.free = 0 then none else (s.tree.acq l).map (fun t => ⟨t, s.free - 1⟩)
  | .finish l => (s.tree.fin l).map (fun t => ⟨t, s.free + 1⟩)

def enabled (s : State) (tr : Tr) : Bool := (step s tr).isSome

/-- all enabled transitions of a state (finite: leaf indices `< leaves`) -/
def enabledList (s : State) : List Tr :=
  ((List.range s.tree.leaves).flatMap (fun i => [Tr.acquire i, Tr.finish i])).filter (enabled s)

/-- states reachable from `init k sh` under ANY scheduler -/
inductive Reachable (k : Nat) (sh : Shape) : State → Prop
  | init : Reachable k sh (init k sh)
  | step {s s' : State} {tr : Tr} : Reachable k sh s → step s tr = some s' → Reachable k sh s'

/-- run a schedule; `none` if some transition was not enabled -/
def run : State → List Tr → Option State
  | s, [] => some s
  | s, tr :: trs =>
    match step s tr with
    | none => none
    | some s' => run s' trs

/-- a maximal schedule: it runs, and nothing is enabled afterwards -/
def Maximal (s : State) (trs : List Tr) (s' : State) : Prop :=
  run s trs = some s' ∧ ∀ tr, step s' tr = none

/-! ## replaying a recorded trace -/

/-- trace event: `(true, l)` = the body of leaf `l` started (permit acquired),
`(false, l)` = it finished (permit released) -/
def evToTr : Bool × Nat → Tr
  | (true, l) => .acquire l
  | (false, l) => .finish l

structure ReplayOut where
  /-- every event was an enabled transition -/
  ok : Bool
  /-- maximum number of leaves in flight over the accepted prefix -/
  maxInflight : Nat
  /-- index of the first event that was not enabled -/
  badIndex : Option Nat
  /-- all leaves done at the end of the accepted prefix -/
  allDone : Bool
  /-- the accepted prefix ended in a state with no enabled transition and not all done -/
  deadlocked : Bool
  deriving DecidableEq, Repr, Inhabited

def replayFrom (s : State) (mx idx : Nat) : List (Bool × Nat) → ReplayOut
  | [] => { ok := true, maxInflight := mx, badIndex := none, allDone := s.final,
            deadlocked := !s.final && (enabledList s).isEmpty }
  | ev :: evs =>
    match step s (evToTr ev) with
    | none => { ok := false, maxInflight := mx, badIndex := some idx, allDone := s.final,
                deadlocked := !s.final && (enabledList s).isEmpty }
    | some s' => replayFrom s' (max mx s'.holding) (idx + 1) evs

def replayDetail (k : Nat) (shape : Shape) (events : List (Bool × Nat)) : ReplayOut :=
  replayFrom (init k shape) 0 0 events

/-- `(every event was an enabled transition, max number of leaves in flight)` -/
def replay (k : Nat) (shape : Shape) (events : List (Bool × Nat)) : Bool × Nat :=
  let o := replayDetail k shape events
  (o.ok, o.maxInflight)

/-! ## the VARIANT: inner nodes hold a permit while their children run (the classic mistake)

Used only for the negative witness.  `task s body` is an inner node that must itself take a permit
(`pending → holding`) before anything below it may start and gives it back (`holding → done`) only
after its body is done — e.g. a superstep that wraps every node execution, graph nodes included,
in `async with semaphore`.  Permit takers (tasks and leaves) are addressed in pre-order. -/

inductive HT
  | skip
  | leaf (s : St)
  | par (a b : HT)
  | seq (a b : HT)
  | task (s : St) (body : HT)
  deriving DecidableEq, Repr, Inhabited

namespace HT
/-- number of permit takers -/
def size : HT → Nat
  | skip => 0
  | leaf _ => 1
  | par a b => a.size + b.size
  | seq a b => a.size + b.size
  | task _ b => 1 + b.size

def count (x : St) : HT → Nat
  | skip => 0
  | leaf s => if s = x then 1 else 0
  | par a b => a.count x + b.count x
  | seq a b => a.count x + b.count x
  | task s b => (if s = x then 1 else 0) + b.count x

def allDone : HT → Bool
  | skip => true
  | leaf s => s == .done
  | par a b => a.allDone && b.allDone
  | seq a b => a.allDone && b.allDone
  | task s b => s == .done && b.allDone

def acq : HT → Nat → Option HT
  | skip, _ => none
  | leaf s, i => if i = 0 ∧ s = .pending then some (leaf .holding) else none
  | par l r, i =>
    if i < l.size then (l.acq i).map (fun l' => par l' r)
    else (r.acq (i - l.size)).map (fun r' => par l r')
  | seq l r, i =>
    if i < l.size then (l.acq i).map (fun l' => seq l' r)
    else if l.allDone then (r.acq (i - l.size)).map (fun r' => seq l r')
    else none
  | task s b, 0 => if s = .pending then some (task .holding b) else none
  | task s b, i + 1 =>
    -- children run only while the inner node holds its permit
    if s = .holding then (b.acq i).map (fun b' => task s b') else none

def fin : HT → Nat → Option HT
  | skip, _ => none
  | leaf s, i => if i = 0 ∧ s = .holding then some (leaf .done) else none
  | par l r, i =>
    if i < l.size then (l.fin i).map (fun l' => par l' r)
    else (r.fin (i - l.size)).map (fun r' => par l r')
  | seq l r, i =>
    if i < l.size then (l.fin i).map (fun l' => seq l' r)
    else (r.fin (i - l.size)).map (fun r' => seq l r')
  | task s b, 0 => if s = .holding ∧ b.allDone = true then some (task .done b) else none
  | task s b, i + 1 => (b.fin i).map (fun b' => task s b')
end HT

mutual
/-- every inner `par`/`seq` node of the shape becomes a permit-holding task -/
def Shape.toHT : Shape → HT
  | .leaf => .leaf .pending
  | .par cs => .task .pending (parLH cs)
  | .seq cs => .task .pending (seqLH cs)
def parLH : List Shape → HT
  | [] => .skip
  | c :: cs => .par c.toHT (parLH cs)
def seqLH : List Shape → HT
  | [] => .skip
  | c :: cs => .seq c.toHT (seqLH cs)
end

structure HState where
  tree : HT
  free : Nat
  deriving DecidableEq, Repr, Inhabited

def stepHold (s : HState) : Tr → Option HState
  | .acquire l => if s.free = 0 then none else (s.tree.acq l).map (fun t => ⟨t, s.free - 1⟩)
  | .finish l => (s.tree.fin l).map (fun t => ⟨t, s.free + 1⟩)

def enabledHoldList (s : HState) : List Tr :=
  ((List.range s.tree.size).flatMap (fun i => [Tr.acquire i, Tr.finish i])).filter
    (fun tr => (stepHold s tr).isSome)

inductive ReachableHoldFrom (s0 : HState) : HState → Prop
  | init : ReachableHoldFrom s0 s0
  | step {s s' : HState} {tr : Tr} :
      ReachableHoldFrom s0 s → stepHold s tr = some s' → ReachableHoldFrom s0 s'

def initHold (k : Nat) (sh : Shape) : HState := ⟨sh.toHT, k⟩

abbrev ReachableHold (k : Nat) (sh : Shape) : HState → Prop := ReachableHoldFrom (initHold k sh)

def runHold : HState → List Tr → Option HState
  | s, [] => some s
  | s, tr :: trs =>
    match stepHold s tr with
    | none => none
    | some s' => runHold s' trs

/-! ## the `map` worker pool (`template_async.py::map` with a limit)

`num_workers = min(max_concurrency, len(items))` workers; each repeatedly takes the next item
from the queue (`get_nowait`), awaits `_run_map_item`, records the result, and exits when the
queue is empty.  Items in flight = busy workers. -/

inductive W
  | idle
  | busy (item : Nat)
  | exited
  deriving DecidableEq, Repr, Inhabited

structure Pool where
  queue : List Nat
  workers : List W
  finished : List Nat
  deriving DecidableEq, Repr, Inhabited

inductive PTr
  /-- idle worker `w` takes the head of the queue -/
  | pull (w : Nat)
  /-- busy worker `w` completes its item -/
  | complete (w : Nat)
  /-- idle worker `w` finds the queue empty and returns -/
  | exit (w : Nat)
  deriving DecidableEq, Repr, Inhabited

namespace Pool
def isBusy : W → Bool
  | .busy _ => true
  | _ => false

/-- items in flight -/
def inflight (p : Pool) : Nat := p.workers.countP isBusy

def init (k n : Nat) : Pool :=
  { queue := List.range n, workers := List.replicate (min k n) .idle, finished := [] }

def step (p : Pool) : PTr → Option Pool
  | .pull w =>
    match p.workers[w]?, p.queue with
    | some .idle, i :: q => some { p with queue := q, workers := p.workers.set w (.busy i) }
    | _, _ => none
  | .complete w =>
    match p.workers[w]? with
    | some (.busy i) => some { p with workers := p.workers.set w .idle, finished := i :: p.finished }
    | _ => none
  | .exit w =>
    match p.workers[w]?, p.queue with
    | some .idle, [] => some { p with workers := p.workers.set w .exited }
    | _, _ => none

inductive Reachable (k n : Nat) : Pool → Prop
  | init : Reachable k n (init k n)
  | step {p p' : Pool} {tr : PTr} : Reachable k n p → p.step tr = some p' → Reachable k n p'

def run : Pool → List PTr → Option Pool
  | p, [] => some p
  | p, tr :: trs =>
    match p.step tr with
    | none => none
    | some p' => run p' trs
end Pool

end HG.Sem
