import HG.Model.Basic
/-! # HG.Model.Viz — specification of a *faithful* diagram and an executable checker (C20)

The routing code of `hypergraph.viz` (`renderer/{nodes,edges,scope,precompute}.py`, `mermaid.py`) is
heuristic and is NOT modelled.  What is modelled:

* `Flat` — the attributes of `Graph.to_flat_graph()` the diagrams depend on (ids, `parent`,
  `node_type`, `inputs`, `outputs`, `wait_for`, gate targets, `hide`);
* `deps` — the dependencies the *runtime* resolves, computed from NAMES per scope (every producer of
  a name to every consumer that can see it, through container inputs / exposed outputs);
* `validState` / `validStates` — `_common.enumerate_valid_expansion_states`;
* `visible` / `rep` — `_common.is_node_visible` / `nearest_visible_ancestor` (and all visible
  ancestors above it); `stand` — the diagram nodes that may stand for a flat node;
* `Faithful` — what a diagram must satisfy; `checkFaithful` — the executable checker
  (`HG.C20.check_sound_complete : checkFaithful … = true ↔ Faithful …`); `explain` — reasons;
* `Forest` / `flatten` — a nested description and its flattening, mirroring `_flatten_nodes`.

Core Lean only (linked into the compiled driver). -/
namespace HG.Viz

/-! ## flat graph -/

/-- one node of `to_flat_graph()`; `targets` are flat ids (END excluded) -/
structure FNode where
  id : String
  parent : Option String
  kind : String
  inputs : List Name
  outputs : List Name
  waitFor : List Name
  targets : List String
  hidden : Bool
  deriving Repr, DecidableEq, Inhabited

structure Flat where
  nodes : List FNode
  deriving Repr, DecidableEq, Inhabited

inductive DepKind
  | data | control | ordering
  deriving DecidableEq, Repr, Inhabited

def DepKind.toString : DepKind → String
  | .data => "data" | .control => "control" | .ordering => "ordering"

structure Dep where
  producer : String
  consumer : String
  kind : DepKind
  value : Option Name
  deriving DecidableEq, Repr, Inhabited

/-- `flat_graph.nodes[id]` (first listed node with that id) -/
def Flat.find? (f : Flat) (id : String) : Option FNode := f.nodes.find? (fun n => n.id == id)

/-- `flat_graph.nodes[id].get("parent")` -/
def parentOf (f : Flat) (id : String) : Option String := (f.find? id).bind (·.parent)

/-- proper ancestors, innermost first, walking `parent` at most `fuel` times -/
def ancFuel (f : Flat) : Nat → String → List String
  | 0, _ => []
  | k + 1, id =>
    match parentOf f id with
    | none => []
    | some p => p :: ancFuel f k p

/-- proper ancestors of `id`, innermost first (fuel = number of nodes) -/
def anc (f : Flat) (id : String) : List String := ancFuel f f.nodes.length id

/-! ## dependencies resolved from names -/

/-- leaf-most nodes at or below `n` that carry the name `v` in `sel` (`outputs` for producers,
`inputs` for consumers): a container that has children carrying `v` stands for those children
(recursively); a node without such children stands for itself. -/
def below (f : Flat) (sel : FNode → List Name) (v : Name) : Nat → FNode → List String
  | 0, n => [n.id]
  | k + 1, n =>
    let inner := f.nodes.filter fun m => m.parent == some n.id && (sel m).contains v
    if inner.isEmpty then [n.id] else inner.flatMap (below f sel v k)

def prodBelow (f : Flat) (v : Name) (n : FNode) : List String :=
  below f (·.outputs) v f.nodes.length n
def consBelow (f : Flat) (v : Name) (n : FNode) : List String :=
  below f (·.inputs) v f.nodes.length n

/-- siblings `a` (output `v`) and `b` (input `v`): every leaf-most producer of `v` at or below `a`
to every leaf-most consumer of `v` at or below `b` -/
def dataDeps (f : Flat) : List Dep :=
  f.nodes.flatMap fun a => a.outputs.flatMap fun v =>
    (f.nodes.filter fun b => b.parent == a.parent && b.inputs.contains v).flatMap fun b =>
      (prodBelow f v a).flatMap fun p => (consBelow f v b).map fun c => ⟨p, c, .data, some v⟩

/-- gate → each of its targets -/
def controlDeps (f : Flat) : List Dep :=
  f.nodes.flatMap fun g => g.targets.map fun t => ⟨g.id, t, .control, none⟩

/-- sibling producer of a `wait_for` name → the waiter (no self loops) -/
def orderingDeps (f : Flat) : List Dep :=
  f.nodes.flatMap fun b => b.waitFor.flatMap fun w =>
    (f.nodes.filter fun a => a.parent == b.parent && a.id != b.id && a.outputs.contains w).flatMap
      fun a => (prodBelow f w a).map fun p => ⟨p, b.id, .ordering, some w⟩

def deps (f : Flat) : List Dep := dataDeps f ++ controlDeps f ++ orderingDeps f

/-! ## expansion states -/

abbrev Expansion := AL Bool

/-- keep the first occurrence of every string -/
def dedup : List String → List String
  | [] => []
  | a :: l => a :: (dedup l).filter (fun b => b != a)

/-- `get_expandable_nodes`: ids of the GRAPH nodes (listed order, each once) -/
def containers (f : Flat) : List String :=
  dedup ((f.nodes.filter fun n => n.kind == "GRAPH").map (·.id))

/-- `node_to_parent`: the parent of `c` when that parent is itself expandable -/
def parentContainer (f : Flat) (c : String) : Option String :=
  match parentOf f c with
  | none => none
  | some p => if (containers f).contains p then some p else none

/-- every container has an entry; an expanded container whose parent is a container has that parent
expanded (the local form of the ancestor walk in `enumerate_valid_expansion_states`) -/
def validState (f : Flat) (st : Expansion) : Bool :=
  (containers f).all fun c =>
    match st.get? c with
    | none => false
    | some false => true
    | some true =>
      match parentContainer f c with
      | none => true
      | some p => st.get? p == some true

/-- some already assigned container whose parent container is `c` is expanded -/
def childExpanded (f : Flat) (c : String) (st : Expansion) : Bool :=
  st.any fun kb => kb.2 && parentContainer f kb.1 == some c

/-- all assignments over `cs` (keys in that order), pruning `c ↦ false` below an expanded child -/
def genStates (f : Flat) : List String → List Expansion
  | [] => [[]]
  | c :: cs =>
    ((genStates f cs).filter fun st => !childExpanded f c st).map (fun st => (c, false) :: st) ++
    (genStates f cs).map (fun st => (c, true) :: st)

/-- exactly the valid expansion states, each once -/
def validStates (f : Flat) : List Expansion := (genStates f (containers f)).filter (validState f)

/-! ## visibility and representatives -/

/-- `is_node_visible`: listed, not hidden, every ancestor expanded -/
def visible (f : Flat) (st : Expansion) (id : String) : Bool :=
  match f.find? id with
  | none => false
  | some n => !n.hidden && (anc f id).all fun a => st.get? a == some true

/-- visible ancestors-or-self, innermost first; the head is `nearest_visible_ancestor` -/
def rep (f : Flat) (st : Expansion) (id : String) : List String :=
  (id :: anc f id).filter (visible f st)

/-- visible strict descendants of `id` -/
def desc (f : Flat) (st : Expansion) (id : String) : List String :=
  (f.nodes.filter fun n => visible f st n.id && (anc f n.id).contains id).map (·.id)

/-- diagram nodes that may stand for the flat node `id` as an edge endpoint: its visible
ancestors-or-self, and (relevant only when `id` is a container that is itself a dependency endpoint:
gate target, renamed input/output) its visible descendants -/
def stand (f : Flat) (st : Expansion) (id : String) : List String := rep f st id ++ desc f st id

def hiddenOf (f : Flat) (id : String) : Bool :=
  match f.find? id with
  | none => true
  | some n => n.hidden

/-- the dependency must be drawn: both endpoints are listed and not hidden, both have a
representative, and the nearest representatives differ (not internal to one collapsed container) -/
def crossing (f : Flat) (st : Expansion) (dep : Dep) : Bool :=
  !hiddenOf f dep.producer && !hiddenOf f dep.consumer &&
  match (rep f st dep.producer).head?, (rep f st dep.consumer).head? with
  | some a, some b => a != b
  | _, _ => false

/-! ## diagrams -/

structure DNode where
  id : String
  kind : String
  parent : Option String
  hidden : Bool
  owner : Option String
  deriving Repr, DecidableEq, Inhabited

structure DEdge where
  source : String
  target : String
  kind : String
  value : Option Name
  deriving Repr, DecidableEq, Inhabited

structure Diagram where
  nodes : List DNode
  edges : List DEdge
  deriving Repr, DecidableEq, Inhabited

/-- a DATA node stands for its owner -/
def resolve (m : DNode) : String := if m.kind == "DATA" then m.owner.getD m.id else m.id

def isInputKind (k : String) : Bool := k == "INPUT" || k == "INPUT_GROUP"
/-- diagram-only node kinds (not flat nodes) -/
def isAuxKind (k : String) : Bool := k == "DATA" || k == "INPUT" || k == "INPUT_GROUP" || k == "END"

/-! ### the specification -/

def HasEdge (d : Diagram) (s t : String) : Prop := ∃ e ∈ d.edges, e.source = s ∧ e.target = t

/-- `s` reaches `t` by one edge, or (separate mode) by `s → m → t` with `m` a DATA node owned by `s` -/
def Linked (d : Diagram) (sep : Bool) (s t : String) : Prop :=
  HasEdge d s t ∨
  (sep = true ∧ ∃ m ∈ d.nodes, m.kind = "DATA" ∧ m.owner = some s ∧ HasEdge d s m.id ∧ HasEdge d m.id t)

/-- (S1a) every edge endpoint is the id of a listed diagram node -/
def S1a (d : Diagram) : Prop :=
  ∀ e ∈ d.edges, (∃ m ∈ d.nodes, m.id = e.source) ∧ (∃ m ∈ d.nodes, m.id = e.target)
/-- (S1b) a hidden endpoint is an INPUT / INPUT_GROUP node -/
def S1b (d : Diagram) : Prop :=
  ∀ e ∈ d.edges, ∀ m ∈ d.nodes, (m.id = e.source ∨ m.id = e.target) → m.hidden = true →
    m.kind = "INPUT" ∨ m.kind = "INPUT_GROUP"
/-- (S1c) the diagram is not empty -/
def S1c (d : Diagram) : Prop := d.nodes ≠ []
/-- (S1d) a dependency that must be drawn forces at least one edge -/
def S1d (f : Flat) (st : Expansion) (d : Diagram) : Prop :=
  (∃ dep ∈ deps f, crossing f st dep = true) → d.edges ≠ []
/-- (S2a) a visible flat node is listed exactly once, not hidden -/
def S2a (f : Flat) (st : Expansion) (d : Diagram) : Prop :=
  ∀ n ∈ f.nodes, visible f st n.id = true →
    (d.nodes.filter fun m => m.id == n.id).length = 1 ∧ ∀ m ∈ d.nodes, m.id = n.id → m.hidden = false
/-- (S2b) a non-visible flat node is listed only as a hidden node -/
def S2b (f : Flat) (st : Expansion) (d : Diagram) : Prop :=
  ∀ n ∈ f.nodes, visible f st n.id = false → ∀ m ∈ d.nodes, m.id = n.id → m.hidden = true
/-- (S2c) a shown node that is not DATA / INPUT / INPUT_GROUP / END is a flat node -/
def S2c (f : Flat) (d : Diagram) : Prop :=
  ∀ m ∈ d.nodes, m.hidden = false → isAuxKind m.kind = false → ∃ n ∈ f.nodes, n.id = m.id
/-- (F1) completeness -/
def F1 (f : Flat) (st : Expansion) (sep : Bool) (d : Diagram) : Prop :=
  ∀ dep ∈ deps f, crossing f st dep = true →
    ∃ s ∈ stand f st dep.producer, ∃ t ∈ stand f st dep.consumer, s ≠ t ∧ Linked d sep s t
/-- what one edge `ms → mt` must satisfy -/
def EdgeOK (f : Flat) (st : Expansion) (ms mt : DNode) : Prop :=
  ms.kind = "INPUT" ∨ ms.kind = "INPUT_GROUP" ∨ mt.kind = "END" ∨
  (mt.kind = "DATA" ∧ mt.owner = some (resolve ms)) ∨
  (mt.kind ≠ "DATA" ∧
    ∃ dep ∈ deps f, resolve ms ∈ stand f st dep.producer ∧ mt.id ∈ stand f st dep.consumer)
/-- (F2) soundness -/
def F2 (f : Flat) (st : Expansion) (d : Diagram) : Prop :=
  ∀ e ∈ d.edges, ∀ ms ∈ d.nodes, ∀ mt ∈ d.nodes, ms.id = e.source → mt.id = e.target →
    EdgeOK f st ms mt

structure Faithful (f : Flat) (st : Expansion) (separate : Bool) (d : Diagram) : Prop where
  s1a : S1a d
  s1b : S1b d
  s1c : S1c d
  s1d : S1d f st d
  s2a : S2a f st d
  s2b : S2b f st d
  s2c : S2c f d
  f1 : F1 f st separate d
  f2 : F2 f st d

/-! ### the checker -/

def hasEdge (d : Diagram) (s t : String) : Bool := d.edges.any fun e => e.source == s && e.target == t

def linked (d : Diagram) (sep : Bool) (s t : String) : Bool :=
  hasEdge d s t ||
  (sep && d.nodes.any fun m =>
    m.kind == "DATA" && m.owner == some s && hasEdge d s m.id && hasEdge d m.id t)

def declared (d : Diagram) (id : String) : Bool := d.nodes.any fun m => m.id == id

def checkS1a (d : Diagram) : Bool := d.edges.all fun e => declared d e.source && declared d e.target
def checkS1b (d : Diagram) : Bool :=
  d.edges.all fun e => d.nodes.all fun m =>
    !(m.id == e.source || m.id == e.target) || !m.hidden || isInputKind m.kind
def checkS1c (d : Diagram) : Bool := !d.nodes.isEmpty
def checkS1d (f : Flat) (st : Expansion) (d : Diagram) (ds : List Dep) : Bool :=
  !(ds.any fun dep => crossing f st dep) || !d.edges.isEmpty
def checkS2a (f : Flat) (st : Expansion) (d : Diagram) : Bool :=
  f.nodes.all fun n => !visible f st n.id ||
    ((d.nodes.filter fun m => m.id == n.id).length == 1 &&
      d.nodes.all fun m => m.id != n.id || !m.hidden)
def checkS2b (f : Flat) (st : Expansion) (d : Diagram) : Bool :=
  f.nodes.all fun n => visible f st n.id || d.nodes.all fun m => m.id != n.id || m.hidden
def checkS2c (f : Flat) (d : Diagram) : Bool :=
  d.nodes.all fun m => m.hidden || isAuxKind m.kind || f.nodes.any fun n => n.id == m.id
def depDrawn (d : Diagram) (sep : Bool) (sf : String → List String) (dep : Dep) : Bool :=
  (sf dep.producer).any fun s => (sf dep.consumer).any fun t => s != t && linked d sep s t
def checkF1 (f : Flat) (st : Expansion) (sep : Bool) (d : Diagram) (ds : List Dep)
    (sf : String → List String) : Bool :=
  ds.all fun dep => !crossing f st dep || depDrawn d sep sf dep
def covers (sf : String → List String) (s t : String) (dep : Dep) : Bool :=
  (sf dep.producer).contains s && (sf dep.consumer).contains t
def edgeOK (ds : List Dep) (sf : String → List String) (ms mt : DNode) : Bool :=
  isInputKind ms.kind || mt.kind == "END" ||
  (if mt.kind == "DATA" then mt.owner == some (resolve ms)
   else ds.any (covers sf (resolve ms) mt.id))
def checkF2 (d : Diagram) (ds : List Dep) (sf : String → List String) : Bool :=
  d.edges.all fun e => d.nodes.all fun ms => ms.id != e.source ||
    d.nodes.all fun mt => mt.id != e.target || edgeOK ds sf ms mt

/-- `stand` of every listed flat id, computed once per check -/
def standTable (f : Flat) (st : Expansion) : List (String × List String) :=
  f.nodes.map fun n => (n.id, stand f st n.id)
def standFast (f : Flat) (st : Expansion) (tab : List (String × List String)) (id : String) :
    List String :=
  match tab.lookup id with
  | some l => l
  | none => stand f st id

/-- the executable validator -/
def checkFaithful (f : Flat) (st : Expansion) (separate : Bool) (d : Diagram) : Bool :=
  let ds := deps f
  let sf := standFast f st (standTable f st)
  checkS1a d && checkS1b d && checkS1c d && checkS1d f st d ds && checkS2a f st d &&
  checkS2b f st d && checkS2c f d && checkF1 f st separate d ds sf && checkF2 d ds sf

/-! ### reasons -/

def showDep (dep : Dep) : String :=
  dep.producer ++ " -> " ++ dep.consumer ++ " [" ++ dep.kind.toString ++
    (match dep.value with | some v => " " ++ v | none => "") ++ "]"
def showEdge (e : DEdge) : String :=
  e.source ++ " -> " ++ e.target ++ " [" ++ e.kind ++
    (match e.value with | some v => " " ++ v | none => "") ++ "]"

/-- a failed clause yields its tag followed by the offending items -/
def section_ (ok : Bool) (tag : String) (items : Unit → List String) : List String :=
  if ok then [] else tag :: items ()

def explain (f : Flat) (st : Expansion) (separate : Bool) (d : Diagram) : List String :=
  let ds := deps f
  let sf := standFast f st (standTable f st)
  section_ (checkS1a d) "S1a: edge endpoint is not a declared node" (fun _ =>
    (d.edges.filter fun e => !(declared d e.source && declared d e.target)).map showEdge) ++
  section_ (checkS1b d) "S1b: edge endpoint is a hidden node that is not INPUT/INPUT_GROUP" (fun _ =>
    (d.edges.filter fun e => !(d.nodes.all fun m =>
        !(m.id == e.source || m.id == e.target) || !m.hidden || isInputKind m.kind)).map showEdge) ++
  section_ (checkS1c d) "S1c: diagram has no nodes" (fun _ => []) ++
  section_ (checkS1d f st d ds) "S1d: diagram has no edges although a dependency must be drawn"
    (fun _ => (ds.filter (crossing f st)).map showDep) ++
  section_ (checkS2a f st d) "S2a: visible flat node is not listed exactly once as a shown node"
    (fun _ => (f.nodes.filter fun n => visible f st n.id &&
        !((d.nodes.filter fun m => m.id == n.id).length == 1 &&
          d.nodes.all fun m => m.id != n.id || !m.hidden)).map (·.id)) ++
  section_ (checkS2b f st d) "S2b: non-visible flat node is listed as a shown node" (fun _ =>
    (f.nodes.filter fun n => !visible f st n.id &&
        !(d.nodes.all fun m => m.id != n.id || m.hidden)).map (·.id)) ++
  section_ (checkS2c f d) "S2c: shown node is not a flat node" (fun _ =>
    (d.nodes.filter fun m =>
        !(m.hidden || isAuxKind m.kind || f.nodes.any fun n => n.id == m.id)).map (·.id)) ++
  section_ (checkF1 f st separate d ds sf) "F1: dependency has no edge" (fun _ =>
    (ds.filter fun dep => crossing f st dep && !depDrawn d separate sf dep).map showDep) ++
  section_ (checkF2 d ds sf) "F2: edge covers no dependency" (fun _ =>
    (d.edges.filter fun e => !(d.nodes.all fun ms => ms.id != e.source ||
        d.nodes.all fun mt => mt.id != e.target || edgeOK ds sf ms mt)).map showEdge)

/-! ## nested description and flattening -/

/-- a nested graph as a list of trees (convenient for decoding) -/
inductive Tree
  | leaf (name kind : String) (inputs outputs waitFor : List Name) (targets : List String)
      (hidden : Bool)
  | container (name : String) (inputs outputs : List Name) (hidden : Bool) (children : List Tree)
  deriving Repr, Inhabited

structure NestedSpec where
  roots : List Tree
  deriving Repr, Inhabited

/-- the same in first-child / next-sibling form (a plain inductive: structural recursion and
induction work directly).  `targets` of a leaf are sibling NAMES. -/
inductive Forest
  | nil
  | leaf (name kind : String) (inputs outputs waitFor : List Name) (targets : List String)
      (hidden : Bool) (rest : Forest)
  | container (name : String) (inputs outputs : List Name) (hidden : Bool)
      (children rest : Forest)
  deriving Repr, Inhabited

mutual
def Forest.ofTree : Tree → Forest → Forest
  | .leaf nm k i o w t h, rest => .leaf nm k i o w t h rest
  | .container nm i o h ch, rest => .container nm i o h (Forest.ofTrees ch) rest
def Forest.ofTrees : List Tree → Forest
  | [] => .nil
  | t :: ts => Forest.ofTree t (Forest.ofTrees ts)
end

/-- `_build_hierarchical_id` -/
def mkId (parent : Option String) (name : String) : String :=
  match parent with
  | none => name
  | some p => p ++ "/" ++ name

/-- `_flatten_nodes`: node, then its nested nodes (parent = its id), then its later siblings -/
def flattenForest (parent : Option String) : Forest → List FNode
  | .nil => []
  | .leaf nm k i o w t h rest =>
    ⟨mkId parent nm, parent, k, i, o, w, t.map (mkId parent), h⟩ :: flattenForest parent rest
  | .container nm i o h ch rest =>
    ⟨mkId parent nm, parent, "GRAPH", i, o, [], [], h⟩ ::
      (flattenForest (some (mkId parent nm)) ch ++ flattenForest parent rest)

def flatten (F : Forest) : Flat := ⟨flattenForest none F⟩
def NestedSpec.flatten (s : NestedSpec) : Flat := Viz.flatten (Forest.ofTrees s.roots)

end HG.Viz
