import HG.Model.Graph
import HG.Model.TypeCompat
/-! # HG.Model.Build — build-time (constructor) validation of a graph

Mirrors `Graph.__init__` of `/repo/src/hypergraph/graph/core.py`, in the code's ORDER:

1. `_build_nodes_dict`            — duplicate node names
2. `_normalize_edges`             — explicit edges: unknown source / target node, value that is not an
                                    output of the source / not an input of the target
3. `_build_graph` → `validate_output_conflicts` (`graph/_conflict.py`) — two producers of one name
                                    must be mutually exclusive gate branches or ordered
4. `validate_graph` (`graph/validation.py`), in this order: graph name, reserved names, identifiers,
   namespace collision, consistent defaults, gate targets, gate self-loop, multi-target output
   conflicts, interrupt inside `map_over`, `cache=True` on a graph node, `wait_for` references,
   (strict mode) types.

All of these raise `GraphConfigError`.  `buildGraphOld` is the behaviour before the repair
`c7784ca`: `_expand_mutex_groups` called `nx.descendants` on a gate target that is not a node and the
raw `networkx.NetworkXError` escaped the constructor.  Two further repaired defects keep their
pre-repair check for a negative witness: `chkTypesAllEdges` (strict typing also visited the ordering
edges; constructor `buildGraphAllEdges`) and `chkIdentifiersSkipGraph` (the output names of a
nested-graph node were not validated; constructor `buildGraphSkipGraph`).  The repair "two producers of
one name are exclusive only if neither can run without its branch" (`d3b936a`) keeps the pre-repair
branch sets (`exclSetsReach` / `expandedGroupsReach`: every node reachable from one target only) and the
constructor using them (`buildGraphMutexReach`); the repair "strict_types checks every producer of a value
against its consumer" (`9cb1903`) keeps `chkTypesFirstProducer` (constructor `buildGraphFirstProducer`);
its follow-up "the consumer itself is no longer skipped among the producers" (`07d3d31`) keeps
`chkTypesSkipSelf` (no constructor of its own: `runChecks (checksUntyped ++ [chkTypesSkipSelf])`, with
`checksUntyped` of `HG/Lemmas/Build.lean`).

## What is data of the model and what is a precondition (node-level constructors, not `Graph`)
The input is the list of *elaborated* nodes (`NodeD`, what `Graph` reads off each `HyperNode`).  The
node constructors already guarantee (not re-checked by `Graph`, not assumed by any theorem here):
route targets are de-duplicated and never the string `"END"`, `when_true ≠ when_false`, a node's
inputs are pairwise different, emit / wait_for / data outputs / inputs are disjoint as
`_validate_emit_wait_for` demands.  Every definition below is total on inputs violating these.

Not representable (outside the model): an explicit edge that is not a 2- or 3-tuple (the arity error
of `_normalize_edges`), node *objects* as edge endpoints (resolved to their names by the encoder),
non-string gate targets, values whose `==` raises or is not structural (`_values_equal`; `Val` is a
closed universe with structural equality — Python's `1 == True` is NOT modelled), Unicode identifiers
(`str.isidentifier` accepts them; `isIdentifier` is the ASCII rule).

## Simplifications (each is an *equal* reformulation, never an approximation)
* `nx.descendants(G, t) | {t}` and `nx.has_path` are `reachSet` iterated `|V|` times
  (`HG.Build.reachSet`; proved equal to the reflexive-transitive closure in `HG.Lemmas.Build`).
* `_compute_exclusive_reachability` counts with a `Counter` over the per-target reachable sets; a node
  has count 1 and lies in `reachable[t]` iff it is reachable from `t` and from no *other* target —
  that is how `exclSetsReach` computes the CANDIDATES.  The branch of `t` is then grown from `{t}` by
  `_dependent_on_branch` (`branchOf`): the `while grew` loop adds one candidate at a time in sorted
  order, `branchRounds` adds per round every candidate that needs the current set; `needs` is monotone
  in the set, both reach the least fixpoint and only membership is ever read (`pairMutexIn`).
  `_is_pair_mutex` compares branch indices; "different index" = "different target name".
* `_build_full_edge_map` is evaluated pointwise (`keptAdj u v` = "the pair `(u, v)` survives in the
  sub-graph of `_is_pair_ordered`") instead of materialising the dictionary.
-/
namespace HG.Build
open HG HG.TypeCompat

/-- what `Graph.__init__` receives, as data -/
structure BuildInput where
  /-- the elaborated nodes, in the order of the `nodes` argument -/
  nodes : List NodeD
  /-- `name=` (`""` for `None`: neither contains `.` or `/`) -/
  graphName : String := ""
  /-- `strict_types=` -/
  strict : Bool := false
  /-- `edges=`: `(source, target)` (values inferred: `none`) or `(source, target, values)` -/
  explicitEdges : Option (List (Name × Name × Option (List Name))) := none
  /-- node ↦ parameter ↦ `get_input_type` (absent = `None`) -/
  inTypes : AL (AL Ty) := []
  /-- node ↦ output ↦ `get_output_type` (absent = `None`) -/
  outTypes : AL (AL Ty) := []
  /-- names of the graph nodes whose wrapped graph `has_interrupts` (an `InterruptNode` directly
  inside it; `NodeD` only has the index of the inner graph) -/
  innerInterrupts : List Name := []
  deriving Repr, Inhabited

/-- one constructor per `raise` site -/
inductive BuildErr
  | duplicateNode (n : Name)
  | edgeUnknownSource (src : Name)
  | edgeUnknownTarget (dst : Name)
  | edgeNotOutput (src dst v : Name)
  | edgeNotInput (src dst v : Name)
  | outputConflict (out a b : Name)
  | graphName (name : String)
  | reservedName (n : Name)
  | invalidNodeName (n : Name)
  | keywordNodeName (n : Name)
  | invalidOutputName (node out : Name)
  | keywordOutputName (node out : Name)
  | duplicateOutputName (node out : Name)
  | namespaceCollision (graphNode src : Name)
  | mixedDefaults (param : Name) (withD without : List Name)
  | defaultMismatch (param a b : Name)
  | unknownTarget (gate t : Name)
  | gateSelfLoop (gate : Name)
  | multiTargetConflict (gate out : Name)
  | interruptInMap (node : Name)
  | cacheOnGraphNode (node : Name)
  | waitForUnknown (node name : Name)
  | missingOutputAnnotation (src v : Name)
  | missingInputAnnotation (dst v : Name)
  | typeMismatch (src dst v : Name)
  /-- NOT a configuration error: `networkx.NetworkXError` escaping `_expand_mutex_groups`
  (only `buildGraphOld`) -/
  | rawNetworkXError (t : Name)
  deriving DecidableEq, Repr, Inhabited

namespace BuildErr
/-- the exception is a `GraphConfigError` -/
def isConfig : BuildErr → Bool
  | rawNetworkXError _ => false
  | _ => true

/-- flaw class -/
def className : BuildErr → String
  | duplicateNode _ => "duplicate_node"
  | edgeUnknownSource _ | edgeUnknownTarget _ | edgeNotOutput .. | edgeNotInput .. => "bad_edge"
  | outputConflict .. => "output_conflict"
  | graphName _ => "graph_name"
  | reservedName _ | invalidNodeName _ | keywordNodeName _ | invalidOutputName .. | keywordOutputName .. =>
    "illegal_name"
  | duplicateOutputName .. => "duplicate_output"
  | namespaceCollision .. => "namespace_collision"
  | mixedDefaults .. | defaultMismatch .. => "inconsistent_defaults"
  | unknownTarget .. => "unknown_target"
  | gateSelfLoop _ => "gate_self_loop"
  | multiTargetConflict .. => "multi_target_conflict"
  | interruptInMap _ => "interrupt_in_map"
  | cacheOnGraphNode _ => "cache_on_graph_node"
  | waitForUnknown .. => "wait_for_unknown"
  | missingOutputAnnotation .. | missingInputAnnotation .. => "missing_annotation"
  | typeMismatch .. => "type_mismatch"
  | rawNetworkXError _ => "raw_networkx_error"
end BuildErr

/-! ## names -/

def isIdStart (c : Char) : Bool := c.isAlpha || c == '_'
def isIdCont (c : Char) : Bool := c.isAlphanum || c == '_'

/-- `str.isidentifier()` on ASCII: first character a letter or `_`, the rest alphanumeric or `_` -/
def isIdentifier (s : String) : Bool :=
  match s.toList with
  | [] => false
  | c :: cs => isIdStart c && cs.all isIdCont

/-- `keyword.kwlist` (CPython 3.12; soft keywords are not `iskeyword`) -/
def pyKeywords : List String :=
  ["False", "None", "True", "and", "as", "assert", "async", "await", "break", "class", "continue",
   "def", "del", "elif", "else", "except", "finally", "for", "from", "global", "if", "import", "in",
   "is", "lambda", "nonlocal", "not", "or", "pass", "raise", "return", "try", "while", "with", "yield"]

def isKeyword (s : String) : Bool := pyKeywords.contains s

def nodeNames (b : BuildInput) : List Name := b.nodes.map (·.name)

def outType (b : BuildInput) (n o : Name) : Option Ty := (AL.get? b.outTypes n).bind fun m => AL.get? m o
def inType (b : BuildInput) (n p : Name) : Option Ty := (AL.get? b.inTypes n).bind fun m => AL.get? m p

/-! ## reachability (`nx.descendants`, `nx.has_path`) -/

/-- one breadth-first round inside the vertex list `V` -/
def reachStep (V : List Name) (adj : Name → Name → Bool) (S : List Name) : List Name :=
  V.filter fun v => S.contains v || S.any fun u => adj u v

/-- vertices reachable from `a` by a path of at most `k` edges -/
def reachSet (V : List Name) (adj : Name → Name → Bool) (a : Name) : Nat → List Name
  | 0 => V.filter (· == a)
  | k + 1 => reachStep V adj (reachSet V adj a k)

/-- `nx.has_path(G, a, c)` (`a` itself included), `G` = vertices `V`, edges `adj` -/
def reaches (V : List Name) (adj : Name → Name → Bool) (a c : Name) : Bool :=
  (reachSet V adj a V.length).contains c

/-- adjacency rows computed once (`adj` may be expensive) -/
def adjRows (V : List Name) (adj : Name → Name → Bool) : List (Name × List Name) :=
  V.map fun u => (u, V.filter (adj u))

def rowsAdj (rows : List (Name × List Name)) (u v : Name) : Bool :=
  rows.any fun r => r.1 == u && r.2.contains v

/-! ## the graph `_build_graph` constructs -/

/-- `_normalize_edges` (after its checks passed): `(src, dst, value_names)` -/
def normEdge (nodes : List NodeD) (e : Name × Name × Option (List Name)) : Name × Name × List Name :=
  match e.2.2 with
  | some vs => (e.1, e.2.1, dedup vs)
  | none =>
    match findNode nodes e.1, findNode nodes e.2.1 with
    | some sn, some dn => (e.1, e.2.1, dn.inputs.filter fun v => sn.outputs.contains v)
    | _, _ => (e.1, e.2.1, [])

/-- `_add_explicit_data_edges`: one data edge per pair (values concatenated, de-duplicated), then an
ordering edge for every declared pair without values and without a data edge -/
def explicitDataEdges (norm : List (Name × Name × List Name)) : List Edge :=
  let dataTs := norm.filter fun t => !t.2.2.isEmpty
  let keys := (dataTs.map fun t => (t.1, t.2.1)).eraseDups
  let des : List Edge := keys.map fun k =>
    { src := k.1, dst := k.2, kind := .data
      values := dedup ((dataTs.filter fun t => t.1 == k.1 && t.2.1 == k.2).flatMap (·.2.2)) }
  let ords := ((norm.filter fun t => t.2.2.isEmpty).map fun t => (t.1, t.2.1)).eraseDups
  ords.foldl (fun acc k =>
    if hasEdge acc k.1 k.2 then acc
    else acc ++ [{ src := k.1, dst := k.2, kind := .ordering, values := [] }]) des

/-- the edges of `self._nx_graph`, in insertion order -/
def graphEdges (b : BuildInput) : List Edge :=
  match b.explicitEdges with
  | none => inferEdges b.nodes
  | some es =>
    addOrderingEdges b.nodes (addControlEdges b.nodes (explicitDataEdges (es.map (normEdge b.nodes))))

/-- `G.edges(data=True)` iteration order: by source in node order, then insertion order.  (The second
summand is empty for every graph `_build_graph` builds; it makes membership independent of that.) -/
def nxOrder (nodes : List NodeD) (es : List Edge) : List Edge :=
  (nodes.flatMap fun n => es.filter fun e => e.src == n.name) ++
    es.filter fun e => !(nodes.map (·.name)).contains e.src

/-! ## `_conflict.py` -/

/-- `RouteNode` with `multi_target=False`, or `IfElseNode` -/
def exclusiveGate (g : NodeD) : Bool := (g.kind == .route && !g.multiTarget) || g.kind == .ifelse

/-- `[t for t in node.targets if t is not END and isinstance(t, str) and t in G]` -/
def knownTargets (V : List Name) (g : NodeD) : List Name := g.targetNames.filter fun t => V.contains t

/-- the CANDIDATES of `_compute_exclusive_reachability`: target ↦ nodes reachable from it and from no
other target.  Before the repair "two producers of one name are exclusive only if neither can run
without its branch" this WAS the branch of the target (pre-repair, not part of `checks`: kept for the
negative witnesses `HG.C19s.shared_target_not_mutex_witness` / `default_fed_not_mutex_witness`). -/
def exclSetsReach (V : List Name) (adj : Name → Name → Bool) (T : List Name) : List (Name × List Name) :=
  let rs := T.map fun t => (t, reachSet V adj t V.length)
  rs.map fun tr => (tr.1, tr.2.filter fun v => rs.all fun tr' => tr'.1 == tr.1 || !tr'.2.contains v)

/-- pre-repair `_expand_mutex_groups` (not part of `checks`) -/
def expandedGroupsReach (nodes : List NodeD) (V : List Name) (adj : Name → Name → Bool) :
    List (List (Name × List Name)) :=
  (nodes.filter exclusiveGate).filterMap fun g =>
    let T := knownTargets V g
    if T.length < 2 then none else some (exclSetsReach V adj T)

/-- `_controllers_of(name, node_map)`: the names of the gates listing `n` among their targets
(`name in g.targets`; `END` is not a string, `targetNames` drops it) -/
def controllersOf (nodes : List NodeD) (n : Name) : List Name :=
  (nodes.filter fun g => g.isGate && g.targetNames.contains n).map (·.name)

/-- `needs(name, branch)` of `_dependent_on_branch`: the node `m` cannot start unless the branch `B` ran —
(a) a parameter WITHOUT a default of its own (`has_default_for`) whose producers exist and all lie in `B`,
(b) an awaited signal whose producers exist and all lie in `B`, or (c) `m` is a gate target and every gate
routing to it lies in `B`.  (`node_map[name]` is "the node called `m`"; node names are pairwise different
when this check runs — `chkDuplicateNodes` precedes it — so `nodes.any` over the nodes called `m` is the
same lookup.) -/
def needsBranch (nodes : List NodeD) (B : List Name) (m : Name) : Bool :=
  (nodes.any fun nd => nd.name == m &&
    ((nd.inputs.any fun p =>
        !(sourcesOf nodes p).isEmpty && (sourcesOf nodes p).all (fun s => B.contains s) &&
          !nd.hasDefault.contains p) ||
      nd.waitFor.any fun w =>
        !(sourcesOf nodes w).isEmpty && (sourcesOf nodes w).all fun s => B.contains s)) ||
    (!(controllersOf nodes m).isEmpty && (controllersOf nodes m).all fun c => B.contains c)

/-- one round of the `while grew` loop of `_dependent_on_branch`: the candidates already in `D` and those
that need `{t} ∪ D` -/
def branchStep (nodes : List NodeD) (t : Name) (cand D : List Name) : List Name :=
  cand.filter fun m => D.contains m || needsBranch nodes (t :: D) m

/-- the `while grew` loop of `_dependent_on_branch`, by rounds: the candidates added to `{t}` after at
most `k` rounds, a round adding EVERY candidate that needs the current branch.  (The code adds them one
at a time in sorted order; `needs` is monotone in the branch, so both compute the least set closed under
"a candidate that needs the set is in the set" — `HG.Build.mem_branchOf_iff`.) -/
def branchRounds (nodes : List NodeD) (t : Name) (cand : List Name) : Nat → List Name
  | 0 => []
  | k + 1 => branchStep nodes t cand (branchRounds nodes t cand k)

/-- `_dependent_on_branch(target, candidates, gate, …)`: empty when a gate other than `gate` also routes
to `t` (`_controllers_of(target) - {gate}` non-empty); otherwise `t` and every candidate that transitively
needs it.  `cand.length` rounds reach the fixpoint (each productive round adds a candidate). -/
def branchOf (nodes : List NodeD) (gate t : Name) (cand : List Name) : List Name :=
  if (controllersOf nodes t).all (· == gate) then t :: branchRounds nodes t cand cand.length else []

/-- `_compute_exclusive_reachability(G, T, gate=…, node_map=…, output_to_sources=…)`: target ↦ the nodes
that run ONLY when `gate` chose that target -/
def exclSets (nodes : List NodeD) (V : List Name) (adj : Name → Name → Bool) (gate : Name) (T : List Name) :
    List (Name × List Name) :=
  (exclSetsReach V adj T).map fun tc => (tc.1, branchOf nodes gate tc.1 tc.2)

/-- `_expand_mutex_groups` -/
def expandedGroups (nodes : List NodeD) (V : List Name) (adj : Name → Name → Bool) :
    List (List (Name × List Name)) :=
  (nodes.filter exclusiveGate).filterMap fun g =>
    let T := knownTargets V g
    if T.length < 2 then none else some (exclSets nodes V adj g.name T)

def pairMutexIn (branches : List (Name × List Name)) (a c : Name) : Bool :=
  branches.any fun b1 => branches.any fun b2 => b1.1 != b2.1 && b1.2.contains a && b2.2.contains c

/-- `_is_pair_mutex` -/
def isPairMutex (groups : List (List (Name × List Name))) (a c : Name) : Bool :=
  groups.any fun br => pairMutexIn br a c

/-- `_contested_values_for(set(sources), output_to_sources)` -/
def contestedFor (nodes : List NodeD) (S : List Name) : List Name :=
  (graphOutputs nodes).filter fun o' =>
    let S' := sourcesOf nodes o'
    decide (1 < S'.length) && decide (1 < (dedup (S.filter fun x => S'.contains x)).length)

/-- `_build_full_edge_map(...)[(u, v)].data_values` -/
def fullDataValues (nodes : List NodeD) (es : List Edge) (u v : Name) : List Name :=
  ((es.filter fun e => e.src == u && e.dst == v && e.kind == .data).flatMap (·.values)) ++
    (nodes.filter fun nd => nd.name == v).flatMap fun nd =>
      nd.inputs.filter fun p => (sourcesOf nodes p).contains u

/-- `….has_control` -/
def fullHasControl (es : List Edge) (u v : Name) : Bool :=
  es.any fun e => e.src == u && e.dst == v && e.kind == .control

/-- `….has_ordering` -/
def fullHasOrdering (nodes : List NodeD) (es : List Edge) (u v : Name) : Bool :=
  (es.any fun e => e.src == u && e.dst == v && e.kind == .ordering) ||
    nodes.any fun nd => nd.name == v && nd.waitFor.any fun w =>
      (sourcesOf nodes w).any fun pr => pr == u && pr != nd.name

/-- the pair `(u, v)` is an edge of the sub-graph built by `_is_pair_ordered`: it has a control or
ordering edge, or carries at least one data value that is not contested -/
def keptAdj (nodes : List NodeD) (es : List Edge) (contested : List Name) (u v : Name) : Bool :=
  fullHasControl es u v || fullHasOrdering nodes es u v ||
    (fullDataValues nodes es u v).any fun p => !contested.contains p

/-- `itertools.combinations(l, 2)` -/
def pairs {α : Type} : List α → List (α × α)
  | [] => []
  | x :: xs => xs.map (fun y => (x, y)) ++ pairs xs

/-- adjacency used for the ordering test of the producers of `o`: the built graph itself in explicit
mode, the sub-graph without contested data edges in auto-inference mode -/
def orderAdj (b : BuildInput) (o : Name) : Name → Name → Bool :=
  match b.explicitEdges with
  | some _ => hasEdge (graphEdges b)
  | none => keptAdj b.nodes (graphEdges b) (contestedFor b.nodes (sourcesOf b.nodes o))

/-- `orderAdj` as precomputed adjacency rows (`gRows` = rows of the built graph, reused in explicit mode) -/
def orderRows (b : BuildInput) (V : List Name) (es : List Edge) (gRows : List (Name × List Name))
    (S : List Name) : List (Name × List Name) :=
  match b.explicitEdges with
  | some _ => gRows
  | none => adjRows V (keptAdj b.nodes es (contestedFor b.nodes S))

/-! ## the checks, each returning the first error it raises -/

def firstDup : List Name → List Name → Option Name
  | _, [] => none
  | seen, x :: xs => if seen.contains x then some x else firstDup (x :: seen) xs

/-- `_build_nodes_dict` -/
def chkDuplicateNodes (b : BuildInput) : Option BuildErr :=
  (firstDup [] (nodeNames b)).map .duplicateNode

def chkEdge (nodes : List NodeD) (e : Name × Name × Option (List Name)) : Option BuildErr :=
  match findNode nodes e.1 with
  | none => some (.edgeUnknownSource e.1)
  | some sn =>
    match findNode nodes e.2.1 with
    | none => some (.edgeUnknownTarget e.2.1)
    | some dn =>
      match e.2.2 with
      | none => none
      | some vs => vs.findSome? fun v =>
          if !sn.outputs.contains v then some (.edgeNotOutput e.1 e.2.1 v)
          else if !dn.inputs.contains v then some (.edgeNotInput e.1 e.2.1 v)
          else none

/-- `_normalize_edges` -/
def chkExplicitEdges (b : BuildInput) : Option BuildErr :=
  match b.explicitEdges with
  | none => none
  | some es => es.findSome? (chkEdge b.nodes)

/-- `validate_output_conflicts`, the mutex groups computed by `groupsOf` -/
def chkOutputConflictsWith
    (groupsOf : List NodeD → List Name → (Name → Name → Bool) → List (List (Name × List Name)))
    (b : BuildInput) : Option BuildErr :=
  let V := nodeNames b
  let es := graphEdges b
  let gRows := adjRows V (hasEdge es)
  let groups := groupsOf b.nodes V (rowsAdj gRows)
  (graphOutputs b.nodes).findSome? fun o =>
    let S := sourcesOf b.nodes o
    if S.length < 2 then none
    else
      let oRows := orderRows b V es gRows S
      (pairs S).findSome? fun ac =>
        if isPairMutex groups ac.1 ac.2 || reaches V (rowsAdj oRows) ac.1 ac.2
            || reaches V (rowsAdj oRows) ac.2 ac.1 then none
        else some (.outputConflict o ac.1 ac.2)

/-- `validate_output_conflicts` -/
def chkOutputConflicts (b : BuildInput) : Option BuildErr := chkOutputConflictsWith expandedGroups b

/-- `validate_output_conflicts` before the repair "two producers of one name are exclusive only if neither
can run without its branch": the branch of a gate target was every node reachable from that target only
(kept for the negative witnesses `HG.C19s.shared_target_not_mutex_witness`,
`default_fed_not_mutex_witness`, `loop_back_branches_now_mutex_witness`; not part of `checks`) -/
def chkOutputConflictsReach (b : BuildInput) : Option BuildErr := chkOutputConflictsWith expandedGroupsReach b

/-- `_validate_graph_name` -/
def chkGraphName (b : BuildInput) : Option BuildErr :=
  if b.graphName.toList.contains '.' || b.graphName.toList.contains '/' then some (.graphName b.graphName)
  else none

/-- `_validate_reserved_names` -/
def chkReservedNames (b : BuildInput) : Option BuildErr :=
  b.nodes.findSome? fun nd => if nd.name == "END" then some (.reservedName nd.name) else none

/-- the output loop of `_validate_valid_identifiers` for one node -/
def chkOutputNames (nd : NodeD) : Option BuildErr :=
  nd.outputs.findSome? fun o =>
    if !isIdentifier o then some (.invalidOutputName nd.name o)
    else if isKeyword o then some (.keywordOutputName nd.name o)
    else none

/-- the separators of hierarchical node ids (`GraphNode._RESERVED_CHARS`) -/
def hasPathSep (s : String) : Bool := s.toList.contains '.' || s.toList.contains '/'

/-- `_validate_valid_identifiers`: the NAME of a graph node follows the laxer graph-name rule (no path
separator; repair "reserved characters in a nested-graph node name are rejected at construction":
`as_node(name=…)` refused them, `with_name(…)` did not), its OUTPUT names are validated like any other output -/
def chkIdentifiers (b : BuildInput) : Option BuildErr :=
  b.nodes.findSome? fun nd =>
    if nd.kind == .graph then
      (if hasPathSep nd.name then some (.invalidNodeName nd.name) else chkOutputNames nd)
    else if !isIdentifier nd.name then some (.invalidNodeName nd.name)
    else if isKeyword nd.name then some (.keywordNodeName nd.name)
    else chkOutputNames nd

/-- `_validate_valid_identifiers` before the repair "reserved characters in a nested-graph node name are
rejected at construction": the name of a graph node was not looked at (kept for the negative witness
`HG.C19s.graph_node_path_name_witness`; not part of `checks`) -/
def chkIdentifiersAnyGraphName (b : BuildInput) : Option BuildErr :=
  b.nodes.findSome? fun nd =>
    if nd.kind == .graph then chkOutputNames nd
    else if !isIdentifier nd.name then some (.invalidNodeName nd.name)
    else if isKeyword nd.name then some (.keywordNodeName nd.name)
    else chkOutputNames nd

/-- `_validate_valid_identifiers` before the repair "output names of a nested graph are validated":
the loop `continue`d on a graph node, skipping its outputs together with its name (kept for the
negative witness `HG.C19s.graph_node_output_name_witness`; not part of `checks`) -/
def chkIdentifiersSkipGraph (b : BuildInput) : Option BuildErr :=
  b.nodes.findSome? fun nd =>
    if nd.kind == .graph then none
    else if !isIdentifier nd.name then some (.invalidNodeName nd.name)
    else if isKeyword nd.name then some (.keywordNodeName nd.name)
    else chkOutputNames nd

/-- `_validate_distinct_outputs_per_node` (repair "a node cannot declare one output name twice"):
`@node(output_name=("a", "a"))` used to be accepted, the second value silently overwriting the first -/
def chkDistinctOutputs (b : BuildInput) : Option BuildErr :=
  b.nodes.findSome? fun nd => (firstDup [] nd.outputs).map (.duplicateOutputName nd.name)

/-- `all_outputs[name]` of `_validate_no_namespace_collision`: the LAST node producing `name` -/
def lastSource (nodes : List NodeD) (o : Name) : Option Name := (sourcesOf nodes o).getLast?

/-- `_validate_no_namespace_collision` -/
def chkNamespaceCollision (b : BuildInput) : Option BuildErr :=
  b.nodes.findSome? fun g =>
    if g.kind == .graph then
      match lastSource b.nodes g.name with
      | some src => if src == g.name then none else some (.namespaceCollision g.name src)
      | none => none
    else none

def chkDefaultsFor (nodes : List NodeD) (p : Name) : Option BuildErr :=
  let cons := nodes.filter fun n => n.inputs.contains p
  let withD := cons.filterMap fun n => (AL.get? n.sigDefaults p).map fun v => (v, n.name)
  let without := (cons.filter fun n => !(AL.has n.sigDefaults p)).map (·.name)
  if !withD.isEmpty && !without.isEmpty then some (.mixedDefaults p (withD.map (·.2)) without)
  else
    match withD with
    | [] => none
    | vn0 :: rest => rest.findSome? fun vn =>
        if vn.1 == vn0.1 then none else some (.defaultMismatch p vn0.2 vn.2)

/-- `_validate_consistent_defaults` -/
def chkConsistentDefaults (b : BuildInput) : Option BuildErr :=
  (uniqueParams b.nodes).findSome? (chkDefaultsFor b.nodes)

/-- `_validate_gate_targets` -/
def chkGateTargets (b : BuildInput) : Option BuildErr :=
  b.nodes.findSome? fun g =>
    if g.isGate then
      g.targetNames.findSome? fun t =>
        if (nodeNames b).contains t then none else some (.unknownTarget g.name t)
    else none

/-- `_validate_no_gate_self_loop` -/
def chkGateSelfLoop (b : BuildInput) : Option BuildErr :=
  b.nodes.findSome? fun g =>
    if g.isGate && g.targetNames.contains g.name then some (.gateSelfLoop g.name) else none

/-- outputs of the existing targets of a gate, target by target -/
def targetOutputs (nodes : List NodeD) (g : NodeD) : List Name :=
  (g.targetNames.filterMap (findNode nodes)).flatMap (·.outputs)

/-- `_validate_multi_target_output_conflicts` -/
def chkMultiTarget (b : BuildInput) : Option BuildErr :=
  b.nodes.findSome? fun g =>
    if g.kind == .route && g.multiTarget then
      (firstDup [] (targetOutputs b.nodes g)).map fun o => .multiTargetConflict g.name o
    else none

/-- `_validate_no_interrupt_in_map_over` -/
def chkInterruptInMap (b : BuildInput) : Option BuildErr :=
  b.nodes.findSome? fun g =>
    if g.kind == .graph && !g.mapOver.isEmpty && b.innerInterrupts.contains g.name
    then some (.interruptInMap g.name) else none

/-- `_validate_no_cache_on_non_function_nodes`: exactly `isinstance(node, GraphNode) and node.cache` -/
def chkCacheOnGraphNode (b : BuildInput) : Option BuildErr :=
  b.nodes.findSome? fun g => if g.kind == .graph && g.cache then some (.cacheOnGraphNode g.name) else none

/-- `_validate_wait_for_references` -/
def chkWaitFor (b : BuildInput) : Option BuildErr :=
  b.nodes.findSome? fun nd => nd.waitFor.findSome? fun w =>
    if (b.nodes.any fun p => p.outputs.contains w) then none else some (.waitForUnknown nd.name w)

/-- one triple `(source_name, target_name, value_name)` of the list `checked` of `_validate_types`: both
annotations present and compatible -/
def chkTypesTriple (b : BuildInput) (src dst v : Name) : Option BuildErr :=
  match outType b src v with
  | none => some (.missingOutputAnnotation src v)
  | some to =>
    match inType b dst v with
    | none => some (.missingInputAnnotation dst v)
    | some ti => if compat to ti then none else some (.typeMismatch src dst v)

/-- the values of one edge against the edge's own source only -/
def chkTypesEdge (b : BuildInput) (e : Edge) : Option BuildErr :=
  e.values.findSome? fun v => chkTypesTriple b e.src e.dst v

/-- `producers[v]` of `_validate_types`: the nodes listing `v` among their `data_outputs` (emit-only
outputs are not data), in node order -/
def dataSourcesOf (nodes : List NodeD) (v : Name) : List Name :=
  (nodes.filter fun n => n.dataOuts.contains v).map (·.name)

/-- the sources `checked` lists for the value `v` on the edge `e`: the edge's own source first, then every
OTHER data producer of `v` (`other != source_name`) in node order.  Since the repair `07d3d31` the consumer
itself is no longer skipped among the producers (it used to be `other not in (source_name, target_name)`,
kept as `typeSourcesForSkipSelf`): a node that reads AND writes the name — an accumulator — has its own
output typed against its own parameter whatever the node order. -/
def typeSourcesFor (b : BuildInput) (e : Edge) (v : Name) : List Name :=
  e.src :: (dataSourcesOf b.nodes v).filter fun o => o != e.src

/-- `typeSourcesFor` before repair `07d3d31` (`other not in (source_name, target_name)`): the consumer itself
was skipped among the other producers of the value.  Kept for the negative witness
`HG.C19s.flaw_self_feed_unchecked_witness`; not part of `checks`. -/
def typeSourcesForSkipSelf (b : BuildInput) (e : Edge) (v : Name) : List Name :=
  e.src :: (dataSourcesOf b.nodes v).filter fun o => o != e.src && o != e.dst

/-- the values of one edge against EVERY producer that can deliver them to the edge's target (the target
itself included, when it also produces the value) -/
def chkTypesEdgeProducers (b : BuildInput) (e : Edge) : Option BuildErr :=
  e.values.findSome? fun v => (typeSourcesFor b e v).findSome? fun s => chkTypesTriple b s e.dst v

/-- `chkTypesEdgeProducers` before repair `07d3d31`: the sources are `typeSourcesForSkipSelf`, so the
edge's target is never typed against itself.  Not part of `checks`. -/
def chkTypesEdgeProducersSkipSelf (b : BuildInput) (e : Edge) : Option BuildErr :=
  e.values.findSome? fun v => (typeSourcesForSkipSelf b e v).findSome? fun s => chkTypesTriple b s e.dst v

/-- `_validate_types`: every edge with `value_names` EXCEPT the ordering edges (`edge_type ==
"ordering"`, which `_add_ordering_edges` labels with the awaited name): no value reaches a parameter
through an ordering edge, there is nothing to type.  The built graph links a consumer to the FIRST-listed
producer of a name only; every other data producer of the value is checked against the consumer as well
(repair "strict_types checks every producer of a value against its consumer", `9cb1903`).  A second repair,
`07d3d31`: the consumer itself is no longer skipped among the producers (`other != source_name` instead of
`other not in (source_name, target_name)`), so a node that reads and writes the same name is typed against
itself (`HG.C19s.self_feed_checked`).  The code first
collects the triples (per edge in `G.edges` order, per value: the edge's own, then the other producers in
node order) and then checks them in that order: the nested `findSome?` visits them in the same order. -/
def chkTypes (b : BuildInput) : Option BuildErr :=
  if b.strict then
    (nxOrder b.nodes (graphEdges b)).findSome? fun e =>
      if e.kind == .ordering then none else chkTypesEdgeProducers b e
  else none

/-- `_validate_types` before repair `07d3d31` (and after `9cb1903`): every other producer of a value is
checked against the consumer EXCEPT the consumer itself, so a self-feeding node (parameter and data output
of the same name, differently annotated) listed after the first producer went unchecked.  Kept for the
negative witness `HG.C19s.flaw_self_feed_unchecked_witness`; not part of `checks`. -/
def chkTypesSkipSelf (b : BuildInput) : Option BuildErr :=
  if b.strict then
    (nxOrder b.nodes (graphEdges b)).findSome? fun e =>
      if e.kind == .ordering then none else chkTypesEdgeProducersSkipSelf b e
  else none

/-- `_validate_types` before the repair "strict_types checks every producer of a value against its
consumer": the data edges of the built graph only, i.e. the first-listed producer of each name (kept for
the negative witness `HG.C19s.strict_second_producer_witness`; not part of `checks`) -/
def chkTypesFirstProducer (b : BuildInput) : Option BuildErr :=
  if b.strict then
    (nxOrder b.nodes (graphEdges b)).findSome? fun e =>
      if e.kind == .ordering then none else chkTypesEdge b e
  else none

/-- `_validate_types` before the repair "strict typing skips ordering edges": every edge with
`value_names`, data edges AND ordering edges, so every strict graph with an emit / wait_for pair was
rejected — and, like `chkTypesFirstProducer`, the first-listed producer only (kept for the negative witness
`HG.C19s.strict_wait_for_witness`; not part of `checks`) -/
def chkTypesAllEdges (b : BuildInput) : Option BuildErr :=
  if b.strict then (nxOrder b.nodes (graphEdges b)).findSome? (chkTypesEdge b) else none

/-- pre-repair `_expand_mutex_groups`: the target list was not restricted to nodes of `G`, so with
at least two string targets `nx.descendants(G, t)` is called on an unknown `t` and raises -/
def chkOldRawError (b : BuildInput) : Option BuildErr :=
  b.nodes.findSome? fun g =>
    if exclusiveGate g && decide (2 ≤ g.targetNames.length) then
      (g.targetNames.find? fun t => !(nodeNames b).contains t).map .rawNetworkXError
    else none

/-- the checks of `Graph.__init__`, in the order they run -/
def checks : List (BuildInput → Option BuildErr) :=
  [chkDuplicateNodes, chkExplicitEdges, chkOutputConflicts,
   chkGraphName, chkReservedNames, chkIdentifiers, chkDistinctOutputs, chkNamespaceCollision, chkConsistentDefaults,
   chkGateTargets, chkGateSelfLoop, chkMultiTarget, chkInterruptInMap, chkCacheOnGraphNode,
   chkWaitFor, chkTypes]

/-- the same with the pre-repair `_expand_mutex_groups` (first statement of `validate_output_conflicts`) -/
def checksOld : List (BuildInput → Option BuildErr) :=
  [chkDuplicateNodes, chkExplicitEdges, chkOldRawError, chkOutputConflicts,
   chkGraphName, chkReservedNames, chkIdentifiers, chkDistinctOutputs, chkNamespaceCollision, chkConsistentDefaults,
   chkGateTargets, chkGateSelfLoop, chkMultiTarget, chkInterruptInMap, chkCacheOnGraphNode,
   chkWaitFor, chkTypes]

/-- the same with the pre-repair `_validate_types` (ordering edges typed as well) -/
def checksAllEdges : List (BuildInput → Option BuildErr) :=
  [chkDuplicateNodes, chkExplicitEdges, chkOutputConflicts,
   chkGraphName, chkReservedNames, chkIdentifiers, chkDistinctOutputs, chkNamespaceCollision, chkConsistentDefaults,
   chkGateTargets, chkGateSelfLoop, chkMultiTarget, chkInterruptInMap, chkCacheOnGraphNode,
   chkWaitFor, chkTypesAllEdges]

/-- the same with the pre-repair `_validate_valid_identifiers` (graph nodes skipped, outputs included) -/
def checksSkipGraph : List (BuildInput → Option BuildErr) :=
  [chkDuplicateNodes, chkExplicitEdges, chkOutputConflicts,
   chkGraphName, chkReservedNames, chkIdentifiersSkipGraph, chkNamespaceCollision, chkConsistentDefaults,
   chkGateTargets, chkGateSelfLoop, chkMultiTarget, chkInterruptInMap, chkCacheOnGraphNode,
   chkWaitFor, chkTypes]

/-- the same before the repair "a node cannot declare one output name twice" -/
def checksDupOutputs : List (BuildInput → Option BuildErr) :=
  [chkDuplicateNodes, chkExplicitEdges, chkOutputConflicts,
   chkGraphName, chkReservedNames, chkIdentifiers, chkNamespaceCollision, chkConsistentDefaults,
   chkGateTargets, chkGateSelfLoop, chkMultiTarget, chkInterruptInMap, chkCacheOnGraphNode,
   chkWaitFor, chkTypes]

/-- the same with the pre-repair mutex expansion (a branch = everything reachable from one target only) -/
def checksMutexReach : List (BuildInput → Option BuildErr) :=
  [chkDuplicateNodes, chkExplicitEdges, chkOutputConflictsReach,
   chkGraphName, chkReservedNames, chkIdentifiers, chkDistinctOutputs, chkNamespaceCollision, chkConsistentDefaults,
   chkGateTargets, chkGateSelfLoop, chkMultiTarget, chkInterruptInMap, chkCacheOnGraphNode,
   chkWaitFor, chkTypes]

/-- the same with the pre-repair `_validate_types` (first-listed producer of each value only) -/
def checksFirstProducer : List (BuildInput → Option BuildErr) :=
  [chkDuplicateNodes, chkExplicitEdges, chkOutputConflicts,
   chkGraphName, chkReservedNames, chkIdentifiers, chkDistinctOutputs, chkNamespaceCollision, chkConsistentDefaults,
   chkGateTargets, chkGateSelfLoop, chkMultiTarget, chkInterruptInMap, chkCacheOnGraphNode,
   chkWaitFor, chkTypesFirstProducer]

def runChecks (cs : List (BuildInput → Option BuildErr)) (b : BuildInput) : Except BuildErr Unit :=
  match cs.findSome? fun c => c b with
  | some e => .error e
  | none => .ok ()

/-- `Graph(nodes, edges=…, name=…, strict_types=…)`: `.ok ()` iff the constructor returns -/
def buildGraph (b : BuildInput) : Except BuildErr Unit := runChecks checks b

/-- the constructor before repair `c7784ca` -/
def buildGraphOld (b : BuildInput) : Except BuildErr Unit := runChecks checksOld b

/-- the constructor before the repair "strict typing skips ordering edges" -/
def buildGraphAllEdges (b : BuildInput) : Except BuildErr Unit := runChecks checksAllEdges b

/-- the constructor before the repair "output names of a nested graph are validated" -/
def buildGraphSkipGraph (b : BuildInput) : Except BuildErr Unit := runChecks checksSkipGraph b

/-- the constructor before the repair "a node cannot declare one output name twice" -/
def buildGraphDupOutputs (b : BuildInput) : Except BuildErr Unit := runChecks checksDupOutputs b

/-- the constructor before the repair "two producers of one name are exclusive only if neither can run
without its branch" -/
def buildGraphMutexReach (b : BuildInput) : Except BuildErr Unit := runChecks checksMutexReach b

/-- the constructor before the repair "strict_types checks every producer of a value against its consumer" -/
def buildGraphFirstProducer (b : BuildInput) : Except BuildErr Unit := runChecks checksFirstProducer b

/-- `"ok"` or the flaw class of the first error -/
def classify (b : BuildInput) : String :=
  match buildGraph b with
  | .ok _ => "ok"
  | .error e => e.className

def classifyOld (b : BuildInput) : String :=
  match buildGraphOld b with
  | .ok _ => "ok"
  | .error e => e.className

def classifyAllEdges (b : BuildInput) : String :=
  match buildGraphAllEdges b with
  | .ok _ => "ok"
  | .error e => e.className

def classifySkipGraph (b : BuildInput) : String :=
  match buildGraphSkipGraph b with
  | .ok _ => "ok"
  | .error e => e.className

def classifyMutexReach (b : BuildInput) : String :=
  match buildGraphMutexReach b with
  | .ok _ => "ok"
  | .error e => e.className

def classifyFirstProducer (b : BuildInput) : String :=
  match buildGraphFirstProducer b with
  | .ok _ => "ok"
  | .error e => e.className

end HG.Build
