import HG.Model.Cache
/-! # HG.Model.RunCached — the sync runner with a node-result cache threaded through it

`SyncRunner(cache=…)`: `run_superstep_sync` consults the cache before every node execution
(`check_cache` → hit: cached outputs, `restore_routing_decision`, events `NodeStart`, `CacheHit`,
optional `RouteDecision`, `NodeEnd(cached=True)`; miss: execute, `store_in_cache`). ONE cache object is
used by all node executions of all supersteps of a run, and by all runs of the runner.

`stepSyncCached` / `runLoopCached` / `runGraphCached` are `stepSync` / `runLoop` / `runGraph` (sync
runner) with every node execution routed through `execCached` (`HG.Model.Cache`) and the cache threaded
through the nodes of a step in ready order, through the steps, and (`runsCached`) through a sequence of
runs. The result is the usual output plus the final cache.

Nested graph nodes: a graph node is never cacheable (`_validate_no_cache_on_non_function_nodes`), so it
executes directly; its nested run is the opaque `Nested` callback of the existing model (the cache is
not threaded into the nested run). -/
namespace HG.Cache
open HG

/-- `build_cache_hit_event`: emitted between `NodeStart` and `NodeEnd` when a node is served from the
cache (`info` carries the cache key) -/
def cacheHitEv (sp runSpan : Span) (nd : NodeD) (key : Name) : Log :=
  .ev { kind := "CacheHit", span := sp, parent := some runSpan, name := nd.name, info := key }

/-- the executor handed to `execCached` for a node running against the step-local state `ns` -/
def nodeExec (nested : Nested) (sem : Sem) (gi : Nat) (ns : GState) (sp : Span) : NodeD → AL Val → NodeOut :=
  fun nd inputs => execNode nested sem gi nd inputs ns sp

/-- `run_superstep_sync` with `cache=…`: as `stepSync`, every node through `execCached`. On a hit the
function is not called: the log holds the `CacheHit` event in place of the executor's log, and the
`NodeEnd` event carries `cached` (`NodeEndEvent(cached=True)`). -/
def stepSyncCached (env : KeyEnv) (nested : Nested) (sem : Sem) (gi : Nat) (g : GraphD) (runSpan : Span)
    (k : Nat) (s : GState) : List NodeD → GState → List Log → Lru (AL Val) → StepOut × Lru (AL Val)
  | [], ns, log, c => (.ok ns log, c)
  | nd :: rest, ns, log, c =>
    match collectInputs g s nd nd.inputs with
    | .none => (.fail (.keyError nd.name) s log, c)
    | some inputs =>
      let sp := nodeSpanOf runSpan k nd
      let startEv := Log.ev { kind := "NodeStart", span := sp, parent := some runSpan, name := nd.name }
      let r := execCached env c nd inputs (nodeExec nested sem gi ns sp)
      let mid : List Log :=
        if r.called then (nodeExec nested sem gi ns sp nd inputs).log
        else [cacheHitEv sp runSpan nd (keyOf env nd inputs)]
      let ns1 := match r.dec with
        | some d => { ns with decisions := AL.put ns.decisions nd.name d }
        | .none => ns
      match r.pause with
      | some p =>
        (.pause p s (log ++ [startEv] ++ mid ++
          [.ev { kind := "NodeError", span := sp, parent := some runSpan, name := nd.name }]), r.cache)
      | .none =>
        match r.res with
        | .error e =>
          (.fail e ns1 (log ++ [startEv] ++ mid ++
            [.ev { kind := "NodeError", span := sp, parent := some runSpan, name := nd.name }]), r.cache)
        | .ok outs =>
          let ns2 := recordExec s (ns1.applyOutputs outs) nd
          stepSyncCached env nested sem gi g runSpan k s rest ns2
            (log ++ [startEv] ++ mid ++ routeEvent runSpan k nd ns1 ++
              [.ev { kind := "NodeEnd", span := sp, parent := some runSpan, name := nd.name,
                     info := if r.called then "" else "cached" }]) r.cache

/-- `runLoop` with a cache threaded through the steps -/
def runLoopCached (step : Nat → GState → List NodeD → Lru (AL Val) → StepOut × Lru (AL Val))
    (g : GraphD) (active : Option (List Name)) (maxIter : Nat) :
    Nat → Nat → GState → List Log → Lru (AL Val) → LoopOut × Lru (AL Val)
  | 0, k, s, log, c =>
    let (rs, s1) := ready g active s
    (if rs.isEmpty then .done s1 log k else .fail (.infiniteLoop maxIter) s1 log k, c)
  | fuel + 1, k, s, log, c =>
    match ready g active s with
    | ([], s1) => (.done s1 log k, c)
    | (rs, s1) =>
      match step k s1 rs c with
      | (.ok ns l, c1) => runLoopCached step g active maxIter fuel (k + 1) ns (log ++ l) c1
      | (.fail e ps l, c1) => (.fail e ps (log ++ l) (k + 1), c1)
      | (.pause p ps l, c1) => (.pause p ps (log ++ l) (k + 1), c1)

/-- what `runGraph` does with the outcome of its loop (verbatim): output filtering, run-end, shutdown.
`runGraph … = finishRunC … (runLoop …)` holds by `rfl` (`HG.Cache.runGraph_sync_eq`). -/
def finishRunC (g : GraphD) (cfg : RunCfg) (span : Span) (parent : Option Span) (lo : LoopOut) : RunOut :=
  let shut : List Log := if parent.isNone then [.shutdown] else []
  let failWith (e : ErrId) (partialState : Option GState) (log : List Log) : RunOut :=
    let log := log ++ [runEndEv span parent g "failed"] ++ shut
    match cfg.errMode with
    | .raise => { status := .failed, error := some e, raised := true, log := log }
    | .cont =>
      let vals := match partialState with
        | .none => []
        | some ps => match filterOutputs g ps cfg.select .ignore with
          | .ok (v, _) => v
          | .error _ => []
      { status := .failed, values := vals, error := some e, log := log }
  match lo with
  | .done s log _ =>
    match filterOutputs g s cfg.select cfg.onMissing with
    | .ok (vals, w) =>
      { status := .completed, values := vals, warnings := w
        log := log ++ [runEndEv span parent g "completed"] ++ shut }
    | .error e => failWith e .none log
  | .fail e ps log _ => failWith e (some ps) log
  | .pause p ps log _ =>
    let vals := match filterOutputs g ps cfg.select .ignore with
      | .ok (v, _) => v
      | .error _ => []
    { status := .paused, values := vals, pause := some p, log := log ++ shut }

/-- the loop of a cached sync run -/
def runGraphLoopCached (env : KeyEnv) (nested : Nested) (sem : Sem) (gi : Nat) (g : GraphD)
    (values : AL Val) (cfg : RunCfg) (span : Span) (parent : Option Span) (cache : Lru (AL Val)) :
    LoopOut × Lru (AL Val) :=
  runLoopCached (fun k s rs c => stepSyncCached env nested sem gi g span k s rs s [] c) g (activeNodeSet g)
    cfg.maxIter cfg.maxIter 0 (initState values) [runStartEv span parent g ""] cache

/-- `run()` of a `SyncRunner(cache=…)` after validation: the run output and the cache it leaves -/
def runGraphCached (env : KeyEnv) (nested : Nested) (sem : Sem) (gi : Nat) (g : GraphD)
    (values : AL Val) (cfg : RunCfg) (span : Span) (parent : Option Span) (cache : Lru (AL Val)) :
    RunOut × Lru (AL Val) :=
  let r := runGraphLoopCached env nested sem gi g values cfg span parent cache
  (finishRunC g cfg span parent r.1, r.2)

/-- a sequence of `run()` calls on one runner (one graph, each call with its own inputs), sharing the
runner's cache: the outputs in order, and the final cache -/
def runsCached (env : KeyEnv) (nested : Nested) (sem : Sem) (gi : Nat) (g : GraphD) (cfg : RunCfg)
    (span : Span) (parent : Option Span) : List (AL Val) → Lru (AL Val) → List RunOut × Lru (AL Val)
  | [], c => ([], c)
  | v :: vs, c =>
    let r := runGraphCached env nested sem gi g v cfg span parent c
    let rest := runsCached env nested sem gi g cfg span parent vs r.2
    (r.1 :: rest.1, rest.2)

/-- top-level `SyncRunner(cache=…).run(graph, values, …)` (inputs assumed validated) -/
def runCached (env : KeyEnv) (sem : Sem) (prog : Program) (root : Nat) (values : AL Val) (cfg : RunCfg)
    (cache : Lru (AL Val)) : RunOut × Lru (AL Val) :=
  runGraphCached env (nestedAt sem .sync prog prog.length) sem root (prog.getD root default) values cfg
    ["r"] .none cache

/-! ## observations on logs -/

/-- the function invocations recorded in a log: `(function id, keyword arguments)` in order -/
def callsOf : List Log → List (String × AL Val)
  | [] => []
  | .call fn args :: rest => (fn, args) :: callsOf rest
  | _ :: rest => callsOf rest

/-- one log entry with everything the cache may change erased: invocations are dropped (a hit does not
call the function), so is the `CacheHit` marker, and the `cached` flag of `NodeEnd` is cleared -/
def eraseCache1 : Log → Option Log
  | .call _ _ => .none
  | .ev e =>
    if e.kind = "CacheHit" then .none
    else if e.kind = "NodeEnd" then some (.ev { e with info := "" })
    else some (.ev e)
  | .shutdown => some .shutdown

/-- a log modulo what the cache may change (`eraseCache1` on every entry) -/
def eraseCache (l : List Log) : List Log := l.filterMap eraseCache1

end HG.Cache
