import HG.Model.Exec
/-! # HG.Model.Run — supersteps, the runner loop, `run` and `map`

Mirrors `runners/sync/superstep.py`, `runners/async_/superstep.py`, the executors,
`runners/sync/runner.py`, `runners/async_/runner.py`, `template_sync.py`, `template_async.py`
and `filter_outputs` / `generate_map_inputs` / `collect_as_lists` of `helpers.py`.
Caching is modelled separately (`HG.Model.Cache`); input validation in `HG.Model.Validate`. -/
namespace HG

abbrev Span := List String

/-- one delivered event (ids are structural paths instead of random hex strings) -/
structure Ev where
  kind : String            -- RunStart | RunEnd | NodeStart | NodeEnd | NodeError | RouteDecision
  span : Span
  parent : Option Span
  name : String            -- node name / graph name
  info : String := ""      -- RunStart: "map:<n>" for map runs; RunEnd: completed | failed; RouteDecision: decision
  deriving Repr, Inhabited, DecidableEq

inductive Log
  | call (fn : String) (args : AL Val)     -- a node function was invoked with these keyword arguments
  | ev (e : Ev)
  | shutdown                               -- processors shut down
  deriving Repr, Inhabited

inductive Status | completed | failed | paused
  deriving DecidableEq, Repr, Inhabited

structure PauseInfo where
  nodeName : String
  outputParam : Name
  value : Val
  outputParams : Option (List Name)
  values : Option (AL Val)
  deriving Repr, Inhabited

inductive Select | unset | all | names (l : List Name)
  deriving Repr, Inhabited

inductive OnMissing | ignore | warn | error
  deriving DecidableEq, Repr, Inhabited

/-- per-call options of `runner.run` -/
structure RunCfg where
  select : Select := .unset
  onMissing : OnMissing := .ignore
  errMode : ErrMode := .raise
  maxIter : Nat := 1000
  deriving Repr, Inhabited

/-- what a call to `run` produced: a result object, or (error_handling = raise) a raised error -/
structure RunOut where
  status : Status
  values : AL Val := []
  error : Option ErrId := .none
  raised : Bool := false
  pause : Option PauseInfo := .none
  warnings : Nat := 0
  log : List Log := []
  deriving Repr, Inhabited

/-- what a call to `map` produced -/
structure MapOut where
  results : List RunOut := []
  raised : Option ErrId := .none
  log : List Log := []
  deriving Repr, Inhabited

/-- the runner flavour: `sync`, or `async` with a completion order per step -/
inductive Runner
  | sync
  | async (order : Nat → List Nat)

/-! ## output filtering -/

def decToString : Dec → String
  | .none => "None"
  | .end_ => "END"
  | .one n => n
  | .many ts => "[" ++ ", ".intercalate (ts.map fun t => match t with | .node n => n | .end_ => "END") ++ "]"

/-- `_resolve_select` -/
def effectiveSelect (g : GraphD) : Select → Option (List Name)
  | .unset => g.selected
  | .all => .none
  | .names l => some l

/-- `filter_outputs`: values, number of warnings, or the `ValueError` of `on_missing="error"` -/
def filterOutputs (g : GraphD) (s : GState) (sel : Select) (om : OnMissing) :
    Except ErrId (AL Val × Nat) :=
  match effectiveSelect g sel with
  | .none =>
    .ok ((graphOutputs g.nodes).filterMap (fun k =>
      match AL.get? s.values k with
      | some v => if v == .sentinel then .none else some (k, v)
      | .none => .none), 0)
  | some names =>
    let vals := names.foldl (fun acc k =>
      match AL.get? s.values k with
      | some v => if v == .sentinel then acc else AL.put acc k v
      | .none => acc) ([] : AL Val)
    let missing := names.filter fun k => !AL.has s.values k
    if missing.isEmpty then .ok (vals, 0)
    else match om with
      | .ignore => .ok (vals, 0)
      | .warn => .ok (vals, 1)
      | .error => .error (.valueError "on_missing")

/-! ## map inputs (`generate_map_inputs`) and `collect_as_lists` -/

def zipInputs (mapped : AL (List Val)) (bcast : AL Val) : Except ErrId (List (AL Val)) :=
  match mapped with
  | [] => .ok [bcast]
  | (_, l0) :: _ =>
    if mapped.any fun kv => kv.2.length != l0.length then .error (.valueError "zip")
    else .ok ((List.range l0.length).map fun i =>
      AL.merge bcast (mapped.map fun kv => (kv.1, kv.2.getD i .none)))

/-- `itertools.product` in key order: the last key varies fastest -/
def productCombos : AL (List Val) → List (AL Val)
  | [] => [[]]
  | (k, vs) :: rest =>
    let tails := productCombos rest
    vs.flatMap fun v => tails.map fun t => (k, v) :: t

def productInputs (mapped : AL (List Val)) (bcast : AL Val) : List (AL Val) :=
  match mapped with
  | [] => [bcast]
  | _ => (productCombos mapped).map fun combo => AL.merge bcast combo

def generateMapInputs (values : AL Val) (mapOver : List Name) (mode : MapMode) :
    Except ErrId (List (AL Val)) :=
  let mappedRaw := mapOver.map fun k => (k, (AL.get? values k).bind Val.seqItems)
  if mappedRaw.any fun kv => kv.2.isNone then .error (.typeError "map_over")
  else
    let mapped : AL (List Val) := mappedRaw.map fun kv => (kv.1, kv.2.getD [])
    let bcast := values.filter fun kv => !mapOver.contains kv.1
    match mode with
    | .zip => zipInputs mapped bcast
    | .product => .ok (productInputs mapped bcast)

/-- `map_outputs_from_original` -/
def renameOutputs (nd : NodeD) (vals : AL Val) : AL Val :=
  vals.foldl (fun acc kv => AL.put acc ((AL.get? nd.origOut kv.1).getD kv.1) kv.2) []

/-- the names `collect_as_lists` collects: every declared output of the wrapper that is not an ordering signal only
(repair "signals are not collected by a mapping node": they were returned as lists of `None` placeholders) -/
def collectNames (nd : NodeD) : List Name := nd.outputs.filter fun o => !nd.signalOuts.contains o

/-- `collect_as_lists` (after the repairs: `None` for an output an item did not produce; ordering signals are not collected) -/
def collectAsLists (nd : NodeD) (results : List RunOut) : Except ErrId (AL Val) :=
  let rec go : List RunOut → AL (List Val) → Except ErrId (AL (List Val))
    | [], acc => .ok acc
    | r :: rs, acc =>
      if r.status == .failed then
        match nd.errMode with
        | .raise => .error (r.error.getD .depth)
        | .cont => go rs (acc.map fun kv => (kv.1, kv.2 ++ [Val.none]))
      else
        let rv := renameOutputs nd r.values
        go rs (acc.map fun kv => (kv.1, kv.2 ++ [(AL.get? rv kv.1).getD .none]))
  match go results ((collectNames nd).map fun o => (o, [])) with
  | .ok acc => .ok (acc.map fun kv => (kv.1, Val.mkLst kv.2))
  | .error e => .error e

/-! ## executing one node -/

/-- result of executing one node: outputs dict or the raised exception, the routing decision a
gate stored in `new_state`, the log, and a pause signal (`PauseExecution`) -/
structure NodeOut where
  res : Except ErrId (AL Val)
  dec : Option Dec := .none
  pause : Option PauseInfo := .none
  log : List Log := []
  deriving Inhabited

/-- callbacks into the (depth-indexed) nested run and map -/
structure Nested where
  run : Nat → AL Val → Span → RunOut
  map : Nat → AL Val → List Name → MapMode → ErrMode → Span → MapOut

def fnId (gi : Nat) (nd : NodeD) : String := toString gi ++ ":" ++ nd.name

def execFn (sem : Sem) (gi : Nat) (nd : NodeD) (inputs : AL Val) : NodeOut :=
  let fi := toParams nd inputs
  let log := [Log.call (fnId gi nd) fi]
  match sem nd fi with
  | .raise e => { res := .error e, log := log }
  | .dec _ => { res := (match wrapOutputs nd .none with | some o => .ok o | .none => .error (.valueError nd.name)), log := log }
  | .val v =>
    match wrapOutputs nd v with
    | some o => { res := .ok o, log := log }
    | .none => { res := .error (.valueError nd.name), log := log }

/-- `execute_ifelse` -/
def execIfElse (sem : Sem) (gi : Nat) (nd : NodeD) (inputs : AL Val) : NodeOut :=
  let fi := toParams nd inputs
  let log := [Log.call (fnId gi nd) fi]
  match sem nd fi with
  | .raise e => { res := .error e, log := log }
  | .val (.bool b) =>
    let t := if b then nd.targets.getD 0 .end_ else nd.targets.getD 1 .end_
    { res := .ok (nd.emits.map fun e => (e, Val.sentinel)), dec := some t.toDec, log := log }
  | _ => { res := .error (.typeError nd.name), log := log }

/-- `execute_route` -/
def execRoute (sem : Sem) (gi : Nat) (nd : NodeD) (inputs : AL Val) : NodeOut :=
  let fi := toParams nd inputs
  let log := [Log.call (fnId gi nd) fi]
  let decide_ (d : Dec) : NodeOut :=
    let d' := match d, nd.fallback with
      | .none, some f => f.toDec
      | d, _ => d
    match validateDecision nd d' with
    | some e => { res := .error e, log := log }
    | .none => { res := .ok (nd.emits.map fun e => (e, Val.sentinel)), dec := some d', log := log }
  match sem nd fi with
  | .raise e => { res := .error e, log := log }
  | .dec d => decide_ d
  | .val .none => decide_ .none
  | .val _ => { res := .error (.valueError nd.name), log := log }

/-- `SyncGraphNodeExecutor` / `AsyncGraphNodeExecutor` -/
def execGraphNode (nested : Nested) (nd : NodeD) (inputs : AL Val) (nodeSpan : Span) : NodeOut :=
  let inner := toParams nd inputs
  if !nd.mapOver.isEmpty then
    let origMap := nd.mapOver.map fun p => (AL.get? nd.origIn p).getD p
    let m := nested.map nd.inner inner origMap nd.mapMode nd.errMode nodeSpan
    match m.raised with
    | some e => { res := .error e, log := m.log }
    | .none =>
      match collectAsLists nd m.results with
      | .ok o => { res := .ok o, log := m.log }
      | .error e => { res := .error e, log := m.log }
  else
    let r := nested.run nd.inner inner nodeSpan
    if r.raised then { res := .error (r.error.getD .depth), log := r.log }
    else match r.status, r.pause with
      | .paused, some p =>
        let p' : PauseInfo := { p with nodeName := nd.name ++ "/" ++ p.nodeName }
        { res := .ok [], log := r.log, pause := some p' }
      | _, _ => { res := .ok (renameOutputs nd r.values), log := r.log }

/-- `AsyncInterruptNodeExecutor`; `ns` is the state object handed to the executor -/
def execInterrupt (sem : Sem) (gi : Nat) (nd : NodeD) (inputs : AL Val) (ns : GState) : NodeOut :=
  let emitPart := nd.emits.map fun e => (e, Val.sentinel)
  if (nd.dataOuts.all fun o => AL.has ns.values o) && !AL.has ns.execs nd.name then
    { res := .ok (AL.merge (nd.dataOuts.map fun o => (o, (AL.get? ns.values o).getD .none)) emitPart) }
  else
    let fi := toParams nd inputs
    let log := [Log.call (fnId gi nd) fi]
    match sem nd fi with
    | .raise e => { res := .error (.wrapped e), log := log }
    | .dec _ => { res := .error (.wrapped (.typeError nd.name)), log := log }
    | .val .none =>
      match nd.dataOuts with
      | [] => { res := .error (.wrapped (.valueError nd.name)), log := log }
      | o :: rest =>
        { res := .ok [], log := log
          pause := some
            { nodeName := nd.name, outputParam := o
              value := (nd.inputs.head?.bind fun p => AL.get? inputs p).getD .none
              outputParams := if rest.isEmpty then .none else some nd.dataOuts
              values := if nd.inputs.length > 1 then some inputs else .none } }
    | .val v =>
      match nd.dataOuts with
      | [] => { res := .ok emitPart, log := log }
      | o :: _ => { res := .ok (AL.merge [(o, v)] emitPart), log := log }

def execNode (nested : Nested) (sem : Sem) (gi : Nat) (nd : NodeD) (inputs : AL Val) (ns : GState)
    (nodeSpan : Span) : NodeOut :=
  match nd.kind with
  | .fn => execFn sem gi nd inputs
  | .ifelse => execIfElse sem gi nd inputs
  | .route => execRoute sem gi nd inputs
  | .graph => execGraphNode nested nd inputs nodeSpan
  | .interrupt => execInterrupt sem gi nd inputs ns

/-! ## supersteps -/

inductive StepOut
  | ok (ns : GState) (log : List Log)
  | fail (e : ErrId) (partialState : GState) (log : List Log)
  | pause (p : PauseInfo) (partialState : GState) (log : List Log)
  deriving Inhabited

def nodeSpanOf (runSpan : Span) (k : Nat) (nd : NodeD) : Span := runSpan ++ [nd.name ++ "#" ++ toString k]

def recordExec (s ns : GState) (nd : NodeD) : GState :=
  let e : Exec := { inputVersions := nd.inputs.map fun p => (p, s.ver p)
                    waitForVersions := nd.waitFor.map fun w => (w, s.ver w) }
  { ns with execs := AL.put ns.execs nd.name e }

def routeEvent (runSpan : Span) (k : Nat) (nd : NodeD) (ns : GState) : List Log :=
  if nd.isGate then
    match AL.get? ns.decisions nd.name with
    | some d => [.ev { kind := "RouteDecision", span := runSpan ++ [nd.name ++ "!route#" ++ toString k], parent := some runSpan,
                       name := nd.name, info := decToString d }]
    | .none => []
  else []

/-- `run_superstep_sync`: nodes run in ready order, reading the snapshot `s`, writing the copy.
(The sync runner rejects interrupt nodes at validation; the pause branch exists for totality and
reports the snapshot `s` as partial state.) -/
def stepSync (nested : Nested) (sem : Sem) (gi : Nat) (g : GraphD) (runSpan : Span) (k : Nat)
    (s : GState) : List NodeD → GState → List Log → StepOut
  | [], ns, log => .ok ns log
  | nd :: rest, ns, log =>
    match collectInputs g s nd nd.inputs with
    | .none => .fail (.keyError nd.name) s log      -- raised outside the node's try-block
    | some inputs =>
      let sp := nodeSpanOf runSpan k nd
      let startEv := Log.ev { kind := "NodeStart", span := sp, parent := some runSpan, name := nd.name }
      let out := execNode nested sem gi nd inputs ns sp
      let ns1 := match out.dec with
        | some d => { ns with decisions := AL.put ns.decisions nd.name d }
        | .none => ns
      match out.pause with
      | some p =>
        .pause p s (log ++ [startEv] ++ out.log ++
          [.ev { kind := "NodeError", span := sp, parent := some runSpan, name := nd.name }])
      | .none =>
        match out.res with
        | .error e =>
          .fail e ns1 (log ++ [startEv] ++ out.log ++
            [.ev { kind := "NodeError", span := sp, parent := some runSpan, name := nd.name }])
        | .ok outs =>
          let ns2 := recordExec s (ns1.applyOutputs outs) nd
          stepSync nested sem gi g runSpan k s rest ns2
            (log ++ [startEv] ++ out.log ++ routeEvent runSpan k nd ns1 ++
              [.ev { kind := "NodeEnd", span := sp, parent := some runSpan, name := nd.name }])

/-- result of one concurrently executed node -/
structure AsyncOne where
  nd : NodeD
  out : NodeOut
  deriving Inhabited

def permute {α} [Inhabited α] (l : List α) (order : List Nat) : List α :=
  let valid := order.length == l.length && (List.range l.length).all fun i => order.contains i
  if valid then order.map fun i => l.getD i default else l

/-- `run_superstep_async`: every node reads the snapshot `s`; gates store their decision in
`new_state` as they complete (order `order`); successful outputs are applied in ready order;
the first error — or pause — in ready order is raised with the state holding all successful siblings
(`ns2`): a pause reports what the superstep completed alongside it, exactly as a failure does. -/
def stepAsync (nested : Nested) (sem : Sem) (gi : Nat) (g : GraphD) (runSpan : Span) (k : Nat)
    (order : List Nat) (s : GState) (rs : List NodeD) : StepOut :=
  let rs := match rs.find? (·.isInterrupt) with
    | some i => [i]
    | .none => rs
  let ns0 := s
  let results : List AsyncOne := rs.map fun nd =>
    match collectInputs g s nd nd.inputs with
    | .none => { nd := nd, out := { res := .error (.keyError nd.name) } }
    | some inputs =>
      let sp := nodeSpanOf runSpan k nd
      let out := execNode nested sem gi nd inputs ns0 sp
      let startEv := Log.ev { kind := "NodeStart", span := sp, parent := some runSpan, name := nd.name }
      let decState := match out.dec with
        | some d => { ns0 with decisions := AL.put ns0.decisions nd.name d }
        | .none => ns0
      let endEv : List Log := match out.pause, out.res with
        | some _, _ => []
        | .none, .ok _ => routeEvent runSpan k nd decState ++
            [.ev { kind := "NodeEnd", span := sp, parent := some runSpan, name := nd.name }]
        | .none, .error _ => [.ev { kind := "NodeError", span := sp, parent := some runSpan, name := nd.name }]
      { nd := nd, out := { out with log := [startEv] ++ out.log ++ endEv } }
  -- decisions land in completion order
  let ns1 := (permute results order).foldl (fun st r =>
    match r.out.dec with
    | some d => { st with decisions := AL.put st.decisions r.nd.name d }
    | .none => st) ns0
  let log := (permute results order).flatMap (·.out.log)
  -- successes applied in ready order
  let ns2 := results.foldl (fun st r =>
    match r.out.pause, r.out.res with
    | .none, .ok outs => recordExec s (st.applyOutputs outs) r.nd
    | _, _ => st) ns1
  let firstBad := results.find? fun r => r.out.pause.isSome || (match r.out.res with | .error _ => true | .ok _ => false)
  match firstBad with
  | .none => .ok ns2 log
  | some r =>
    match r.out.pause, r.out.res with
    | some p, _ => .pause p ns2 log
    | .none, .error e => .fail e ns2 log
    | .none, .ok _ => .ok ns2 log

/-! ## the runner loop -/

inductive LoopOut
  | done (s : GState) (log : List Log) (steps : Nat)
  | fail (e : ErrId) (partialState : GState) (log : List Log) (steps : Nat)
  | pause (p : PauseInfo) (partialState : GState) (log : List Log) (steps : Nat)
  deriving Inhabited

/-- `_execute_graph_impl`: at most `fuel` supersteps (`for _ in range(max_iterations)` with its
`else:` re-check of the ready set). `k` counts the steps taken so far. -/
def runLoop (step : Nat → GState → List NodeD → StepOut) (g : GraphD) (active : Option (List Name))
    (maxIter : Nat) : Nat → Nat → GState → List Log → LoopOut
  | 0, k, s, log =>
    let (rs, s1) := ready g active s
    if rs.isEmpty then .done s1 log k else .fail (.infiniteLoop maxIter) s1 log k
  | fuel + 1, k, s, log =>
    match ready g active s with
    | ([], s1) => .done s1 log k
    | (rs, s1) =>
      match step k s1 rs with
      | .ok ns l => runLoop step g active maxIter fuel (k + 1) ns (log ++ l)
      | .fail e ps l => .fail e ps (log ++ l) (k + 1)
      | .pause p ps l => .pause p ps (log ++ l) (k + 1)

/-! ## `run` and `map` -/

def runStartEv (span : Span) (parent : Option Span) (g : GraphD) (info : String) : Log :=
  .ev { kind := "RunStart", span := span, parent := parent, name := g.name, info := info }
def runEndEv (span : Span) (parent : Option Span) (g : GraphD) (status : String) : Log :=
  .ev { kind := "RunEnd", span := span, parent := parent, name := g.name, info := status }

/-- `run()` after validation: run-start, the loop, output filtering, run-end, shutdown when top-level -/
def runGraph (nested : Nested) (sem : Sem) (runner : Runner) (gi : Nat) (g : GraphD)
    (values : AL Val) (cfg : RunCfg) (span : Span) (parent : Option Span) : RunOut :=
  let step : Nat → GState → List NodeD → StepOut := fun k s rs =>
    match runner with
    | .sync => stepSync nested sem gi g span k s rs s []
    | .async order => stepAsync nested sem gi g span k (order k) s rs
  let startLog := [runStartEv span parent g ""]
  let shut : List Log := if parent.isNone then [.shutdown] else []
  let failWith (e : ErrId) (partialState : Option GState) (log : List Log) : RunOut :=
    let log := log ++ [runEndEv span parent g "failed"] ++ shut
    match cfg.errMode with
    | .raise => { status := .failed, error := some e, raised := true, log := log }
    | .cont =>
      let vals := match partialState with
        | .none => []
        | some ps => match filterOutputs g ps cfg.select .ignore with
          | .ok (v, _) => v
          | .error _ => []
      { status := .failed, values := vals, error := some e, log := log }
  match runLoop step g (activeNodeSet g) cfg.maxIter cfg.maxIter 0 (initState values) startLog with
  | .done s log _ =>
    match filterOutputs g s cfg.select cfg.onMissing with
    | .ok (vals, w) =>
      { status := .completed, values := vals, warnings := w
        log := log ++ [runEndEv span parent g "completed"] ++ shut }
    | .error e => failWith e .none log
  | .fail e ps log _ => failWith e (some ps) log
  | .pause p ps log _ =>
    let vals := match filterOutputs g ps cfg.select .ignore with
      | .ok (v, _) => v
      | .error _ => []
    { status := .paused, values := vals, pause := some p, log := log ++ shut }

/-- `map()` after validation. `sync`: items in order, stop at the first failure in raise mode;
`async`: every item runs (a worker pool may skip items after a failure in raise mode — those
results are never observable), results in input order, first failure in input order raised. -/
def mapGraph (runItem : AL Val → Span → RunOut) (isSync : Bool) (g : GraphD) (values : AL Val)
    (mapOver : List Name) (mode : MapMode) (errMode : ErrMode) (span : Span) (parent : Option Span) : MapOut :=
  match generateMapInputs values mapOver mode with
  | .error e => { raised := some e }
  | .ok [] => {}
  | .ok vars =>
    let startLog := [runStartEv span parent g ("map:" ++ toString vars.length)]
    let shut : List Log := if parent.isNone then [.shutdown] else []
    let rec goSync : List (AL Val) → Nat → List RunOut → List Log → MapOut
      | [], _, acc, log => { results := acc, log := log ++ [runEndEv span parent g "completed"] ++ shut }
      | v :: vs, i, acc, log =>
        let r := runItem v (span ++ [toString i])
        if errMode == .raise && r.status == .failed then
          { results := acc ++ [r], raised := r.error, log := log ++ r.log ++ [runEndEv span parent g "failed"] ++ shut }
        else goSync vs (i + 1) (acc ++ [r]) (log ++ r.log)
    if isSync then goSync vars 0 [] startLog
    else
      let rsl := (List.range vars.length).map fun i => runItem (vars.getD i []) (span ++ [toString i])
      let log := startLog ++ rsl.flatMap (·.log)
      match (if errMode == .raise then rsl.find? (·.status == .failed) else .none) with
      | some r => { results := rsl, raised := r.error, log := log ++ [runEndEv span parent g "failed"] ++ shut }
      | .none => { results := rsl, log := log ++ [runEndEv span parent g "completed"] ++ shut }

/-- a whole program: graphs in dependency order -/
abbrev Program := List GraphD

def isSyncRunner : Runner → Bool
  | .sync => true
  | .async _ => false

/-- nested runs by structural recursion on the nesting depth -/
def nestedAt (sem : Sem) (runner : Runner) (prog : Program) : Nat → Nested
  | 0 => { run := fun _ _ _ => { status := .failed, error := some .depth, raised := true }
           map := fun _ _ _ _ _ _ => { raised := some .depth } }
  | d + 1 =>
    let inner := nestedAt sem runner prog d
    { run := fun gi values nodeSpan =>
        let g := prog.getD gi default
        runGraph inner sem runner gi g values {} (nodeSpan ++ ["run"]) (some nodeSpan)
      map := fun gi values mapOver mode em nodeSpan =>
        let g := prog.getD gi default
        mapGraph (fun v sp => runGraph inner sem runner gi g v { errMode := .cont } sp (some (nodeSpan ++ ["map"])))
          (isSyncRunner runner) g values mapOver mode em (nodeSpan ++ ["map"]) (some nodeSpan) }

/-- top-level `runner.run(graph, values, …)` (inputs assumed validated) -/
def run (sem : Sem) (runner : Runner) (prog : Program) (root : Nat) (values : AL Val) (cfg : RunCfg) : RunOut :=
  runGraph (nestedAt sem runner prog prog.length) sem runner root (prog.getD root default) values cfg ["r"] .none

/-- top-level `runner.map(graph, values, map_over=…, …)` -/
def map (sem : Sem) (runner : Runner) (prog : Program) (root : Nat) (values : AL Val)
    (mapOver : List Name) (mode : MapMode) (errMode : ErrMode) (cfg : RunCfg) : MapOut :=
  let nested := nestedAt sem runner prog prog.length
  let g := prog.getD root default
  mapGraph (fun v sp => runGraph nested sem runner root g v { cfg with errMode := .cont } sp (some ["m"]))
    (isSyncRunner runner) g values mapOver mode errMode ["m"] .none

/-- `_validate_max_concurrency`: no limit at all, or at least one slot -/
def limitOk : Option Int → Bool
  | .none => true
  | some k => decide (1 ≤ k)

/-- `AsyncRunner.map(..., max_concurrency=k)`: the limit is validated before anything runs or is emitted; a valid limit bounds how many
bodies execute at once (C15) and does not enter the result -/
def mapLimited (sem : Sem) (runner : Runner) (prog : Program) (root : Nat) (values : AL Val)
    (mapOver : List Name) (mode : MapMode) (errMode : ErrMode) (cfg : RunCfg) (k : Option Int) : MapOut :=
  if limitOk k then map sem runner prog root values mapOver mode errMode cfg
  else { raised := some (.valueError "max_concurrency") }

end HG
