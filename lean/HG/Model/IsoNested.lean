import HG.Model.Heap
/-! # HG.Model.IsoNested — run isolation with NESTED / MAPPED graphs (C18, nested part)

Extends the flat memory model `HG.Iso` (`HG/Model/Heap.lean`, part 2) by SUB nodes: a node that
wraps an inner graph and is executed by the outer run as one atomic event
(`GraphNode.execute` → `runner.run(inner, ...)`, or `runner.map(inner, ...)` when `map_over` is set).

* function node `Node.fn srcs eff out` — exactly `Iso.Node`;
* sub node `Node.sub inner fwd items clone outs`:
  - `fwd` — the inner-graph inputs the OUTER run resolves and forwards (`Src'.provided k'`: looked up
    in the outer state, `Src'.bound c`: bound on the OUTER graph); both by reference.  Inputs bound on
    the INNER graph / signature defaults of inner functions are NOT forwarded: they are ordinary
    `Src.bound` / `Src.default` sources of the inner function nodes and resolved by the inner run
    itself (default: deep copy at every resolution, i.e. once per inner run);
  - `items = none` — one inner run on a NEW state dict holding the forwarded references; afterwards
    each name in `outs` is copied BY REFERENCE from the inner state into the outer state;
  - `items = some L` — one inner run per item; its state dict = forwarded (broadcast) entries, each
    replaced by a FRESH deep copy when the clone configuration selects its name, merged with the
    item's own entries; afterwards each name in `outs` is bound in the outer state to a FRESH cell
    (content: concatenation of the per-item output contents, read at the end);
  - inner-graph bindings never go through the clone step.

One `Call` record is logged per function-node call at any depth (`rid`, `sid` = top-level run /
node, `path` = `(item, node index)` per nesting level below the top level), one `InnerStart` record
per inner run (which references reached it, and which of them are clones).

`Cfg.perItemDefaults = false` is the PRE-REPAIR behaviour (negative witness only): the defaults of
the inner functions are resolved once by the outer run and shared by all items.

The executor takes a `fuel` argument (`Node.depth` suffices: `execNode_fuel` in the lemma file).
No Mathlib (linked into the driver). -/
namespace HG
namespace IsoN
open Iso (Ref Mem Eff Src Arg Res Ev cell dict lookupState resolveArgs mkRes applyEff)

/-- how the OUTER run resolves a forwarded input of the inner graph -/
inductive Src'
  | provided (k : Name)     -- outer `state.values[k]`
  | bound (c : Ref)         -- bound on the OUTER graph
  deriving DecidableEq, Repr, Inhabited

/-- `map_over(..., clone=False | True | [names])` -/
inductive CloneCfg
  | none
  | all
  | only (names : List Name)
  deriving DecidableEq, Repr, Inhabited

def CloneCfg.selects : CloneCfg → Name → Bool
  | .none, _ => false
  | .all, _ => true
  | .only ns, k => ns.contains k

inductive Node
  | fn (srcs : List Src) (eff : Eff) (out : Name)
  | sub (inner : List Node) (fwd : List (Name × Src')) (items : Option (List (AL Ref)))
      (clone : CloneCfg) (outs : List Name)
  deriving Inhabited

abbrev Graph := List Node

/-! ### recursive collections over a graph (all depths) -/
mutual
/-- nesting depth: fuel `depth` suffices to execute the node -/
def Node.depth : Node → Nat
  | .fn .. => 0
  | .sub inner .. => depthL inner + 1
def depthL : List Node → Nat
  | [] => 0
  | n :: ns => max n.depth (depthL ns)
end

def srcDefault : Src → Option Ref
  | .default c => some c
  | _ => .none
def srcBound : Src → Option Ref
  | .bound c => some c
  | _ => .none
def fwdBound : Name × Src' → Option Ref
  | (_, .bound c) => some c
  | _ => .none
def itemRefs : Option (List (AL Ref)) → List Ref
  | .none => []
  | some L => L.flatMap fun it => it.map (·.2)

mutual
/-- every signature-default cell of a function node at any depth -/
def Node.defaults : Node → List Ref
  | .fn srcs _ _ => srcs.filterMap srcDefault
  | .sub inner .. => defaultsL inner
def defaultsL : List Node → List Ref
  | [] => []
  | n :: ns => n.defaults ++ defaultsL ns
end

mutual
/-- every cell the user handed out explicitly in the graph definition, at any depth: bound on a
graph (inner or outer), or an element of a mapped-over list -/
def Node.shared : Node → List Ref
  | .fn srcs _ _ => srcs.filterMap srcBound
  | .sub inner fwd items _ _ => fwd.filterMap fwdBound ++ itemRefs items ++ sharedL inner
def sharedL : List Node → List Ref
  | [] => []
  | n :: ns => n.shared ++ sharedL ns
end

/-- one `runner.run(graph, values, **kwargs)` call -/
structure RunSpec where
  nodes : Graph
  values : Option Ref
  kwargs : AL Ref
  deriving Inhabited

abbrev Path := List (Nat × Nat)

/-- the node addressed by top-level index `sid` and, per nesting level, `(item, node index)` -/
def nodeAt (nds : List Node) (sid : Nat) : Path → Option Node
  | [] => nds[sid]?
  | (_, j) :: p =>
    match nds[sid]? with
    | some (.sub inner ..) => nodeAt inner j p
    | _ => .none

/-- a logged node-function call (at any depth) -/
structure Call where
  rid : Nat
  sid : Nat
  path : Path
  args : List Arg
  eff : Eff
  res : Res
  deriving DecidableEq, Repr, Inhabited

/-- a logged inner-run start: the sub node (`rid`, `sid`, `path`), the item index (`0` when not
mapped), the forwarded names with the reference that reaches the inner run (`copyOf = some c`: a
fresh clone of `c`), and the inner run's state dict -/
structure InnerStart where
  rid : Nat
  sid : Nat
  path : Path
  item : Nat
  fwd : List (Name × Arg)
  st : Ref
  deriving DecidableEq, Repr, Inhabited

/-- what an inner execution threads -/
structure St where
  mem : Mem
  log : List Call := []
  inits : List InnerStart := []
  deriving DecidableEq, Repr, Inhabited

structure World where
  mem : Mem
  states : List (Nat × Ref) := []
  log : List Call := []
  inits : List InnerStart := []
  deriving DecidableEq, Repr, Inhabited

def World.st (w : World) : St := ⟨w.mem, w.log, w.inits⟩
def World.withSt (w : World) (s : St) : World := ⟨s.mem, w.states, s.log, s.inits⟩

structure Cfg where
  deep : Bool := true
  perItemDefaults : Bool := true
  deriving DecidableEq, Repr, Inhabited

/-- the repaired library -/
def Cfg.real : Cfg := ⟨true, true⟩

/-! ### primitives -/

/-- pre-repair only: a default already resolved by an enclosing run is received by reference -/
def substDefault (env : List (Ref × Ref)) : Src → Src
  | .default c =>
    match env.lookup c with
    | some c' => .bound c'
    | .none => .default c
  | s => s

/-- call of a function node in the run whose state dict is `st` (as `Iso.execStep`) -/
def execFn (deep : Bool) (rid sid : Nat) (path : Path) (st : Ref) (srcs : List Src) (eff : Eff)
    (out : Name) (s : St) : St :=
  match resolveArgs deep (dict s.mem st) s.mem srcs with
  | some (m1, args) =>
    let res := mkRes (args.map fun a => cell m1 a.ref) eff
    let m2 := applyEff m1 (args.map (·.ref)) eff
    let m3 : Mem :=
      { cells := m2.cells ++ [res.after]
        dicts := m2.dicts.set st (AL.put (dict m2 st) out m2.cells.length) }
    { s with mem := m3, log := s.log ++ [⟨rid, sid, path, args, eff, res⟩] }
  | .none => s

/-- the forwarded inputs as resolved by the outer run (a missing provided value is not forwarded) -/
def resolveFwd (stv : AL Ref) : List (Name × Src') → AL Ref
  | [] => []
  | (k, .bound c) :: t => (k, c) :: resolveFwd stv t
  | (k, .provided k') :: t =>
    match AL.get? stv k' with
    | some c => (k, c) :: resolveFwd stv t
    | .none => resolveFwd stv t

/-- the clone step of one item: a selected broadcast value is deep-copied -/
def cloneFwd (cl : CloneCfg) : Mem → AL Ref → Mem × List (Name × Arg)
  | m, [] => (m, [])
  | m, (k, c) :: t =>
    if cl.selects k then
      let r := cloneFwd cl { m with cells := m.cells ++ [cell m c] } t
      (r.1, (k, ⟨m.cells.length, some c⟩) :: r.2)
    else
      let r := cloneFwd cl m t
      (r.1, (k, ⟨c, .none⟩) :: r.2)

def fwdDict (fa : List (Name × Arg)) : AL Ref := fa.map fun p => (p.1, p.2.ref)

/-- start one inner run: clone step, NEW state dict (broadcast entries, then the item's own) -/
def startInner (rid sid : Nat) (path : Path) (it : Nat) (cl : CloneCfg) (bc item : AL Ref)
    (s : St) : St × Ref :=
  let r := cloneFwd cl s.mem bc
  let st' := r.1.dicts.length
  ({ mem := { r.1 with dicts := r.1.dicts ++ [AL.merge (fwdDict r.2) item] }
     log := s.log
     inits := s.inits ++ [⟨rid, sid, path, it, r.2, st'⟩] }, st')

/-- run the nodes of a graph in order (`step j nd` executes node `j`) -/
def runNodes (step : Nat → Node → St → St) : List Node → Nat → St → St
  | [], _, s => s
  | nd :: nds, j, s => runNodes step nds (j + 1) (step j nd s)

/-- one inner run per item, sequentially; returns the inner state dicts -/
def runItems (step : Nat → Ref → Nat → Node → St → St) (rid sid : Nat) (path : Path)
    (cl : CloneCfg) (bc : AL Ref) (inner : List Node) :
    List (AL Ref) → Nat → St × List Ref → St × List Ref
  | [], _, x => x
  | item :: rest, it, (s, sts) =>
    let r := startInner rid sid path it cl bc item s
    let s2 := runNodes (step it r.2) inner 0 r.1
    runItems step rid sid path cl bc inner rest (it + 1) (s2, sts ++ [r.2])

def putOut (inner : AL Ref) (d : AL Ref) (k : Name) : AL Ref :=
  match AL.get? inner k with
  | some c => AL.put d k c
  | .none => d

/-- not mapped: every output of the inner graph is stored in the outer state BY REFERENCE -/
def copyOuts (st st' : Ref) (outs : List Name) (s : St) : St :=
  { s with mem := { s.mem with
      dicts := s.mem.dicts.set st (outs.foldl (putOut (dict s.mem st')) (dict s.mem st)) } }

/-- the contents of output `k` of every item, concatenated -/
def gather (m : Mem) (sts : List Ref) (k : Name) : List Int :=
  sts.flatMap fun s =>
    match AL.get? (dict m s) k with
    | some c => cell m c
    | .none => []

/-- mapped: every output name is bound in the outer state to a FRESH list object -/
def collectOuts (st : Ref) (sts : List Ref) : List Name → St → St
  | [], s => s
  | k :: ks, s =>
    collectOuts st sts ks
      { s with mem :=
          { cells := s.mem.cells ++ [gather s.mem sts k]
            dicts := s.mem.dicts.set st (AL.put (dict s.mem st) k s.mem.cells.length) } }

/-- pre-repair only: resolve each inner default ONCE (one deep copy shared by all items) -/
def preResolve : Mem → List (Ref × Ref) → List Ref → Mem × List (Ref × Ref)
  | m, env, [] => (m, env)
  | m, env, c :: cs =>
    match env.lookup c with
    | some _ => preResolve m env cs
    | .none => preResolve { m with cells := m.cells ++ [cell m c] } ((c, m.cells.length) :: env) cs

/-! ### execution -/

/-- execute node `nd` (located at `sid`, `path` in run `rid`) in the run whose state dict is `st` -/
def execNode (cfg : Cfg) (rid sid : Nat) (fuel : Nat) (env : List (Ref × Ref)) (path : Path)
    (st : Ref) (nd : Node) (s : St) : St :=
  match nd with
  | .fn srcs eff out => execFn cfg.deep rid sid path st (srcs.map (substDefault env)) eff out s
  | .sub inner fwd items clone outs =>
    match fuel with
    | 0 => s
    | f + 1 =>
      let pr := if cfg.perItemDefaults then (s.mem, env) else preResolve s.mem env (defaultsL inner)
      let s0 : St := { s with mem := pr.1 }
      let bc := resolveFwd (dict s0.mem st) fwd
      match items with
      | .none =>
        let r := startInner rid sid path 0 .none bc [] s0
        let s2 := runNodes (fun j nd' x => execNode cfg rid sid f pr.2 (path ++ [(0, j)]) r.2 nd' x)
          inner 0 r.1
        copyOuts st r.2 outs s2
      | some L =>
        let r := runItems
          (fun it st' j nd' x => execNode cfg rid sid f pr.2 (path ++ [(it, j)]) st' nd' x)
          rid sid path clone bc inner L 0 (s0, [])
        collectOuts st r.2 outs r.1

/-- `runner.run(...)` entry (as `Iso.execStart`) -/
def execStart (specs : List RunSpec) (w : World) (rid : Nat) : World :=
  match specs[rid]? with
  | some spec =>
    let base := match spec.values with
      | .none => []
      | some d => dict w.mem d
    let normalized := AL.merge base spec.kwargs
    let stateVals := AL.merge [] normalized
    { w with
      mem := { w.mem with dicts := w.mem.dicts ++ [normalized, stateVals] }
      states := (rid, w.mem.dicts.length + 1) :: w.states }
  | .none => w

/-- execute top-level node `sid` of run `rid` (a sub node: its inner run(s) to completion) -/
def execStepCfg (cfg : Cfg) (specs : List RunSpec) (w : World) (rid sid : Nat) : World :=
  match specs[rid]?, lookupState w.states rid with
  | some spec, some st =>
    match spec.nodes[sid]? with
    | some nd => w.withSt (execNode cfg rid sid nd.depth [] [] st nd w.st)
    | .none => w
  | _, _ => w

def execCfg (cfg : Cfg) (specs : List RunSpec) (w : World) : Ev → World
  | .start rid => execStart specs w rid
  | .step rid sid => execStepCfg cfg specs w rid sid

def runHistCfg (cfg : Cfg) (specs : List RunSpec) (w : World) (evs : List Ev) : World :=
  evs.foldl (execCfg cfg specs) w

def execStep (deep : Bool) (specs : List RunSpec) (w : World) (rid sid : Nat)
    (perItemDefaults : Bool := true) : World :=
  execStepCfg ⟨deep, perItemDefaults⟩ specs w rid sid
def exec (deep : Bool) (specs : List RunSpec) (w : World) (ev : Ev)
    (perItemDefaults : Bool := true) : World :=
  execCfg ⟨deep, perItemDefaults⟩ specs w ev
/-- any interleaving of the events (`Iso.Ev`) of any number of top-level runs -/
def runHist (deep : Bool) (specs : List RunSpec) (w : World) (evs : List Ev)
    (perItemDefaults : Bool := true) : World :=
  runHistCfg ⟨deep, perItemDefaults⟩ specs w evs
/-- a merge given as `(runId, stepIdx)` pairs: index `0` is the run's start, `k + 1` its top-level
node `k` -/
def runSched (deep : Bool) (specs : List RunSpec) (w : World) (sched : List (Nat × Nat))
    (perItemDefaults : Bool := true) : World :=
  runHistCfg ⟨deep, perItemDefaults⟩ specs w (sched.map Iso.evOfPair)

/-- the events of one complete sequential run -/
def eventsOf (specs : List RunSpec) (rid : Nat) : List Ev :=
  .start rid :: (List.range ((specs[rid]?.map (·.nodes.length)).getD 0)).map (Ev.step rid)

/-! ### a decidable check of well-formedness (`WF` in `HG/Lemmas/IsoNested.lean`) -/
def allDefaults (specs : List RunSpec) : List Ref := specs.flatMap fun sp => defaultsL sp.nodes
def allShared (specs : List RunSpec) (m0 : Mem) : List Ref :=
  (specs.flatMap fun sp => sharedL sp.nodes) ++
  (m0.dicts.flatMap fun dc => dc.map (·.2)) ++
  (specs.flatMap fun sp => sp.kwargs.map (·.2))
/-- every default cell (any depth) exists and is not also bound / a mapped item / provided / a kwarg -/
def wfCheck (specs : List RunSpec) (m0 : Mem) : Bool :=
  (allDefaults specs).all fun c => decide (c < m0.cells.length) && !(allShared specs m0).contains c

/-! ### embedding of the flat model -/
def ofFlatNode (nd : Iso.Node) : Node := .fn nd.srcs nd.eff nd.out
def ofFlat (sp : Iso.RunSpec) : RunSpec := ⟨sp.nodes.map ofFlatNode, sp.values, sp.kwargs⟩
def ofFlatCall (c : Iso.Call) : Call := ⟨c.rid, c.sid, [], c.args, c.eff, c.res⟩
def ofFlatWorld (w : Iso.World) : World := ⟨w.mem, w.states, w.log.map ofFlatCall, []⟩

end IsoN
end HG
