import HG.Model.Sched
/-! # HG.Model.Exec — value resolution, output wrapping, gate validation, body semantics

Mirrors `get_value_source` / `collect_inputs_for_node` / `wrap_outputs`
(`runners/_shared/helpers.py`), `gate_execution.py`, `routing_validation.py`. -/
namespace HG

/-- what a node function does when called -/
inductive Outcome
  | val (v : Val)          -- returned a value
  | dec (d : Dec)          -- routing function returned a decision
  | raise (e : ErrId)      -- raised an `Exception`
  deriving Repr, Inhabited

/-- node-function semantics: theorems quantify over all of these; the driver instantiates it
with `Body.eval`. Arguments are keyed by the function's own parameter names, in `node.inputs` order. -/
abbrev Sem := NodeD → AL Val → Outcome

inductive ValueSource | edge | bound | innerBound | default
  deriving DecidableEq, Repr

/-- `get_value_source` (run-time values are seeded into the state, so PROVIDED coincides with EDGE) -/
def valueSource (g : GraphD) (s : GState) (nd : NodeD) (p : Name) : Option (ValueSource × Val) :=
  match AL.get? s.values p with
  | some v => some (.edge, v)
  | .none =>
    match AL.get? g.spec.bound p with
    | some v => some (.bound, v)
    | .none =>
      match AL.get? nd.innerBound p with
      | some v => some (.innerBound, v)
      | .none =>
        match AL.get? nd.sigDefaults p with
        | some v => some (.default, v)
        | .none => .none

def resolveInput (g : GraphD) (s : GState) (nd : NodeD) (p : Name) : Option Val :=
  (valueSource g s nd p).map (·.2)

/-- `collect_inputs_for_node`: `none` = the `KeyError` branch -/
def collectInputs (g : GraphD) (s : GState) (nd : NodeD) : List Name → Option (AL Val)
  | [] => some []
  | p :: ps =>
    match resolveInput g s nd p, collectInputs g s nd ps with
    | some v, some rest => some ((p, v) :: rest)
    | _, _ => .none

/-- `map_inputs_to_params`: current names back to the function's / inner graph's own names -/
def toParams (nd : NodeD) (inputs : AL Val) : AL Val :=
  inputs.map fun kv => ((AL.get? nd.origIn kv.1).getD kv.1, kv.2)

/-- `wrap_outputs`: `none` = the arity `ValueError` -/
def wrapOutputs (nd : NodeD) (result : Val) : Option (AL Val) :=
  let emitPart := nd.emits.map fun e => (e, Val.sentinel)
  match nd.dataOuts with
  | [] => some emitPart
  | [o] => some (AL.merge [(o, result)] emitPart)
  | outs =>
    match result.seqItems with
    | .none => .none
    | some items =>
      if items.length != outs.length then .none
      else some (AL.merge ((outs.zip items).foldl (fun acc kv => AL.put acc kv.1 kv.2) ([] : AL Val)) emitPart)

/-- `_validate_single_target` -/
def validTarget (nd : NodeD) (t : Target) : Bool := nd.targets.contains t

/-- `validate_routing_decision`: `none` = valid, `some e` = the error raised -/
def validateDecision (nd : NodeD) (d : Dec) : Option ErrId :=
  if nd.multiTarget then
    match d with
    | .none => .none
    | .many ts => if ts.all (validTarget nd) then .none else some (.valueError nd.name)
    | _ => some (.typeError nd.name)
  else
    match d with
    | .none => .none
    | .many _ => some (.typeError nd.name)
    | .end_ => if validTarget nd .end_ then .none else some (.valueError nd.name)
    | .one n => if validTarget nd (.node n) then .none else some (.valueError nd.name)

def Target.toDec : Target → Dec
  | .node n => .one n
  | .end_ => .end_

/-! ## body language (driver instantiation of `Sem`) -/

def intArgs (args : List Val) : List Int := args.filterMap fun v => match v with | .int i => some i | _ => .none

def Body.eval (b : Body) (args : List Val) : Outcome :=
  match b with
  | .tag t => .val (Val.mkTup (.str t :: args))
  | .multi t k => .val (Val.mkTup ((List.range k).map fun i => Val.mkTup (.str t :: .int (Int.ofNat i) :: args)))
  | .const v => .val v
  | .sum k => .val (.int ((intArgs args).foldl (· + ·) k))
  | .first => .val (args.headD .none)
  | .append =>
    match args with
    | .lst c :: x :: _ => .val (Val.mkLst (Val.toList c ++ [x]))
    | _ => .val (Val.mkLst args)
  | .lt k => match args.head? with
    | some (.int i) => .val (.bool (i < k))
    | _ => .val (.bool false)
  | .table rows dflt => match args.head? with
    | some (.int i) => .dec (((rows.find? fun r => r.1 == i).map (·.2)).getD dflt)
    | _ => .dec dflt
  | .fail t => .raise (.user t)
  | .failIf k t => match args.head? with
    | some (.int i) => if i == k then .raise (.user t) else .val (Val.mkTup (.str t :: args))
    | _ => .val (Val.mkTup (.str t :: args))
  | .failGe k t => match args.head? with
    | some (.int i) => if i ≥ k then .raise (.user (t ++ toString i)) else .val (Val.mkTup (.str t :: args))
    | _ => .val (Val.mkTup (.str t :: args))
  | .nonBool => .val (.int 1)
  | .wrongArity t k => .val (Val.mkTup ((List.range k).map fun i => Val.mkTup [.str t, .int (Int.ofNat i)]))
  | .handler k => match k with
    | .none => .val .none
    | some k => .val (.int ((intArgs args).foldl (· + ·) k))

def bodySem : Sem := fun nd args => nd.body.eval (args.map (·.2))

end HG
