import HG.Model.Graph
/-! # HG.Model.Sched — run-time state and the ready set

Mirrors `runners/_shared/types.py` (`GraphState`, `NodeExecution`) and the scheduling half of
`runners/_shared/helpers.py` (`get_ready_nodes` and everything it calls). -/
namespace HG

/-- `NodeExecution` (the recorded outputs are never read by the scheduler) -/
structure Exec where
  inputVersions : AL Nat
  waitForVersions : AL Nat
  deriving Repr, Inhabited, DecidableEq

/-- `GraphState` -/
structure GState where
  values : AL Val := []
  versions : AL Nat := []
  execs : AL Exec := []
  decisions : AL Dec := []
  deriving Repr, Inhabited, DecidableEq

namespace GState
/-- `get_version` -/
def ver (s : GState) (n : Name) : Nat := (AL.get? s.versions n).getD 0

/-- does `update_value` advance the version?  new name, emit sentinel (always fresh), or changed
value.  "Changed" is `type(old) is not type(new) or old != new` (`Val.changed`, i.e.
`!(Val.sameType old v) || !(Val.pyEq old v)`): a value of another top-level type
always counts as a change, and within one type Python's `!=` decides, i.e. the
negation of `Val.pyEq` (NOT structural inequality: replacing `[1]` by `[True]` does not advance
the version, both are lists and compare equal; replacing `1` by `True` does). -/
def bumps (s : GState) (n : Name) (v : Val) : Bool :=
  match AL.get? s.values n with
  | .none => true
  | some old => v == .sentinel || Val.changed old v

/-- pre-repair, kept for the negative witness: `bumps` as it was when "changed" was `old != new`
alone (the negation of `Val.pyEq`), so that replacing `1` by `True` did NOT advance the version
(finding C01-F2).  Never bumps where `bumps` does not (`bumps_of_bumpsPyEq`). -/
def bumpsPyEq (s : GState) (n : Name) (v : Val) : Bool :=
  match AL.get? s.values n with
  | .none => true
  | some old => v == .sentinel || !(Val.pyEq old v)

/-- the idealised test with structural inequality (what `bumps` was before `Val.pyEq`); kept for
negative witnesses that contrast the three -/
def bumpsStructural (s : GState) (n : Name) (v : Val) : Bool :=
  match AL.get? s.values n with
  | .none => true
  | some old => v == .sentinel || old != v

/-- `update_value` -/
def updateValue (s : GState) (n : Name) (v : Val) : GState :=
  { s with values := AL.put s.values n v
           versions := if s.bumps n v then AL.put s.versions n (s.ver n + 1) else s.versions }

/-- apply an outputs dict in order (`for name, value in outputs.items(): update_value`) -/
def applyOutputs (s : GState) (outs : AL Val) : GState :=
  outs.foldl (fun st ov => st.updateValue ov.1 ov.2) s

/-- pre-repair `update_value` (the version test is `bumpsPyEq`), kept for the negative witness -/
def updateValuePyEq (s : GState) (n : Name) (v : Val) : GState :=
  { s with values := AL.put s.values n v
           versions := if s.bumpsPyEq n v then AL.put s.versions n (s.ver n + 1) else s.versions }

/-- pre-repair `applyOutputs`, kept for the negative witness -/
def applyOutputsPyEq (s : GState) (outs : AL Val) : GState :=
  outs.foldl (fun st ov => st.updateValuePyEq ov.1 ov.2) s
end GState

/-- `initialize_state` -/
def initState (values : AL Val) : GState := ({} : GState).applyOutputs values

/-- `_has_input` -/
def hasInput (g : GraphD) (s : GState) (nd : NodeD) (p : Name) : Bool :=
  AL.has s.values p || AL.has g.spec.bound p || nd.hasDefault.contains p

def isGated (g : GraphD) (nd : NodeD) : Bool := !(controlledBy g.nodes nd.name).isEmpty

/-- `_is_stale` (self-producer rule for ungated nodes) -/
def isStale (g : GraphD) (s : GState) (nd : NodeD) (e : Exec) : Bool :=
  let gated := isGated g nd
  nd.inputs.any fun p =>
    if !gated && selfProduces nd p then false
    else s.ver p != (AL.get? e.inputVersions p).getD 0

/-- `_needs_execution` -/
def needsExec (g : GraphD) (s : GState) (nd : NodeD) : Bool :=
  match AL.get? s.execs nd.name with
  | .none => true
  | some e => isStale g s nd e

/-- `_wait_for_satisfied` -/
def waitForSatisfied (s : GState) (nd : NodeD) : Bool :=
  let last := AL.get? s.execs nd.name
  nd.waitFor.all fun w =>
    AL.has s.values w &&
    match last with
    | .none => true
    | some e => decide (s.ver w > (AL.get? e.waitForVersions w).getD 0)

/-- `_clear_stale_gate_decisions` (mutates the state in place; END is terminal) -/
def clearStale (g : GraphD) (s : GState) : GState :=
  g.nodes.foldl (fun st nd =>
    if nd.isGate then
      match AL.get? st.decisions nd.name with
      | .none => st
      | some .end_ => st
      | some _ => if needsExec g st nd then { st with decisions := AL.del st.decisions nd.name } else st
    else st) s

/-- `_is_node_activated_by_decision` -/
def decisionNames (d : Dec) (n : Name) : Bool :=
  match d with
  | .one t => t == n
  | .many ts => ts.contains (.node n)
  | .end_ => false
  | .none => false

/-- one node of `_get_activated_nodes` (on the state after clearing) -/
def activated (g : GraphD) (s : GState) (n : Name) : Bool :=
  let gates := controlledBy g.nodes n
  gates.isEmpty || gates.any fun c =>
    match AL.get? s.decisions c.name with
    | .none => !(AL.has s.execs c.name) && c.defaultOpen
    | some d => decisionNames d n

/-- `_is_node_ready` -/
def isReady (g : GraphD) (s : GState) (nd : NodeD) : Bool :=
  activated g s nd.name && nd.inputs.all (hasInput g s nd) && waitForSatisfied s nd && needsExec g s nd

/-- targets blocked by ready gates -/
def blockedTargets (r0 : List NodeD) : List Name :=
  (r0.filter (·.isGate)).flatMap fun c => c.targetNames.filter fun t => t != c.name

/-- `_defer_wait_for_nodes` -/
def deferWaitFor (ready : List NodeD) : List NodeD :=
  ready.filter fun nd =>
    !(nd.waitFor.any fun w => ready.any fun other => other.name != nd.name && other.outputs.contains w)

/-- `get_ready_nodes`: returns the state as well, because the real function clears stale gate
decisions on the state object it is given. -/
def ready (g : GraphD) (active : Option (List Name)) (s : GState) : List NodeD × GState :=
  let s1 := clearStale g s
  let cand := match active with
    | .none => g.nodes
    | some a => g.nodes.filter fun nd => a.contains nd.name
  let r0 := cand.filter (isReady g s1)
  let blocked := blockedTargets r0
  let r1 := r0.filter fun nd => !blocked.contains nd.name
  (deferWaitFor r1, s1)

end HG
