import HG.Model.Run
/-! # HG.Model.Validate — `validate_inputs`, `resolve_runtime_selected`, and the checked `run`

Mirrors `runners/_shared/validation.py`. Everything here happens before the dispatcher is
created and before any superstep: `runChecked = resolve select ≫ validate ≫ run`. -/
namespace HG

/-- classes of pre-execution rejections -/
inductive VErr
  | missingInput (names : List Name)   -- `MissingInputError`
  | valueError (why : String)          -- `ValueError`
  | configError (why : String)         -- `GraphConfigError`
  deriving DecidableEq, Repr, Inhabited

inductive OverridePolicy | ignore | warn | error
  deriving DecidableEq, Repr, Inhabited

def subset (a b : List Name) : Bool := a.all fun x => b.contains x
def minus (a b : List Name) : List Name := a.filter fun x => !b.contains x
def inter (a b : List Name) : List Name := a.filter fun x => b.contains x

/-- `resolve_runtime_selected` -/
def resolveRuntimeSelected (g : GraphD) : Select → Except VErr (Option (List Name))
  | .unset => .ok g.selected
  | .all => .ok .none
  | .names l =>
    if l.all fun n => (graphOutputs g.nodes).contains n then .ok (some l)
    else .error (.configError "select")

/-- `_resolve_effective_input_spec` -/
def effectiveSpec (g : GraphD) (selected : Option (List Name)) : InputSpec :=
  if selected == g.selected then g.spec
  else computeInputSpec g.nodes g.edges g.bound g.entrypoints selected

/-- `_node_is_runnable_from_seed_values` -/
def runnableFromSeed (nd : NodeD) (provided : List Name) : Bool :=
  nd.inputs.all fun p => provided.contains p || nd.hasDefault.contains p

/-- `_find_internal_override_conflicts` (only whether there is one) -/
def hasOverrideConflict (active : List NodeD) (provided internalEdge cycleEp : List Name) : Bool :=
  if internalEdge.isEmpty then false
  else
    let consumed := active.flatMap (·.inputs)
    active.any fun nd =>
      let outs := minus nd.outputs cycleEp
      let injected := inter outs internalEdge
      if injected.isEmpty then false
      else if runnableFromSeed nd provided then true
      else !(minus (minus (inter outs consumed) cycleEp) provided).isEmpty

/-- `_find_bypassed_inputs` (iterates the FULL graph) -/
def bypassedInputs (g : GraphD) (provided cycleEp : List Name) : List Name :=
  let consumed := g.nodes.flatMap (·.inputs)
  let pass1 := g.nodes.filter fun nd =>
    let c := minus (inter nd.outputs consumed) cycleEp
    !c.isEmpty && subset c provided
  if pass1.isEmpty then []
  else
    let pass2 := g.nodes.filter fun nd =>
      let o := minus nd.outputs cycleEp
      !o.isEmpty && subset o provided
    let bypassed := dedup ((pass1 ++ pass2).map (·.name))
    let ins := dedup ((g.nodes.filter fun nd => bypassed.contains nd.name).flatMap (·.inputs))
    let kept := (g.nodes.filter fun nd => !bypassed.contains nd.name).flatMap (·.inputs)
    minus ins kept

/-- two nodes are in one strongly connected component of the data-only graph -/
def sameScc (g : GraphD) (a b : Name) : Bool :=
  let dataEs := g.edges.filter (·.kind == .data)
  a == b || ((descendants dataEs g.nodes.length a).contains b && (descendants dataEs g.nodes.length b).contains a)

/-- `_group_entrypoints_by_scc`: entry-point names grouped by cycle -/
def groupEntrypoints (g : GraphD) (eps : List Name) : List (List Name) :=
  eps.foldl (fun groups n =>
    match groups.findIdx? (fun grp => grp.any fun m => sameScc g m n) with
    | some i => groups.mapIdx fun j grp => if j == i then grp ++ [n] else grp
    | .none => groups ++ [[n]]) []

/-- `_check_cycle_entry` -/
def checkCycleEntry (ep : AL (List Name)) (names : List Name) (provided bypassed : List Name) : Except VErr Unit :=
  let satisfied := names.filter fun n => subset (minus ((AL.get? ep n).getD []) bypassed) provided
  if satisfied.isEmpty then .error (.missingInput [])
  else if satisfied.length > 1 then
    let sets := satisfied.map fun n => (AL.get? ep n).getD []
    if (sets.any fun s => s != sets.headD []) then .error (.valueError "ambiguous cycle entry") else .ok ()
  else .ok ()

/-- `_validate_cycle_entry` -/
def validateCycleEntry (g : GraphD) (spec : InputSpec) (provided bypassed : List Name)
    (entrypoint : Option Name) : Except VErr Unit :=
  let ep := spec.entrypoints
  let groups := groupEntrypoints g (AL.keys ep)
  match entrypoint with
  | some e =>
    match AL.get? ep e with
    | .none => .error (.valueError "not a valid entry point")
    | some ps =>
      if !subset (minus ps bypassed) provided then .error (.valueError "entry point needs")
      else
        (groups.filter fun grp => !grp.contains e).foldl (fun acc grp =>
          match acc with
          | .error x => .error x
          | .ok () => checkCycleEntry ep grp provided bypassed) (.ok ())
  | .none =>
    groups.foldl (fun acc grp =>
      match acc with
      | .error x => .error x
      | .ok () => checkCycleEntry ep grp provided bypassed) (.ok ())

/-- `validate_inputs`: number of override warnings, or the rejection -/
def validateInputs (g : GraphD) (values : AL Val) (entrypoint : Option Name)
    (selected : Option (List Name)) (policy : OverridePolicy) : Except VErr Nat :=
  let (an, ae) := activeScope g.nodes g.edges g.entrypoints selected
  let spec := effectiveSpec g selected
  let cycleEp := dedup (spec.entrypoints.flatMap (·.2))
  let provided := dedup (AL.keys spec.bound ++ AL.keys values)
  let expected := spec.all
  let ep := edgeProduced ae
  let interruptOuts := (an.filter (·.isInterrupt)).flatMap (·.outputs)
  let unexpected := minus (minus provided expected) interruptOuts
  let internalEdge := inter unexpected ep
  let unknown := minus unexpected ep
  if hasOverrideConflict an provided internalEdge cycleEp then .error (.valueError "internal override conflict")
  else
    let policyOut : Except VErr Nat :=
      if internalEdge.isEmpty && unknown.isEmpty then .ok 0
      else match policy with
        | .ignore => .ok 0
        | .warn => .ok 1
        | .error => .error (.valueError "internal override")
    match policyOut with
    | .error e => .error e
    | .ok w =>
      let bypassed := bypassedInputs g provided cycleEp
      let cyc : Except VErr Unit :=
        if spec.entrypoints.isEmpty then .ok () else validateCycleEntry g spec provided bypassed entrypoint
      match cyc with
      | .error e => .error e
      | .ok () =>
        let missing := minus (minus spec.required bypassed) provided
        if missing.isEmpty then .ok w else .error (.missingInput missing)

/-- what a checked call produced: rejected before execution (nothing ran, nothing was emitted),
or the run's outcome -/
inductive Checked
  | rejected (e : VErr)
  | ran (out : RunOut) (overrideWarnings : Nat)
  deriving Inhabited

/-- `runner.run(...)`: resolve select, validate, then (and only then) execute -/
def runChecked (sem : Sem) (runner : Runner) (prog : Program) (root : Nat) (values : AL Val)
    (cfg : RunCfg) (entrypoint : Option Name) (policy : OverridePolicy) : Checked :=
  let g := prog.getD root default
  match resolveRuntimeSelected g cfg.select with
  | .error e => .rejected e
  | .ok selected =>
    match validateInputs g values entrypoint selected policy with
    | .error e => .rejected e
    | .ok w => .ran (run sem runner prog root values cfg) w

/-- what a checked `map` call produced: refused before the map-level run-start (nothing ran, nothing was emitted, nothing is shut
down), or the map's outcome -/
inductive MapChecked
  | rejected (e : VErr)
  | ran (out : MapOut)
  deriving Inhabited

/-- the `map_over` names the call gives no value for -/
def absentMapOver (values : AL Val) (mapOver : List Name) : List Name :=
  mapOver.filter fun n => (AL.get? values n).isNone

/-- `validate_map_inputs`: one (arbitrary) element stands for each mapped-over sequence — names only -/
def itemValues (values : AL Val) (mapOver : List Name) : AL Val :=
  values.map fun kv => (kv.1, if mapOver.contains kv.1 then Val.none else kv.2)

/-- `runner.map(...)`: the options (`max_concurrency`), the `map_over` names, the selection and the required inputs are validated
before the map-level run-start event (fixes 2299be1, 1fcc5cf, b2c6023); anything else a single item may complain about is left to
that item's own run -/
def mapChecked (sem : Sem) (runner : Runner) (prog : Program) (root : Nat) (values : AL Val)
    (mapOver : List Name) (mode : MapMode) (errMode : ErrMode) (cfg : RunCfg) (k : Option Int)
    (entrypoint : Option Name) : MapChecked :=
  let g := prog.getD root default
  if !limitOk k then .rejected (.valueError "max_concurrency")
  else if !(absentMapOver values mapOver).isEmpty then .rejected (.missingInput (absentMapOver values mapOver))
  else match resolveRuntimeSelected g cfg.select with
    | .error e => .rejected e
    | .ok selected =>
      match validateInputs g (itemValues values mapOver) entrypoint selected .warn with
      | .error (.missingInput l) => .rejected (.missingInput l)
      | _ => .ran (map sem runner prog root values mapOver mode errMode cfg)

end HG
