/-! # HG.Model.Events — the event dispatcher with processors as oracles

Python being modelled (`events/dispatcher.py`, non-strict mode — the runners build
`EventDispatcher(processors)` and never pass `strict=True`):

```
def emit(self, event):                       # emit_async: same loop, `await` for async processors
    for processor in self._processors:
        try:    processor.on_event(event)
        except Exception: logger.warning(...)    # swallowed; a BaseException is NOT caught
def shutdown(self):                          # shutdown_async: same
    for processor in self._processors:
        try:    processor.shutdown()
        except Exception: logger.warning(...)
```

A processor is an oracle: given the index of the delivered event and the event it answers with an
`Outcome`.  Nothing else about a processor is visible to the dispatcher (it never reads a return
value).  Core Lean only (linked into the driver). -/
namespace HG.Events

/-- what a call into user processor code does -/
inductive Outcome
  | ok
  /-- raises an `Exception` subclass: caught by `except Exception`, logged, loop continues -/
  | raiseException
  /-- raises a `BaseException` that is not an `Exception` (`KeyboardInterrupt`, `SystemExit`,
  `asyncio.CancelledError`, …): NOT caught, leaves the loop and the run -/
  | raiseBaseException
  deriving DecidableEq, Repr, Inhabited

/-- `onEvent i e`: outcome of `on_event`/`on_event_async` for the `i`-th delivered event `e`;
`onShutdown`: outcome of `shutdown`/`shutdown_async` -/
structure Processor (ε : Type) where
  onEvent : Nat → ε → Outcome
  onShutdown : Outcome := .ok

/-- result of one pass over the processor list (`emit` or `shutdown`) -/
structure EmitOut where
  /-- call log: registration indices of the processors whose method was invoked, in call order -/
  calls : List Nat
  /-- per processor (aligned with the registration list): was it called -/
  called : List Bool
  /-- processors whose `Exception` was swallowed and logged -/
  logged : List Nat
  /-- `some j`: processor `j` raised a BaseException which left the loop; `none`: returned normally -/
  escaped : Option Nat
  deriving DecidableEq, Repr, Inhabited

/-- the `for processor in self._processors: try … except Exception` loop; `j` = registration index
of the head of `ps`, `f` = the method being invoked -/
def loopFrom {ε : Type} (f : Processor ε → Outcome) : Nat → List (Processor ε) → EmitOut
  | _, [] => { calls := [], called := [], logged := [], escaped := none }
  | j, p :: ps =>
    match f p with
    | .ok =>
      let o := loopFrom f (j + 1) ps
      { calls := j :: o.calls, called := true :: o.called, logged := o.logged, escaped := o.escaped }
    | .raiseException =>
      let o := loopFrom f (j + 1) ps
      { calls := j :: o.calls, called := true :: o.called, logged := j :: o.logged, escaped := o.escaped }
    | .raiseBaseException =>
      { calls := [j], called := true :: List.replicate ps.length false, logged := [], escaped := some j }

/-- `EventDispatcher.emit` / `emit_async` of the `i`-th event `e` -/
def emit {ε : Type} (ps : List (Processor ε)) (i : Nat) (e : ε) : EmitOut :=
  loopFrom (fun p => p.onEvent i e) 0 ps

/-- `EventDispatcher.shutdown` / `shutdown_async` -/
def shutdown {ε : Type} (ps : List (Processor ε)) : EmitOut :=
  loopFrom (fun p => p.onShutdown) 0 ps

/-- `EventDispatcher.active` -/
def active {ε : Type} (ps : List (Processor ε)) : Bool := !ps.isEmpty

structure DeliverOut (ε : Type) where
  /-- per processor: the events its `on_event` was invoked with, in order -/
  received : List (List ε)
  /-- `some (i, j)`: a BaseException of processor `j` escaped while delivering event `i`
  (the run is aborted there, later events are never emitted) -/
  escaped : Option (Nat × Nat)
  /-- `(event index, processor index)` of every swallowed `Exception` -/
  logged : List (Nat × Nat)
  deriving DecidableEq, Repr, Inhabited

/-- append `e` to the received list of every processor that was called -/
def record {ε : Type} (e : ε) (acc : List (List ε)) (called : List Bool) : List (List ε) :=
  List.zipWith (fun r c => if c then r ++ [e] else r) acc called

def deliverFrom {ε : Type} (ps : List (Processor ε)) :
    Nat → List ε → List (List ε) → List (Nat × Nat) → DeliverOut ε
  | _, [], acc, lg => { received := acc, escaped := none, logged := lg }
  | i, e :: es, acc, lg =>
    let o := emit ps i e
    let acc' := record e acc o.called
    let lg' := lg ++ o.logged.map (fun j => (i, j))
    match o.escaped with
    | some j => { received := acc', escaped := some (i, j), logged := lg' }
    | none => deliverFrom ps (i + 1) es acc' lg'

/-- deliver a whole trace, event `i` of the trace being the `i`-th emission -/
def deliverAll {ε : Type} (ps : List (Processor ε)) (evs : List ε) : DeliverOut ε :=
  deliverFrom ps 0 evs (List.replicate ps.length []) []

/-- A run, abstractly: `body` produces the result and the emitted trace WITHOUT consulting any
processor outcome; the dispatcher then delivers the trace. -/
def runWith {ε R : Type} (ps : List (Processor ε)) (body : Unit → R × List ε) : R × DeliverOut ε :=
  let (r, evs) := body ()
  (r, deliverAll ps evs)

/-- what the caller of the run observes: the result, unless a processor's BaseException escaped
(then that exception, not a result, comes out of `run`) -/
def runOutcome {ε R : Type} (ps : List (Processor ε)) (body : Unit → R × List ε) : Option R :=
  let (r, d) := runWith ps body
  if d.escaped.isNone then some r else none

/-- a top-level run: deliver the trace, then (`finally`, only when `active`) shut the processors down -/
def runAndShutdown {ε R : Type} (ps : List (Processor ε)) (body : Unit → R × List ε) :
    R × DeliverOut ε × EmitOut :=
  let (r, d) := runWith ps body
  (r, d, shutdown ps)

end HG.Events
