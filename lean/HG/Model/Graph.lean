import HG.Model.Basic
/-! # HG.Model.Graph — graph descriptions, elaboration, inferred edges, input specification

Mirrors `graph/core.py` (edge inference, `controlled_by`, `self_producers`, `outputs`),
`graph/input_spec.py` (active scope, "edge cancels default", cycle entry points, bound
collection) and the name-resolution half of `nodes/graph_node.py` (inputs/outputs of a nested
graph node, defaults and bindings surfacing through the wrapper). -/
namespace HG

/-- a gate target: a node name or `END` -/
inductive Target | node (n : Name) | end_
  deriving DecidableEq, Repr, Inhabited

/-- a routing decision as returned by a gate function (before validation) -/
inductive Dec
  | none | end_ | one (n : Name) | many (ts : List Target)
  deriving DecidableEq, Repr, Inhabited

inductive Kind | fn | route | ifelse | graph | interrupt
  deriving DecidableEq, Repr, Inhabited

inductive MapMode | zip | product deriving DecidableEq, Repr, Inhabited
inductive ErrMode | raise | cont deriving DecidableEq, Repr, Inhabited

/-- identity of an exception object (opaque) together with its class -/
inductive ErrId
  | user (tag : String)            -- raised by a node function (an `Exception`)
  | typeError (node : Name)        -- framework `TypeError` (gate returned non-bool / list mismatch)
  | valueError (node : Name)       -- framework `ValueError` (invalid target, arity mismatch, zip lengths, on_missing)
  | keyError (node : Name)         -- `KeyError` from `get_value_source`
  | infiniteLoop (maxIter : Nat)   -- `InfiniteLoopError`
  | missingInput (names : List Name)
  | wrapped (inner : ErrId)        -- `RuntimeError(...) from e` (interrupt handlers)
  | depth                          -- model artefact: nesting deeper than the supplied depth (never on well-formed programs)
  deriving DecidableEq, Repr, Inhabited

/-- the small body language shared with the harness (which compiles the same terms to Python) -/
inductive Body
  | tag (t : String)                       -- returns the tuple `(t, a₁, …, aₙ)` (injective)
  | multi (t : String) (k : Nat)           -- returns a k-tuple of `(t, i, a₁, …, aₙ)`
  | const (v : Val)
  | sum (k : Int)                          -- k + Σ of the integer arguments
  | first                                  -- returns its first argument
  | append                                 -- first argument (a list) + [second argument]
  | lt (k : Int)                           -- if/else predicate: first argument < k
  | table (rows : List (Int × Dec)) (dflt : Dec)   -- route on the first (integer) argument
  | fail (t : String)                      -- raises user exception `t`
  | failIf (k : Int) (t : String)          -- raises `t` when the first argument = k, else like `tag t`
  | failGe (k : Int) (t : String)          -- raises `t ++ <first argument>` (a DIFFERENT error per value) when the first argument ≥ k
  | nonBool                                -- if/else function returning a non-bool (TypeError path)
  | wrongArity (t : String) (k : Nat)      -- returns a k-tuple regardless of the declared outputs
  | handler (k : Option Int)               -- interrupt handler: `none` always pauses; `some k`: responds (sum + k)
  deriving Repr, Inhabited

/-- raw description of a node, as the harness generates it (and builds the real object from) -/
structure NodeSpec where
  name : Name
  kind : Kind
  /-- fn / gate / interrupt: function parameters in signature order, with optional default -/
  params : List (Name × Option Val) := []
  /-- current external name for each renamed parameter (original ↦ current) -/
  inRen : AL Name := []
  dataOuts : List Name := []          -- current data output names (fn/interrupt); graph: ignored
  outRen : AL Name := []              -- graph node: inner output ↦ current output
  emits : List Name := []
  waitFor : List Name := []
  body : Body := .tag "?"
  targets : List Target := []         -- route: targets; ifelse: [when_true, when_false]
  multiTarget : Bool := false
  fallback : Option Target := .none
  defaultOpen : Bool := true
  cache : Bool := false
  inner : Nat := 0                    -- graph node: index of the inner graph in the program
  mapOver : List Name := []           -- graph node: current names
  mapMode : MapMode := .zip
  errMode : ErrMode := .raise
  deriving Repr, Inhabited

structure GraphSpec where
  name : Name := ""
  nodes : List NodeSpec
  bound : AL Val := []
  selected : Option (List Name) := .none
  entrypoints : Option (List Name) := .none
  deriving Repr, Inhabited

/-- elaborated node: what the runners read off a `HyperNode` -/
structure NodeD where
  name : Name
  kind : Kind
  inputs : List Name                  -- `node.inputs` (current names)
  origIn : AL Name                    -- current ↦ original (`map_inputs_to_params`)
  dataOuts : List Name                -- `node.data_outputs`
  origOut : AL Name                   -- graph node: inner output ↦ current (`map_outputs_from_original`)
  emits : List Name
  waitFor : List Name
  hasDefault : List Name              -- current names with `has_default_for`
  sigDefaults : AL Val                -- `has_signature_default_for` / `get_signature_default_for`
  innerBound : AL Val                 -- graph node: current name ↦ inner bound value (source 3b)
  body : Body
  targets : List Target
  multiTarget : Bool
  fallback : Option Target
  defaultOpen : Bool
  cache : Bool
  inner : Nat
  mapOver : List Name
  mapMode : MapMode
  errMode : ErrMode
  signalOuts : List Name := []        -- graph node: outputs that are ordering signals only (inner emit names), current names
  deriving Repr, Inhabited

namespace NodeD
/-- `node.outputs` = data outputs then emit outputs -/
def outputs (n : NodeD) : List Name := n.dataOuts ++ n.emits
def isGate (n : NodeD) : Bool := n.kind == .route || n.kind == .ifelse
def isInterrupt (n : NodeD) : Bool := n.kind == .interrupt
def targetNames (n : NodeD) : List Name :=
  n.targets.filterMap fun t => match t with | .node m => some m | .end_ => .none
end NodeD

inductive EdgeKind | data | control | ordering deriving DecidableEq, Repr, Inhabited

structure Edge where
  src : Name
  dst : Name
  kind : EdgeKind
  values : List Name
  deriving Repr, Inhabited

structure InputSpec where
  required : List Name
  optional : List Name
  entrypoints : AL (List Name)        -- sorted by node name (canonical)
  bound : AL Val
  deriving Repr, Inhabited

def InputSpec.all (s : InputSpec) : List Name :=
  let base := s.required ++ s.optional
  let extra := s.entrypoints.foldl (fun acc e =>
    e.2.foldl (fun acc p => if (base ++ acc).contains p then acc else acc ++ [p]) acc) ([] : List Name)
  base ++ extra

/-- elaborated graph -/
structure GraphD where
  name : Name
  nodes : List NodeD
  bound : AL Val                      -- `graph._bound`
  selected : Option (List Name)
  entrypoints : Option (List Name)
  edges : List Edge                   -- `graph._nx_graph` edges
  spec : InputSpec                    -- `graph.inputs`
  deriving Repr, Inhabited

/-! ## structure derived from the node list -/

def dedup (l : List Name) : List Name :=
  l.foldl (fun acc x => if acc.contains x then acc else acc ++ [x]) []

/-- `graph.outputs` -/
def graphOutputs (nodes : List NodeD) : List Name := dedup (nodes.flatMap (·.outputs))

def findNode (nodes : List NodeD) (n : Name) : Option NodeD := nodes.find? (·.name == n)

/-- `sources_of` -/
def sourcesOf (nodes : List NodeD) (o : Name) : List Name :=
  (nodes.filter fun n => n.outputs.contains o).map (·.name)

/-- `output_to_source[o]` = the first producer -/
def firstSource (nodes : List NodeD) (o : Name) : Option Name := (sourcesOf nodes o).head?

def hasEdge (es : List Edge) (a b : Name) : Bool := es.any fun e => e.src == a && e.dst == b

/-- `_add_data_edges`: one edge per (source, target) pair, values in discovery order -/
def dataEdges (nodes : List NodeD) : List Edge :=
  nodes.foldl (fun es n =>
    n.inputs.foldl (fun es p =>
      match firstSource nodes p with
      | .none => es
      | some src =>
        if hasEdge es src n.name then
          es.map fun e => if e.src == src && e.dst == n.name then { e with values := e.values ++ [p] } else e
        else es ++ [{ src := src, dst := n.name, kind := .data, values := [p] }]) es) []

/-- `_add_control_edges` -/
def addControlEdges (nodes : List NodeD) (es : List Edge) : List Edge :=
  nodes.foldl (fun es n =>
    if n.isGate then
      n.targetNames.foldl (fun es t =>
        if (findNode nodes t).isSome && !hasEdge es n.name t
        then es ++ [{ src := n.name, dst := t, kind := .control, values := [] }] else es) es
    else es) es

/-- `_add_ordering_edges` -/
def addOrderingEdges (nodes : List NodeD) (es : List Edge) : List Edge :=
  nodes.foldl (fun es n =>
    n.waitFor.foldl (fun es w =>
      match firstSource nodes w with
      | .none => es
      | some p =>
        if p == n.name || hasEdge es p n.name then es
        else es ++ [{ src := p, dst := n.name, kind := .ordering, values := [w] }]) es) es

/-- `_build_graph` (auto-inference mode) -/
def inferEdges (nodes : List NodeD) : List Edge :=
  addOrderingEdges nodes (addControlEdges nodes (dataEdges nodes))

def succs (es : List Edge) (a : Name) : List Name := dedup ((es.filter (·.src == a)).map (·.dst))
def preds (es : List Edge) (a : Name) : List Name := dedup ((es.filter (·.dst == a)).map (·.src))

/-- breadth-first closure with fuel (`nx.descendants` when `fuel ≥ number of nodes`) -/
def closure (step : Name → List Name) : Nat → List Name → List Name → List Name
  | 0, _, seen => seen
  | fuel + 1, frontier, seen =>
    let next := dedup (frontier.flatMap step) |>.filter fun x => !seen.contains x
    if next.isEmpty then seen else closure step fuel next (seen ++ next)

/-- `nx.descendants(G, a)` (excludes `a` itself unless it lies on a cycle through it… networkx
always excludes the source) -/
def descendants (es : List Edge) (n : Nat) (a : Name) : List Name :=
  (closure (succs es) n [a] []).filter (· != a)

/-- `Graph.controlled_by[n]`: gates (in node order) one of whose targets is `n` -/
def controlledBy (nodes : List NodeD) (n : Name) : List NodeD :=
  nodes.filter fun c => c.isGate && c.targetNames.contains n && (findNode nodes n).isSome

/-- `node.name in graph.self_producers.get(param, set())` -/
def selfProduces (nd : NodeD) (p : Name) : Bool := nd.outputs.contains p

/-! ## active scope (`_compute_active_scope`) -/

def activeFromEntrypoints (nodes : List NodeD) (es : List Edge) (eps : List Name) : List Name :=
  let r := eps ++ eps.flatMap (descendants es nodes.length)
  (nodes.map (·.name)).filter fun n => r.contains n

/-- worklist of `_active_from_selection` (after the repair: a gate's targets are always expanded
with their descendants, so the result is the closure under "predecessors" and "targets of gates and
their descendants", independent of traversal order). `fuel` bounds the number of pops. -/
def selectionWalk (nodes : List NodeD) (es : List Edge) (active : List Name) :
    Nat → List Name → List Name → List Name
  | 0, _, needed => needed
  | fuel + 1, stack, needed =>
    match stack.getLast? with
    | .none => needed
    | some name =>
      let rest := stack.dropLast
      if needed.contains name || !active.contains name then selectionWalk nodes es active fuel rest needed
      else
        let needed' := needed ++ [name]
        let ps := (preds es name).filter fun p => !needed'.contains p
        let gateExtra : List Name :=
          match findNode nodes name with
          | some nd =>
            if nd.isGate then
              (nd.targetNames.filter fun t => active.contains t).flatMap fun t =>
                t :: (descendants es nodes.length t)
            else []
          | .none => []
        selectionWalk nodes es active fuel (rest ++ ps ++ gateExtra) needed'

def activeFromSelection (nodes : List NodeD) (es : List Edge) (active : List Name) (sel : List Name) : List Name :=
  let sub := es.filter fun e => active.contains e.src && active.contains e.dst
  let producers := active.filter fun n =>
    match findNode nodes n with
    | some nd => nd.outputs.any fun o => sel.contains o
    | .none => false
  if producers.isEmpty then []
  else
    let n := nodes.length
    selectionWalk nodes sub active ((n + 1) * (n + 1) * (n + 2)) producers []

def activeScope (nodes : List NodeD) (es : List Edge) (eps : Option (List Name)) (sel : Option (List Name)) :
    List NodeD × List Edge :=
  let a0 := match eps with | .none => nodes.map (·.name) | some e => activeFromEntrypoints nodes es e
  let a1 := match sel with | .none => a0 | some s => activeFromSelection nodes es a0 s
  (nodes.filter fun n => a1.contains n.name, es.filter fun e => a1.contains e.src && a1.contains e.dst)

/-! ## input specification (`compute_input_spec`) -/

def edgeProduced (es : List Edge) : List Name :=
  dedup ((es.filter (·.kind == .data)).flatMap (·.values))

def uniqueParams (nodes : List NodeD) : List Name := dedup (nodes.flatMap (·.inputs))

def anyNodeHasDefault (nodes : List NodeD) (p : Name) : Bool :=
  nodes.any fun n => n.inputs.contains p && n.hasDefault.contains p

def isInterruptProduced (nodes : List NodeD) (p : Name) : Bool :=
  nodes.any fun n => n.isInterrupt && n.outputs.contains p

/-- all simple cycles through `start` using only `allowed` nodes (naive enumeration with fuel) -/
def cyclesFrom (adj : Name → List Name) (start : Name) (allowed : List Name) :
    Nat → List Name → List (List Name)
  | 0, _ => []
  | fuel + 1, path =>
    match path with
    | [] => []
    | cur :: _ =>
      let ss := adj cur
      (if ss.contains start then [path.reverse] else []) ++
      ((ss.filter fun v => allowed.contains v && !path.contains v).flatMap fun v =>
        cyclesFrom adj start allowed fuel (v :: path))

/-- `nx.simple_cycles` as a set of node lists (each cycle once, rooted at its first node in node order) -/
def simpleCycles (names : List Name) (es : List Edge) : List (List Name) :=
  let rec go : List Name → List (List Name)
    | [] => []
    | s :: rest => cyclesFrom (succs es) s rest (names.length + 1) [s] ++ go rest
  go names

/-- `_get_all_cycle_params` -/
def cycleParams (nodes : List NodeD) (dataEs : List Edge) (ep : List Name) : List Name :=
  let cycles := simpleCycles (nodes.map (·.name)) dataEs
  dedup (cycles.flatMap fun cyc =>
    cyc.flatMap fun nn =>
      match findNode nodes nn with
      | .none => []
      | some nd => nd.inputs.filter fun p =>
          ep.contains p && (sourcesOf nodes p).any fun s => cyc.contains s)

def insertSorted (x : Name × List Name) : AL (List Name) → AL (List Name)
  | [] => [x]
  | y :: ys => if x.1 < y.1 then x :: y :: ys else y :: insertSorted x ys

/-- `_compute_entrypoints`; result sorted by node name -/
def computeEntrypoints (nodes : List NodeD) (es : List Edge) (ep : List Name) (bound : AL Val) :
    AL (List Name) :=
  let dataEs := es.filter (·.kind == .data)
  let cps := cycleParams nodes dataEs ep
  if cps.isEmpty then []
  else
    let n := nodes.length
    let inCyclicScc (a : Name) : Bool :=
      let d := descendants dataEs n a
      hasEdge dataEs a a || (d.any fun b => b != a && (descendants dataEs n b).contains a)
    nodes.foldl (fun acc nd =>
      if nd.isGate || !inCyclicScc nd.name then acc
      else
        let needed := nd.inputs.filter fun p =>
          cps.contains p && !AL.has bound p && !isInterruptProduced nodes p && !nd.hasDefault.contains p
        if needed.isEmpty then acc else insertSorted (nd.name, needed) acc) []

/-- `_collect_bound_values` (after the repair: inner bindings under the wrapper's current names) -/
def collectBound (nodes : List NodeD) (bound : AL Val) : AL Val :=
  nodes.foldl (fun acc nd =>
    if nd.kind == .graph then
      nd.inputs.foldl (fun acc cur =>
        match AL.get? nd.innerBound cur with
        | some v => if AL.has acc cur then acc else acc ++ [(cur, v)]
        | .none => acc) acc
    else acc) bound

def computeInputSpec (nodes : List NodeD) (es : List Edge) (bound : AL Val)
    (eps : Option (List Name)) (sel : Option (List Name)) : InputSpec :=
  let (an, ae) := activeScope nodes es eps sel
  let ep := edgeProduced ae
  let cyc := computeEntrypoints an ae ep bound
  let entryParams := cyc.flatMap (·.2)
  let cats := (uniqueParams an).filter fun p => !entryParams.contains p && !ep.contains p
  let isOpt := fun p => AL.has bound p || anyNodeHasDefault an p
  { required := cats.filter fun p => !isOpt p
    optional := cats.filter isOpt
    entrypoints := cyc
    bound := collectBound an bound }

/-! ## elaboration of descriptions -/

def renameOf (ren : AL Name) (n : Name) : Name := (AL.get? ren n).getD n

/-- elaborate a function / gate / interrupt node -/
def elabLeaf (s : NodeSpec) : NodeD :=
  let cur := fun (p : Name) => renameOf s.inRen p
  { name := s.name, kind := s.kind
    inputs := s.params.map fun p => cur p.1
    origIn := s.params.map fun p => (cur p.1, p.1)
    dataOuts := s.dataOuts, origOut := []
    emits := s.emits, waitFor := s.waitFor
    hasDefault := s.params.filterMap fun p => p.2.map fun _ => cur p.1
    sigDefaults := s.params.filterMap fun p => p.2.map fun v => (cur p.1, v)
    innerBound := []
    body := s.body, targets := s.targets, multiTarget := s.multiTarget, fallback := s.fallback
    defaultOpen := s.defaultOpen, cache := s.cache, inner := 0
    mapOver := [], mapMode := .zip, errMode := .raise }

/-- `_signal_only_outputs` (helpers.py): those of the given (exposed) outputs of the inner graph that no inner node produces as DATA (a nested-graph node inside
produces as data whatever it exposes that is not itself signal-only) -/
def signalOnly (nodes : List NodeD) (outs : List Name) : List Name :=
  outs.filter fun o => !(nodes.any fun n =>
    if n.kind == .graph then n.outputs.contains o && !n.signalOuts.contains o else n.dataOuts.contains o)

/-- elaborate a nested-graph node against the (already elaborated) inner graph -/
def elabGraphNode (s : NodeSpec) (g : GraphD) : NodeD :=
  let cur := fun (p : Name) => renameOf s.inRen p
  let innerIns := g.spec.all
  let innerOuts := match g.selected with | some sel => sel | .none => graphOutputs g.nodes
  let users := fun (p : Name) => g.nodes.filter fun n => n.inputs.contains p
  { name := s.name, kind := .graph
    inputs := innerIns.map cur
    origIn := innerIns.map fun p => (cur p, p)
    dataOuts := innerOuts.map fun o => renameOf s.outRen o
    origOut := innerOuts.map fun o => (o, renameOf s.outRen o)
    emits := [], waitFor := s.waitFor
    -- (`GraphNode.has_default_for`: bound inside, or some inner user has a default — but a signature default is ONE item, not the
    --  collection to map over: a mapped-over parameter that is not bound inside has to be supplied)
    hasDefault := (innerIns.filter fun p =>
      AL.has g.spec.bound p || (!s.mapOver.contains (cur p) && (users p).any fun n => n.hasDefault.contains p)).map cur
    sigDefaults := innerIns.filterMap fun p =>
      if AL.has g.spec.bound p then .none
      else
        let us := users p
        if us.isEmpty || !(us.all fun n => AL.has n.sigDefaults p) then .none
        else (us.findSome? fun n => AL.get? n.sigDefaults p).map fun v => (cur p, v)
    innerBound := innerIns.filterMap fun p => (AL.get? g.spec.bound p).map fun v => (cur p, v)
    body := s.body, targets := [], multiTarget := false, fallback := .none
    defaultOpen := true, cache := false, inner := s.inner
    mapOver := s.mapOver, mapMode := s.mapMode, errMode := s.errMode
    -- (only among what the node EXPOSES — fix 4b4565d: a hidden inner signal says nothing about an exposed data output renamed to its name)
    signalOuts := (signalOnly g.nodes innerOuts).map fun o => renameOf s.outRen o }

def elabNode (done : List GraphD) (s : NodeSpec) : NodeD :=
  if s.kind == .graph then elabGraphNode s (done.getD s.inner default) else elabLeaf s

def elabGraph (done : List GraphD) (gs : GraphSpec) : GraphD :=
  let nodes := gs.nodes.map (elabNode done)
  let es := inferEdges nodes
  { name := gs.name, nodes := nodes, bound := gs.bound, selected := gs.selected
    entrypoints := gs.entrypoints, edges := es
    spec := computeInputSpec nodes es gs.bound gs.entrypoints gs.selected }

/-- a program: graphs in dependency order (a nested-graph node refers to a strictly earlier index) -/
def elabProgram (specs : List GraphSpec) : List GraphD :=
  specs.foldl (fun done gs => done ++ [elabGraph done gs]) []

/-- `compute_active_node_set` -/
def activeNodeSet (g : GraphD) : Option (List Name) :=
  g.entrypoints.map fun eps => activeFromEntrypoints g.nodes g.edges eps

end HG
