import HG.Model.Run
/-! # HG.Model.Cache — the caching layer

Mirrors `hypergraph/cache.py` (`InMemoryCache`, `DiskCache`, `compute_cache_key`) and
`runners/_shared/caching.py` (`check_cache`, `restore_routing_decision`, `store_in_cache`) as they
are used by `run_superstep_sync`.

Modelling assumptions (each one is an explicit hypothesis of the theorems in `HG/Props/C09.lean`):
* SHA-256 is collision free: the cache key is the *tuple* `(identity, sorted inputs)` itself
  (`Key`), and the map `hash : Key → Name` into key strings is an abstract parameter whose
  injectivity is a hypothesis. The inputs that enter the key are the *parameter-level* inputs
  (`map_inputs_to_params`, `HG.toParams`), not the inputs under the node's current (renamed) names.
* HMAC-SHA256 with the per-directory secret is an abstract function `H key bytes`; unforgeability and
  collision freedom are hypotheses on histories.
* `pickle`/`unpickle` are abstract (`Codec`). `pickle` is total: the Python `set` silently skips a
  value that cannot be pickled (a no-op on the store), and `compute_cache_key` returns `""` ("do not
  cache") for inputs that cannot be pickled; every `Val` is picklable, so neither branch is modelled. -/
namespace HG.Cache
open HG

/-! ## association-list helpers (Python `dict`) -/

/-- remove every binding of `k` (`del d[k]` / `diskcache.Cache.delete`; total: deleting an absent
key is a no-op). Unlike `AL.del` this is also correct on lists with repeated keys, so the disk
theorems hold for every `Disk` value. -/
def erase {α : Type} (m : AL α) (k : Name) : AL α := m.filter fun kv => !(kv.1 == k)

/-- `OrderedDict.move_to_end(k)` (last=True) for a present key; identity on an absent key -/
def moveToEnd {α : Type} (m : AL α) (k : Name) : AL α :=
  match AL.get? m k with
  | some v => AL.del m k ++ [(k, v)]
  | .none => m

/-! ## 1. `InMemoryCache` -/

/-- `InMemoryCache`: `data` is the `OrderedDict`, oldest (least recently used) first -/
structure Lru (α : Type) where
  maxSize : Option Nat
  data : AL α
  deriving Repr, DecidableEq

namespace Lru
variable {α : Type}

def empty (maxSize : Option Nat) : Lru α := { maxSize := maxSize, data := [] }

/-- `InMemoryCache.get`: a miss changes nothing; a hit moves the key to the end -/
def get (c : Lru α) (k : Name) : Lru α × Option α :=
  match AL.get? c.data k with
  | .none => (c, .none)
  | some v => ({ c with data := moveToEnd c.data k }, some v)

/-- `InMemoryCache.set`: `move_to_end` if present, assign, then `popitem(last=False)` when over
capacity -/
def set (c : Lru α) (k : Name) (v : α) : Lru α :=
  let d1 := if AL.has c.data k then moveToEnd c.data k else c.data
  let d2 := AL.put d1 k v
  let d3 := match c.maxSize with
    | some n => if d2.length > n then d2.tail else d2
    | .none => d2
  { c with data := d3 }
end Lru

/-- one cache operation -/
inductive Op (α : Type)
  | get (k : Name)
  | set (k : Name) (v : α)
  deriving Repr

def Op.key {α : Type} : Op α → Name
  | .get k => k
  | .set k _ => k

def Lru.step {α : Type} (c : Lru α) : Op α → Lru α
  | .get k => (c.get k).1
  | .set k v => c.set k v

/-- run a history of operations (chronological order) -/
def Lru.run {α : Type} (c : Lru α) (ops : List (Op α)) : Lru α := ops.foldl Lru.step c

/-- entry point for the differential check: `true` = `set k v`, `false` = `get k` (the value is
ignored); returns the results of the `get`s in order -/
def runLruOps (maxSize : Option Nat) (ops : List (Bool × Name × Val)) : List (Option Val) :=
  let rec go (c : Lru Val) : List (Bool × Name × Val) → List (Option Val)
    | [] => []
    | (true, k, v) :: rest => go (c.set k v) rest
    | (false, k, _) :: rest => let r := c.get k; r.2 :: go r.1 rest
  go (Lru.empty maxSize) ops

/-! ## 2. `DiskCache` -/

/-- a value held by the underlying `diskcache` store -/
inductive Cell
  | bytes (b : List Nat)
  | str (s : String)
  | other
  deriving DecidableEq, Repr, Inhabited

/-- the underlying key/value store (`diskcache.Cache`) -/
structure Disk where
  store : AL Cell
  deriving Repr, Inhabited

/-- `key + DiskCache._HMAC_SUFFIX` -/
def hmacKey (key : String) : String := key ++ ":hmac"

/-- the abstract parameters of `DiskCache`: the keyed MAC `H` (`_compute_hmac_bytes` with the
directory secret fixed; the message is `key.encode() + raw_bytes`), `pickle.dumps`, `pickle.loads`
(`none` = raises) -/
structure Codec (V : Type) where
  H : String → List Nat → String
  pickle : V → List Nat
  unpickle : List Nat → Option V

/-- the message the signature is computed over, after the repair "the signature covers key and payload as a
pair": the key is length-prefixed (`str(len(key)) + ":" + key + payload`; the length is one token here) -/
def macMsg (key payload : List Nat) : List Nat := key.length :: (key ++ payload)

/-- the message before that repair: the bare concatenation `key + payload` (kept for the negative witness
`HG.C09.replay_under_other_key_witness`) -/
def macMsgConcat (key payload : List Nat) : List Nat := key ++ payload

/-- observable outcome of `DiskCache.get` -/
structure GetOut (V : Type) where
  /-- `some v` = `(True, v)`; `none` = `(False, None)` -/
  result : Option V
  /-- the bytes `pickle.loads` was called on, if it was called at all -/
  unpickled : Option (List Nat)
  deriving Repr

def GetOut.miss {V : Type} : GetOut V := { result := .none, unpickled := .none }

namespace Disk
variable {V : Type}

def empty : Disk := { store := [] }
def cell (d : Disk) (k : String) : Option Cell := AL.get? d.store k
def write (d : Disk) (k : String) (c : Cell) : Disk := { store := AL.put d.store k c }
def delete (d : Disk) (k : String) : Disk := { store := erase d.store k }

/-- `DiskCache.set`: payload first, then the signature — two separate writes -/
def set (C : Codec V) (d : Disk) (key : String) (v : V) : Disk :=
  let raw := C.pickle v
  (d.write key (.bytes raw)).write (hmacKey key) (.str (C.H key raw))

/-- `DiskCache.set` interrupted between its two writes -/
def setCrashAfterFirstWrite (C : Codec V) (d : Disk) (key : String) (v : V) : Disk :=
  d.write key (.bytes (C.pickle v))

/-- `DiskCache.get`, branch by branch -/
def get (C : Codec V) (d : Disk) (key : String) : Disk × GetOut V :=
  match d.cell key with
  | .none => (d, .miss)                                             -- payload absent
  | some (.bytes raw) =>
    match d.cell (hmacKey key) with
    | .none => (d.delete key, .miss)                                -- missing HMAC
    | some (.str t) =>
      if t = C.H key raw then                                       -- `hmac.compare_digest`
        match C.unpickle raw with
        | some v => (d, { result := some v, unpickled := some raw })
        | .none =>                                                  -- `pickle.loads` raised
          ((d.delete key).delete (hmacKey key), { result := .none, unpickled := some raw })
      else ((d.delete key).delete (hmacKey key), .miss)             -- HMAC mismatch
    | some _ => ((d.delete key).delete (hmacKey key), .miss)        -- HMAC of invalid type
  | some _ => (d.delete key, .miss)                                 -- payload not raw bytes
end Disk

/-- one adversary step on the store, between two cache operations: covers bit flips, truncation,
change of type and deletion of either slot -/
inductive Tamper
  | setCell (k : String) (c : Cell)
  | delCell (k : String)
  deriving Repr

def Tamper.apply (d : Disk) : Tamper → Disk
  | .setCell k c => d.write k c
  | .delCell k => d.delete k

/-- one step of a disk history -/
inductive Step (V : Type)
  | set (k : String) (v : V)
  | crashSet (k : String) (v : V)
  | tamper (t : Tamper)
  | get (k : String)
  deriving Repr

def Disk.step {V : Type} (C : Codec V) (d : Disk) : Step V → Disk
  | .set k v => d.set C k v
  | .crashSet k v => d.setCrashAfterFirstWrite C k v
  | .tamper t => t.apply d
  | .get k => (d.get C k).1

def Disk.run {V : Type} (C : Codec V) (d : Disk) (hist : List (Step V)) : Disk :=
  hist.foldl (Disk.step C) d

/-! ### concrete instantiation for the differential check -/

/-- an injective encoding of `Val` into bytes-as-naturals (prefix code) -/
def encodeVal : Val → List Nat
  | .none => [0]
  | .bool b => [1, if b then 1 else 0]
  | .int i => [2, if i < 0 then 1 else 0, i.natAbs]
  | .str s => [3, s.length] ++ s.toList.map Char.toNat
  | .nil => [4]
  | .cons h t => 5 :: (encodeVal h ++ encodeVal t)
  | .tup c => 6 :: encodeVal c
  | .lst c => 7 :: encodeVal c
  | .sentinel => [8]

/-- parser for `encodeVal` with fuel; returns the value and the unread suffix -/
def decodeValAux : Nat → List Nat → Option (Val × List Nat)
  | 0, _ => .none
  | _ + 1, 0 :: r => some (.none, r)
  | _ + 1, 1 :: b :: r => some (.bool (b != 0), r)
  | _ + 1, 2 :: s :: n :: r => some (.int (if s != 0 then - (n : Int) else (n : Int)), r)
  | _ + 1, 3 :: n :: r =>
    if r.length < n then .none
    else some (.str (String.ofList ((r.take n).map Char.ofNat)), r.drop n)
  | _ + 1, 4 :: r => some (.nil, r)
  | f + 1, 5 :: r =>
    match decodeValAux f r with
    | some (h, r1) =>
      match decodeValAux f r1 with
      | some (t, r2) => some (.cons h t, r2)
      | .none => .none
    | .none => .none
  | f + 1, 6 :: r => (decodeValAux f r).map fun p => (.tup p.1, p.2)
  | f + 1, 7 :: r => (decodeValAux f r).map fun p => (.lst p.1, p.2)
  | _ + 1, 8 :: r => some (.sentinel, r)
  | _ + 1, _ => .none

/-- `pickle.loads`: fails on trailing garbage or malformed input -/
def decodeVal (b : List Nat) : Option Val :=
  match decodeValAux (b.length + 1) b with
  | some (v, []) => some v
  | _ => .none

def natsToString (b : List Nat) : String := ",".intercalate (b.map toString)

/-- the concrete codec used by `diskScenario` -/
def demoCodec : Codec Val :=
  { H := fun k b => "mac:" ++ k ++ ":" ++ natsToString b
    pickle := encodeVal
    unpickle := decodeVal }

/-- result of one `get` of a scenario -/
structure GetObs where
  hit : Option Val
  unpickleCalled : Bool
  deriving Repr, DecidableEq

/-- entry point for the differential check: run the steps from an empty store and report, for each
`get` in order, hit value / miss and whether `pickle.loads` was reached -/
def diskScenario (steps : List (Step Val)) : List GetObs :=
  let rec go (d : Disk) : List (Step Val) → List GetObs
    | [] => []
    | .get k :: rest =>
      let r := d.get demoCodec k
      { hit := r.2.result, unpickleCalled := r.2.unpickled.isSome } :: go r.1 rest
    | s :: rest => go (d.step demoCodec s) rest
  go Disk.empty steps

/-! ## 3. cache keys -/

/-- `_node_identity(node)` after the repairs: definition hash, class name, output names, targets and
(fallback repair) the gate's `fallback` target
(`f"{definition_hash}:{class}:{outputs!r}:{targets!r}:{fallback!r}"`; `none` = `None`, which is also
what every node without a fallback contributes). -/
structure Ident where
  defHash : String
  cls : String
  outputs : List Name
  targets : List Target
  fallback : Option Target
  /-- `multi_target` of a route gate (`None`, printed, for every other node): a multi-target gate validates
  and stores its decision differently (a list of targets) -/
  multiTarget : Bool := false
  /-- the emit signals, apart from the data outputs (repair "data outputs and emit signals are told apart in the cache identity"):
  `("a", "b")` as two values is not `"a"` as a value plus the signal `"b"` -/
  emits : List Name := []
  deriving DecidableEq, Repr, Inhabited

def insertKV (kv : Name × Val) : AL Val → AL Val
  | [] => [kv]
  | h :: t => if kv.1 < h.1 then kv :: h :: t else h :: insertKV kv t

/-- `sorted(inputs.items())`: dict keys are distinct, so the order is decided by the names -/
def sortInputs (m : AL Val) : AL Val := m.foldr insertKV []

/-- SHA-256 modelled as injective: the key *is* the hashed content, identity and sorted inputs.
(`sha256(identity ‖ pickle(sorted(inputs.items())))`; collision freedom is an assumption.) -/
abbrev Key := Ident × AL Val

def cacheKey (ident : Ident) (inputs : AL Val) : Key := (ident, sortInputs inputs)

/-- the key before the repair: `definition_hash` only -/
def cacheKeyOld (ident : Ident) (inputs : AL Val) : String × AL Val := (ident.defHash, sortInputs inputs)

def className : Kind → String
  | .fn => "FunctionNode"
  | .route => "RouteNode"
  | .ifelse => "IfElseNode"
  | .graph => "GraphNode"
  | .interrupt => "InterruptNode"

/-- what the runner cannot see inside: the `definition_hash` attribute of each node and the map from
hashed content to hex digest -/
structure KeyEnv where
  defHash : NodeD → String
  hash : Key → Name

def identOf (env : KeyEnv) (nd : NodeD) : Ident :=
  { defHash := env.defHash nd, cls := className nd.kind, outputs := nd.dataOuts, targets := nd.targets,
    fallback := nd.fallback, multiTarget := nd.multiTarget, emits := nd.emits }

/-- the identity before the repair "data outputs and emit signals are told apart": `node.outputs`, the concatenation — a node with
the data outputs `("a", "b")` and a node over the same function with the data output `"a"` and the signal `"b"` shared an entry (the
second was served `b` as a value and its function was not invoked). Kept for the negative witness `HG.C09.emit_split_collision_witness`. -/
def identOfJoined (env : KeyEnv) (nd : NodeD) : Ident :=
  { defHash := env.defHash nd, cls := className nd.kind, outputs := nd.outputs, targets := nd.targets,
    fallback := nd.fallback, multiTarget := nd.multiTarget }

/-- the identity before the repair "multi_target is part of a gate's cache identity": two route gates over
one routing function with equal targets, one single-target and one multi-target, shared an entry — the
multi-target gate was served the single decision (and completed) where the uncached run rejects a
non-list decision. Kept for the negative witness `HG.C09.multi_target_collision_witness`. -/
def identOfNoMulti (env : KeyEnv) (nd : NodeD) : Ident :=
  { defHash := env.defHash nd, cls := className nd.kind, outputs := nd.dataOuts, targets := nd.targets,
    fallback := nd.fallback, emits := nd.emits }

/-- the identity before the fallback repair: `fallback` is not part of it (the component is constantly
`none`). The cached routing decision is the one *after* the fallback was applied (`HG.execRoute`), so two
route gates over one function with equal targets and different fallbacks shared an entry and the second
was served the first one's decision. Kept for the negative witness
`HG.C09.fallback_collision_witness`. -/
def identOfNoFallback (env : KeyEnv) (nd : NodeD) : Ident :=
  { defHash := env.defHash nd, cls := className nd.kind, outputs := nd.dataOuts, targets := nd.targets,
    fallback := .none, multiTarget := nd.multiTarget, emits := nd.emits }

/-- the key before the fallback repair (`identOfNoFallback` in place of `identOf`) -/
def keyOfNoFallback (env : KeyEnv) (nd : NodeD) (inputs : AL Val) : Name :=
  env.hash (cacheKey (identOfNoFallback env nd) (toParams nd inputs))

/-- `compute_cache_key(node, inputs)` after the rename repair: the inputs (keyed by the node's *current*
input names) are first mapped back to the function's *original* parameter names
(`node.map_inputs_to_params(inputs)`, `HG.toParams`), then sorted and hashed together with the identity.
Two nodes sharing one definition but wired through different renames (`f` and
`f.with_inputs(x='y', y='x')`) therefore get the same key exactly when the function receives the same
arguments. -/
def keyOf (env : KeyEnv) (nd : NodeD) (inputs : AL Val) : Name :=
  env.hash (cacheKey (identOf env nd) (toParams nd inputs))

/-- the key before the rename repair: computed from the inputs under the node's *current* names. Kept
for the negative witness `HG.C09.rename_collision_witness`. -/
def keyOfCurrent (env : KeyEnv) (nd : NodeD) (inputs : AL Val) : Name :=
  env.hash (cacheKey (identOf env nd) inputs)

/-! ## 4. cached execution of one node -/

/-- `_ROUTING_DECISION_KEY` -/
def routingKey : Name := "__routing_decision__"

def encTarget : Target → Val
  | .node n => .str n
  | .end_ => .sentinel

def decTarget : Val → Target
  | .str n => .node n
  | _ => .end_

/-- a routing decision as the Python object stored in the cache (`None`, `END`, a name, a list) -/
def encDec : Dec → Val
  | .none => .none
  | .end_ => .sentinel
  | .one n => .str n
  | .many ts => Val.mkLst (ts.map encTarget)

def decDec : Val → Dec
  | .sentinel => .end_
  | .str n => .one n
  | .lst c => .many ((Val.toList c).map decTarget)
  | _ => .none

/-- `store_in_cache`'s `to_cache`: the outputs, plus for gates a decision that is not `None`.
(`store_in_cache` reads `state.routing_decisions.get(node.name)`; a gate executor always assigns that
entry before returning, so it is the decision of this execution.) -/
def toCache (nd : NodeD) (outs : AL Val) (dec : Option Dec) : AL Val :=
  if nd.isGate then
    match dec with
    | some d => if d = Dec.none then outs else AL.put outs routingKey (encDec d)
    | .none => outs
  else outs

/-- `restore_routing_decision`: `outputs.pop(KEY, None)`, written to the state only if not `None` -/
def restoreDecision (nd : NodeD) (entry : AL Val) : AL Val × Option Dec :=
  if nd.isGate then
    match AL.get? entry routingKey with
    | some v => (erase entry routingKey, if v = Val.none then .none else some (decDec v))
    | .none => (entry, .none)
  else (entry, .none)

/-- the outcome of an execution that reaches `store_in_cache`: the executor returned normally (no
exception, no `PauseExecution`) with these outputs and this assignment to the routing decisions -/
def outcome (o : NodeOut) : Option (AL Val × Option Dec) :=
  match o.res, o.pause with
  | .ok outs, .none => some (outs, o.dec)
  | _, _ => .none

/-- what the superstep observes of one (possibly cached) node execution -/
structure CachedOut where
  /-- the outputs dict the superstep goes on to write into the state, or the raised exception -/
  res : Except ErrId (AL Val)
  /-- the assignment made to `state.routing_decisions[node.name]` (`none` = no assignment) -/
  dec : Option Dec
  pause : Option PauseInfo
  /-- was the node's function (executor) invoked -/
  called : Bool
  cache : Lru (AL Val)

/-- `check_cache` → hit: cached outputs and restored decision / miss: execute and, if the executor
returned normally and the key is non-empty, `store_in_cache`. A node with `cache = False` (and a runner
without cache) executes directly. -/
def execCached (env : KeyEnv) (cache : Lru (AL Val)) (nd : NodeD) (inputs : AL Val)
    (exec : NodeD → AL Val → NodeOut) : CachedOut :=
  if nd.cache then
    let key := keyOf env nd inputs
    match cache.get key with
    | (c1, some entry) =>
      let r := restoreDecision nd entry
      { res := .ok r.1, dec := r.2, pause := .none, called := false, cache := c1 }
    | (c1, .none) =>
      let o := exec nd inputs
      let c2 := match outcome o with
        | some (outs, dec) => c1.set key (toCache nd outs dec)
        | .none => c1
      { res := o.res, dec := o.dec, pause := o.pause, called := true, cache := c2 }
  else
    let o := exec nd inputs
    { res := o.res, dec := o.dec, pause := o.pause, called := true, cache := cache }

end HG.Cache
