/-! # HG.Model.DefHash — the INPUT of `hypergraph._utils.hash_definition`

Mirrors `/repo/src/hypergraph/_utils.py` (`_code_fingerprint`, `_binding_fingerprint`, `_digest`,
`hash_definition`): the definition hash of a function is `sha256(repr(description))` where
`description` is a nested tuple of `str` / `bytes` / `None`:

* with source available: `("source", source, binding)`;
* without source (exec / eval / notebook definitions): `("code", fingerprint(code), binding)`;
* `binding = (repr(__defaults__), repr(__kwdefaults__), (repr(cell) | None for every closure cell))`;
* `fingerprint(code) = (co_code, co_names, co_varnames, consts)` where a constant that is itself a
  code object (lambda, inner function, comprehension) is described by `("code", co_name,
  fingerprint(const))` and any other constant by `("const", repr(const))`.

What is modelled is the hash INPUT (`hashInput`), not SHA-256.  The abstraction of Python's `repr`
on such a tuple is `enc` — a prefix token encoding; the TRUSTED fact behind it is that Python's
`repr` is injective on nested tuples of `str` / `bytes` / `None` (string and bytes literals are
quoted and escaped, `None` is a keyword, tuples are parenthesised and comma-separated).  Inside one
position of the description the Python type is fixed (`co_code` is always `bytes`, names are always
`str`), so one `atom` constructor serves both.

The name-based fallback for builtins / C extensions (no source, no `__code__`) is outside the model.

Three earlier (defective) variants are kept as executable functions for the refutations in
`HG/Props/C09DefHash.lean` and for the driver op `defhash`:
* `describeV1` — with source available only the source text was hashed;
* `describeV2` — without source, a nested code object was replaced by its name;
* `hashInputV3` — the captured values' reprs were concatenated without separators. -/
namespace HG.DefHash

/-- a nested tuple of `str` / `bytes` / `None` — what `repr` is applied to in `_digest` -/
inductive Desc where
  | atom (s : String)
  | none
  | tup (items : List Desc)
  deriving Repr, Inhabited

mutual
/-- structural equality test (`deriving DecidableEq` does not handle the nested occurrence) -/
def Desc.decEq : (a b : Desc) → Decidable (a = b)
  | .atom s, .atom t => if h : s = t then isTrue (h ▸ rfl) else isFalse (fun e => h (Desc.atom.inj e))
  | .none, .none => isTrue rfl
  | .tup a, .tup b =>
    match Desc.decEqList a b with
    | isTrue h => isTrue (h ▸ rfl)
    | isFalse h => isFalse (fun e => h (Desc.tup.inj e))
  | .atom _, .none => isFalse nofun
  | .atom _, .tup _ => isFalse nofun
  | .none, .atom _ => isFalse nofun
  | .none, .tup _ => isFalse nofun
  | .tup _, .atom _ => isFalse nofun
  | .tup _, .none => isFalse nofun
def Desc.decEqList : (a b : List Desc) → Decidable (a = b)
  | [], [] => isTrue rfl
  | [], _ :: _ => isFalse nofun
  | _ :: _, [] => isFalse nofun
  | x :: xs, y :: ys =>
    match Desc.decEq x y, Desc.decEqList xs ys with
    | isTrue h₁, isTrue h₂ => isTrue (h₁ ▸ h₂ ▸ rfl)
    | isFalse h, _ => isFalse (fun e => h (List.cons.inj e).1)
    | _, isFalse h => isFalse (fun e => h (List.cons.inj e).2)
end

instance : DecidableEq Desc := Desc.decEq

/-- tokens of the prefix encoding -/
inductive Tok where
  | lpar
  | rpar
  | atom (s : String)
  | none
  deriving Repr, Inhabited, DecidableEq

mutual
/-- prefix encoding of a description: the abstraction of Python's `repr` -/
def enc : Desc → List Tok
  | .atom s => [.atom s]
  | .none => [.none]
  | .tup items => .lpar :: encItems items
/-- the items of a tuple followed by the closing parenthesis -/
def encItems : List Desc → List Tok
  | [] => [.rpar]
  | d :: ds => enc d ++ encItems ds
end

mutual
/-- a code object: `co_code`, `co_names`, `co_varnames`, `co_consts` -/
inductive Code where
  | mk (bytes : String) (names varnames : List String) (consts : List Const)
/-- one entry of `co_consts`: a plain constant (by its `repr`) or a nested code object -/
inductive Const where
  | val (repr : String)
  | code (name : String) (c : Code)
end

deriving instance Repr for Code, Const

mutual
/-- structural equality test on code objects (hand-written: nested through `List`) -/
def Code.decEq : (a b : Code) → Decidable (a = b)
  | .mk b₁ n₁ v₁ c₁, .mk b₂ n₂ v₂ c₂ =>
    if hb : b₁ = b₂ then
      if hn : n₁ = n₂ then
        if hv : v₁ = v₂ then
          match Const.decEqList c₁ c₂ with
          | isTrue hc => isTrue (hb ▸ hn ▸ hv ▸ hc ▸ rfl)
          | isFalse h => isFalse (fun e => h (Code.mk.inj e).2.2.2)
        else isFalse (fun e => hv (Code.mk.inj e).2.2.1)
      else isFalse (fun e => hn (Code.mk.inj e).2.1)
    else isFalse (fun e => hb (Code.mk.inj e).1)
def Const.decEq : (a b : Const) → Decidable (a = b)
  | .val r, .val s => if h : r = s then isTrue (h ▸ rfl) else isFalse (fun e => h (Const.val.inj e))
  | .code n c, .code m d =>
    if hn : n = m then
      match Code.decEq c d with
      | isTrue hc => isTrue (hn ▸ hc ▸ rfl)
      | isFalse h => isFalse (fun e => h (Const.code.inj e).2)
    else isFalse (fun e => hn (Const.code.inj e).1)
  | .val _, .code _ _ => isFalse nofun
  | .code _ _, .val _ => isFalse nofun
def Const.decEqList : (a b : List Const) → Decidable (a = b)
  | [], [] => isTrue rfl
  | [], _ :: _ => isFalse nofun
  | _ :: _, [] => isFalse nofun
  | x :: xs, y :: ys =>
    match Const.decEq x y, Const.decEqList xs ys with
    | isTrue h₁, isTrue h₂ => isTrue (h₁ ▸ h₂ ▸ rfl)
    | isFalse h, _ => isFalse (fun e => h (List.cons.inj e).1)
    | _, isFalse h => isFalse (fun e => h (List.cons.inj e).2)
end

instance : DecidableEq Code := Code.decEq
instance : DecidableEq Const := Const.decEq

instance : Inhabited Code := ⟨.mk "" [] [] []⟩
instance : Inhabited Const := ⟨.val ""⟩

/-- a function object as far as `hash_definition` looks at it: `inspect.getsource` (or `none`),
`__code__`, `repr(__defaults__)`, `repr(__kwdefaults__)`, and for every closure cell the `repr` of
its contents (`none` for an empty cell) -/
structure FnDef where
  source : Option String
  code : Code
  defaults : String
  kwdefaults : String
  cells : List (Option String)
  deriving Repr, Inhabited, DecidableEq

mutual
/-- `_code_fingerprint` -/
def codeDesc : Code → Desc
  | .mk bytes names varnames consts =>
    .tup [.atom bytes, .tup (names.map .atom), .tup (varnames.map .atom), .tup (constsDesc consts)]
/-- one entry of the `consts` tuple -/
def constDesc : Const → Desc
  | .val r => .tup [.atom "const", .atom r]
  | .code name c => .tup [.atom "code", .atom name, codeDesc c]
/-- the `consts` tuple, entry by entry -/
def constsDesc : List Const → List Desc
  | [] => []
  | c :: cs => constDesc c :: constsDesc cs
end

/-- one closure cell: the `repr` of its contents, `None` for an empty cell -/
def cellDesc : Option String → Desc
  | some r => .atom r
  | none => .none

/-- `(repr(defaults), repr(kwdefaults), cells)` from its parts -/
def bindingOf (defaults kwdefaults : String) (cells : List (Option String)) : Desc :=
  .tup [.atom defaults, .atom kwdefaults, .tup (cells.map cellDesc)]

/-- `_binding_fingerprint` -/
def bindingDesc (f : FnDef) : Desc := bindingOf f.defaults f.kwdefaults f.cells

/-- the description `hash_definition` digests -/
def describe (f : FnDef) : Desc :=
  match f.source with
  | some s => .tup [.atom "source", .atom s, bindingDesc f]
  | none => .tup [.atom "code", codeDesc f.code, bindingDesc f]

/-- the hash input: `repr(description)` -/
def hashInput (f : FnDef) : List Tok := enc (describe f)

/-- The fields the hash is supposed to cover.  With source available the code object is NOT among
them (the source text stands for it); without source the code object is. -/
structure Visible where
  body : Sum String Code
  defaults : String
  kwdefaults : String
  cells : List (Option String)
  deriving Repr, DecidableEq

/-- what `hash_definition` is supposed to see of a function -/
def visible (f : FnDef) : Visible :=
  { body := match f.source with
      | some s => .inl s
      | none => .inr f.code
    defaults := f.defaults, kwdefaults := f.kwdefaults, cells := f.cells }

/-- do two functions get the same hash input?  (executable; driver op `defhash`) -/
def sameHash (f g : FnDef) : Bool := hashInput f == hashInput g

/-! ## the three earlier variants -/

/-- V1: with source available ONLY the source text was hashed -/
def describeV1 (f : FnDef) : Desc :=
  match f.source with
  | some s => .tup [.atom "source", .atom s]
  | none => describe f

def hashInputV1 (f : FnDef) : List Tok := enc (describeV1 f)

mutual
/-- V2: a nested code object in `co_consts` was replaced by its NAME -/
def codeDescV2 : Code → Desc
  | .mk bytes names varnames consts =>
    .tup [.atom bytes, .tup (names.map .atom), .tup (varnames.map .atom), .tup (constsDescV2 consts)]
def constDescV2 : Const → Desc
  | .val r => .tup [.atom "const", .atom r]
  | .code name _ => .tup [.atom "code", .atom name]
def constsDescV2 : List Const → List Desc
  | [] => []
  | c :: cs => constDescV2 c :: constsDescV2 cs
end

def describeV2 (f : FnDef) : Desc :=
  match f.source with
  | some s => .tup [.atom "source", .atom s, bindingDesc f]
  | none => .tup [.atom "code", codeDescV2 f.code, bindingDesc f]

def hashInputV2 (f : FnDef) : List Tok := enc (describeV2 f)

/-- V3: what an empty cell contributed to the concatenation -/
def cellTextV3 : Option String → String
  | some r => r
  | none => "<empty_cell>"

/-- V3: the captured values' reprs were CONCATENATED, without separators, into one piece -/
def bindingDescV3 (f : FnDef) : Desc :=
  .tup [.atom f.defaults, .atom f.kwdefaults, .atom (String.join (f.cells.map cellTextV3))]

def describeV3 (f : FnDef) : Desc :=
  match f.source with
  | some s => .tup [.atom "source", .atom s, bindingDescV3 f]
  | none => .tup [.atom "code", codeDesc f.code, bindingDescV3 f]

def hashInputV3 (f : FnDef) : List Tok := enc (describeV3 f)

end HG.DefHash
