def hello := "world"
