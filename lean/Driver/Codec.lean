import Lean.Data.Json
import HG.Model.Run
/-! JSON glue for the line protocol: decoding of programs / values, encoding of results.
Ordered dictionaries travel as arrays of `[key, value]` pairs (a JSON object would lose order). -/
open Lean HG

namespace Driver

abbrev P := Except String

def arr (j : Json) : P (Array Json) := match j with
  | .arr a => pure a
  | _ => throw s!"expected array, got {j.compress}"

def str (j : Json) : P String := match j with
  | .str s => pure s
  | _ => throw s!"expected string, got {j.compress}"

def int (j : Json) : P Int := match j.getInt? with
  | .ok i => pure i
  | .error _ => throw s!"expected int, got {j.compress}"

def nat (j : Json) : P Nat := do
  let i ← int j
  if i < 0 then throw "expected nat" else pure i.toNat

def bool (j : Json) : P Bool := match j with
  | .bool b => pure b
  | _ => throw s!"expected bool, got {j.compress}"

def field (j : Json) (k : String) : P Json := match j.getObjVal? k with
  | .ok v => pure v
  | .error _ => throw s!"missing field {k}"

def fieldD (j : Json) (k : String) (d : Json) : Json := match j.getObjVal? k with
  | .ok v => v
  | .error _ => d

def list {α} (f : Json → P α) (j : Json) : P (List α) := do
  let a ← arr j
  a.toList.mapM f

def pairs {α} (f : Json → P α) (j : Json) : P (AL α) := do
  let a ← arr j
  a.toList.mapM fun p => do
    let q ← arr p
    match q.toList with
    | [k, v] => pure ((← str k), (← f v))
    | _ => throw "expected [key, value]"

partial def val (j : Json) : P Val := match j with
  | .null => pure .none
  | .bool b => pure (.bool b)
  | .str s => pure (.str s)
  | .num _ => do pure (.int (← int j))
  | .arr _ => throw "bare array is not a value"
  | .obj _ =>
    match j.getObjVal? "t", j.getObjVal? "l", j.getObjVal? "s" with
    | .ok t, _, _ => do pure (Val.mkTup (← list val t))
    | _, .ok l, _ => do pure (Val.mkLst (← list val l))
    | _, _, .ok _ => pure .sentinel
    | _, _, _ => throw s!"bad value {j.compress}"

partial def encVal : Val → Json
  | .none => .null
  | .bool b => .bool b
  | .int i => .num (JsonNumber.fromInt i)
  | .str s => .str s
  | .nil => Json.mkObj [("l", .arr #[])]
  | .cons h t => Json.mkObj [("cons", .arr #[encVal h, encVal t])]
  | .tup c => Json.mkObj [("t", .arr ((Val.toList c).map encVal).toArray)]
  | .lst c => Json.mkObj [("l", .arr ((Val.toList c).map encVal).toArray)]
  | .sentinel => Json.mkObj [("s", .num 1)]

def encAL {α} (f : α → Json) (m : AL α) : Json :=
  .arr (m.map fun kv => Json.arr #[.str kv.1, f kv.2]).toArray

def target (j : Json) : P Target := do
  let s ← str j
  pure (if s == "__END__" then .end_ else .node s)

def dec (j : Json) : P Dec := match j with
  | .null => pure .none
  | .str s => pure (if s == "__END__" then .end_ else .one s)
  | .arr _ => do pure (.many (← list target j))
  | _ => throw "bad decision"

def kind (j : Json) : P Kind := do
  match (← str j) with
  | "fn" => pure .fn | "route" => pure .route | "ifelse" => pure .ifelse
  | "graph" => pure .graph | "interrupt" => pure .interrupt
  | s => throw s!"bad kind {s}"

def body (j : Json) : P Body := do
  match (← str (← field j "b")) with
  | "tag" => pure (.tag (← str (← field j "t")))
  | "multi" => pure (.multi (← str (← field j "t")) (← nat (← field j "k")))
  | "const" => pure (.const (← val (← field j "v")))
  | "sum" => pure (.sum (← int (← field j "k")))
  | "first" => pure .first
  | "append" => pure .append
  | "lt" => pure (.lt (← int (← field j "k")))
  | "table" => do
    let rows ← list (fun r => do
      let q ← arr r
      match q.toList with
      | [a, b] => pure ((← int a), (← dec b))
      | _ => throw "bad row") (← field j "rows")
    pure (.table rows (← dec (← field j "dflt")))
  | "fail" => pure (.fail (← str (← field j "t")))
  | "failIf" => pure (.failIf (← int (← field j "k")) (← str (← field j "t")))
  | "failGe" => pure (.failGe (← int (← field j "k")) (← str (← field j "t")))
  | "genexp" => do
    -- a generator object is materialised to the list of its items by both runners
    let k ← nat (← field j "k")
    pure (.const (Val.mkLst ((List.range k).map fun i => Val.int (Int.ofNat i))))
  | "nonBool" => pure .nonBool
  | "wrongArity" => pure (.wrongArity (← str (← field j "t")) (← nat (← field j "k")))
  | "handler" => match fieldD j "k" .null with
    | .null => pure (.handler .none)
    | k => do pure (.handler (some (← int k)))
  | s => throw s!"bad body {s}"

def optVal (j : Json) : P (Option Val) := match j with
  | .null => pure .none
  | _ => do pure (some (← val (← field j "d")))

def param (j : Json) : P (HG.Name × Option Val) := do
  let q ← arr j
  match q.toList with
  | [n, d] => pure ((← str n), (← optVal d))
  | _ => throw "bad param"

def nodeSpec (j : Json) : P NodeSpec := do
  let k ← kind (← field j "kind")
  pure {
    name := ← str (← field j "name")
    kind := k
    params := ← list param (fieldD j "params" (.arr #[]))
    inRen := ← pairs str (fieldD j "inRen" (.arr #[]))
    dataOuts := ← list str (fieldD j "dataOuts" (.arr #[]))
    outRen := ← pairs str (fieldD j "outRen" (.arr #[]))
    emits := ← list str (fieldD j "emits" (.arr #[]))
    waitFor := ← list str (fieldD j "waitFor" (.arr #[]))
    body := ← (match j.getObjVal? "body" with | .ok b => body b | .error _ => pure (.tag "?"))
    targets := ← list target (fieldD j "targets" (.arr #[]))
    multiTarget := ← bool (fieldD j "multiTarget" (.bool false))
    fallback := ← (match fieldD j "fallback" .null with | .null => pure .none | t => do pure (some (← target t)))
    defaultOpen := ← bool (fieldD j "defaultOpen" (.bool true))
    cache := ← bool (fieldD j "cache" (.bool false))
    inner := ← nat (fieldD j "inner" (.num 0))
    mapOver := ← list str (fieldD j "mapOver" (.arr #[]))
    mapMode := ← (do match (← str (fieldD j "mapMode" (.str "zip"))) with
      | "zip" => pure MapMode.zip | "product" => pure .product | s => throw s!"bad mode {s}")
    errMode := ← (do match (← str (fieldD j "errMode" (.str "raise"))) with
      | "raise" => pure ErrMode.raise | "continue" => pure .cont | s => throw s!"bad errMode {s}")
  }

def optNames (j : Json) : P (Option (List HG.Name)) := match j with
  | .null => pure .none
  | _ => do pure (some (← list str j))

def graphSpec (j : Json) : P GraphSpec := do
  pure {
    name := ← str (fieldD j "name" (.str ""))
    nodes := ← list nodeSpec (← field j "nodes")
    bound := ← pairs val (fieldD j "bound" (.arr #[]))
    selected := ← optNames (fieldD j "selected" .null)
    entrypoints := ← optNames (fieldD j "entrypoints" .null)
  }

def select (j : Json) : P Select := match j with
  | .null => pure .unset
  | .str "**" => pure .all
  | .str s => pure (.names [s])
  | _ => do pure (.names (← list str j))

def runCfg (j : Json) : P RunCfg := do
  pure {
    select := ← select (fieldD j "select" .null)
    onMissing := ← (do match (← str (fieldD j "onMissing" (.str "ignore"))) with
      | "ignore" => pure OnMissing.ignore | "warn" => pure .warn | "error" => pure .error
      | s => throw s!"bad onMissing {s}")
    errMode := ← (do match (← str (fieldD j "errMode" (.str "raise"))) with
      | "raise" => pure ErrMode.raise | "continue" => pure .cont | s => throw s!"bad errMode {s}")
    maxIter := ← nat (fieldD j "maxIter" (.num 1000))
  }

def runner (j : Json) : P Runner := do
  match (← str (fieldD j "runner" (.str "sync"))) with
  | "sync" => pure .sync
  | "async" =>
    let orders ← list (list nat) (fieldD j "order" (.arr #[]))
    pure (.async fun k => orders.getD k [])
  | s => throw s!"bad runner {s}"

partial def encErr : ErrId → String
  | .user t => "user:" ++ t
  | .typeError _ => "TypeError"
  | .valueError _ => "ValueError"
  | .keyError _ => "KeyError"
  | .infiniteLoop _ => "InfiniteLoopError"
  | .missingInput _ => "MissingInputError"
  | .wrapped e => "wrapped:" ++ encErr e
  | .depth => "model:depth"

def encSpan (s : Span) : Json := .str ("/".intercalate s)

def encLog : Log → Json
  | .call f a => Json.mkObj [("call", .str f), ("args", encAL encVal a)]
  | .ev e => Json.mkObj [("ev", .str e.kind), ("span", encSpan e.span),
      ("parent", match e.parent with | some p => encSpan p | .none => .null),
      ("name", .str e.name), ("info", .str e.info)]
  | .shutdown => Json.mkObj [("shutdown", .num 1)]

def encStatus : Status → String
  | .completed => "completed" | .failed => "failed" | .paused => "paused"

def encPause (p : PauseInfo) : Json :=
  Json.mkObj [("node", .str p.nodeName), ("outputParam", .str p.outputParam), ("value", encVal p.value),
    ("outputParams", match p.outputParams with | some l => .arr (l.map Json.str).toArray | .none => .null),
    ("values", match p.values with | some m => encAL encVal m | .none => .null)]

def encRunOut (r : RunOut) : Json :=
  Json.mkObj [("status", .str (encStatus r.status)), ("values", encAL encVal r.values),
    ("error", match r.error with | some e => .str (encErr e) | .none => .null),
    ("raised", .bool r.raised),
    ("pause", match r.pause with | some p => encPause p | .none => .null),
    ("warnings", .num (JsonNumber.fromNat r.warnings)),
    ("log", .arr (r.log.map encLog).toArray)]

def encNames (l : List HG.Name) : Json := .arr (l.map Json.str).toArray

def encSpec (s : InputSpec) : Json :=
  Json.mkObj [("required", encNames s.required), ("optional", encNames s.optional),
    ("entrypoints", encAL encNames s.entrypoints), ("bound", encAL encVal s.bound),
    ("all", encNames s.all)]

end Driver
