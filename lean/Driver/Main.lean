import Driver.Codec
/-! Line protocol driver: one JSON request per line on stdin, one JSON response per line on stdout.
Evaluates the model's own definitions; malformed requests yield `{"bad": reason}` (never a default). -/
open Lean HG Driver

def handle (j : Json) : P Json := do
  let op ← str (← field j "op")
  match op with
  | "ping" => pure (Json.mkObj [("pong", .num 1)])
  | "run" =>
    let prog := elabProgram (← list graphSpec (← field j "program"))
    let root ← nat (fieldD j "root" (.num (JsonNumber.fromNat (prog.length - 1))))
    let values ← pairs val (fieldD j "values" (.arr #[]))
    let cfg ← runCfg (fieldD j "cfg" (Json.mkObj []))
    let rn ← runner j
    pure (encRunOut (HG.run bodySem rn prog root values cfg))
  | "map" =>
    let prog := elabProgram (← list graphSpec (← field j "program"))
    let root ← nat (fieldD j "root" (.num (JsonNumber.fromNat (prog.length - 1))))
    let values ← pairs val (fieldD j "values" (.arr #[]))
    let cfg ← runCfg (fieldD j "cfg" (Json.mkObj []))
    let rn ← runner j
    let mo ← list str (← field j "mapOver")
    let mode ← (do match (← str (fieldD j "mode" (.str "zip"))) with
      | "zip" => pure MapMode.zip | "product" => pure .product | s => throw s!"bad mode {s}")
    let em ← (do match (← str (fieldD j "mapErr" (.str "raise"))) with
      | "raise" => pure ErrMode.raise | "continue" => pure .cont | s => throw s!"bad errMode {s}")
    let m := HG.map bodySem rn prog root values mo mode em cfg
    pure (Json.mkObj [("results", .arr (m.results.map encRunOut).toArray),
      ("raised", match m.raised with | some e => .str (encErr e) | .none => .null),
      ("log", .arr (m.log.map encLog).toArray)])
  | "spec" =>
    let prog := elabProgram (← list graphSpec (← field j "program"))
    pure (.arr (prog.map fun g => Json.mkObj [
      ("spec", encSpec g.spec),
      ("outputs", encNames (graphOutputs g.nodes)),
      ("nodes", .arr (g.nodes.map fun n => Json.mkObj [
        ("name", .str n.name), ("inputs", encNames n.inputs), ("outputs", encNames n.outputs),
        ("hasDefault", encNames n.hasDefault), ("sigDefaults", encAL encVal n.sigDefaults)]).toArray),
      ("edges", .arr (g.edges.map fun e => Json.mkObj [
        ("src", .str e.src), ("dst", .str e.dst),
        ("kind", .str (match e.kind with | .data => "data" | .control => "control" | .ordering => "ordering")),
        ("values", encNames e.values)]).toArray)]).toArray)
  | _ => throw s!"unknown op {op}"

partial def loop (hin hout : IO.FS.Stream) : IO Unit := do
  let line ← hin.getLine
  if line.isEmpty then return ()
  let resp : Json := match Json.parse line with
    | .error e => Json.mkObj [("bad", .str s!"parse: {e}")]
    | .ok j => match handle j with
      | .ok r => r
      | .error e => Json.mkObj [("bad", .str e)]
  hout.putStrLn resp.compress
  hout.flush
  loop hin hout

def main : IO Unit := do
  loop (← IO.getStdin) (← IO.getStdout)
