import Driver.Codec
import HG.Model.Rename
import HG.Model.Validate
import HG.Model.TypeCompat
import HG.Model.Cache
import HG.Model.Sem
import HG.Model.Events
import HG.Model.Viz
import HG.Model.Build
import HG.Model.Heap
import HG.Model.IsoNested
import HG.Model.DefHash
/-! Line protocol driver: one JSON request per line on stdin, one JSON response per line on stdout.
Evaluates the model's own definitions; malformed requests yield `{"bad": reason}` (never a default). -/
open Lean HG Driver

partial def tyOfJson : Json → P TypeCompat.Ty
  | .str "Any" => pure .any
  | .str "NoneType" => pure .none_
  | .str "None" => pure .noneLit
  | .str "..." => pure .ellipsis
  | .str "NoAnnotation" => pure .noAnn
  | .str c => pure (.cls c)
  | j => do
    match j.getObjVal? "u", j.getObjVal? "ann" with
    | .ok u, _ => pure (.union (← list tyOfJson u))
    | _, .ok t => pure (.annotated (← tyOfJson t))
    | _, _ => pure (.gen (← str (← field j "g")) (← list tyOfJson (← field j "a")))

/-- nested run-isolation nodes: `{"fn": {srcs, eff, out}}` or `{"sub": {inner, fwd, items, clone, outs}}` -/
partial def isoNode (j : Json) : P IsoN.Node := do
  let srcOf (q : Json) : P Iso.Src := do
    match q.getObjVal? "default", q.getObjVal? "bound", q.getObjVal? "provided" with
    | .ok c, _, _ => do pure (Iso.Src.default (← nat c))
    | _, .ok c, _ => do pure (Iso.Src.bound (← nat c))
    | _, _, .ok k => do pure (Iso.Src.provided (← str k))
    | _, _, _ => throw "bad src"
  match j.getObjVal? "fn", j.getObjVal? "sub" with
  | .ok f, _ => do
    let srcs ← list srcOf (← field f "srcs")
    let eff : Iso.Eff ← (match fieldD f "eff" .null with
      | .null => pure Iso.Eff.none
      | e => do
        let a ← arr e
        match a.toList with
        | [i, x] => pure (Iso.Eff.appendTo (← nat i) (← int x))
        | _ => throw "bad eff")
    pure (.fn srcs eff (← str (← field f "out")))
  | _, .ok sj => do
    let inner ← list isoNode (← field sj "inner")
    let fwd ← list (fun q => do
      let a ← arr q
      match a.toList with
      | [k, v] => do
        let s' : IsoN.Src' ← (match v.getObjVal? "provided", v.getObjVal? "bound" with
          | .ok k', _ => do pure (IsoN.Src'.provided (← str k'))
          | _, .ok c => do pure (IsoN.Src'.bound (← nat c))
          | _, _ => throw "bad fwd src")
        pure ((← str k), s')
      | _ => throw "bad fwd entry") (fieldD sj "fwd" (.arr #[]))
    let items : Option (List (AL Nat)) ← (match fieldD sj "items" .null with
      | .null => pure none
      | l => do pure (some (← list (pairs nat) l)))
    let clone : IsoN.CloneCfg ← (match fieldD sj "clone" .null with
      | .null => pure IsoN.CloneCfg.none
      | .bool false => pure IsoN.CloneCfg.none
      | .bool true => pure IsoN.CloneCfg.all
      | .str "all" => pure IsoN.CloneCfg.all
      | l => do pure (IsoN.CloneCfg.only (← list str l)))
    pure (.sub inner fwd items clone (← list str (fieldD sj "outs" (.arr #[]))))
  | _, _ => throw "bad iso node"

/-- code objects of the definition-hash model: `{"bytes", "names", "varnames", "consts": [{"val": r} | {"code": CODE, "name": n}]}` -/
partial def dhCode (j : Json) : P DefHash.Code := do
  let consts ← list (fun c => do
    match c.getObjVal? "val", c.getObjVal? "code" with
    | .ok r, .error _ => do pure (DefHash.Const.val (← str r))
    | .error _, .ok cj => do pure (DefHash.Const.code (← str (← field c "name")) (← dhCode cj))
    | _, _ => throw "bad const (exactly one of val / code)") (← field j "consts")
  pure (.mk (← str (← field j "bytes")) (← list str (← field j "names")) (← list str (← field j "varnames")) consts)

/-- `{"source": null | text, "code": CODE, "defaults": text, "kwdefaults": text, "cells": [null | text, …]}` -/
def dhFn (j : Json) : P DefHash.FnDef := do
  let optStr (x : Json) : P (Option String) := match x with | .null => pure none | v => do pure (some (← str v))
  pure { source := ← optStr (← field j "source"), code := ← dhCode (← field j "code"),
         defaults := ← str (← field j "defaults"), kwdefaults := ← str (← field j "kwdefaults"),
         cells := ← list optStr (← field j "cells") }

def handle (j : Json) : P Json := do
  let op ← str (← field j "op")
  match op with
  | "ping" => pure (Json.mkObj [("pong", .num 1)])
  | "run" =>
    let prog := elabProgram (← list graphSpec (← field j "program"))
    let root ← nat (fieldD j "root" (.num (JsonNumber.fromNat (prog.length - 1))))
    let values ← pairs val (fieldD j "values" (.arr #[]))
    let cfg ← runCfg (fieldD j "cfg" (Json.mkObj []))
    let rn ← runner j
    pure (encRunOut (HG.run bodySem rn prog root values cfg))
  | "map" =>
    let prog := elabProgram (← list graphSpec (← field j "program"))
    let root ← nat (fieldD j "root" (.num (JsonNumber.fromNat (prog.length - 1))))
    let values ← pairs val (fieldD j "values" (.arr #[]))
    let cfg ← runCfg (fieldD j "cfg" (Json.mkObj []))
    let rn ← runner j
    let mo ← list str (← field j "mapOver")
    let mode ← (do match (← str (fieldD j "mode" (.str "zip"))) with
      | "zip" => pure MapMode.zip | "product" => pure .product | s => throw s!"bad mode {s}")
    let em ← (do match (← str (fieldD j "mapErr" (.str "raise"))) with
      | "raise" => pure ErrMode.raise | "continue" => pure .cont | s => throw s!"bad errMode {s}")
    let k : Option Int ← (match fieldD j "k" .null with | .null => pure none | e => do pure (some (← int e)))
    let m := HG.mapLimited bodySem rn prog root values mo mode em cfg k
    pure (Json.mkObj [("results", .arr (m.results.map encRunOut).toArray),
      ("raised", match m.raised with | some e => .str (encErr e) | .none => .null),
      ("log", .arr (m.log.map encLog).toArray)])
  | "spec" =>
    let prog := elabProgram (← list graphSpec (← field j "program"))
    pure (.arr (prog.map fun g => Json.mkObj [
      ("spec", encSpec g.spec),
      ("outputs", encNames (graphOutputs g.nodes)),
      ("nodes", .arr (g.nodes.map fun n => Json.mkObj [
        ("name", .str n.name), ("inputs", encNames n.inputs), ("outputs", encNames n.outputs),
        ("hasDefault", encNames n.hasDefault), ("sigDefaults", encAL encVal n.sigDefaults)]).toArray),
      ("edges", .arr (g.edges.map fun e => Json.mkObj [
        ("src", .str e.src), ("dst", .str e.dst),
        ("kind", .str (match e.kind with | .data => "data" | .control => "control" | .ordering => "ordering")),
        ("values", encNames e.values)]).toArray)]).toArray)
  | "runc" =>
    -- checked run: resolve select, validate inputs, then execute
    let prog := elabProgram (← list graphSpec (← field j "program"))
    let root ← nat (fieldD j "root" (.num (JsonNumber.fromNat (prog.length - 1))))
    let values ← pairs val (fieldD j "values" (.arr #[]))
    let cfg ← runCfg (fieldD j "cfg" (Json.mkObj []))
    let rn ← runner j
    let ep : Option HG.Name ← (match fieldD j "entrypoint" .null with | .null => pure none | e => do pure (some (← str e)))
    let policy ← (do match (← str (fieldD j "policy" (.str "warn"))) with
      | "ignore" => pure OverridePolicy.ignore | "warn" => pure .warn | "error" => pure .error | s => throw s!"bad policy {s}")
    match runChecked bodySem rn prog root values cfg ep policy with
    | .rejected e =>
      let cls := match e with
        | .missingInput _ => "MissingInputError" | .valueError _ => "ValueError" | .configError _ => "GraphConfigError"
      pure (Json.mkObj [("rejected", .str cls), ("detail", .str (match e with
        | .missingInput l => ",".intercalate l | .valueError w => w | .configError w => w))])
    | .ran out w => pure ((encRunOut out).setObjVal! "overrideWarnings" (.num (JsonNumber.fromNat w)))
  | "mapc" =>
    -- checked map: options, map_over names, select, required inputs — then (and only then) the map itself
    let prog := elabProgram (← list graphSpec (← field j "program"))
    let root ← nat (fieldD j "root" (.num (JsonNumber.fromNat (prog.length - 1))))
    let values ← pairs val (fieldD j "values" (.arr #[]))
    let cfg ← runCfg (fieldD j "cfg" (Json.mkObj []))
    let rn ← runner j
    let mo ← list str (← field j "mapOver")
    let mode ← (do match (← str (fieldD j "mode" (.str "zip"))) with
      | "zip" => pure MapMode.zip | "product" => pure .product | s => throw s!"bad mode {s}")
    let em ← (do match (← str (fieldD j "mapErr" (.str "raise"))) with
      | "raise" => pure ErrMode.raise | "continue" => pure .cont | s => throw s!"bad errMode {s}")
    let k : Option Int ← (match fieldD j "k" .null with | .null => pure none | e => do pure (some (← int e)))
    let ep : Option HG.Name ← (match fieldD j "entrypoint" .null with | .null => pure none | e => do pure (some (← str e)))
    match mapChecked bodySem rn prog root values mo mode em cfg k ep with
    | .rejected e =>
      let cls := match e with
        | .missingInput _ => "MissingInputError" | .valueError _ => "ValueError" | .configError _ => "GraphConfigError"
      pure (Json.mkObj [("rejected", .str cls), ("detail", .str (match e with
        | .missingInput l => ",".intercalate l | .valueError w => w | .configError w => w))])
    | .ran m =>
      pure (Json.mkObj [("results", .arr (m.results.map encRunOut).toArray),
        ("raised", match m.raised with | some e => .str (encErr e) | .none => .null),
        ("log", .arr (m.log.map encLog).toArray)])
  | "specsel" =>
    let prog := elabProgram (← list graphSpec (← field j "program"))
    let g := prog.getD (prog.length - 1) default
    let sel ← select (fieldD j "select" .null)
    match resolveRuntimeSelected g sel with
    | .error _ => pure (Json.mkObj [("rejected", .str "GraphConfigError")])
    | .ok selected => pure (encSpec (effectiveSpec g selected))
  | "compat" =>
    let rows ← list tyOfJson (← field j "rows")
    let cols ← list tyOfJson (← field j "cols")
    pure (Json.mkObj [("m", .arr (rows.map fun a =>
      Json.str (String.ofList (cols.map fun b => if TypeCompat.compat a b then '1' else '0'))).toArray)])
  | "lru" =>
    let ms : Option Nat ← (match fieldD j "maxSize" .null with | .null => pure none | n => do pure (some (← nat n)))
    let ops ← list (fun o => do
      let a ← arr o
      match a.toList with
      | [t, k] => pure ((← str t) == "set", (← str k), Val.none)
      | [t, k, v] => pure ((← str t) == "set", (← str k), (← val v))
      | _ => throw "bad lru op") (← field j "ops")
    pure (Json.mkObj [("gets", .arr ((Cache.runLruOps ms ops).map fun r =>
      match r with | some v => encVal v | none => Json.mkObj [("miss", .num 1)]).toArray)])
  | "disk" =>
    let steps ← list (fun o => do
      let t ← str (← field o "t")
      let k ← str (← field o "k")
      let hk := Cache.hmacKey k
      match t with
      | "set" => pure (Cache.Step.set k (← val (← field o "v")))
      | "crashSet" => pure (Cache.Step.crashSet k (← val (← field o "v")))
      | "get" => pure (Cache.Step.get k)
      | "payload_flip" => pure (Cache.Step.tamper (.setCell k (.bytes [9, 9, 9, 7])))
      | "payload_trunc" => pure (Cache.Step.tamper (.setCell k (.bytes [])))
      | "payload_type" => pure (Cache.Step.tamper (.setCell k (.str "not-bytes")))
      | "payload_del" => pure (Cache.Step.tamper (.delCell k))
      | "hmac_del" => pure (Cache.Step.tamper (.delCell hk))
      | "hmac_garbage" => pure (Cache.Step.tamper (.setCell hk (.str "garbage")))
      | "hmac_type" => pure (Cache.Step.tamper (.setCell hk .other))
      | "hmac_nonascii" => pure (Cache.Step.tamper (.setCell hk (.str "non-ascii")))
      | s => throw s!"bad disk step {s}") (← field j "steps")
    pure (Json.mkObj [("gets", .arr ((Cache.diskScenario steps).map fun g => Json.mkObj [
      ("hit", match g.hit with | some v => encVal v | none => Json.mkObj [("miss", .num 1)]),
      ("unpickled", .bool g.unpickleCalled)]).toArray)])
  | "deliver" =>
    -- dispatcher model: processors failing at given event indices
    let n ← nat (← field j "n")
    let procs ← list (fun o => do
      let exc ← list nat (fieldD o "exc" (.arr #[]))
      let base ← list nat (fieldD o "base" (.arr #[]))
      let always ← bool (fieldD o "always" (.bool false))
      let sd ← str (fieldD o "shutdown" (.str "ok"))
      let p : Events.Processor Nat := {
        onEvent := fun i _ => if base.contains i then .raiseBaseException else if always || exc.contains i then .raiseException else .ok
        onShutdown := if sd == "base" then .raiseBaseException else if sd == "exc" then .raiseException else .ok }
      pure p) (← field j "procs")
    let d := Events.deliverAll procs (List.range n)
    let sd := Events.shutdown procs
    pure (Json.mkObj [
      ("received", .arr (d.received.map fun l => Json.arr (l.map fun i => Json.num (JsonNumber.fromNat i)).toArray).toArray),
      ("escaped", match d.escaped with | some (i, p) => .arr #[.num (JsonNumber.fromNat i), .num (JsonNumber.fromNat p)] | none => .null),
      ("shutdownCalled", .arr (sd.called.map Json.bool).toArray),
      ("shutdownEscaped", match sd.escaped with | some i => .num (JsonNumber.fromNat i) | none => .null)])
  | "sem" =>
    let k ← nat (← field j "k")
    let n ← nat (← field j "leaves")
    let evs ← list (fun o => do
      let a ← arr o
      match a.toList with
      | [b, i] => pure ((← bool b), (← nat i))
      | _ => throw "bad sem event") (← field j "events")
    let r := Sem.replayDetail k (.par (List.replicate n .leaf)) evs
    pure (Json.mkObj [("ok", .bool r.ok), ("max", .num (JsonNumber.fromNat r.maxInflight)), ("allDone", .bool r.allDone)])
  | "viz" =>
    -- translation validation of real diagram data by the proved checker
    let optStr (x : Json) : P (Option String) := match x with | .null => pure none | v => do pure (some (← str v))
    let fnodes ← list (fun o => do
      pure ({ id := ← str (← field o "id"), parent := ← optStr (fieldD o "parent" .null), kind := ← str (← field o "kind"),
              inputs := ← list str (fieldD o "inputs" (.arr #[])), outputs := ← list str (fieldD o "outputs" (.arr #[])),
              waitFor := ← list str (fieldD o "waitFor" (.arr #[])), targets := ← list str (fieldD o "targets" (.arr #[])),
              hidden := ← bool (fieldD o "hidden" (.bool false)) } : Viz.FNode)) (← field j "flat")
    let f : Viz.Flat := ⟨fnodes⟩
    let checks ← list (fun c => do
      let st ← list (fun p => do
        let a ← arr p
        match a.toList with
        | [k, v] => pure ((← str k), (← bool v))
        | _ => throw "bad state entry") (← field c "state")
      let sep ← bool (← field c "sep")
      let dn ← list (fun o => do
        pure ({ id := ← str (← field o "id"), kind := ← str (← field o "kind"), parent := ← optStr (fieldD o "parent" .null),
                hidden := ← bool (fieldD o "hidden" (.bool false)), owner := ← optStr (fieldD o "owner" .null) } : Viz.DNode)) (← field c "nodes")
      let de ← list (fun o => do
        pure ({ source := ← str (← field o "source"), target := ← str (← field o "target"), kind := ← str (fieldD o "kind" (.str "data")),
                value := ← optStr (fieldD o "value" .null) } : Viz.DEdge)) (← field c "edges")
      pure (st, sep, ({ nodes := dn, edges := de } : Viz.Diagram))) (← field j "checks")
    pure (Json.mkObj [
      ("deps", .arr ((Viz.deps f).map fun d => Json.str (Viz.showDep d)).toArray),
      ("validStates", .arr ((Viz.validStates f).map fun st => Json.arr (st.map fun kv => Json.arr #[.str kv.1, .bool kv.2]).toArray).toArray),
      ("results", .arr (checks.map fun (st, sep, d) => Json.mkObj [
        ("ok", .bool (Viz.checkFaithful f st sep d)),
        ("explain", .arr ((Viz.explain f st sep d).map Json.str).toArray)]).toArray)])
  | "build" =>
    -- constructor validation of graph `gi` of a program (flaw-injection correspondence)
    let specsJ ← arr (← field j "program")
    let specs ← specsJ.toList.mapM graphSpec
    let prog := elabProgram specs
    let gi ← nat (fieldD j "gi" (.num (JsonNumber.fromNat (prog.length - 1))))
    let g := prog.getD gi default
    let gj := specsJ.toList.getD gi (Json.mkObj [])
    let strict ← bool (fieldD gj "strict" (.bool false))
    let edges : Option (List (HG.Name × HG.Name × Option (List HG.Name))) ← (match fieldD gj "edges" .null with
      | .null => pure none
      | es => do
        let l ← list (fun e => do
          let a ← arr e
          match a.toList with
          | [x, y] => pure ((← str x), (← str y), (none : Option (List HG.Name)))
          | [x, y, vs] => pure ((← str x), (← str y), some (← list str vs))
          | _ => throw "bad edge") es
        pure (some l))
    let nodesJ ← arr (← field gj "nodes")
    let mut inT : AL (AL TypeCompat.Ty) := []
    let mut outT : AL (AL TypeCompat.Ty) := []
    for nj in nodesJ.toList do
      let nm ← str (← field nj "name")
      -- a nested-graph node exposes the annotations of its inner graph's nodes under its own (renamed) port names
      if (← str (fieldD nj "kind" (.str "fn"))) == "graph" then
        let innerJ := specsJ.toList.getD (← nat (← field nj "inner")) (Json.mkObj [])
        let wIn ← pairs str (fieldD nj "inRen" (.arr #[]))
        let wOut ← pairs str (fieldD nj "outRen" (.arr #[]))
        let mut ins : AL TypeCompat.Ty := []
        let mut outs : AL TypeCompat.Ty := []
        for ij in (← arr (fieldD innerJ "nodes" (.arr #[]))).toList do
          match ij.getObjVal? "ann" with
          | .error _ => pure ()
          | .ok ann =>
            let ren ← pairs str (fieldD ij "inRen" (.arr #[]))
            for p in (← list param (fieldD ij "params" (.arr #[]))) do
              match ann.getObjVal? p.1 with
              | .ok t =>
                let innerName := (AL.get? ren p.1).getD p.1
                ins := ins ++ [((AL.get? wIn innerName).getD innerName, ← tyOfJson t)]
              | .error _ => pure ()
            match ann.getObjVal? "return" with
            | .ok t =>
              let ty ← tyOfJson t
              for o in (← list str (fieldD ij "dataOuts" (.arr #[]))) do
                outs := outs ++ [((AL.get? wOut o).getD o, ty)]
            | .error _ => pure ()
        -- a mapping node: every output is a list of per-item results, every MAPPED input receives the list of items
        let mo ← list str (fieldD nj "mapOver" (.arr #[]))
        if !mo.isEmpty then
          outs := outs.map fun (o, t) => (o, TypeCompat.Ty.gen "list" [t])
          ins := ins.map fun (q, t) => if mo.contains q then (q, TypeCompat.Ty.gen "list" [t]) else (q, t)
        inT := inT ++ [(nm, ins)]
        outT := outT ++ [(nm, outs)]
      match nj.getObjVal? "ann" with
      | .error _ => pure ()
      | .ok ann =>
        let ren ← pairs str (fieldD nj "inRen" (.arr #[]))
        let ps ← list param (fieldD nj "params" (.arr #[]))
        let mut ins : AL TypeCompat.Ty := []
        for p in ps do
          match ann.getObjVal? p.1 with
          | .ok t => ins := ins ++ [((AL.get? ren p.1).getD p.1, ← tyOfJson t)]
          | .error _ => pure ()
        inT := inT ++ [(nm, ins)]
        match ann.getObjVal? "return" with
        | .ok t =>
          let outs ← list str (fieldD nj "dataOuts" (.arr #[]))
          let ty ← tyOfJson t
          -- `FunctionNode.output_annotation`: one output takes the return type; several outputs take the element types of a
          -- `tuple[...]` return (`tuple[T, ...]`: every output is a `T`; another arity: no output is typed)
          let typed : AL TypeCompat.Ty :=
            if outs.length ≤ 1 then outs.map fun o => (o, ty)
            else match ty with
              | .gen "tuple" [e, .ellipsis] => outs.map fun o => (o, e)
              | .gen "tuple" args => if args.length == outs.length then outs.zip args else []
              | _ => []
          outT := outT ++ [(nm, typed)]
        | .error _ => pure ()
    let inner := g.nodes.filter fun n => n.kind == .graph && ((prog.getD n.inner default).nodes.any (·.isInterrupt))
    let b : Build.BuildInput := { nodes := g.nodes, graphName := g.name, strict := strict, explicitEdges := edges,
                                  inTypes := inT, outTypes := outT, innerInterrupts := inner.map (·.name) }
    pure (Json.mkObj [("class", .str (Build.classify b))])
  | "heap" =>
    -- derivation-operation histories on the heap model: observation of every object after each op
    let nodes ← list (fun o => do
      pure ((← str (← field o "name")), (← list str (← field o "inputs")), (← list str (← field o "outputs")))) (← field j "nodes")
    let ops ← list (fun o => do
      let t ← str (← field o "t")
      let i ← nat (← field o "i")
      let prs (x : Json) : P (List (HG.Name × HG.Name)) := list (fun q => do
        let a ← arr q
        match a.toList with
        | [u, v] => pure ((← str u), (← str v))
        | _ => throw "bad pair") x
      match t with
      | "bind" => pure (Heap.OpSpec.bind i (← str (← field o "k")) (← val (← field o "v")))
      | "unbind" => pure (Heap.OpSpec.unbind i (← str (← field o "k")))
      | "select" => pure (Heap.OpSpec.select i (← list str (← field o "names")))
      | "withEntrypoint" => pure (Heap.OpSpec.withEntrypoint i (← list str (← field o "names")))
      | "asNode" => pure (Heap.OpSpec.asNode i (← str (← field o "name")))
      | "withName" => pure (Heap.OpSpec.withName i (← str (← field o "name")))
      | "withInputs" => pure (Heap.OpSpec.withInputs i (← prs (← field o "pairs")))
      | "withOutputs" => pure (Heap.OpSpec.withOutputs i (← prs (← field o "pairs")))
      | "mapOver" => pure (Heap.OpSpec.mapOver i (← list str (← field o "names")))
      | "readInputs" => pure (Heap.OpSpec.readInputs i)
      | "readHash" => pure (Heap.OpSpec.readHash i)
      | "addNode" => pure (Heap.OpSpec.addNode i (← nat (← field o "j")))
      | "addNone" => pure (Heap.OpSpec.addNone i)
      | s => throw s!"bad heap op {s}") (← field j "ops")
    let rec encObs : Heap.Obs → Json
      | .bad => .str "BAD"
      | .none => .null
      | .nil => .arr #[]
      | .cons h t => match encObs t with
        | .arr a => .arr (#[encObs h] ++ a)
        | x => .arr #[encObs h, x]
      | .dict m => Json.mkObj [("dict", encAL encVal m)]
      | .hist l => Json.mkObj [("hist", .arr (l.map fun h => Json.arr #[.str h.kind, .str h.old, .str h.new]).toArray)]
      | .names l => encNames l
      | .graph ns b sel ent => Json.mkObj [("graph", encObs ns), ("bound", encObs b),
          ("selected", match sel with | some l => encNames l | none => .null), ("entry", match ent with | some l => encNames l | none => .null)]
      | .node nm ins outs hist mo _ inner => Json.mkObj [("node", .str nm), ("inputs", encNames ins), ("outputs", encNames outs),
          ("history", encObs hist), ("mapOver", encObs mo), ("inner", encObs inner)]
    let rows := Heap.replay nodes ops
    pure (Json.mkObj [("init", .arr ((Heap.replayInit nodes).map encObs).toArray),
                      ("rows", .arr (rows.map fun r => Json.arr (r.map encObs).toArray).toArray)])
  | "iso" =>
    let kind ← (do match (← str (← field j "kind")) with
      | "default" => pure Iso.ArgKind.default | "bound" => pure .bound | "providedSame" => pure .providedSame
      | "providedFresh" => pure .providedFresh | s => throw s!"bad kind {s}")
    let n ← nat (← field j "n")
    pure (Json.mkObj [("lens", .arr ((Iso.runSeq kind n).map fun k => Json.num (JsonNumber.fromNat k)).toArray)])
  | "isorun" =>
    -- run-isolation model driven by the REAL call schedule: memory contents seen by every node-function call
    let cells ← list (list int) (← field j "cells")
    let dicts ← list (pairs nat) (fieldD j "dicts" (.arr #[]))
    let deep ← bool (fieldD j "deep" (.bool true))
    let specs ← list (fun sj => do
      let nodes ← list (fun nj => do
        let srcs ← list (fun q => do
          match q.getObjVal? "default", q.getObjVal? "bound", q.getObjVal? "provided" with
          | .ok c, _, _ => do pure (Iso.Src.default (← nat c))
          | _, .ok c, _ => do pure (Iso.Src.bound (← nat c))
          | _, _, .ok k => do pure (Iso.Src.provided (← str k))
          | _, _, _ => throw "bad src") (← field nj "srcs")
        let eff : Iso.Eff ← (match fieldD nj "eff" .null with
          | .null => pure Iso.Eff.none
          | e => do
            let a ← arr e
            match a.toList with
            | [i, x] => pure (Iso.Eff.appendTo (← nat i) (← int x))
            | _ => throw "bad eff")
        pure ({ srcs := srcs, eff := eff, out := ← str (← field nj "out") } : Iso.Node)) (← field sj "nodes")
      let values : Option Nat ← (match fieldD sj "values" .null with | .null => pure none | v => do pure (some (← nat v)))
      let kwargs ← pairs nat (fieldD sj "kwargs" (.arr #[]))
      pure ({ nodes := nodes, values := values, kwargs := kwargs } : Iso.RunSpec)) (← field j "specs")
    let sched ← list (fun q => do
      let a ← arr q
      match a.toList with
      | [r, k] => pure ((← nat r), (← nat k))
      | _ => throw "bad sched entry") (← field j "sched")
    let w0 : Iso.World := { mem := { cells := cells, dicts := dicts } }
    let w := Iso.runSched deep specs w0 sched
    let encInts (l : List Int) : Json := .arr (l.map fun i => Json.num (JsonNumber.fromInt i)).toArray
    pure (Json.mkObj [
      ("log", .arr (w.log.map fun c => Json.mkObj [
        ("rid", .num (JsonNumber.fromNat c.rid)), ("sid", .num (JsonNumber.fromNat c.sid)),
        ("before", .arr (c.res.before.map encInts).toArray), ("after", encInts c.res.after),
        ("args", .arr (c.args.map fun a => Json.arr #[.num (JsonNumber.fromNat a.ref),
            match a.copyOf with | some r => .num (JsonNumber.fromNat r) | none => .null]).toArray)]).toArray),
      ("cells", .arr ((w.mem.cells.take cells.length).map encInts).toArray),
      ("dicts", .arr ((w.mem.dicts.take dicts.length).map fun d => encAL (fun r => Json.num (JsonNumber.fromNat r)) d).toArray)])
  | "isorunN" =>
    -- nested / mapped run-isolation model driven by the real top-level schedule
    let cells ← list (list int) (← field j "cells")
    let dicts ← list (pairs nat) (fieldD j "dicts" (.arr #[]))
    let specs ← list (fun sj => do
      let nodes ← list isoNode (← field sj "nodes")
      let values : Option Nat ← (match fieldD sj "values" .null with | .null => pure none | v => do pure (some (← nat v)))
      let kwargs ← pairs nat (fieldD sj "kwargs" (.arr #[]))
      pure ({ nodes := nodes, values := values, kwargs := kwargs } : IsoN.RunSpec)) (← field j "specs")
    let sched ← list (fun q => do
      let a ← arr q
      match a.toList with
      | [r, k] => pure ((← nat r), (← nat k))
      | _ => throw "bad sched entry") (← field j "sched")
    let w0 : IsoN.World := { mem := { cells := cells, dicts := dicts } }
    let w := IsoN.runSched true specs w0 sched
    let encInts (l : List Int) : Json := .arr (l.map fun i => Json.num (JsonNumber.fromInt i)).toArray
    let n (k : Nat) : Json := .num (JsonNumber.fromNat k)
    pure (Json.mkObj [
      ("log", .arr (w.log.map fun c => Json.mkObj [
        ("rid", n c.rid), ("sid", n c.sid), ("path", .arr (c.path.map fun p => Json.arr #[n p.1, n p.2]).toArray),
        ("before", .arr (c.res.before.map encInts).toArray), ("after", encInts c.res.after),
        ("args", .arr (c.args.map fun a => Json.arr #[n a.ref, match a.copyOf with | some r => n r | none => .null]).toArray)]).toArray),
      ("cells", .arr ((w.mem.cells.take cells.length).map encInts).toArray),
      ("dicts", .arr ((w.mem.dicts.take dicts.length).map fun d => encAL (fun r => n r) d).toArray),
      ("wf", .bool (IsoN.wfCheck specs w0.mem))])
  | "defhash" =>
    -- definition-hash input: current comparison, visible-field comparison, and the three earlier variants
    let ps ← list (fun q => do
      let a ← arr q
      match a.toList with
      | [x, y] => pure ((← dhFn x), (← dhFn y))
      | _ => throw "bad defhash pair") (← field j "pairs")
    let col (f : DefHash.FnDef → DefHash.FnDef → Bool) : Json := .arr (ps.map fun (x, y) => Json.bool (f x y)).toArray
    pure (Json.mkObj [
      ("same", col DefHash.sameHash),
      ("sameVisible", col fun x y => decide (DefHash.visible x = DefHash.visible y)),
      ("v1", col fun x y => DefHash.hashInputV1 x == DefHash.hashInputV1 y),
      ("v2", col fun x y => DefHash.hashInputV2 x == DefHash.hashInputV2 y),
      ("v3", col fun x y => DefHash.hashInputV3 x == DefHash.hashInputV3 y)])
  | "rename" =>
    -- rename bookkeeping: original names, optional constructor batch, successive call batches
    let orig ← list str (← field j "orig")
    let batches ← list (pairs str) (← field j "batches")
    let kind ← (do match (← str (fieldD j "kind" (.str "inputs"))) with
      | "inputs" => pure Rename.RKind.inputs | "outputs" => pure .outputs | s => throw s!"bad kind {s}")
    let ctor : Option Rename.Batch ← (match fieldD j "ctor" .null with
      | .null => pure none | c => do pure (some (← pairs str c)))
    let allB := match ctor with | some c => c :: batches | none => batches
    let h := match ctor with
      | some c => Rename.historyOfCtor c batches kind
      | none => Rename.historyOf batches kind
    let cur := Rename.current orig allB
    let query ← pairs val (fieldD j "query" (.arr #[]))
    pure (Json.mkObj [
      ("valid", .bool (Rename.validB orig allB)),
      ("current", encNames cur),
      ("track", encAL Json.str (Rename.track orig allB)),
      ("reverse", encAL Json.str (Rename.reverseMap h kind)),
      ("forward", encAL Json.str (Rename.forwardMapK h kind)),
      ("resolve", encAL Json.str (cur.map fun c => (c, Rename.resolveOriginal h c))),
      ("outputsForward", encAL Json.str (Rename.outputsForward h cur)),
      ("params", encAL encVal (Rename.mapInputsToParams h query)),
      ("outputsMapped", encAL encVal (Rename.mapOutputsFromOriginal h cur query))])
  | _ => throw s!"unknown op {op}"

partial def loop (hin hout : IO.FS.Stream) : IO Unit := do
  let line ← hin.getLine
  if line.isEmpty then return ()
  let resp : Json := match Json.parse line with
    | .error e => Json.mkObj [("bad", .str s!"parse: {e}")]
    | .ok j => match handle j with
      | .ok r => r
      | .error e => Json.mkObj [("bad", .str e)]
  hout.putStrLn resp.compress
  hout.flush
  loop hin hout

def main : IO Unit := do
  loop (← IO.getStdin) (← IO.getStdout)
