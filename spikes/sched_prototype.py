"""Prototype: controllable asyncio loop. Node bodies park on futures; when the loop goes idle
(nothing ready, no timers) the controller releases the next parked body per a schedule."""
import asyncio, itertools, warnings, logging
warnings.simplefilter("ignore"); logging.disable(logging.CRITICAL)
from hypergraph import Graph, node, AsyncRunner

class CtlLoop(asyncio.SelectorEventLoop):
    def __init__(self):
        super().__init__()
        self.on_idle = None
    def _run_once(self):
        # idle = no ready callbacks and no scheduled timers: the run can only progress if we release someone
        if not self._ready and not self._scheduled and self.on_idle is not None:
            self.on_idle()
        super()._run_once()

class Controller:
    def __init__(self, loop, pick):
        self.loop = loop; self.parked = {}   # name -> future
        self.pick = pick; self.trace = []; self.inflight = 0; self.peak = 0; self.deadlock = False
        loop.on_idle = self.idle
    async def body(self, name):
        self.inflight += 1; self.peak = max(self.peak, self.inflight)
        self.trace.append(("start", name))
        fut = self.loop.create_future(); self.parked[name] = fut
        await fut
        self.trace.append(("finish", name)); self.inflight -= 1
    def idle(self):
        if not self.parked:
            self.deadlock = True
            self.loop.stop(); return
        name = self.pick(sorted(self.parked))
        self.parked.pop(name).set_result(None)

def run_with(schedule_pick, coro_factory):
    loop = CtlLoop(); asyncio.set_event_loop(loop)
    ctl = Controller(loop, schedule_pick)
    try:
        res = loop.run_until_complete(coro_factory(ctl))
    except RuntimeError as e:
        res = ("DEADLOCK" if ctl.deadlock else repr(e))
    finally:
        loop.close()
    return res, ctl

def make_graph(ctl):
    @node(output_name="a")
    async def A(x): await ctl.body("A"); return ("A", x)
    @node(output_name="b")
    async def B(x): await ctl.body("B"); return ("B", x)
    @node(output_name="c")
    async def C(x): await ctl.body("C"); return ("C", x)
    @node(output_name="d")
    async def D(a, b, c): await ctl.body("D"); return ("D", a, b, c)
    return Graph([A, B, C, D])

results = set()
for perm in itertools.permutations("ABC"):
    order = list(perm)
    def pick(parked, order=order):
        for n in order:
            if n in parked: return n
        return parked[0]
    async def go(ctl):
        return await AsyncRunner().run(make_graph(ctl), {"x": 1})
    res, ctl = run_with(pick, go)
    fin = [n for k, n in ctl.trace if k == "finish"]
    results.add(repr(sorted(res.values.items())))
    print(perm, "finish order", fin, "peak", ctl.peak)
print("distinct results:", len(results))
# max_concurrency=2: adversary holds bodies open as long as possible; peak must be <= 2
for k in (1, 2, 3):
    async def go(ctl, k=k):
        return await AsyncRunner().run(make_graph(ctl), {"x": 1}, max_concurrency=k)
    res, ctl = run_with(lambda parked: parked[-1], go)
    print("k", k, "peak", ctl.peak, res.status if hasattr(res, "status") else res)
