import S5.Basic
namespace HGl
variable (F : Val → Val) (c : Val → Bool) (x0 : Val)

def xs : Nat → Val
  | 0 => x0
  | i + 1 => F (xs i)

/-- state just before the gate's run number `i+1` (i iterations completed) -/
def Gs (i : Nat) : GState :=
  match i with
  | 0 => init x0
  | j + 1 => { values := [("x", xs F x0 (j + 1))], versions := [("x", j + 2)],
               execs := [("gt", ⟨[("x", j + 1)]⟩), ("b1", ⟨[("x", j + 1)]⟩)],
               decisions := [("gt", .tgt "b1")] }

/-- the same with the stale decision cleared (what `get_ready_nodes` leaves behind) -/
def Gc (i : Nat) : GState := { Gs F x0 i with decisions := [] }

/-- state after the gate said "continue" on `x_i` -/
def Bs (i : Nat) : GState :=
  match i with
  | 0 => { values := [("x", x0)], versions := [("x", 1)], execs := [("gt", ⟨[("x", 1)]⟩)], decisions := [("gt", .tgt "b1")] }
  | j + 1 => { values := [("x", xs F x0 (j + 1))], versions := [("x", j + 2)],
               execs := [("gt", ⟨[("x", j + 2)]⟩), ("b1", ⟨[("x", j + 1)]⟩)],
               decisions := [("gt", .tgt "b1")] }

/-- state after the gate said END on `x_i` -/
def Es (i : Nat) : GState := { Bs F x0 i with decisions := [("gt", .end_)] }

theorem ready_B (dopen : Bool) (i : Nat) : ready (L1 dopen) (Bs F x0 i) = ([b1], Bs F x0 i) := by
  cases i <;>
  simp [ready, clearStale, L1, b1, gt, Bs, Node.isGate, Node.targets, Node.defaultOpen, isReady, activated,
        controlledBy, needsExec, isStale, selfProduces, hasInput, has, get?, ver, decisionNames, del]

theorem ready_E (dopen : Bool) (i : Nat) : ready (L1 dopen) (Es F x0 i) = ([], Es F x0 i) := by
  cases i <;>
  simp [ready, clearStale, L1, b1, gt, Es, Bs, Node.isGate, Node.targets, Node.defaultOpen, isReady, activated,
        controlledBy, needsExec, isStale, selfProduces, hasInput, has, get?, ver, decisionNames, del]

theorem ready_G (dopen : Bool) (i : Nat) : ready (L1 dopen) (Gs F x0 i) = ([gt dopen], Gc F x0 i) := by
  cases i <;>
  simp [ready, clearStale, L1, b1, gt, Gs, Gc, init, Node.isGate, Node.targets, Node.defaultOpen, isReady, activated,
        controlledBy, needsExec, isStale, selfProduces, hasInput, has, get?, ver, decisionNames, del]
end HGl

namespace HGl
variable (F : Val → Val) (c : Val → Bool) (x0 : Val)

theorem step_G (dopen : Bool) (i : Nat) :
    stepSync (L1sem F c) (Gc F x0 i) [gt dopen] = if c (xs F x0 i) then Bs F x0 i else Es F x0 i := by
  cases i with
  | zero =>
    by_cases h : c (xs F x0 0) <;>
    simp_all [stepSync, execOne, gt, Gc, Gs, Bs, Es, init, L1sem, Node.isGate, args, get?, put, ver, xs]
  | succ j =>
    by_cases h : c (xs F x0 (j + 1)) <;>
    simp_all [stepSync, execOne, gt, Gc, Gs, Bs, Es, init, L1sem, Node.isGate, args, get?, put, ver, xs]

theorem step_B (i : Nat) (hprog : xs F x0 (i + 1) ≠ xs F x0 i) :
    stepSync (L1sem F c) (Bs F x0 i) [b1] = Gs F x0 (i + 1) := by
  have h' : ¬ xs F x0 i = F (xs F x0 i) := fun e => hprog (by simp [xs, ← e])
  cases i <;>
  simp_all [stepSync, execOne, b1, Bs, Gs, L1sem, Node.isGate, args, get?, put, ver, xs, updateValue, bumps]

/-- C04 for the family L1, k = 1: from `G i`, if the condition holds on x_i … x_{n-1} and fails on x_n,
    the loop needs exactly 2(n-i)+1 supersteps; with that much fuel it ends quiescent in `E n`
    (loop variable = Fⁿ x₀), with less it reports the iteration limit. -/
theorem loop_from (dopen : Bool) (n : Nat)
    (hc : ∀ j, j < n → c (xs F x0 j) = true) (hn : c (xs F x0 n) = false)
    (hprog : ∀ j, j < n → xs F x0 (j + 1) ≠ xs F x0 j) :
    ∀ (d i fuel : Nat), i + d = n →
      runLoop (L1sem F c) (L1 dopen) fuel (Gs F x0 i) =
        if 2 * d + 1 ≤ fuel then (Es F x0 n, true) else ((runLoop (L1sem F c) (L1 dopen) fuel (Gs F x0 i)).1, false) := by
  intro d
  induction d with
  | zero =>
    intro i fuel hi
    have : i = n := by omega
    subst this
    cases fuel with
    | zero => simp [runLoop, ready_G]
    | succ f =>
      simp only [runLoop, ready_G, step_G, hn]
      cases f with
      | zero => simp [runLoop, ready_E]
      | succ f' => simp [runLoop, ready_E]
  | succ d ih =>
    intro i fuel hi
    have hci := hc i (by omega)
    have hpi := hprog i (by omega)
    cases fuel with
    | zero => simp [runLoop, ready_G]
    | succ f =>
      simp only [runLoop, ready_G, step_G, hci, if_true]
      cases f with
      | zero => simp [runLoop, ready_B]
      | succ f' =>
        simp only [runLoop, ready_B, step_B F c x0 i hpi]
        rw [ih (i + 1) f' (by omega)]
        by_cases hf : 2 * d + 1 ≤ f'
        · have : 2 * (d + 1) + 1 ≤ f' + 1 + 1 := by omega
          simp [hf, this]
        · have : ¬ 2 * (d + 1) + 1 ≤ f' + 1 + 1 := by omega
          simp [hf, this]

/-- the run from the initial state -/
theorem loop_L1_k1 (dopen : Bool) (n maxIter : Nat)
    (hc : ∀ j, j < n → c (xs F x0 j) = true) (hn : c (xs F x0 n) = false)
    (hprog : ∀ j, j < n → xs F x0 (j + 1) ≠ xs F x0 j) (hfuel : 2 * n + 1 ≤ maxIter) :
    runLoop (L1sem F c) (L1 dopen) maxIter (init x0) = (Es F x0 n, true) := by
  have := loop_from F c x0 dopen n hc hn hprog n 0 maxIter (by omega)
  simp only [Gs] at this
  rw [this]; simp [hfuel]

theorem loop_L1_k1_limit (dopen : Bool) (n maxIter : Nat)
    (hc : ∀ j, j < n → c (xs F x0 j) = true) (hn : c (xs F x0 n) = false)
    (hprog : ∀ j, j < n → xs F x0 (j + 1) ≠ xs F x0 j) (hfuel : maxIter < 2 * n + 1) :
    (runLoop (L1sem F c) (L1 dopen) maxIter (init x0)).2 = false := by
  have := loop_from F c x0 dopen n hc hn hprog n 0 maxIter (by omega)
  simp only [Gs] at this
  rw [this]; simp [Nat.not_le.mpr hfuel]

example : (Es Fi (.int 0) 3).values = [("x", .int 3)] := by decide
#print axioms loop_L1_k1
#print axioms loop_L1_k1_limit
end HGl
