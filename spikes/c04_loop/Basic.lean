/-! Spike for C03/C04: reduced scheduler WITH gates (activation, stale-decision clearing, blocked targets,
    self-producer rule), and the loop family L1 with k = 1. -/
namespace HGl
abbrev Name := String
inductive Val | none | int (i : Int) | str (s : String) | cons (h t : Val) | sentinel
  deriving DecidableEq, Repr

abbrev AL (α : Type) := List (Name × α)
def get? {α} : AL α → Name → Option α
  | [], _ => .none
  | (a, v) :: t, k => if k = a then some v else get? t k
def put {α} : AL α → Name → α → AL α
  | [], k, v => [(k, v)]
  | (a, w) :: t, k, v => if k = a then (a, v) :: t else (a, w) :: put t k v
def del {α} : AL α → Name → AL α
  | [], _ => []
  | (a, w) :: t, k => if k = a then t else (a, w) :: del t k
def has {α} (m : AL α) (k : Name) : Bool := (get? m k).isSome

/-- routing decision: a target name, END, or None -/
inductive Dec | tgt (n : Name) | end_ | none
  deriving DecidableEq, Repr

inductive Kind | fn | gate (targets : List (Option Name)) (defaultOpen : Bool)   -- `none` target = END
  deriving Repr

structure Node where
  name : Name
  kind : Kind
  inputs : List Name
  outputs : List Name            -- gates: []
  deriving Repr

structure Exec where
  inputVersions : AL Nat
  deriving Repr

structure GState where
  values : AL Val
  versions : AL Nat
  execs : AL Exec
  decisions : AL Dec
  deriving Repr

structure Graph where
  nodes : List Node

def Node.isGate (n : Node) : Bool := match n.kind with | .gate .. => true | .fn => false
def Node.targets (n : Node) : List (Option Name) := match n.kind with | .gate ts _ => ts | .fn => []
def Node.defaultOpen (n : Node) : Bool := match n.kind with | .gate _ d => d | .fn => true

def ver (s : GState) (n : Name) : Nat := (get? s.versions n).getD 0

def bumps (s : GState) (n : Name) (v : Val) : Bool :=
  match get? s.values n with
  | .none => true
  | some old => decide (old ≠ v)

def updateValue (s : GState) (n : Name) (v : Val) : GState :=
  { s with values := put s.values n v
           versions := if bumps s n v then put s.versions n (ver s n + 1) else s.versions }

/-- `Graph.controlled_by` -/
def controlledBy (g : Graph) (n : Name) : List Node :=
  g.nodes.filter fun c => c.isGate && c.targets.contains (some n)

/-- `Graph.self_producers` restricted to what `_is_stale` needs -/
def selfProduces (nd : Node) (p : Name) : Bool := nd.outputs.contains p

def isStale (g : Graph) (s : GState) (nd : Node) (e : Exec) : Bool :=
  let gated := !(controlledBy g nd.name).isEmpty
  nd.inputs.any fun p =>
    if !gated && selfProduces nd p then false
    else ver s p != (get? e.inputVersions p).getD 0

def needsExec (g : Graph) (s : GState) (nd : Node) : Bool :=
  match get? s.execs nd.name with
  | .none => true
  | some e => isStale g s nd e

/-- `_clear_stale_gate_decisions` (END is terminal) -/
def clearStale (g : Graph) (s : GState) : GState :=
  g.nodes.foldl (fun st nd =>
    if nd.isGate then
      match get? st.decisions nd.name with
      | some .end_ => st
      | some _ => if needsExec g st nd then { st with decisions := del st.decisions nd.name } else st
      | .none => st
    else st) s

def decisionNames (d : Dec) (n : Name) : Bool := match d with | .tgt t => t == n | _ => false

/-- `_get_activated_nodes` for one node (after clearing) -/
def activated (g : Graph) (s : GState) (n : Name) : Bool :=
  let gates := controlledBy g n
  gates.isEmpty || gates.any fun c =>
    match get? s.decisions c.name with
    | .none => !(has s.execs c.name) && c.defaultOpen
    | some d => decisionNames d n

def hasInput (s : GState) (p : Name) : Bool := has s.values p   -- no bound/defaults in this spike

def isReady (g : Graph) (s : GState) (nd : Node) : Bool :=
  activated g s nd.name && nd.inputs.all (hasInput s) && needsExec g s nd

/-- `get_ready_nodes`: returns the (mutated) state too, as the real function clears decisions in place -/
def ready (g : Graph) (s : GState) : List Node × GState :=
  let s1 := clearStale g s
  let r0 := g.nodes.filter (isReady g s1)
  let blocked : List Name := (r0.filter (·.isGate)).flatMap fun c =>
    c.targets.filterMap fun t => match t with | some t => if t = c.name then .none else some t | .none => .none
  (r0.filter fun n => !blocked.contains n.name, s1)

/-- node semantics: function nodes return one value per output; gates return a decision -/
structure Sem where
  fn : Name → List Val → List Val
  gate : Name → List Val → Dec

def args (s : GState) (nd : Node) : List Val := nd.inputs.map fun p => (get? s.values p).getD .none

def execOne (sem : Sem) (s ns : GState) (nd : Node) : GState :=
  let a := args s nd
  let ns1 : GState :=
    if nd.isGate then { ns with decisions := put ns.decisions nd.name (sem.gate nd.name a) }
    else (nd.outputs.zip (sem.fn nd.name a)).foldl (fun st ov => updateValue st ov.1 ov.2) ns
  { ns1 with execs := put ns1.execs nd.name ⟨nd.inputs.map fun p => (p, ver s p)⟩ }

def stepSync (sem : Sem) (s : GState) (rs : List Node) : GState := rs.foldl (execOne sem s) s

/-- runner loop; returns (state, true) iff it stopped because nothing was ready,
    (state, false) iff `maxIter` steps were used and something is still ready (InfiniteLoopError) -/
def runLoop (sem : Sem) (g : Graph) : Nat → GState → GState × Bool
  | 0, s => let (rs, s1) := ready g s; (s1, rs.isEmpty)
  | fuel + 1, s =>
    match ready g s with
    | ([], s1) => (s1, true)
    | (rs, s1) => runLoop sem g fuel (stepSync sem s1 rs)

/-! ### the loop family L1, k = 1 :  b1(x) -> x ;  gate(x) -> b1 | END -/
def b1 : Node := { name := "b1", kind := .fn, inputs := ["x"], outputs := ["x"] }
def gt (dopen : Bool) : Node := { name := "gt", kind := .gate [some "b1", .none] dopen, inputs := ["x"], outputs := [] }
def L1 (dopen : Bool) : Graph := { nodes := [b1, gt dopen] }

def L1sem (F : Val → Val) (c : Val → Bool) : Sem :=
  { fn := fun _ a => [F (a.headD .none)]
    gate := fun _ a => if c (a.headD .none) then .tgt "b1" else .end_ }

def init (x0 : Val) : GState := { values := [("x", x0)], versions := [("x", 1)], execs := [], decisions := [] }

-- sanity: run on Int counters
def Fi : Val → Val | .int i => .int (i + 1) | v => v
def ci (n : Int) : Val → Bool | .int i => i < n | _ => false
#eval (runLoop (L1sem Fi (ci 3)) (L1 true) 100 (init (.int 0))).1.values
#eval (runLoop (L1sem Fi (ci 3)) (L1 true) 6 (init (.int 0))).2   -- 2*3+1 = 7 steps needed
#eval (runLoop (L1sem Fi (ci 3)) (L1 true) 7 (init (.int 0))).2
end HGl
