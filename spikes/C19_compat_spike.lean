/-! Spike for C19: closed type universe, executable `compat`, rule system, equivalence. -/
namespace TC
abbrev Cls := Nat

inductive Ty
  | cls (c : Cls)               -- plain class: int, str, bool, MyClass …
  | any
  | noAnn
  | union (ts : List Ty)        -- Union[...] / X | Y   (Python guarantees ≥ 2 distinct flat members)
  | gen (c : Cls) (args : List Ty)   -- list[int], dict[str,int] …  (args ≠ [])
  deriving Repr

variable (sub : Cls → Cls → Bool)   -- issubclass table (reflexive)

mutual
  /-- mirrors `is_type_compatible`'s case order -/
  def compat : Ty → Ty → Bool
    | _, .any => true
    | .noAnn, _ => true
    | _, .noAnn => true
    | .union as, r => allCompat as r                       -- incoming union: every member
    | i, .union bs => anyCompat i bs                        -- required union: some member
    | .any, _ => false                                      -- Any incoming vs concrete required
    | .cls a, .cls b => sub a b
    | .cls _, .gen _ _ => false                              -- a bare class never satisfies a parameterised generic here (spike)
    | .gen a _, .cls b => sub a b                           -- required un-parameterised accepts any args
    | .gen a xs, .gen b ys => sub a b && zipCompat xs ys
  def allCompat : List Ty → Ty → Bool
    | [], _ => true
    | a :: as, r => compat a r && allCompat as r
  def anyCompat : Ty → List Ty → Bool
    | _, [] => false
    | i, b :: bs => compat i b || anyCompat i bs
  def zipCompat : List Ty → List Ty → Bool
    | [], [] => true
    | x :: xs, y :: ys => compat x y && zipCompat xs ys
    | _, _ => false
end

/-- the documented rules, as an inductive relation -/
inductive Compat (sub : Cls → Cls → Bool) : Ty → Ty → Prop
  | toAny (i) : Compat sub i .any
  | noAnnL (r) : Compat sub .noAnn r
  | noAnnR (i) : Compat sub i .noAnn
  | unionL (as r) : r ≠ .any → r ≠ .noAnn → (∀ a ∈ as, Compat sub a r) → Compat sub (.union as) r
  | unionR (i bs b) : (∀ as, i ≠ .union as) → i ≠ .noAnn → b ∈ bs → Compat sub i b → Compat sub i (.union bs)
  | cls (a b) : sub a b = true → Compat sub (.cls a) (.cls b)
  | genBare (a xs b) : sub a b = true → Compat sub (.gen a xs) (.cls b)
  | gen (a xs b ys) : sub a b = true → xs.length = ys.length → (∀ p ∈ xs.zip ys, Compat sub p.1 p.2) →
      Compat sub (.gen a xs) (.gen b ys)

example : compat (fun a b => a == b) (.union [.cls 1, .cls 2]) (.union [.cls 2, .cls 1, .cls 3]) = true := by
  simp [compat, allCompat, anyCompat]
example : compat (fun a b => a == b) (.gen 7 [.cls 1]) (.gen 7 [.cls 2]) = false := by
  simp [compat, zipCompat]

theorem compat_sound_all :
    (∀ i r, compat sub i r = true → Compat sub i r) := by
  intro i r
  apply compat.induct
    (motive1 := fun i r => compat sub i r = true → Compat sub i r)
    (motive2 := fun xs ys => zipCompat sub xs ys = true → xs.length = ys.length ∧ ∀ p ∈ xs.zip ys, Compat sub p.1 p.2)
    (motive3 := fun i bs => anyCompat sub i bs = true → ∃ b ∈ bs, Compat sub i b)
    (motive4 := fun as r => allCompat sub as r = true → ∀ a ∈ as, Compat sub a r)
  · intro x _; exact .toAny x
  · intro x _ _; exact .noAnnL x
  · intro x _ _; exact .noAnnR x
  · intro as r h1 h2 ih h
    have : allCompat sub as r = true := by
      cases r <;> simp_all [compat]
    exact .unionL as r (fun e => h1 e) (fun e => h2 e) (ih this)
  · intro i bs h1 h2 ih h
    have : anyCompat sub i bs = true := by
      cases i <;> simp_all [compat]
    obtain ⟨b, hb, hc⟩ := ih this
    exact .unionR i bs b (fun as e => h2 as e) (fun e => h1 e) hb hc
  · intro x h1 h2 h3 h
    cases x <;> simp_all [compat]
  · intro a b h; exact .cls a b (by simpa [compat] using h)
  · intro c c1 args h; simp [compat] at h
  · intro a args b h; exact .genBare a args b (by simpa [compat] using h)
  · intro a xs b ys ih h
    simp only [compat, Bool.and_eq_true] at h
    have := ih h.2
    exact .gen a xs b ys h.1 this.1 this.2
  · intro _; exact ⟨rfl, by intro p hp; cases hp⟩
  · intro x xs y ys ih1 ih2 h
    simp only [zipCompat, Bool.and_eq_true] at h
    have t := ih2 h.2
    refine ⟨by simp [t.1], ?_⟩
    intro p hp
    simp only [List.zip_cons_cons, List.mem_cons] at hp
    rcases hp with rfl | hp
    · exact ih1 h.1
    · exact t.2 p hp
  · intro xs ys h1 h2 h
    cases xs <;> cases ys <;> simp_all [zipCompat]
  · intro x h; simp [anyCompat] at h
  · intro i b bs ih1 ih2 h
    simp only [anyCompat, Bool.or_eq_true] at h
    rcases h with h | h
    · exact ⟨b, List.mem_cons_self .., ih1 h⟩
    · obtain ⟨b', hb', hc⟩ := ih2 h
      exact ⟨b', List.mem_cons_of_mem _ hb', hc⟩
  · intro x _ a ha; cases ha
  · intro a as r ih1 ih2 h x hx
    simp only [allCompat, Bool.and_eq_true] at h
    rcases List.mem_cons.mp hx with rfl | hx
    · exact ih1 h.1
    · exact ih2 h.2 x hx
#print axioms compat_sound_all
end TC
