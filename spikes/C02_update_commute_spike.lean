namespace St
abbrev Name := String
inductive Val | none | int (i : Int) | str (s : String) | cons (h t : Val) | sentinel | endMark
  deriving DecidableEq, Repr

abbrev AL (α : Type) := List (Name × α)
def get? {α} : AL α → Name → Option α
  | [], _ => .none
  | (a, v) :: t, k => if k = a then some v else get? t k
def put {α} : AL α → Name → α → AL α
  | [], k, v => [(k, v)]
  | (a, w) :: t, k, v => if k = a then (a, v) :: t else (a, w) :: put t k v

theorem get?_put_same {α} (m : AL α) (k : Name) (v : α) : get? (put m k v) k = some v := by
  induction m with
  | nil => simp [put, get?]
  | cons h t ih => obtain ⟨a, w⟩ := h; by_cases e : k = a <;> simp [put, get?, e, ih]
theorem get?_put_ne {α} (m : AL α) (k k' : Name) (v : α) (h : k' ≠ k) : get? (put m k v) k' = get? m k' := by
  induction m with
  | nil => simp [put, get?, h]
  | cons hd t ih =>
    obtain ⟨a, w⟩ := hd
    by_cases e : k = a
    · subst e; simp [put, get?, h]
    · by_cases e' : k' = a <;> simp [put, get?, e, e', ih]

structure GState where
  values : AL Val
  versions : AL Nat

def ver (s : GState) (n : Name) : Nat := (get? s.versions n).getD 0

/-- does `update_value` advance the version? (repaired: an emit sentinel is always fresh) -/
def bumps (s : GState) (n : Name) (v : Val) : Bool :=
  match get? s.values n with
  | .none => true
  | some old => decide (old ≠ v) || decide (v = .sentinel)

/-- `GraphState.update_value` -/
def updateValue (s : GState) (n : Name) (v : Val) : GState :=
  { values := put s.values n v
    versions := if bumps s n v then put s.versions n (ver s n + 1) else s.versions }

def Equiv (a b : GState) : Prop := (∀ n, get? a.values n = get? b.values n) ∧ (∀ n, ver a n = ver b n)

theorem bumps_other (s : GState) (n n' : Name) (v v' : Val) (h : n ≠ n') :
    bumps (updateValue s n' v') n v = bumps s n v := by
  simp [bumps, updateValue, get?_put_ne _ _ _ _ h]

theorem ver_update (s : GState) (n k : Name) (v : Val) :
    ver (updateValue s n v) k = if k = n ∧ bumps s n v then ver s n + 1 else ver s k := by
  unfold updateValue ver
  by_cases hb : bumps s n v
  · by_cases e : k = n
    · subst e; simp [hb, get?_put_same]
    · simp [hb, e, get?_put_ne _ _ _ _ e]
  · simp [hb]

theorem updateValue_comm (s : GState) (n₁ n₂ : Name) (v₁ v₂ : Val) (h : n₁ ≠ n₂) :
    Equiv (updateValue (updateValue s n₁ v₁) n₂ v₂) (updateValue (updateValue s n₂ v₂) n₁ v₁) := by
  have h' : n₂ ≠ n₁ := fun e => h e.symm
  constructor
  · intro n
    simp only [updateValue]
    by_cases e1 : n = n₁
    · subst e1; simp [get?_put_same, get?_put_ne, h]
    · by_cases e2 : n = n₂
      · subst e2; simp [get?_put_same, get?_put_ne, h']
      · simp [get?_put_ne, e1, e2]
  · intro n
    simp only [ver_update, bumps_other _ _ _ _ _ h, bumps_other _ _ _ _ _ h']
    by_cases e1 : n = n₁ <;> by_cases e2 : n = n₂ <;> simp_all
#print axioms updateValue_comm
end St
