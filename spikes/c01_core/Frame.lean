import S4.Basic
/-! Frame lemmas for one sync superstep: versions and execution records. -/
namespace HGs

theorem ver_update (s : GState) (n k : Name) (v : Val) :
    ver (updateValue s n v) k = if k = n ∧ bumps s n v = true then ver s n + 1 else ver s k := by
  unfold updateValue ver
  by_cases hb : bumps s n v = true
  · by_cases e : k = n
    · subst e; simp [hb, get?_put_same]
    · simp [hb, e, get?_put_ne _ _ _ _ e]
  · simp [hb]

theorem execOne_ver_other (sem) (g : Graph) (s ns : GState) (nd : Node) (k : Name) (h : k ≠ nd.output) :
    ver (execOne sem g s ns nd) k = ver ns k := by
  unfold execOne
  split
  · rfl
  · show ver (updateValue ns nd.output _) k = ver ns k
    rw [ver_update]; simp [h]

theorem execOne_ver_new (sem) (g : Graph) (s ns : GState) (nd : Node) (args : AL Val)
    (hc : collect g s nd = some args) (habs : get? ns.values nd.output = .none) :
    ver (execOne sem g s ns nd) nd.output = ver ns nd.output + 1 := by
  unfold execOne
  simp only [hc]
  show ver (updateValue ns nd.output _) nd.output = _
  rw [ver_update]; simp [bumps, habs]

theorem execOne_values_other (sem) (g : Graph) (s ns : GState) (nd : Node) (k : Name) (h : k ≠ nd.output) :
    get? (execOne sem g s ns nd).values k = get? ns.values k := by
  unfold execOne
  split
  · rfl
  · simp [updateValue, get?_put_ne _ _ _ _ h]

theorem execOne_execs (sem) (g : Graph) (s ns : GState) (nd : Node) (args : AL Val)
    (hc : collect g s nd = some args) (k : Name) :
    get? (execOne sem g s ns nd).execs k =
      if k = nd.name then some ⟨nd.inputs.map fun p => (p, ver s p)⟩ else get? ns.execs k := by
  unfold execOne
  simp only [hc, updateValue]
  by_cases e : k = nd.name
  · subst e; simp [get?_put_same]
  · simp [e, get?_put_ne _ _ _ _ e]

/-- versions of names that no node of the step produces are untouched -/
theorem foldl_ver_other (sem) (g : Graph) (s : GState) (k : Name) :
    ∀ (rs : List Node) (ns : GState), (∀ r ∈ rs, r.output ≠ k) →
      ver (rs.foldl (execOne sem g s) ns) k = ver ns k := by
  intro rs
  induction rs with
  | nil => intro ns _; rfl
  | cons r rs ih =>
    intro ns h
    rw [List.foldl_cons, ih _ (fun r' hr' => h r' (List.mem_cons_of_mem _ hr'))]
    exact execOne_ver_other sem g s ns r k (fun e => h r (List.mem_cons_self ..) e.symm)

theorem foldl_values_other (sem) (g : Graph) (s : GState) (k : Name) :
    ∀ (rs : List Node) (ns : GState), (∀ r ∈ rs, r.output ≠ k) →
      get? (rs.foldl (execOne sem g s) ns).values k = get? ns.values k := by
  intro rs
  induction rs with
  | nil => intro ns _; rfl
  | cons r rs ih =>
    intro ns h
    rw [List.foldl_cons, ih _ (fun r' hr' => h r' (List.mem_cons_of_mem _ hr'))]
    exact execOne_values_other sem g s ns r k (fun e => h r (List.mem_cons_self ..) e.symm)

/-- a fresh output produced in the step ends with version (old + 1) -/
theorem foldl_ver_new (sem) (g : Graph) (s : GState) (argsOf : Node → AL Val) :
    ∀ (rs : List Node) (ns : GState) (r : Node), r ∈ rs →
      (rs.map (·.output)).Nodup → (∀ r' ∈ rs, collect g s r' = some (argsOf r')) →
      get? ns.values r.output = .none →
      ver (rs.foldl (execOne sem g s) ns) r.output = ver ns r.output + 1 := by
  intro rs
  induction rs with
  | nil => intro ns r hr; cases hr
  | cons a rs ih =>
    intro ns r hr hnd hall habs
    simp only [List.map_cons, List.nodup_cons] at hnd
    rw [List.foldl_cons]
    rcases List.mem_cons.mp hr with e | hr'
    · subst e
      -- later nodes do not touch r.output
      rw [foldl_ver_other sem g s r.output rs _ (fun r' hr' e => hnd.1 (by rw [← e]; exact List.mem_map_of_mem hr'))]
      exact execOne_ver_new sem g s ns r _ (hall r (List.mem_cons_self ..)) habs
    · have hne : r.output ≠ a.output := by
        intro e; apply hnd.1; rw [← e]; exact List.mem_map_of_mem hr'
      rw [ih _ r hr' hnd.2 (fun r' h' => hall r' (List.mem_cons_of_mem _ h'))
            (by rw [execOne_values_other sem g s ns a _ hne]; exact habs)]
      rw [execOne_ver_other sem g s ns a _ hne]

/-- execution records after the step -/
theorem foldl_execs (sem) (g : Graph) (s : GState) (argsOf : Node → AL Val) (k : Name) :
    ∀ (rs : List Node) (ns : GState),
      (rs.map (·.name)).Nodup → (∀ r ∈ rs, collect g s r = some (argsOf r)) →
      get? (rs.foldl (execOne sem g s) ns).execs k =
        match rs.find? (fun r => decide (r.name = k)) with
        | some r => some ⟨r.inputs.map fun p => (p, ver s p)⟩
        | .none => get? ns.execs k := by
  intro rs
  induction rs with
  | nil => intro ns _ _; rfl
  | cons r rs ih =>
    intro ns hnd hall
    simp only [List.map_cons, List.nodup_cons] at hnd
    rw [List.foldl_cons, ih _ hnd.2 (fun r' hr' => hall r' (List.mem_cons_of_mem _ hr'))]
    have hr := hall r (List.mem_cons_self ..)
    simp only [List.find?_cons]
    by_cases e : r.name = k
    · have : rs.find? (fun r' => decide (r'.name = k)) = .none := by
        apply List.find?_eq_none.mpr
        intro r' hr' hd
        have : r'.name = k := of_decide_eq_true hd
        exact hnd.1 (by rw [e, ← this]; exact List.mem_map_of_mem hr')
      simp [this, e, execOne_execs sem g s ns r _ hr]
    · have e' : ¬ k = r.name := fun h => e h.symm
      cases hf : rs.find? (fun r' => decide (r'.name = k)) with
      | some r' => simp [e]
      | none => simp [e, execOne_execs sem g s ns r _ hr, e']
end HGs
