import S4.Frame
/-! C01 core (reduced model): level invariant over supersteps for acyclic graphs. -/
namespace HGs

def static (g : Graph) (inp : AL Val) (n : Node) (p : Name) : Bool :=
  has inp p || has g.bound p || has n.defaults p

inductive Sat (g : Graph) (inp : AL Val) : Node → Prop
  | mk (n : Node) : n ∈ g.nodes →
      (∀ p ∈ n.inputs, static g inp n p = true ∨ ∃ m ∈ g.nodes, m.output = p) →
      (∀ p ∈ n.inputs, ∀ m ∈ g.nodes, m.output = p → static g inp n p = false → Sat g inp m) → Sat g inp n

structure WF (g : Graph) (inp : AL Val) (lvl : Node → Nat) : Prop where
  names_nodup : (g.nodes.map (·.name)).Nodup
  outs_nodup : (g.nodes.map (·.output)).Nodup
  lvl_lt : ∀ n ∈ g.nodes, ∀ m ∈ g.nodes, m.output ∈ n.inputs → lvl m < lvl n
  lvl_tight : ∀ n ∈ g.nodes, lvl n = 0 ∨ ∃ m ∈ g.nodes, m.output ∈ n.inputs ∧ lvl n = lvl m + 1
  no_fallback : ∀ n ∈ g.nodes, ∀ m ∈ g.nodes, m.output ∈ n.inputs → static g inp n m.output = false

structure Inv (sem : Name → AL Val → Val) (g : Graph) (inp : AL Val) (lvl : Node → Nat) (k : Nat) (s : GState) : Prop where
  static_vals : ∀ p, (∀ m ∈ g.nodes, m.output ≠ p) → get? s.values p = get? inp p
  done : ∀ n ∈ g.nodes, lvl n < k → Sat g inp n →
    needsExec s n = false ∧ ∃ args, collect g s n = some args ∧ get? s.values n.output = some (sem n.name args)
  notyet : ∀ n ∈ g.nodes, k ≤ lvl n → get? s.execs n.name = .none ∧ get? s.values n.output = .none
  unsat : ∀ n ∈ g.nodes, ¬ Sat g inp n → get? s.execs n.name = .none ∧ get? s.values n.output = .none

/-! ### generic helpers -/
theorem mem_unique_of_nodup_map {α β} [DecidableEq β] (f : α → β) :
    ∀ (l : List α), (l.map f).Nodup → ∀ x ∈ l, ∀ y ∈ l, f x = f y → x = y
  | [], _, x, hx, _, _, _ => by cases hx
  | a :: l, h, x, hx, y, hy, e => by
    simp only [List.map_cons, List.nodup_cons, List.mem_map, not_exists, not_and] at h
    rcases List.mem_cons.mp hx with rfl | hx' <;> rcases List.mem_cons.mp hy with rfl | hy'
    · rfl
    · exact absurd e.symm (h.1 y hy')
    · exact absurd e (h.1 x hx')
    · exact mem_unique_of_nodup_map f l h.2 x hx' y hy' e

theorem find?_key_of_mem {β} [DecidableEq β] (f : Node → β) (l : List Node) (hnd : (l.map f).Nodup)
    (n : Node) (hn : n ∈ l) : l.find? (fun r => decide (f r = f n)) = some n := by
  cases h : l.find? (fun r => decide (f r = f n)) with
  | none => exact absurd (List.find?_eq_none.mp h n hn) (by simp)
  | some r =>
    have hr := List.mem_of_find?_eq_some h
    have hk : f r = f n := by have := List.find?_some h; simpa using this
    rw [mem_unique_of_nodup_map f l hnd r hr n hn hk]

theorem find?_key_none {β} [DecidableEq β] (f : Node → β) (l : List Node) (k : β)
    (h : ∀ r ∈ l, f r ≠ k) : l.find? (fun r => decide (f r = k)) = .none := by
  apply List.find?_eq_none.mpr
  intro r hr hd; exact h r hr (of_decide_eq_true hd)

theorem get?_map_self (ps : List Name) (f : Name → Nat) (p : Name) (hp : p ∈ ps) :
    get? (ps.map fun q => (q, f q)) p = some (f p) := by
  induction ps with
  | nil => cases hp
  | cons a t ih =>
    simp only [List.map_cons, get?]
    by_cases e : p = a
    · subst e; simp
    · simp only [e, if_false]
      exact ih (by rcases List.mem_cons.mp hp with h | h; exact absurd h e; exact h)

/-- `collect` only looks at the values of the node's own inputs -/
theorem collectL_congr (g : Graph) (s s' : GState) (nd : Node) :
    ∀ ps : List Name, (∀ p ∈ ps, get? s'.values p = get? s.values p) →
      collectL g s' nd ps = collectL g s nd ps := by
  intro ps
  induction ps with
  | nil => intro _; rfl
  | cons p ps ih =>
    intro h
    unfold collectL
    have hp : resolve g s' nd p = resolve g s nd p := by
      unfold resolve; rw [h p (List.mem_cons_self ..)]
    rw [hp, ih (fun q hq => h q (List.mem_cons_of_mem _ hq))]

theorem any_congr_mem {α} (l : List α) (f g : α → Bool) (h : ∀ a ∈ l, f a = g a) : l.any f = l.any g := by
  induction l with
  | nil => rfl
  | cons a t ih =>
    simp only [List.any_cons]
    rw [h a (List.mem_cons_self ..), ih (fun b hb => h b (List.mem_cons_of_mem _ hb))]

theorem needsExec_congr (s s' : GState) (nd : Node)
    (he : get? s'.execs nd.name = get? s.execs nd.name)
    (hv : ∀ p ∈ nd.inputs, ver s' p = ver s p) : needsExec s' nd = needsExec s nd := by
  unfold needsExec
  rw [he]
  cases get? s.execs nd.name with
  | none => rfl
  | some e =>
    simp only [isStale]
    exact any_congr_mem _ _ _ (fun p hp => by rw [hv p hp])
end HGs
