import S4.DagStep
namespace HGs
variable {sem : Name → AL Val → Val} {g : Graph} {inp : AL Val} {lvl : Node → Nat}

theorem ready_sublist (s : GState) : (ready g s).Sublist g.nodes := by
  unfold ready; exact List.filter_sublist

theorem ready_collect {s : GState} {r : Node} (hr : r ∈ ready g s) : (collect g s r).isSome = true := by
  have h := (isReady_iff.mp (mem_ready.mp hr).2).1
  exact collect_of_all g s r r.inputs (by simpa [List.all_eq_true] using h)

/-- the step lemma of C01 -/
theorem inv_step (hW : WF g inp lvl) {k : Nat} {s : GState} (hI : Inv sem g inp lvl k s) :
    Inv sem g inp lvl (k + 1) (stepSync sem g s (ready g s)) := by
  -- facts about the ready list
  let rs := ready g s
  let argsOf : Node → AL Val := fun r => (collect g s r).getD []
  have hall : ∀ r ∈ rs, collect g s r = some (argsOf r) := by
    intro r hr
    have := ready_collect hr
    cases hc : collect g s r with
    | none => simp [hc] at this
    | some a => simp [argsOf, hc]
  have hnames : (rs.map (·.name)).Nodup := (hW.names_nodup).sublist ((ready_sublist s).map _)
  have houts : (rs.map (·.output)).Nodup := (hW.outs_nodup).sublist ((ready_sublist s).map _)
  have hrs : ∀ r, r ∈ rs ↔ r ∈ g.nodes ∧ lvl r = k ∧ Sat g inp r := ready_iff hW hI
  -- a node of g that is not ready shares neither name nor output with a ready node
  have hname_ne : ∀ n ∈ g.nodes, n ∉ rs → ∀ r ∈ rs, r.name ≠ n.name := by
    intro n hn hnr r hr e
    have : r = n := mem_unique_of_nodup_map (·.name) g.nodes hW.names_nodup r ((hrs r).mp hr).1 n hn e
    exact hnr (this ▸ hr)
  have hout_ne : ∀ n ∈ g.nodes, n ∉ rs → ∀ r ∈ rs, r.output ≠ n.output := by
    intro n hn hnr r hr e
    have : r = n := mem_unique_of_nodup_map (·.output) g.nodes hW.outs_nodup r ((hrs r).mp hr).1 n hn e
    exact hnr (this ▸ hr)
  -- inputs of a node at level ≤ k are not produced in this step
  have hin_ne : ∀ n ∈ g.nodes, lvl n ≤ k → ∀ p ∈ n.inputs, ∀ r ∈ rs, r.output ≠ p := by
    intro n hn hl p hp r hr e
    have hrn := (hrs r).mp hr
    have := hW.lvl_lt n hn r hrn.1 (e ▸ hp)
    omega
  -- consequences for a node whose inputs are untouched
  have hkeep : ∀ n ∈ g.nodes, lvl n ≤ k →
      (∀ p ∈ n.inputs, ver (stepSync sem g s rs) p = ver s p) ∧
      collect g (stepSync sem g s rs) n = collect g s n := by
    intro n hn hl
    refine ⟨fun p hp => foldl_ver_other sem g s p rs s (hin_ne n hn hl p hp), ?_⟩
    exact collectL_congr g s _ n n.inputs
      (fun p hp => foldl_values_other sem g s p rs s (hin_ne n hn hl p hp))
  refine ⟨?_, ?_, ?_, ?_⟩
  · -- static values
    intro p hnf
    show get? (rs.foldl (execOne sem g s) s).values p = _
    rw [foldl_values_other sem g s p rs s (fun r hr => hnf r ((hrs r).mp hr).1)]
    exact hI.static_vals p hnf
  · -- done
    intro n hn hl hsat
    obtain ⟨hver, hcol⟩ := hkeep n hn (by omega)
    by_cases hk : lvl n = k
    · -- executed in this very step
      have hr : n ∈ rs := (hrs n).mpr ⟨hn, hk, hsat⟩
      have hex : get? (stepSync sem g s rs).execs n.name = some ⟨n.inputs.map fun p => (p, ver s p)⟩ := by
        show get? (rs.foldl (execOne sem g s) s).execs n.name = _
        rw [foldl_execs sem g s argsOf n.name rs s hnames hall, find?_key_of_mem (·.name) rs hnames n hr]
      refine ⟨?_, argsOf n, ?_, ?_⟩
      · unfold needsExec
        rw [hex]
        simp only [isStale, List.any_eq_false]
        intro p hp
        rw [hver p hp, get?_map_self n.inputs (ver s) p hp]
        simp
      · rw [hcol]; exact hall n hr
      · show get? (rs.foldl (execOne sem g s) s).values n.output = _
        rw [foldl_values sem g s argsOf n.output rs s houts hall, find?_key_of_mem (·.output) rs houts n hr]
    · -- finished earlier: nothing it depends on has moved
      have hlt : lvl n < k := by omega
      have hnr : n ∉ rs := fun h => hk ((hrs n).mp h).2.1
      obtain ⟨hne, args, hc, hv⟩ := hI.done n hn hlt hsat
      have hex : get? (stepSync sem g s rs).execs n.name = get? s.execs n.name := by
        show get? (rs.foldl (execOne sem g s) s).execs n.name = _
        rw [foldl_execs sem g s argsOf n.name rs s hnames hall,
            find?_key_none (·.name) rs n.name (hname_ne n hn hnr)]
      refine ⟨?_, args, ?_, ?_⟩
      · rw [needsExec_congr s _ n hex hver]; exact hne
      · rw [hcol]; exact hc
      · show get? (rs.foldl (execOne sem g s) s).values n.output = _
        rw [foldl_values_other sem g s n.output rs s (hout_ne n hn hnr)]; exact hv
  · -- not yet
    intro n hn hl
    have hnr : n ∉ rs := fun h => by have := ((hrs n).mp h).2.1; omega
    obtain ⟨he, hv⟩ := hI.notyet n hn (by omega)
    constructor
    · show get? (rs.foldl (execOne sem g s) s).execs n.name = _
      rw [foldl_execs sem g s argsOf n.name rs s hnames hall,
          find?_key_none (·.name) rs n.name (hname_ne n hn hnr)]; exact he
    · show get? (rs.foldl (execOne sem g s) s).values n.output = _
      rw [foldl_values_other sem g s n.output rs s (hout_ne n hn hnr)]; exact hv
  · -- unsatisfiable nodes never run
    intro n hn hns
    have hnr : n ∉ rs := fun h => hns ((hrs n).mp h).2.2
    obtain ⟨he, hv⟩ := hI.unsat n hn hns
    constructor
    · show get? (rs.foldl (execOne sem g s) s).execs n.name = _
      rw [foldl_execs sem g s argsOf n.name rs s hnames hall,
          find?_key_none (·.name) rs n.name (hname_ne n hn hnr)]; exact he
    · show get? (rs.foldl (execOne sem g s) s).values n.output = _
      rw [foldl_values_other sem g s n.output rs s (hout_ne n hn hnr)]; exact hv

/-- whole run: with enough fuel the loop reaches quiescence in a state satisfying the invariant
    beyond the last level: every satisfiable node has run on its final arguments, no other node has -/
theorem run_reaches (hW : WF g inp lvl) (H : Nat) (hH : ∀ n ∈ g.nodes, lvl n < H) :
    ∀ (fuel k : Nat) (s : GState), Inv sem g inp lvl k s → H ≤ k + fuel →
      ∃ k', Inv sem g inp lvl k' (runLoop sem g fuel s) ∧ ready g (runLoop sem g fuel s) = [] := by
  intro fuel
  induction fuel with
  | zero =>
    intro k s hI hk
    refine ⟨k, hI, ?_⟩
    simp only [runLoop]
    apply List.eq_nil_iff_forall_not_mem.mpr
    intro n hn
    have := (ready_iff hW hI n).mp hn
    have := hH n this.1
    omega
  | succ fuel ih =>
    intro k s hI hk
    simp only [runLoop]
    cases hr : ready g s with
    | nil => exact ⟨k, hI, hr⟩
    | cons r rs =>
      have := inv_step (sem := sem) hW hI
      rw [hr] at this
      exact ih (k + 1) _ this (by omega)

#print axioms run_reaches
end HGs

namespace HGs
variable {sem : Name → AL Val → Val} {g : Graph} {inp : AL Val} {lvl : Node → Nat}

/-- `initialize_state`: run-time inputs seeded, nothing executed -/
def initState (inp : AL Val) : GState :=
  { values := inp, versions := inp.map fun kv => (kv.1, 1), execs := [] }

theorem inv_init (hdisj : ∀ n ∈ g.nodes, get? inp n.output = .none) :
    Inv sem g inp lvl 0 (initState inp) := by
  refine ⟨fun p _ => rfl, ?_, ?_, ?_⟩
  · intro n _ hl; omega
  · intro n hn _; exact ⟨rfl, hdisj n hn⟩
  · intro n hn _; exact ⟨rfl, hdisj n hn⟩

/-- C01 (reduced model): for an acyclic, gate-free graph with unique producers and no fallback on
    fed parameters, a run with enough iterations ends quiescent; every satisfiable node has run and
    holds `sem` of its (final) arguments, no unsatisfiable node has run or produced anything. -/
theorem dag_run (hW : WF g inp lvl) (hdisj : ∀ n ∈ g.nodes, get? inp n.output = .none)
    (H : Nat) (hH : ∀ n ∈ g.nodes, lvl n < H) (maxIter : Nat) (hfuel : H ≤ maxIter) :
    let s := runLoop sem g maxIter (initState inp)
    ready g s = [] ∧
    (∀ n ∈ g.nodes, Sat g inp n → ∃ args, collect g s n = some args ∧ get? s.values n.output = some (sem n.name args)) ∧
    (∀ n ∈ g.nodes, ¬ Sat g inp n → get? s.execs n.name = .none ∧ get? s.values n.output = .none) := by
  intro s
  obtain ⟨k', hI, hq⟩ := run_reaches (sem := sem) hW H hH maxIter 0 (initState inp) (inv_init hdisj) (by omega)
  refine ⟨hq, ?_, fun n hn hns => hI.unsat n hn hns⟩
  intro n hn hsat
  -- at quiescence no satisfiable node can sit at level ≥ k'
  have hl : lvl n < k' := by
    apply Classical.byContradiction; intro hge
    -- climb: some satisfiable node of level exactly k' would be ready
    have : ∀ d (m : Node), m ∈ g.nodes → Sat g inp m → lvl m = k' + d → False := by
      intro d
      induction d using Nat.strongRecOn with
      | _ d ih =>
        intro m hm hms hml
        by_cases hd : d = 0
        · subst hd
          have : m ∈ ready g s := (ready_iff hW hI m).mpr ⟨hm, by omega, hms⟩
          rw [hq] at this; cases this
        · rcases hW.lvl_tight m hm with h0 | ⟨m', hm', hp, hl'⟩
          · omega
          · cases hms with
            | mk _ _ _ hprod =>
              have hs' := hprod _ hp m' hm' rfl (hW.no_fallback m hm m' hm' hp)
              exact ih (d - 1) (by omega) m' hm' hs' (by omega)
    exact this (lvl n - k') n hn hsat (by omega)
  exact (hI.done n hn hl hsat).2

#print axioms dag_run
end HGs
