import S4.Dag
namespace HGs
variable {sem : Name → AL Val → Val} {g : Graph} {inp : AL Val} {lvl : Node → Nat}

theorem static_false {n : Node} {p : Name} (h : static g inp n p = false) :
    has inp p = false ∧ has g.bound p = false ∧ has n.defaults p = false := by
  unfold static at h
  simp only [Bool.or_eq_false_iff] at h
  exact ⟨h.1.1, h.1.2, h.2⟩

/-- a producer's output is present exactly when it is a satisfiable node of a finished level -/
theorem present_iff {k : Nat} {s : GState} (hI : Inv sem g inp lvl k s) {m : Node} (hm : m ∈ g.nodes) :
    has s.values m.output = true ↔ (lvl m < k ∧ Sat g inp m) := by
  constructor
  · intro h
    have hs : Sat g inp m := by
      apply Classical.byContradiction; intro hns
      have := (hI.unsat m hm hns).2
      simp [has, this] at h
    have hl : lvl m < k := by
      apply Classical.byContradiction; intro hge
      have := (hI.notyet m hm (Nat.le_of_not_lt hge)).2
      simp [has, this] at h
    exact ⟨hl, hs⟩
  · rintro ⟨hl, hs⟩
    obtain ⟨_, args, _, hv⟩ := hI.done m hm hl hs
    simp [has, hv]

theorem hasInput_fed (hW : WF g inp lvl) {k : Nat} {s : GState}
    {n m : Node} (hn : n ∈ g.nodes) (hm : m ∈ g.nodes) (hp : m.output ∈ n.inputs) :
    hasInput g s n m.output = has s.values m.output := by
  obtain ⟨_, h2, h3⟩ := static_false (hW.no_fallback n hn m hm hp)
  simp [hasInput, h2, h3]

theorem hasInput_static {k : Nat} {s : GState} (hI : Inv sem g inp lvl k s)
    {n : Node} {p : Name} (hnf : ∀ m ∈ g.nodes, m.output ≠ p) :
    hasInput g s n p = static g inp n p := by
  unfold hasInput static has
  rw [hI.static_vals p hnf]

theorem mem_ready {s : GState} {n : Node} : n ∈ ready g s ↔ n ∈ g.nodes ∧ isReady g s n = true := by
  unfold ready; exact List.mem_filter

theorem isReady_iff {s : GState} {n : Node} :
    isReady g s n = true ↔ (∀ p ∈ n.inputs, hasInput g s n p = true) ∧ needsExec s n = true := by
  unfold isReady; simp [List.all_eq_true]

/-- the ready set at step `k` is exactly the satisfiable nodes of level `k` -/
theorem ready_iff (hW : WF g inp lvl) {k : Nat} {s : GState} (hI : Inv sem g inp lvl k s) (n : Node) :
    n ∈ ready g s ↔ n ∈ g.nodes ∧ lvl n = k ∧ Sat g inp n := by
  rw [mem_ready, isReady_iff]
  constructor
  · rintro ⟨hn, hall, hne⟩
    -- every fed input is present, hence its producer is Sat and below k
    have hfed : ∀ m ∈ g.nodes, m.output ∈ n.inputs → lvl m < k ∧ Sat g inp m := by
      intro m hm hp
      have := hall _ hp
      rw [hasInput_fed (k := k) hW hn hm hp] at this
      exact (present_iff hI hm).mp this
    have hsat : Sat g inp n := by
      refine Sat.mk n hn ?_ ?_
      · intro p hp
        by_cases hf : ∃ m ∈ g.nodes, m.output = p
        · exact Or.inr hf
        · left
          have hnf : ∀ m ∈ g.nodes, m.output ≠ p := fun m hm e => hf ⟨m, hm, e⟩
          rw [← hasInput_static hI hnf]; exact hall p hp
      · intro p hp m hm e _
        subst e; exact (hfed m hm hp).2
    refine ⟨hn, ?_, hsat⟩
    -- level: not below k (it would be fresh), not above k (tightness)
    have hge : k ≤ lvl n := by
      apply Classical.byContradiction; intro hlt
      have := (hI.done n hn (Nat.lt_of_not_le hlt) hsat).1
      rw [this] at hne; cases hne
    rcases hW.lvl_tight n hn with h0 | ⟨m, hm, hp, hl⟩
    · omega
    · have := (hfed m hm hp).1; omega
  · rintro ⟨hn, hl, hsat⟩
    refine ⟨hn, ?_, ?_⟩
    · intro p hp
      cases hsat with
      | mk _ _ hsrc hprod =>
        rcases hsrc p hp with hst | ⟨m, hm, e⟩
        · by_cases hf : ∃ m ∈ g.nodes, m.output = p
          · obtain ⟨m, hm, e⟩ := hf
            subst e
            have := hW.no_fallback n hn m hm hp
            rw [this] at hst; cases hst
          · have hnf : ∀ m ∈ g.nodes, m.output ≠ p := fun m hm e => hf ⟨m, hm, e⟩
            rw [hasInput_static hI hnf]; exact hst
        · subst e
          rw [hasInput_fed (k := k) hW hn hm hp]
          have hms : Sat g inp m := hprod _ hp m hm rfl (hW.no_fallback n hn m hm hp)
          have hml : lvl m < k := by have := hW.lvl_lt n hn m hm hp; omega
          exact (present_iff hI hm).mpr ⟨hml, hms⟩
    · unfold needsExec
      rw [(hI.notyet n hn (by omega)).1]
end HGs
