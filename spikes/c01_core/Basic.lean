/-! Reduced model of helpers.py / superstep.py / runner loop for function nodes (spike). -/
namespace HGs
abbrev Name := String
inductive Val | none | int (i : Int) | str (s : String) | cons (h t : Val) | sentinel
  deriving DecidableEq, Repr

abbrev AL (α : Type) := List (Name × α)
def get? {α} : AL α → Name → Option α
  | [], _ => .none
  | (a, v) :: t, k => if k = a then some v else get? t k
def put {α} : AL α → Name → α → AL α
  | [], k, v => [(k, v)]
  | (a, w) :: t, k, v => if k = a then (a, v) :: t else (a, w) :: put t k v
def has {α} (m : AL α) (k : Name) : Bool := (get? m k).isSome

structure Node where
  name : Name
  inputs : List Name
  output : Name                 -- single data output (spike)
  defaults : AL Val
  deriving Repr

structure Exec where
  inputVersions : AL Nat

structure GState where
  values : AL Val
  versions : AL Nat
  execs : AL Exec

structure Graph where
  nodes : List Node
  bound : AL Val

def ver (s : GState) (n : Name) : Nat := (get? s.versions n).getD 0

/-- does `update_value` advance the version? -/
def bumps (s : GState) (n : Name) (v : Val) : Bool :=
  match get? s.values n with
  | .none => true
  | some old => decide (old ≠ v)

def updateValue (s : GState) (n : Name) (v : Val) : GState :=
  { s with values := put s.values n v
           versions := if bumps s n v then put s.versions n (ver s n + 1) else s.versions }

/-- `_has_input` -/
def hasInput (g : Graph) (s : GState) (nd : Node) (p : Name) : Bool :=
  has s.values p || has g.bound p || has nd.defaults p

/-- `_is_stale` (no self-producer rule in the spike) -/
def isStale (s : GState) (nd : Node) (e : Exec) : Bool :=
  nd.inputs.any fun p => ver s p != (get? e.inputVersions p).getD 0

def needsExec (s : GState) (nd : Node) : Bool :=
  match get? s.execs nd.name with
  | .none => true
  | some e => isStale s nd e

def isReady (g : Graph) (s : GState) (nd : Node) : Bool :=
  nd.inputs.all (hasInput g s nd) && needsExec s nd

def ready (g : Graph) (s : GState) : List Node := g.nodes.filter (isReady g s)

/-- `get_value_source` + `_resolve_input` (provided values are seeded into the state) -/
def resolve (g : Graph) (s : GState) (nd : Node) (p : Name) : Option Val :=
  (get? s.values p).or ((get? g.bound p).or (get? nd.defaults p))

def collectL (g : Graph) (s : GState) (nd : Node) : List Name → Option (AL Val)
  | [] => some []
  | p :: ps =>
    match resolve g s nd p, collectL g s nd ps with
    | some v, some a => some ((p, v) :: a)
    | _, _ => .none
def collect (g : Graph) (s : GState) (nd : Node) : Option (AL Val) := collectL g s nd nd.inputs

/-- one node of `run_superstep_sync`: inputs from the snapshot `s`, writes to `ns` -/
def execOne (sem : Name → AL Val → Val) (g : Graph) (s ns : GState) (nd : Node) : GState :=
  match collect g s nd with
  | .none => ns
  | some args =>
    let ns1 := updateValue ns nd.output (sem nd.name args)
    { ns1 with execs := put ns1.execs nd.name ⟨nd.inputs.map fun p => (p, ver s p)⟩ }

def stepSync (sem : Name → AL Val → Val) (g : Graph) (s : GState) (rs : List Node) : GState :=
  rs.foldl (execOne sem g s) s

def runLoop (sem : Name → AL Val → Val) (g : Graph) : Nat → GState → GState
  | 0, s => s
  | fuel + 1, s =>
    match ready g s with
    | [] => s
    | rs => runLoop sem g fuel (stepSync sem g s rs)

/-! ### first lemmas -/
theorem get?_put_same {α} (m : AL α) (k : Name) (v : α) : get? (put m k v) k = some v := by
  induction m with
  | nil => simp [put, get?]
  | cons h t ih => obtain ⟨a, w⟩ := h; by_cases e : k = a <;> simp [put, get?, e, ih]
theorem get?_put_ne {α} (m : AL α) (k k' : Name) (v : α) (h : k' ≠ k) : get? (put m k v) k' = get? m k' := by
  induction m with
  | nil => simp [put, get?, h]
  | cons hd t ih =>
    obtain ⟨a, w⟩ := hd
    by_cases e : k = a
    · subst e; simp [put, get?, h]
    · by_cases e' : k' = a <;> simp [put, get?, e, e', ih]

/-- a step never removes a value -/
theorem updateValue_keeps (s : GState) (n k : Name) (v : Val) (h : has s.values k = true) :
    has (updateValue s n v).values k = true := by
  unfold updateValue has at *
  by_cases e : k = n
  · subst e; simp [get?_put_same]
  · simpa [get?_put_ne _ _ _ _ e] using h

theorem execOne_keeps (sem) (g : Graph) (s ns : GState) (nd : Node) (k : Name)
    (h : has ns.values k = true) : has (execOne sem g s ns nd).values k = true := by
  unfold execOne
  split
  · exact h
  · exact updateValue_keeps _ _ _ _ h

theorem stepSync_keeps (sem) (g : Graph) (s : GState) (rs : List Node) (k : Name) :
    ∀ ns, has ns.values k = true → has (rs.foldl (execOne sem g s) ns).values k = true := by
  induction rs with
  | nil => intro ns h; exact h
  | cons r rs ih => intro ns h; exact ih _ (execOne_keeps sem g s ns r k h)

/-- every ready node's output is present after the step (it has all inputs, so `collect` succeeds) -/
theorem resolve_of_hasInput (g : Graph) (s : GState) (nd : Node) (p : Name)
    (h : hasInput g s nd p = true) : (resolve g s nd p).isSome = true := by
  unfold hasInput has at h; unfold resolve
  cases h1 : get? s.values p <;> cases h2 : get? g.bound p <;> cases h3 : get? nd.defaults p <;> simp_all

theorem collect_of_all (g : Graph) (s : GState) (nd : Node) :
    ∀ ps : List Name, ps.all (hasInput g s nd) = true → (collectL g s nd ps).isSome = true := by
  intro ps
  induction ps with
  | nil => intro _; rfl
  | cons p ps ih =>
    intro h
    simp only [List.all_cons, Bool.and_eq_true] at h
    have h1 := resolve_of_hasInput g s nd p h.1
    have h2 := ih h.2
    unfold collectL
    cases hr : resolve g s nd p with
    | none => simp [hr] at h1
    | some v =>
      cases hc : collectL g s nd ps with
      | none => simp [hc] at h2
      | some a => simp

theorem ready_output_present (sem) (g : Graph) (s : GState) (nd : Node)
    (hr : nd ∈ ready g s) : has (stepSync sem g s (ready g s)).values nd.output = true := by
  unfold stepSync
  have hrd : isReady g s nd = true := (List.mem_filter.mp hr).2
  have hall : nd.inputs.all (hasInput g s nd) = true := by
    unfold isReady at hrd; simp only [Bool.and_eq_true] at hrd; exact hrd.1
  have hc : (collect g s nd).isSome = true := collect_of_all g s nd nd.inputs hall
  -- generalise over the fold
  suffices ∀ (rs : List Node) (ns : GState), nd ∈ rs →
      has (rs.foldl (execOne sem g s) ns).values nd.output = true from this _ _ hr
  intro rs
  induction rs with
  | nil => intro ns h; cases h
  | cons r rs ih =>
    intro ns h
    rcases List.mem_cons.mp h with rfl | h'
    · rw [List.foldl_cons]
      apply stepSync_keeps
      unfold execOne
      cases hcc : collect g s nd with
      | none => simp [hcc] at hc
      | some args => simp [has, updateValue, get?_put_same]
    · rw [List.foldl_cons]; exact ih _ h'
#print axioms ready_output_present

/-! ### characterisation of a superstep's values (core of C01 / C02) -/
theorem execOne_values (sem) (g : Graph) (s ns : GState) (nd : Node) (args : AL Val)
    (hc : collect g s nd = some args) (k : Name) :
    get? (execOne sem g s ns nd).values k =
      if k = nd.output then some (sem nd.name args) else get? ns.values k := by
  unfold execOne
  simp only [hc, updateValue]
  by_cases e : k = nd.output
  · subst e; simp [get?_put_same]
  · simp [e, get?_put_ne _ _ _ _ e]

theorem foldl_values (sem) (g : Graph) (s : GState) (argsOf : Node → AL Val) (k : Name) :
    ∀ (rs : List Node) (ns : GState),
      (rs.map (·.output)).Nodup → (∀ r ∈ rs, collect g s r = some (argsOf r)) →
      get? (rs.foldl (execOne sem g s) ns).values k =
        match rs.find? (fun r => decide (r.output = k)) with
        | some r => some (sem r.name (argsOf r))
        | .none => get? ns.values k := by
  intro rs
  induction rs with
  | nil => intro ns _ _; rfl
  | cons r rs ih =>
    intro ns hnd hall
    simp only [List.map_cons, List.nodup_cons] at hnd
    rw [List.foldl_cons, ih _ hnd.2 (fun r' hr' => hall r' (List.mem_cons_of_mem _ hr'))]
    have hr := hall r (List.mem_cons_self ..)
    simp only [List.find?_cons]
    by_cases e : r.output = k
    · -- r produces k: nobody later does (unique outputs in the step)
      have : rs.find? (fun r' => decide (r'.output = k)) = .none := by
        apply List.find?_eq_none.mpr
        intro r' hr' hd
        have : r'.output = k := of_decide_eq_true hd
        exact hnd.1 (by rw [e, ← this]; exact List.mem_map_of_mem hr')
      simp [this, e, execOne_values sem g s ns r _ hr]
    · have e' : ¬ k = r.output := fun h => e h.symm
      cases hf : rs.find? (fun r' => decide (r'.output = k)) with
      | some r' => simp [e]
      | none => simp [e, execOne_values sem g s ns r _ hr, e']

/-- values after a sync superstep do not depend on the order of the ready list (unique outputs) -/
theorem stepSync_values_perm (sem) (g : Graph) (s : GState) (argsOf : Node → AL Val)
    (rs rs' : List Node) (hp : rs.Perm rs') (hnd : (rs.map (·.output)).Nodup)
    (hall : ∀ r ∈ rs, collect g s r = some (argsOf r)) (k : Name) :
    get? (stepSync sem g s rs).values k = get? (stepSync sem g s rs').values k := by
  have hnd' : (rs'.map (·.output)).Nodup := (hp.map _).nodup_iff.mp hnd
  have hall' : ∀ r ∈ rs', collect g s r = some (argsOf r) := fun r hr => hall r (hp.mem_iff.mpr hr)
  unfold stepSync
  rw [foldl_values sem g s argsOf k rs s hnd hall, foldl_values sem g s argsOf k rs' s hnd' hall']
  -- both `find?` pick the unique producer of k, if any
  cases h1 : rs.find? (fun r => decide (r.output = k)) with
  | none =>
    have : rs'.find? (fun r => decide (r.output = k)) = .none := by
      apply List.find?_eq_none.mpr
      intro r hr; exact List.find?_eq_none.mp h1 r (hp.mem_iff.mpr hr)
    simp [this]
  | some r =>
    have hr := List.mem_of_find?_eq_some h1
    have hk : r.output = k := by have := List.find?_some h1; simpa using this
    cases h2 : rs'.find? (fun r => decide (r.output = k)) with
    | none => exact absurd (List.find?_eq_none.mp h2 r (hp.mem_iff.mp hr)) (by simp [hk])
    | some r' =>
      have hr' := List.mem_of_find?_eq_some h2
      have hk' : r'.output = k := by have := List.find?_some h2; simpa using this
      -- same output name within a Nodup-output list => same node
      have : r' = r := by
        have hmem : r' ∈ rs := hp.mem_iff.mpr hr'
        clear h1 h2 hall hall' hnd' hp hr'
        induction rs with
        | nil => cases hr
        | cons a t ih =>
          simp only [List.map_cons, List.nodup_cons] at hnd
          rcases List.mem_cons.mp hr with e1 | h1t
          · rcases List.mem_cons.mp hmem with e2 | h2t
            · rw [e1, e2]
            · have hm' : r'.output ∈ t.map (·.output) := List.mem_map_of_mem h2t
              rw [hk', ← hk, e1] at hm'; exact absurd hm' hnd.1
          · rcases List.mem_cons.mp hmem with e2 | h2t
            · have hr' : r.output ∈ t.map (·.output) := List.mem_map_of_mem h1t
              rw [hk, ← hk', e2] at hr'; exact absurd hr' hnd.1
            · exact ih hnd.2 h1t h2t
      simp [this]
#print axioms stepSync_values_perm
end HGs
