namespace Rn
abbrev Name := String
abbrev Batch := List (Name × Name)   -- (old, new)
abbrev AMap := List (Name × Name)

def get? : AMap → Name → Option Name
  | [], _ => none
  | (a, v) :: t, k => if k = a then some v else get? t k

def look (m : AMap) (k : Name) : Name := (get? m k).getD k

theorem get?_append (a b : AMap) (k : Name) : get? (a ++ b) k = (get? a k).or (get? b k) := by
  induction a with
  | nil => simp [get?]
  | cons h t ih =>
    obtain ⟨x, v⟩ := h
    simp only [List.cons_append, get?]
    split <;> simp [ih]

def trackStep (t : List (Name × Name)) (b : Batch) : List (Name × Name) :=
  t.map fun p => (p.1, look b p.2)

def revStep (m : AMap) (b : Batch) : AMap :=
  (b.map fun p => (p.2, look m p.1)) ++ m

def curs (t : List (Name × Name)) : List Name := t.map (·.2)

structure ValidBatch (t : List (Name × Name)) (b : Batch) : Prop where
  olds_cur : ∀ p ∈ b, p.1 ∈ curs t
  olds_nodup : (b.map (·.1)).Nodup
  res_nodup : (curs (trackStep t b)).Nodup

def Inv (t : List (Name × Name)) (m : AMap) : Prop :=
  (curs t).Nodup ∧ ∀ p ∈ t, look m p.2 = p.1

theorem get?_map_new (m : AMap) (b : Batch) (c' : Name) :
    get? (b.map fun p => (p.2, look m p.1)) c' =
      (b.find? (fun p => decide (c' = p.2))).map (fun p => look m p.1) := by
  induction b with
  | nil => simp [get?]
  | cons h tl ih =>
    simp only [List.map_cons, get?, List.find?_cons]
    by_cases hh : c' = h.2 <;> simp [hh, ih]

theorem get?_of_mem (b : Batch) (hnd : (b.map (·.1)).Nodup) (p : Name × Name) (hp : p ∈ b) :
    get? b p.1 = some p.2 := by
  induction b with
  | nil => cases hp
  | cons h tl ih =>
    obtain ⟨a, v⟩ := h
    simp only [List.map_cons, List.nodup_cons] at hnd
    simp only [get?]
    rcases List.mem_cons.mp hp with rfl | hm
    · simp
    · have : p.1 ≠ a := by
        intro e; apply hnd.1; rw [← e]; exact List.mem_map_of_mem hm
      simp only [this, if_false]
      exact ih hnd.2 hm

theorem get?_not_old (b : Batch) (c : Name) (h : ∀ p ∈ b, p.1 ≠ c) : get? b c = none := by
  induction b with
  | nil => simp [get?]
  | cons hd tl ih =>
    obtain ⟨a, v⟩ := hd
    simp only [get?]
    have : c ≠ a := fun e => h (a, v) (List.mem_cons_self ..) e.symm
    simp only [this, if_false]
    exact ih (fun p hp => h p (List.mem_cons_of_mem _ hp))

theorem inj_of_nodup_map {α β} (f : α → β) : ∀ (l : List α), (l.map f).Nodup →
    ∀ x ∈ l, ∀ y ∈ l, f x = f y → x = y
  | [], _, x, hx, _, _, _ => by cases hx
  | a :: l, h, x, hx, y, hy, e => by
    simp only [List.map_cons, List.nodup_cons, List.mem_map, not_exists, not_and] at h
    rcases List.mem_cons.mp hx with rfl | hx' <;> rcases List.mem_cons.mp hy with rfl | hy'
    · rfl
    · exact absurd e.symm (h.1 y hy')
    · exact absurd e (h.1 x hx')
    · exact inj_of_nodup_map f l h.2 x hx' y hy' e

theorem inv_step (t : List (Name × Name)) (m : AMap) (b : Batch)
    (hI : Inv t m) (hv : ValidBatch t b) : Inv (trackStep t b) (revStep m b) := by
  refine ⟨hv.res_nodup, ?_⟩
  intro p' hp'
  obtain ⟨p, hp, rfl⟩ := List.mem_map.mp hp'
  show look (revStep m b) (look b p.2) = p.1
  have hinj : ∀ q ∈ t, look b q.2 = look b p.2 → q = p := by
    intro q hq he
    have hnd := hv.res_nodup
    unfold curs trackStep at hnd
    rw [List.map_map] at hnd
    exact inj_of_nodup_map _ t hnd q hq p hp (by simpa using he)
  unfold revStep
  show ((get? _ _).getD _) = _
  rw [get?_append, get?_map_new]
  cases hf : b.find? (fun q => decide (look b p.2 = q.2)) with
  | none =>
    simp only [Option.map_none, Option.none_or]
    have hnone := List.find?_eq_none.mp hf
    have hnot : ∀ q ∈ b, q.1 ≠ p.2 := by
      intro q hq e
      have h1 : look b q.1 = q.2 := by simp [look, get?_of_mem b hv.olds_nodup q hq]
      have := hnone q hq
      simp [← e, h1] at this
    have h2 : look b p.2 = p.2 := by simp [look, get?_not_old b p.2 hnot]
    rw [h2]
    exact hI.2 p hp
  | some q =>
    simp only [Option.map_some, Option.some_or, Option.getD_some]
    have hq := List.find?_some hf
    have hqm := List.mem_of_find?_eq_some hf
    have hqc := hv.olds_cur q hqm
    obtain ⟨r, hr, hr2⟩ := List.mem_map.mp hqc
    have h1 : look b q.1 = q.2 := by simp [look, get?_of_mem b hv.olds_nodup q hqm]
    have h2 : look b r.2 = look b p.2 := by
      rw [hr2, h1]; exact (of_decide_eq_true hq).symm
    have := hinj r hr h2
    subst this
    rw [← hr2]
    exact hI.2 r hr

def track (t0 : List (Name × Name)) (hist : List Batch) : List (Name × Name) := hist.foldl trackStep t0
def revMap (hist : List Batch) : AMap := hist.foldl revStep []

inductive ValidHist : List (Name × Name) → List Batch → Prop
  | nil (t) : ValidHist t []
  | cons (t b bs) : ValidBatch t b → ValidHist (trackStep t b) bs → ValidHist t (b :: bs)

theorem reverse_correct_aux (t : List (Name × Name)) (m : AMap) (hist : List Batch)
    (hI : Inv t m) (hv : ValidHist t hist) : Inv (hist.foldl trackStep t) (hist.foldl revStep m) := by
  induction hist generalizing t m with
  | nil => simpa
  | cons b bs ih =>
    cases hv with
    | cons _ _ _ hb hbs => exact ih _ _ (inv_step t m b hI hb) hbs

theorem reverse_correct (names : List Name) (hnd : names.Nodup) (hist : List Batch)
    (hv : ValidHist (names.map fun n => (n, n)) hist) :
    ∀ p ∈ track (names.map fun n => (n, n)) hist, look (revMap hist) p.2 = p.1 := by
  have h0 : Inv (names.map fun n => (n, n)) [] := by
    refine ⟨?_, ?_⟩
    · have : curs (names.map fun n => (n, n)) = names := by simp [curs, List.map_map, Function.comp_def]
      rw [this]; exact hnd
    · intro p hp; obtain ⟨n, _, rfl⟩ := List.mem_map.mp hp; simp [look, get?]
  exact (reverse_correct_aux _ _ hist h0 hv).2

#print axioms reverse_correct

-- the OLD GraphNode resolver (walk history backwards, ignoring batches) is wrong on a swap
def oldResolve (hist : List Batch) (c : Name) : Name :=
  (hist.flatten.reverse).foldl (fun cur e => if e.2 = cur then e.1 else cur) c
example : oldResolve [[("x","y"),("y","x")]] "x" = "x" ∧ look (revMap [[("x","y"),("y","x")]]) "x" = "y" := by decide
end Rn
