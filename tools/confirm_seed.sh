#!/bin/sh
# usage: tools/confirm_seed.sh <dir with patch.diff + demo.py> <seed id e.g. C10-1> <property id>
# Confirms in a scratch worktree: demo passes without the change, fails with it, the existing suite still passes with it.
set -u
SRC="$1"; SID="$2"; PROP="$3"
WT="${TMPDIR:-/tmp}/hg_cs_$$"
cd "$(dirname "$0")/.." || exit 2
git -C /repo worktree add -q --detach "$WT" HEAD || exit 2
trap 'git -C /repo worktree remove --force "$WT" >/dev/null 2>&1; rm -f "$WT".*.txt' EXIT
PYTHONPATH="$WT/src" /venv/bin/python "$SRC/demo.py" >$WT.demo0.txt 2>&1; D0=$?
(cd "$WT" && git apply "$SRC/patch.diff") || { echo "patch does not apply"; exit 2; }
PYTHONPATH="$WT/src" /venv/bin/python "$SRC/demo.py" >$WT.demo1.txt 2>&1; D1=$?
(cd "$WT" && PYTHONPATH="$WT/src" /venv/bin/python -m pytest -q -p no:cacheprovider -x -n 8 --timeout=900 >$WT.suite.txt 2>&1); S=$?
echo "demo without change: exit $D0; with change: exit $D1; suite with change: exit $S"
if [ "$D0" = 0 ] && [ "$D1" != 0 ] && [ "$S" = 0 ]; then
  mkdir -p "seeded/$SID"; cp "$SRC/patch.diff" "$SRC/demo.py" "seeded/$SID/"
  echo "confirmed -> seeded/$SID"
else
  echo "NOT confirmed"; tail -5 $WT.demo0.txt $WT.demo1.txt $WT.suite.txt
fi
