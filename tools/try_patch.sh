#!/bin/sh
# usage: tools/try_patch.sh <patch-file | revert:<sha>> <Cxx> [tier]
# Applies a change to a scratch worktree of /repo (outside /repo and /verif), runs the check against it via HG_REPO, removes the worktree.
set -u
SPEC="$1"; PROP="$2"; TIER="${3:-quick}"
WT="${TMPDIR:-/tmp}/hg_wt_$$"
cd "$(dirname "$0")/.." || exit 2
git -C /repo worktree add -q --detach "$WT" HEAD || exit 2
trap 'git -C /repo worktree remove --force "$WT" >/dev/null 2>&1' EXIT
case "$SPEC" in
  revert:*) (cd "$WT" && git revert --no-commit "${SPEC#revert:}" >/dev/null 2>&1) || { echo "revert failed"; exit 2; } ;;
  *) (cd "$WT" && git apply "$(cd "$OLDPWD" && realpath "$SPEC")") || { echo "patch failed"; exit 2; } ;;
esac
HG_REPO="$WT" ./check "$PROP" "$TIER"
echo "exit=$?"
