#!/bin/sh
# usage: tools/run_seeded.sh [tier] [jobs]   — every seeded change against its property's check (scratch worktree each; /repo untouched)
# honours VERIF_SEED; a seed's meta.json may name another property's check in "check" (default: the property it breaks)
cd "$(dirname "$0")/.." || exit 2
TIER="${1:-quick}"; JOBS="${2:-4}"
ls -d seeded/*/ | xargs -P "$JOBS" -I{} sh -c '
  d={}; sid=$(basename "$d"); prop=$(python3 -c "import json,sys;m=json.load(open(\"$d/meta.json\"));print(m.get(\"check\",m[\"breaks\"]))")
  out=$(tools/try_patch.sh "$d/patch.diff" "$prop" '"$TIER"' 2>&1 | tail -1)
  echo "$sid $prop $out"' | sort
