#!/bin/sh
# usage: tools/run_seeded.sh [tier]   — every seeded change against its property's check (scratch worktree each; /repo untouched)
cd "$(dirname "$0")/.." || exit 2
TIER="${1:-quick}"
for d in seeded/*/; do
  sid=$(basename "$d"); prop=${sid%%-*}
  out=$(tools/try_patch.sh "$d/patch.diff" "$prop" "$TIER" 2>&1 | tail -1)
  echo "$sid $out"
done
