#!/bin/sh
# usage: tools/triage_seed.sh <Cxx> [outdir-prefix]  — run each candidate change of a seeding batch against the property's quick check
P="$1"; PRE="${2:-/tmp/seedout6_}"
cd "$(dirname "$0")/.." || exit 2
for d in ${PRE}${P}/change_*; do
  [ -f "$d/patch.diff" ] || continue
  r=$(tools/try_patch.sh "$d/patch.diff" "$P" quick 2>&1 | tail -2 | tr '\n' ' ')
  echo "$P $(basename $d): $r"
done
