#!/usr/bin/env python3
"""Build lean/props_index.json from the property files: every `theorem` in HG/Props/<file> is an obligation."""
import json, re
from pathlib import Path
ROOT = Path(__file__).resolve().parent.parent
FILES = {
    "C01": ["C01"], "C02": ["C02"], "C03": ["C03"], "C04": ["C04"], "C05": ["C05"], "C06": ["C06"], "C07": ["C07"],
    "C08": ["C08"], "C09": ["C09", "C09DefHash"], "C10": ["C10"], "C11": ["C11"], "C12": ["C12"], "C13": ["C13"], "C14": ["C14"],
    "C15": ["C15"], "C16": ["C16"], "C17": ["C17"], "C18": ["C18", "C18Nested"], "C19": ["C19", "C19Compat"], "C20": ["C20"],
}
idx = {}
for pid, files in FILES.items():
    mods, thms = [], []
    for f in files:
        p = ROOT / "lean" / "HG" / "Props" / f"{f}.lean"
        if not p.exists():
            continue
        mods.append(f"HG.Props.{f}")
        src = re.sub(r'/-.*?-/', lambda m: '\n' * m.group(0).count('\n'), p.read_text(), flags=re.S)
        ns = []
        for line in src.splitlines():
            m = re.match(r"^namespace\s+(\S+)", line)
            if m:
                ns.append(m.group(1)); continue
            m = re.match(r"^end\s+(\S+)", line)
            if m and ns and ns[-1].split(".")[-1] == m.group(1).split(".")[-1]:
                ns.pop(); continue
            m = re.match(r"^theorem\s+([^\s:({\[]+)", line)
            if m:
                name = ".".join(ns + [m.group(1)])
                thms.append({"name": name, "strength": "partial" if name.endswith("_partial") else "full"})
    idx[pid] = {"modules": mods, "theorems": thms}
(ROOT / "lean" / "props_index.json").write_text(json.dumps(idx, indent=1) + "\n")
print({k: len(v["theorems"]) for k, v in idx.items()})
