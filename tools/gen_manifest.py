#!/usr/bin/env python3
"""Regenerate MANIFEST.json from the table below (keeps it schema-valid at all times)."""
import json
from pathlib import Path

ROOT = Path(__file__).resolve().parent.parent
PROPS = [json.loads(l) for l in (ROOT / "properties.jsonl").read_text().splitlines() if l.strip()]

BASE_NOTE = ("Trusted: Lean 4.33 kernel; axioms propext/Classical.choice/Quot.sound only (audited per run); the hand-written model's "
             "faithfulness is checked, not assumed, by the differential correspondence on generated cases; Python harness and driver glue; "
             "CPython/networkx/asyncio as documented. ")

# id -> (category, technique, level text, level note, design ref)
CLAIMED = {
    "C06": ("proof", "Lean 4 proof: invariant over rename histories (ground-truth tracking) + differential correspondence",
            "Kernel-checked theorems for ALL valid rename histories (any number of batches, swaps, chains, re-used names): reverse/forward maps, "
            "nested-graph resolvers, argument delivery and map_over translation are correct; negative witnesses for the two repaired defects. "
            "Tie to code: random histories applied through the public API on function, gate, interrupt and nested-graph nodes, compared with the model "
            "and judged by a ground-truth oracle.",
            BASE_NOTE + "Whole-interpreter alpha-equivariance is exercised by correspondence only.", "DESIGN.md §7 C06"),
}

NOT_YET = "not yet claimed: check under construction (see DESIGN.md section 7)"


def main() -> None:
    checks = []
    for pid, (cat, tech, text, note, ref) in CLAIMED.items():
        checks.append({
            "property_id": pid,
            "quick_cmd": f"./check {pid} quick",
            "thorough_cmd": f"./check {pid} thorough",
            "evidence_file": f"evidence/{pid}.json",
            "replay_cmd_template": f"./check {pid} --replay {{path}}",
            "engine": "lean-model+correspondence",
            "level_claimed": {"category": cat, "text": text, "design_ref": ref},
            "level_note": note,
            "technique": tech,
        })
    na = [{"property_id": p["id"], "reason": NOT_YET} for p in PROPS if p["id"] not in CLAIMED]
    m = {
        "version": 1,
        "setup_cmd": "./setup.sh",
        "hooks": {
            "guard": "HYPERGRAPH_VERIF",
            "enable": "none needed: all instrumentation lives in the harness (public API only); HG_REPO=<dir> points the harness at another checkout",
            "baseline_off_cmd": "cd /repo && /venv/bin/python -m pytest -ra -q -p no:cacheprovider --timeout=900 --continue-on-collection-errors",
            "source_commits": [],
            "add_only": True,
        },
        "engines": [{
            "name": "lean-model+correspondence", "path": "lean/ + harness/",
            "serves_properties": sorted(CLAIMED),
            "kind_free_text": "Lean 4 executable model with kernel-checked theorems (lean/HG); compiled JSON line-protocol driver (lean/Driver); "
                              "Python differential correspondence harness driving the real code through its public API (harness/)",
        }],
        "checks": checks,
        "notes": "Properties move from not_applicable into checks as their model, theorems and correspondence are built. "
                 "9 genuine defects were repaired by fix: commits in /repo (see known_findings.json, DESIGN.md §9).",
        "not_applicable": na,
    }
    (ROOT / "MANIFEST.json").write_text(json.dumps(m, indent=1) + "\n")


if __name__ == "__main__":
    main()
