#!/usr/bin/env python3
"""Regenerate MANIFEST.json from the table below (keeps it schema-valid at all times)."""
import json
from pathlib import Path

ROOT = Path(__file__).resolve().parent.parent
PROPS = [json.loads(l) for l in (ROOT / "properties.jsonl").read_text().splitlines() if l.strip()]

BASE_NOTE = ("Trusted: Lean 4.33 kernel; axioms propext/Classical.choice/Quot.sound only (audited per run); the hand-written model's "
             "faithfulness is checked, not assumed, by the differential correspondence on generated cases; Python harness and driver glue; "
             "CPython/networkx/asyncio as documented. ")

# id -> (category, technique, level text, level note, design ref)
CLAIMED = {
    "C01": ("proof", "Lean 4 proof: level-invariant induction over supersteps (run = dependency-order fixed point) + differential correspondence",
            "Kernel-checked: for every acyclic, gate-free, function-node graph with unique producers (multi-output and emit outputs included), every total sem and "
            "every input, the runner loop ends quiescent within height+1 steps in the unique fixed point of dependency-order evaluation; every satisfiable node is "
            "called exactly once with its final arguments, unsatisfiable nodes never run and produce nothing (dag_run, dag_exactly_once, dag_run_result, "
            "resolve_precedence). Tie: random DAG programs (nesting, renames, bindings, defaults, emit/wait_for) run on both real runners, compared with the model and "
            "with an independent dependency-order evaluator.",
            BASE_NOTE + "Theorem hypotheses: no default/bound/run-time value on an edge-fed parameter (the count claim), no wait_for, function nodes; nested graphs, "
            "wait_for and fed defaults are covered by the correspondence and the oracle. Known finding C01-F1 (default-fed waiter not re-run).", "DESIGN.md §7 C01"),
    "C02": ("proof", "Lean 4 proof: snapshot reads + commutation of disjoint updates; schedule as permutation; run-level induction + correspondence on a controllable event loop",
            "Kernel-checked: a node's computation never depends on step-siblings; stepAsync is independent of the completion order (state up to dict order, same error, "
            "same pause); stepSync = stepAsync when no node fails; first error identical; whole programs (nested, mapped) give the same status/error/values under sync "
            "and async for every schedule (run_sync_eq_async_prog, map_sync_eq_async_prog); ready set invariant under node-list permutation. Tie: every case runs sync, "
            "async under fifo/lifo/random completion orders x max_concurrency {None,1,2,3} x permuted node lists on the real runners.",
            BASE_NOTE + "Real asyncio scheduling is replaced by a controllable loop: suspension only inside node bodies. Failing continue-mode values: async returns a "
            "superset of sync's partial values (proved; the property only requires that).", "DESIGN.md §7 C02"),
    "C03": ("proof", "Lean 4 proof: safety invariant of the ready set (activation, blocked targets, END terminal) lifted to step logs + correspondence with trace oracle",
            "Kernel-checked over arbitrary graphs and states: a gated node is ready only if a controlling gate's current decision names it or a never-executed default-open "
            "gate is undecided; a gate and its target never start in the same step; END is never cleared; closed gates need an explicit current decision; every NodeStart "
            "of a step names a ready node (any nesting depth). Tie: gated DAGs and loops on both runners, event-trace justification oracle and exact selected-branches oracle.",
            BASE_NOTE + "ready_is_activated needs distinct decision keys (an invariant of reachable states, proved preserved).", "DESIGN.md §7 C03"),
    "C04": ("proof", "Lean 4 proof: fuel bound (general) + induction on iteration count for loop families + correspondence against a sequential while-loop",
            "Kernel-checked: runLoop never exceeds max_iterations and ends quiescent, failed, paused or with InfiniteLoopError carrying the state so far (loop_outcomes, "
            "steps_le, limit_reports_infinite_loop); for loop families with body length 1 (if/else, route, exit node, signal-synchronised) and arbitrary body function, "
            "condition, start value and n: exactly 2n+1 steps, n body calls, n+1 gate calls, final value F^n(x0), and the exact limit state otherwise. Tie: families with body "
            "length 1-3, accumulators, both default_open settings, max_iterations around the exact bound, both runners, against a Python while-loop.",
            BASE_NOTE + "Partial: families, not arbitrary cyclic programs; Progress hypothesis (known finding C04-F1: stall when an intermediate value repeats). Float loop states "
            "(integral floats far from the unit scale) are judged by the Python-side sequential loop only: floats are outside the model's value universe.", "DESIGN.md §7 C04"),
    "C05": ("proof", "Lean 4 proof: refinement of a nested run to the inlined run (value level, any nesting depth) + input-spec equality + flat-vs-nested differential correspondence",
            "Kernel-checked over arbitrary programs of the run model: a nested-graph node behaves as the function computed by its inner run (graphnode_as_function); wrapping a "
            "dependency-closed group of a gate-free acyclic graph leaves the reported inputs unchanged (nest_inputspec_eq, also through elaboration) and the run's outputs "
            "unchanged (nest_run_eq, nest_values_eq_renamed under interface renames undone by the wiring), lifted to any nesting depth (nest_depth). Tie: random DAGs x random "
            "convex cuts nested to depth 1-3, with wrapper renames, with bindings moved onto the inner graph or bound at both levels, flat vs nested on the real code "
            "(input spec, status, values, invocation counts, both runners) and each side against the model.",
            BASE_NOTE + "Partial: the value-level theorem assumes gate-free, signal-free groups (nest_values_eq_partial names the hypothesis); ordering signals that cross the "
            "nesting boundary are not delivered by the real code (known finding C05-F1) and are kept out of the random stream.", "DESIGN.md §7 C05"),
    "C07": ("proof", "Lean 4 proof: frame invariant over a heap model of graph/node objects (every derivation allocates, none writes) + history correspondence",
            "Kernel-checked for ALL histories of derivation operations (bind, unbind, select, with_entrypoint, add_nodes, as_node, with_name, with_inputs, with_outputs, "
            "map_over) interleaved with cache-filling reads: every operation returns a fresh object (fresh), only appends to the heap (only_appends), leaves the observation "
            "of every existing object unchanged (frame, frame_seq, frame_reachable), siblings derived from a common ancestor are independent, lazily cached views stay "
            "coherent with the fields they are computed from; an aliasing variant of copy is refuted by a concrete witness. Tie: random histories run on real objects; after "
            "EVERY operation the public observation and BEHAVIOUR (argument routing, structure hash, result of running it) of EVERY object created so far is compared with "
            "its snapshot and with the heap model.",
            BASE_NOTE + "The heap model abstracts a wrapper's inputs as the inner graph's free parameters; wrappers of graphs with entry points or a selection are judged by "
            "the snapshot oracle only. One defect repaired (add_nodes() without nodes returned the receiver: the excluded point of the theorem `fresh`); the oracle also "
            "repeats every operation at the end of the history (sibling independence).", "DESIGN.md §7 C07"),
    "C18": ("proof", "Lean 4 proof: invariant over run histories of a memory model with object identity (default cells never escape) + replay of the REAL call schedule through the model",
            "Kernel-checked for ALL interleavings of any number of runs (defaults_never_escape, _runMany, _sched): no reference to a signature default object is ever "
            "handed to a function, so every default-valued argument arrives with the pristine content (result_from_initial) and repeated or concurrent runs with equal inputs "
            "give equal results (repeat_equal, repeat_equal_defaults); the caller's mappings are never written (inputs_untouched); bound objects arrive by identity "
            "(bound_by_identity); the variant without the deep copy is refuted (no_copy_leaks_witness). Tie: histories of 2-6 runs over generated graphs whose functions "
            "mutate default / bound / provided arguments, flat, nested and nested+mapped (clone False/True/list), same or fresh runner, sync, async sequential, async "
            "concurrent under random interleavings; the real call order is replayed through the Lean model and every call's argument contents, results, object identities "
            "and the final caller-visible memory are compared; an implementation-side oracle states the property directly.",
            BASE_NOTE + "Nested and mapped shapes are covered by a second, nested memory model (HG.IsoN, sub nodes executed atomically; theorems "
            "defaults_never_escape_nested, result_from_initial_nested, bound_by_identity_nested, clone_is_fresh, inputs_untouched_nested, flat_embedding, "
            "and the pre-repair behaviour refuted by shared_default_across_items_witness); a nested case is compared call by call when the real inner call "
            "order equals the model's (about two thirds of them), otherwise, and for immutable twins of a default, the oracle alone judges. Two genuine "
            "defects were repaired (fix 800d549: defaults shared between map items; inner bindings cloned under clone=True).", "DESIGN.md §7 C18"),
    "C06": ("proof", "Lean 4 proof: invariant over rename histories (ground-truth tracking) + differential correspondence",
            "Kernel-checked theorems for ALL valid rename histories (any number of batches, swaps, chains, re-used names): reverse/forward maps, "
            "nested-graph resolvers, argument delivery and map_over translation are correct; negative witnesses for the two repaired defects. "
            "Tie to code: random histories applied through the public API on function, gate, interrupt and nested-graph nodes, compared with the model "
            "and judged by a ground-truth oracle; histories whose first rename call must be the first of the PROCESS are played in a fresh interpreter.",
            BASE_NOTE + "Whole-interpreter alpha-equivariance is exercised by correspondence only.", "DESIGN.md §7 C06"),
    "C08": ("proof", "Lean 4 proof: set reasoning over the input-spec model; validate-before-execute + correspondence over configurations x omitted inputs",
            "Kernel-checked over arbitrary graphs: required/optional/entry-point parameters are pairwise disjoint and exactly characterised; bind removes from required "
            "and adds to optional, unbind restores; a rejected call produces no run at all (validation strictly precedes execution); run-time select names are validated; "
            "acyclic sufficiency; an accepted call covers every required name except through the bypass rule; inner bindings surface only under the wrapper's current "
            "names (negative witness for the repaired leak). Tie: generated graphs x bind/select/with_entrypoint/run-time select, all required supplied vs each single "
            "required omitted (MissingInputError, zero calls, zero events), both runners.",
            BASE_NOTE + "necessary_partial carries NoOutputProvided (bypass rule); sufficient_dag assumes bound keys lie in the spec — the excluded points are the known findings "
            "C08-F1 (entry-point by-pass) and C08-F2 (a bound name that the graph itself produces), both matched by mechanism.", "DESIGN.md §7 C08"),
    "C09": ("proof", "Lean 4 proof: LRU refinement to a map; HMAC gate under an arbitrary adversary; cache-sound invariant + correspondence (op logs, disk scenarios, cached vs uncached runs)",
            "Kernel-checked: the LRU never exceeds max_size, returns only the latest value stored under the key, retains recently used keys; DiskCache.get is total, "
            "deserialises only authenticated bytes, treats every other state (bit flip, truncation, type change, missing slot, torn write, stale tag) as a miss and evicts; "
            "no forgery under MAC assumptions; the repaired key is injective in definition/class/outputs/targets/arguments; cached execution equals uncached execution under "
            "CacheSound and never re-invokes on a hit; lifted to whole sync runs and to SEQUENCES of runs sharing one cache of any capacity (cached_run_transparent, "
            "cached_runs_sequence_transparent, cached_run_no_extra_calls: same status, values, error, pause, routing; calls a sublist of the uncached ones; the final cache "
            "sound again), the None-decision corner isolated by none_decision_run_witness and cached_run_transparent_partial. Tie: programs with cacheable subsets x {unbounded, LRU 1-4, disk} x run sequences across both runners vs uncached "
            "runs; recorded get/set logs replayed through the LRU model; disk scenarios with a pickle.loads spy vs the disk model.",
            BASE_NOTE + "SHA-256 collision freedom, HMAC unforgeability, pickle and diskcache are assumptions; the whole-run theorems cover function / if-else / route nodes (a cacheable "
            "interrupt reads the run state and is covered by the correspondence only) and the sync runner. Known finding C09-F1 (pickle memo makes keys identity-sensitive); "
            "Known finding C09-F2 (the in-memory backend stores by reference). Ten defects repaired (key over renamed names, gate fallback, name tables / nested code objects / "
            "captured values / concatenated reprs in the definition hash (its input is modelled: hashInput_eq_iff), non-ASCII signature, rows in the store's own pickle mode unpickled before the HMAC check, emit sentinel identity, cached "
            "interrupts, shared outputs). Injectivity of the definition hash on definitions is a hypothesis of the theorems.", "DESIGN.md §7 C09"),
    "C12": ("proof", "Lean 4 proof: runs generate a span-tree grammar; grammar implies flat well-nestedness; per-span orderings survive interleaving + correspondence with a span-tree oracle",
            "Kernel-checked for every program, runner, completion order and nesting depth: the event log of a terminated run is a trace of the span-tree grammar (RunStart first, "
            "RunEnd last with the observed status, every NodeStart closed once, children inside parents, nested runs parented to the launching node, route decisions inside "
            "their node), shutdown exactly once for top-level calls, none for nested ones, paused runs have no RunEnd; the grammar implies the flat properties and they are "
            "preserved by interleaving sibling blocks. Tie: all generators under run/map, both runners, async under random completion orders, recording processor + oracle. Rejected map calls (limit below 1, absent map_over name, unknown "
            "selected output, missing required input) are modelled (mapChecked, map_rejects_*, map_accepted_is_map) and compared through the driver op mapc.",
            BASE_NOTE + "Rejected RUN calls and invalid on_missing strings are judged by the oracle alone (no event, no shutdown, no node call). Strict grammar assumes interrupt-free programs; known findings C12-F1 (empty map silent) and C12-F2 (async failure beside a pausing sibling leaves open spans).", "DESIGN.md §7 C12"),
    "C13": ("proof", "Lean 4 proof: absorption lemma for emit; non-interference of processor outcomes + correspondence per failing event index",
            "Kernel-checked on the dispatcher model: emit/shutdown call every processor exactly once in order whatever Exceptions they raise; every processor receives the "
            "complete stream; a run's result does not depend on the processors; BaseExceptions propagate (outside the claim). Tie: for each generated execution with m events, "
            "re-runs with a processor failing at each index, always, and at shutdown (sync and async processors, both runners) vs the processor-free run; healthy recorder "
            "sees the full stream; the real EventDispatcher driven directly vs the model.",
            BASE_NOTE + "The tie between the dispatcher model and the ~dozen real emission sites is the per-index correspondence, not a theorem; events are values in the model, so "
            "'an event never aliases run state' is carried by the tie (failing processors scribble over every container they receive; one defect repaired: the decision list).", "DESIGN.md §7 C13"),
    "C14": ("proof", "Lean 4 proof: isolation of the interrupt step, pause state = pre-step state (+ completed step siblings for a nested pause), seeded-run convergence (resume = auto-answer) + correspondence over pause/resume histories",
            "Kernel-checked: a paused run returns PAUSED with the interrupt's identity, first input value and output name and the values computed before the pausing step; an "
            "interrupt runs alone in its step; executed nodes had all their inputs, so nothing needing the interrupt's output ran; the resume path skips the handler; for acyclic "
            "programs re-running with the response supplied equals the run whose handler answers directly (any completion orders); nested pauses are path-qualified; one pause "
            "at a time. Tie: DAGs with 1-3 interrupts, every pause/resume history vs the auto-answer run, nested pause identity, on the controllable loop.",
            BASE_NOTE + "Known finding C14-F1: nested resume keys are produced but never consumed. One defect repaired (a nested pause dropped the outputs of outer nodes that ran in "
            "the same step; StepOut.pause now carries the partial state).", "DESIGN.md §7 C14"),
    "C15": ("proof", "Lean 4 proof: transition-system invariant (holding + free = k), progress and measure + correspondence with adversarial schedules",
            "Kernel-checked for every k >= 1 and every nest/map shape: at most k leaves hold a permit, every non-final reachable state has an enabled transition, every schedule "
            "has length 2 x leaves and ends with all done, final state independent of k; the hold-while-awaiting variant deadlocks (negative witness); worker pool bound. Tie: "
            "generated nest/map shapes x k in 1..4 x fifo/lifo/random release policies on the controllable loop: in-flight counter <= k, termination, same result as the "
            "unlimited run; the observed start/finish trace is replayed through the Lean model.",
            BASE_NOTE + "asyncio.Semaphore fairness assumed; interrupt handlers take a permit too since the repair 583d200 (former known finding C15-F1, now the fixed record C15-X1), "
            "gate routing functions since 03ac5ec (C15-X2); generator functions (async and plain) and gates are among the generated bodies; one long-lived runner object serves "
            "all cases of a check process, each case in its own event loop.", "DESIGN.md §7 C15"),
    "C10": ("proof", "Lean 4 proof: list laws for zip/product, alignment of collected lists, sort-of-permutation + correspondence under random completion orders",
            "Kernel-checked: zip is position-wise with equal lengths enforced, product is row-major with length = product of lengths, every output list of a mapping node has "
            "one entry per combination (None for failed/missing), first failing item's error raised in input order, order restoration from completion order, item i of map = "
            "single run on combination i; every max_concurrency >= 1 gives the unlimited map (map_limit_irrelevant), a limit below 1 is refused before anything runs (map_no_slot_rejected). Tie: runner.map and mapping nodes on both runners, async on the controllable loop with max_concurrency {None,1,2,3}, vs single runs.",
            BASE_NOTE + "Known finding C10-F1: async map(continue) turns a validation error into FAILED results where sync raises.", "DESIGN.md §7 C10"),
    "C11": ("proof", "Lean 4 proof: error provenance by induction on nesting depth; partial state = successful prefix + correspondence with failure injection",
            "Kernel-checked: a step never re-wraps a node error and reports the first failing node in ready order; nested-graph nodes and map propagate the same error; a user "
            "error surfacing from any depth, runner, map mode was raised by some node function (run_error_provenance); FAILED results carry exactly filterOutputs of the "
            "partial state, which keeps all earlier values and excludes the failing node's outputs. Tie: every generator with failing nodes at depth 0-2, both modes/runners; "
            "object identity of the surfaced exception is checked on the real code.",
            BASE_NOTE + "Known finding C11-F1: interrupt handler errors are wrapped in RuntimeError by design.", "DESIGN.md §7 C11"),
    "C16": ("proof", "Lean 4 proof: membership invariants of ready set and filterOutputs + correspondence over entry points x selections x on_missing",
            "Kernel-checked: with an active set only its nodes are ever ready; result keys are declared outputs within the effective selection, never the sentinel, each the "
            "state's value; select precedence; on_missing ignore/warn/error table. Tie: generated graphs x entry-point sets x graph/run-time/nested selections x on_missing x "
            "completed/failed/paused results on both runners, inputs derived from the reported spec.",
            BASE_NOTE + "Entry-point downstream sets are over-approximated by the oracle (all producers), exact in the model.", "DESIGN.md §7 C16"),
    "C17": ("proof", "Lean 4 proof: freshness invariant on wait_for versions + correspondence on the controllable event loop",
            "Kernel-checked: a waiter is ready only if its signal exists and no co-ready node produces it, and on re-execution only if the signal's version advanced; an emit "
            "is fresh on every production; liveness: all conditions true implies membership in the ready set; negative witness for the unrepaired update_value. Tie: DAGs "
            "and signal loops with function/gate/interrupt producers and several waiters on both runners under random completion orders, event-order oracle.",
            BASE_NOTE, "DESIGN.md §7 C17"),
    "C19": ("proof", "Lean 4 proof: executable type judgement <-> inductive rule system (nested inductive, functional induction) + correspondence on the type universe and on injected structural flaws",
            "Kernel-checked: the executable compat (mirroring is_type_compatible case by case) holds iff the inductively defined rule system does, for type expressions of any "
            "depth; reflexivity, Any is top, union-left = all members, union-right = some member, generic origin/arity/argument rule, Annotated transparency conditions, "
            "concrete corollaries and quirk witnesses. Tie: blocks of ordered pairs of the closed type universe (3.8M pairs were compared exhaustively to depth 1 when the model "
            "was built; every run re-checks depth 0 exhaustively and samples deeper) plus algebraic laws on the real function; valid generated graphs x one injected "
            "structural flaw per class at a random position (also inside nested graphs) must be rejected with GraphConfigError while the original is accepted.",
            BASE_NOTE + "TypeVar, forward references, Literal, Callable are outside the universe. The structural validator's Lean model is added when ready (then claimed in the same check).", "DESIGN.md §7 C19"),
    "C20": ("translation_validation", "Lean 4: proved validator (checkFaithful <-> Faithful) run on every real diagram; proofs for flattening, state enumeration, representatives",
            "Every diagram the real code produces for a generated graph (interactive nodesByState/edgesByState for ALL valid expansion states x both output modes, and Mermaid "
            "parsed back at every depth x both modes) is decided by the executable checker checkFaithful, which is proved equivalent to the declarative Faithful specification "
            "(declared endpoints, each visible node once, every producer->consumer dependency drawn between visible representatives, no edge without a dependency); flatten lists "
            "every nested node once under its parent with distinct ids; validStates enumerates exactly the parent-closed assignments; rep is non-empty and visible.",
            BASE_NOTE + "No theorem says the routing code is faithful for all graphs (it is heuristic): the decision is per diagram. Checker leniency: any visible node inside a container "
            "stands for a renamed port / gate target; edges out of INPUT nodes are judged by a direct rule over the top-level nodes (each taker reached, no edge to a non-taker), edges "
            "into END for declared endpoints only; hidden nodes under renamed container outputs are kept out of the generator (the checker resolves producers by name). Known finding "
            "C20-F1 (second mutex producer).", "DESIGN.md §7 C20"),
}

NOT_YET = "not yet claimed: check under construction (see DESIGN.md section 7)"


def main() -> None:
    checks = []
    for pid, (cat, tech, text, note, ref) in CLAIMED.items():
        checks.append({
            "property_id": pid,
            "quick_cmd": f"./check {pid} quick",
            "thorough_cmd": f"./check {pid} thorough",
            "evidence_file": f"evidence/{pid}.json",
            "replay_cmd_template": f"./check {pid} --replay {{path}}",
            "engine": "lean-model+correspondence",
            "level_claimed": {"category": cat, "text": text, "design_ref": ref},
            "level_note": note,
            "technique": tech,
        })
    na = [{"property_id": p["id"], "reason": NOT_YET} for p in PROPS if p["id"] not in CLAIMED]
    m = {
        "version": 1,
        "setup_cmd": "./setup.sh",
        "hooks": {
            "guard": "HYPERGRAPH_VERIF",
            "enable": "none needed: all instrumentation lives in the harness (public API only); HG_REPO=<dir> points the harness at another checkout",
            "baseline_off_cmd": "cd /repo && /venv/bin/python -m pytest -ra -q -p no:cacheprovider --timeout=900 --continue-on-collection-errors",
            "source_commits": [],
            "add_only": True,
        },
        "engines": [{
            "name": "lean-model+correspondence", "path": "lean/ + harness/",
            "serves_properties": sorted(CLAIMED),
            "kind_free_text": "Lean 4 executable model with kernel-checked theorems (lean/HG); compiled JSON line-protocol driver (lean/Driver); "
                              "Python differential correspondence harness driving the real code through its public API (harness/)",
        }],
        "checks": checks,
        "notes": ""
                 "63 genuine defects were repaired by fix: commits in /repo and 17 are recorded as known findings (see known_findings.json, DESIGN.md §12.3).",
        "not_applicable": na,
    }
    (ROOT / "MANIFEST.json").write_text(json.dumps(m, indent=1) + "\n")


if __name__ == "__main__":
    main()
