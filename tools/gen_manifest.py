#!/usr/bin/env python3
"""Regenerate MANIFEST.json from the table below (keeps it schema-valid at all times)."""
import json
from pathlib import Path

ROOT = Path(__file__).resolve().parent.parent
PROPS = [json.loads(l) for l in (ROOT / "properties.jsonl").read_text().splitlines() if l.strip()]

BASE_NOTE = ("Trusted: Lean 4.33 kernel; axioms propext/Classical.choice/Quot.sound only (audited per run); the hand-written model's "
             "faithfulness is checked, not assumed, by the differential correspondence on generated cases; Python harness and driver glue; "
             "CPython/networkx/asyncio as documented. ")

# id -> (category, technique, level text, level note, design ref)
CLAIMED = {
    "C01": ("proof", "Lean 4 proof: level-invariant induction over supersteps (run = dependency-order fixed point) + differential correspondence",
            "Kernel-checked: for every acyclic, gate-free, function-node graph with unique producers (multi-output and emit outputs included), every total sem and "
            "every input, the runner loop ends quiescent within height+1 steps in the unique fixed point of dependency-order evaluation; every satisfiable node is "
            "called exactly once with its final arguments, unsatisfiable nodes never run and produce nothing (dag_run, dag_exactly_once, dag_run_result, "
            "resolve_precedence). Tie: random DAG programs (nesting, renames, bindings, defaults, emit/wait_for) run on both real runners, compared with the model and "
            "with an independent dependency-order evaluator.",
            BASE_NOTE + "Theorem hypotheses: no default/bound/run-time value on an edge-fed parameter (the count claim), no wait_for, function nodes; nested graphs, "
            "wait_for and fed defaults are covered by the correspondence and the oracle. Known finding C01-F1 (default-fed waiter not re-run).", "DESIGN.md §7 C01"),
    "C02": ("proof", "Lean 4 proof: snapshot reads + commutation of disjoint updates; schedule as permutation; run-level induction + correspondence on a controllable event loop",
            "Kernel-checked: a node's computation never depends on step-siblings; stepAsync is independent of the completion order (state up to dict order, same error, "
            "same pause); stepSync = stepAsync when no node fails; first error identical; whole programs (nested, mapped) give the same status/error/values under sync "
            "and async for every schedule (run_sync_eq_async_prog, map_sync_eq_async_prog); ready set invariant under node-list permutation. Tie: every case runs sync, "
            "async under fifo/lifo/random completion orders x max_concurrency {None,1,2,3} x permuted node lists on the real runners.",
            BASE_NOTE + "Real asyncio scheduling is replaced by a controllable loop: suspension only inside node bodies. Failing continue-mode values: async returns a "
            "superset of sync's partial values (proved; the property only requires that).", "DESIGN.md §7 C02"),
    "C03": ("proof", "Lean 4 proof: safety invariant of the ready set (activation, blocked targets, END terminal) lifted to step logs + correspondence with trace oracle",
            "Kernel-checked over arbitrary graphs and states: a gated node is ready only if a controlling gate's current decision names it or a never-executed default-open "
            "gate is undecided; a gate and its target never start in the same step; END is never cleared; closed gates need an explicit current decision; every NodeStart "
            "of a step names a ready node (any nesting depth). Tie: gated DAGs and loops on both runners, event-trace justification oracle and exact selected-branches oracle.",
            BASE_NOTE + "ready_is_activated needs distinct decision keys (an invariant of reachable states, proved preserved).", "DESIGN.md §7 C03"),
    "C04": ("proof", "Lean 4 proof: fuel bound (general) + induction on iteration count for loop families + correspondence against a sequential while-loop",
            "Kernel-checked: runLoop never exceeds max_iterations and ends quiescent, failed, paused or with InfiniteLoopError carrying the state so far (loop_outcomes, "
            "steps_le, limit_reports_infinite_loop); for loop families with body length 1 (if/else, route, exit node, signal-synchronised) and arbitrary body function, "
            "condition, start value and n: exactly 2n+1 steps, n body calls, n+1 gate calls, final value F^n(x0), and the exact limit state otherwise. Tie: families with body "
            "length 1-3, accumulators, both default_open settings, max_iterations around the exact bound, both runners, against a Python while-loop.",
            BASE_NOTE + "Partial: families, not arbitrary cyclic programs; Progress hypothesis (known finding C04-F1: stall when an intermediate value repeats).", "DESIGN.md §7 C04"),
    "C06": ("proof", "Lean 4 proof: invariant over rename histories (ground-truth tracking) + differential correspondence",
            "Kernel-checked theorems for ALL valid rename histories (any number of batches, swaps, chains, re-used names): reverse/forward maps, "
            "nested-graph resolvers, argument delivery and map_over translation are correct; negative witnesses for the two repaired defects. "
            "Tie to code: random histories applied through the public API on function, gate, interrupt and nested-graph nodes, compared with the model "
            "and judged by a ground-truth oracle.",
            BASE_NOTE + "Whole-interpreter alpha-equivariance is exercised by correspondence only.", "DESIGN.md §7 C06"),
    "C10": ("proof", "Lean 4 proof: list laws for zip/product, alignment of collected lists, sort-of-permutation + correspondence under random completion orders",
            "Kernel-checked: zip is position-wise with equal lengths enforced, product is row-major with length = product of lengths, every output list of a mapping node has "
            "one entry per combination (None for failed/missing), first failing item's error raised in input order, order restoration from completion order, item i of map = "
            "single run on combination i. Tie: runner.map and mapping nodes on both runners, async on the controllable loop with max_concurrency {None,1,2,3}, vs single runs.",
            BASE_NOTE + "Known finding C10-F1: async map(continue) turns a validation error into FAILED results where sync raises.", "DESIGN.md §7 C10"),
    "C11": ("proof", "Lean 4 proof: error provenance by induction on nesting depth; partial state = successful prefix + correspondence with failure injection",
            "Kernel-checked: a step never re-wraps a node error and reports the first failing node in ready order; nested-graph nodes and map propagate the same error; a user "
            "error surfacing from any depth, runner, map mode was raised by some node function (run_error_provenance); FAILED results carry exactly filterOutputs of the "
            "partial state, which keeps all earlier values and excludes the failing node's outputs. Tie: every generator with failing nodes at depth 0-2, both modes/runners; "
            "object identity of the surfaced exception is checked on the real code.",
            BASE_NOTE + "Known finding C11-F1: interrupt handler errors are wrapped in RuntimeError by design.", "DESIGN.md §7 C11"),
    "C16": ("proof", "Lean 4 proof: membership invariants of ready set and filterOutputs + correspondence over entry points x selections x on_missing",
            "Kernel-checked: with an active set only its nodes are ever ready; result keys are declared outputs within the effective selection, never the sentinel, each the "
            "state's value; select precedence; on_missing ignore/warn/error table. Tie: generated graphs x entry-point sets x graph/run-time/nested selections x on_missing x "
            "completed/failed/paused results on both runners, inputs derived from the reported spec.",
            BASE_NOTE + "Entry-point downstream sets are over-approximated by the oracle (all producers), exact in the model.", "DESIGN.md §7 C16"),
    "C17": ("proof", "Lean 4 proof: freshness invariant on wait_for versions + correspondence on the controllable event loop",
            "Kernel-checked: a waiter is ready only if its signal exists and no co-ready node produces it, and on re-execution only if the signal's version advanced; an emit "
            "is fresh on every production; liveness: all conditions true implies membership in the ready set; negative witness for the unrepaired update_value. Tie: DAGs "
            "and signal loops with function/gate/interrupt producers and several waiters on both runners under random completion orders, event-order oracle.",
            BASE_NOTE, "DESIGN.md §7 C17"),
}

NOT_YET = "not yet claimed: check under construction (see DESIGN.md section 7)"


def main() -> None:
    checks = []
    for pid, (cat, tech, text, note, ref) in CLAIMED.items():
        checks.append({
            "property_id": pid,
            "quick_cmd": f"./check {pid} quick",
            "thorough_cmd": f"./check {pid} thorough",
            "evidence_file": f"evidence/{pid}.json",
            "replay_cmd_template": f"./check {pid} --replay {{path}}",
            "engine": "lean-model+correspondence",
            "level_claimed": {"category": cat, "text": text, "design_ref": ref},
            "level_note": note,
            "technique": tech,
        })
    na = [{"property_id": p["id"], "reason": NOT_YET} for p in PROPS if p["id"] not in CLAIMED]
    m = {
        "version": 1,
        "setup_cmd": "./setup.sh",
        "hooks": {
            "guard": "HYPERGRAPH_VERIF",
            "enable": "none needed: all instrumentation lives in the harness (public API only); HG_REPO=<dir> points the harness at another checkout",
            "baseline_off_cmd": "cd /repo && /venv/bin/python -m pytest -ra -q -p no:cacheprovider --timeout=900 --continue-on-collection-errors",
            "source_commits": [],
            "add_only": True,
        },
        "engines": [{
            "name": "lean-model+correspondence", "path": "lean/ + harness/",
            "serves_properties": sorted(CLAIMED),
            "kind_free_text": "Lean 4 executable model with kernel-checked theorems (lean/HG); compiled JSON line-protocol driver (lean/Driver); "
                              "Python differential correspondence harness driving the real code through its public API (harness/)",
        }],
        "checks": checks,
        "notes": "Properties move from not_applicable into checks as their model, theorems and correspondence are built. "
                 "9 genuine defects were repaired by fix: commits in /repo (see known_findings.json, DESIGN.md §9).",
        "not_applicable": na,
    }
    (ROOT / "MANIFEST.json").write_text(json.dumps(m, indent=1) + "\n")


if __name__ == "__main__":
    main()
